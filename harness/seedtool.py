#!/venv/bin/python
"""Seeded-change tooling.

  seedtool.py confirm [ids...]   for each seeded/<id>: in a scratch worktree of /repo HEAD apply
                                 patch.diff, run the pinned suite (must pass), run demo.py with the
                                 change (must fail) and without it (must pass); writes meta.json
  seedtool.py run <id> [props]   apply seeded/<id>/patch.diff to /repo, run ./check for the
                                 property (or the given ones), undo the patch; prints the verdict
"""
import json
import os
import re
import shutil
import subprocess
import sys
import tempfile

VERIF = os.path.dirname(os.path.dirname(os.path.abspath(__file__)))
SEEDED = os.path.join(VERIF, 'seeded')
PY = '/venv/bin/python'


def sh(cmd, cwd=None, env=None, timeout=1800):
    p = subprocess.run(cmd, cwd=cwd, env=env, stdout=subprocess.PIPE, stderr=subprocess.STDOUT, text=True,
                       timeout=timeout, errors='replace')
    return p.returncode, p.stdout


def env_for(path):
    e = dict(os.environ)
    e['PYTHONPATH'] = path
    e['PYTHONHASHSEED'] = '0'
    e['PYTHONDONTWRITEBYTECODE'] = '1'
    return e


def confirm(sid):
    d = os.path.join(SEEDED, sid)
    wt = tempfile.mkdtemp(prefix='seedwt_', dir='/tmp')
    os.rmdir(wt)
    meta = {'id': sid, 'property': sid[:3]}
    try:
        rc, out = sh(['git', '-C', '/repo', 'worktree', 'add', '-q', '--detach', wt, 'HEAD'])
        assert rc == 0, out
        e = env_for(wt)
        rc0, out0 = sh([PY, os.path.join(d, 'demo.py')], cwd=wt, env=e, timeout=300)
        meta['demo_without_change_exit'] = rc0
        rc, out = sh(['git', 'apply', os.path.join(d, 'patch.diff')], cwd=wt)
        meta['applies'] = (rc == 0)
        if rc != 0:
            meta['apply_error'] = out[-500:]
        else:
            rc, out = sh([PY, '-m', 'pytest', '-q', '-p', 'no:cacheprovider', '--timeout=900'], cwd=wt, env=e)
            m = re.search(r'(\d+) passed', out)
            meta['suite_passed'] = int(m.group(1)) if m else 0
            meta['suite_rc'] = rc
            rc1, out1 = sh([PY, os.path.join(d, 'demo.py')], cwd=wt, env=e, timeout=300)
            meta['demo_with_change_exit'] = rc1
            meta['demo_with_change_tail'] = out1[-400:]
        meta['confirmed'] = bool(meta.get('applies') and meta.get('suite_rc') == 0 and meta.get('suite_passed') == 180
                                 and meta.get('demo_with_change_exit', 0) != 0 and rc0 == 0)
        meta['base_commit'] = sh(['git', '-C', '/repo', 'rev-parse', '--short', 'HEAD'])[1].strip()
    finally:
        sh(['git', '-C', '/repo', 'worktree', 'remove', '--force', wt])
        shutil.rmtree(wt, ignore_errors=True)
        sh(['git', '-C', '/repo', 'worktree', 'prune'])
    notes = ''
    try:
        notes = open(os.path.join(d, 'notes.md')).read()
    except OSError:
        pass
    meta['needs_to_manifest'] = notes[:1500]
    meta['what_was_run'] = ('git worktree add <tmp> HEAD; demo.py (exit 0 expected); git apply patch.diff; '
                            'pytest -q (180 passed expected); demo.py (non-zero expected); worktree removed')
    old = {}
    try:
        old = json.load(open(os.path.join(d, 'meta.json')))
    except (OSError, ValueError):
        pass
    old.update(meta)
    json.dump(old, open(os.path.join(d, 'meta.json'), 'w'), indent=1)
    return meta


def run(sid, props):
    d = os.path.join(SEEDED, sid)
    rc, out = sh(['git', '-C', '/repo', 'status', '--porcelain', '--untracked-files=no'])
    assert out.strip() == '', '/repo has local changes: ' + out
    rc, out = sh(['git', '-C', '/repo', 'apply', os.path.join(d, 'patch.diff')])
    assert rc == 0, out
    res = {}
    try:
        for p in props:
            rc, out = sh([os.path.join(VERIF, 'check'), p, '--tier', 'quick'], cwd=VERIF, timeout=3600)
            vio = [l for l in out.split('\n') if l.startswith('VIOLATION')]
            res[p] = {'exit': rc, 'violations': vio[:5], 'detail': [l for l in out.split('\n') if l.startswith('  ')][:5]}
    finally:
        sh(['git', '-C', '/repo', 'checkout', '--', '.'])
    return res


if __name__ == '__main__':
    if sys.argv[1] == 'confirm':
        ids = sys.argv[2:] or sorted(os.listdir(SEEDED))
        for sid in ids:
            if not os.path.isdir(os.path.join(SEEDED, sid)):
                continue
            m = confirm(sid)
            print(sid, 'CONFIRMED' if m['confirmed'] else 'NOT-CONFIRMED',
                  {k: m.get(k) for k in ('applies', 'suite_passed', 'demo_without_change_exit', 'demo_with_change_exit')})
    elif sys.argv[1] == 'run':
        sid = sys.argv[2]
        props = sys.argv[3:] or [sid[:3]]
        r = run(sid, props)
        for p, v in r.items():
            print(sid, p, 'DETECTED' if v['exit'] == 1 and v['violations'] else 'missed', v['violations'][:2], v['detail'][:2])
        d = os.path.join(SEEDED, sid, 'meta.json')
        try:
            meta = json.load(open(d))
        except (OSError, ValueError):
            meta = {}
        meta.setdefault('detection', {}).update({p: ('detected' if v['exit'] == 1 and v['violations'] else 'missed') for p, v in r.items()})
        json.dump(meta, open(d, 'w'), indent=1)
