"""Regenerate coq/Gen/Tables.v from the live objects of /repo's working tree.

Fail-closed: any regular-expression construct or table shape the translator
does not know makes it raise TranslationError, which the check driver reports
as a broken obligation (the model can then no longer be tied to the code).

What is translated
  * loader_tbl : the per-instance yaml_implicit_resolvers of a Loader created by
                 yatiml.load_function() (after __patch_floats/__patch_bools)
  * std_tbl    : yaml.SafeLoader.yaml_implicit_resolvers (PyYAML's own table)
  * dumper_tbl : the table consulted by yatiml.Dumper when it decides whether a
                 scalar is implicit (class attribute inherited from SafeDumper)
  * code tables: scalar_type_to_tag, origin sets of is_generic_sequence/mapping
                 (read through the functions), Node.get_value bool spellings

Python's compiled patterns are parsed with CPython's own re._parser so that
re.X whitespace/comments are already gone.  `regexp.match(value)` (prefix
match) is modelled in Coq as  matches (r . any*) (value ++ [EOS])  and `$`
becomes ("\\n")? EOS; `^` is only accepted in first position.
"""
import re
import sys
import re._parser as sp
import re._constants as sc

MAXUNI = 0x10FFFF


class TranslationError(Exception):
    pass


def _cat(parts):
    if not parts:
        return 'Eps'
    r = parts[-1]
    for p in reversed(parts[:-1]):
        r = f'(mkCat {p} {r})'
    return r


def _complement(rs):
    rs = sorted(rs)
    out, cur = [], 0
    for l, h in rs:
        if l > cur:
            out.append((cur, l - 1))
        cur = max(cur, h + 1)
    if cur <= MAXUNI:
        out.append((cur, MAXUNI))
    return out


def _cls(items, flags):
    rs, neg = [], False
    for op, av in items:
        if op is sc.NEGATE:
            neg = True
        elif op is sc.LITERAL:
            rs.append((av, av))
        elif op is sc.RANGE:
            rs.append(tuple(av))
        else:
            raise TranslationError(f'unsupported class item {op}')
    if flags & re.IGNORECASE:
        raise TranslationError('IGNORECASE not supported')
    if neg:
        rs = _complement(rs)
    return 'Cls [' + '; '.join(f'({l},{h})' for l, h in rs) + ']'


def _seq(items, flags, top, allow_end):
    parts = []
    n = len(items)
    for i, (op, av) in enumerate(items):
        last = (i == n - 1)
        if op is sc.AT:
            if av is sc.AT_BEGINNING:
                if not (top and i == 0):
                    raise TranslationError('^ not in first position')
                parts.append('Eps')
            elif av is sc.AT_END:
                if not (allow_end and last):
                    raise TranslationError('$ not in tail position')
                parts.append('(mkCat (opt (chr 10)) (chr EOS))')
            elif av is sc.AT_END_STRING:
                if not (allow_end and last):
                    raise TranslationError('\\Z not in tail position')
                parts.append('(chr EOS)')
            else:
                raise TranslationError(f'unsupported AT {av}')
        else:
            parts.append(_one(op, av, flags, allow_end and last))
    return _cat(parts)


def _one(op, av, flags, allow_end):
    if op is sc.LITERAL:
        if flags & re.IGNORECASE:
            raise TranslationError('IGNORECASE not supported')
        return f'(chr {av})'
    if op is sc.NOT_LITERAL:
        return '(' + _cls([(sc.NEGATE, None), (sc.LITERAL, av)], flags) + ')'
    if op is sc.ANY:
        if flags & re.DOTALL:
            return '(Cls [(0,1114111)])'
        return '(Cls [(0,9); (11,1114111)])'
    if op is sc.IN:
        return '(' + _cls(av, flags) + ')'
    if op is sc.BRANCH:
        alts = [_seq(a, flags, False, allow_end) for a in av[1]]
        r = alts[-1]
        for a in reversed(alts[:-1]):
            r = f'(mkAlt {a} {r})'
        return r
    if op is sc.SUBPATTERN:
        group, add_flags, del_flags, body = av
        if add_flags or del_flags:
            raise TranslationError('inline flags not supported')
        return _seq(body, flags, False, allow_end)
    if op is sc.MAX_REPEAT or op is sc.MIN_REPEAT:
        # greedy vs lazy is irrelevant for "does some prefix match"
        lo, hi, body = av
        b = _seq(body, flags, False, False)
        if hi is sc.MAXREPEAT:
            if lo == 0:
                return f'(mkStar {b})'
            return _cat([b] * (lo - 1) + [f'(plus {b})'])
        if hi > 64:
            raise TranslationError('repeat bound too large')
        return _cat([b] * lo + [f'(opt {b})'] * (hi - lo)) if hi > 0 else 'Eps'
    raise TranslationError(f'unsupported regex construct {op}')


def translate_pattern(rx):
    """Coq `re` term (as text) for a compiled Python pattern, for `.match`."""
    flags = rx.flags
    if flags & (re.MULTILINE | re.LOCALE):
        raise TranslationError('MULTILINE/LOCALE not supported')
    parsed = sp.parse(rx.pattern, rx.flags)
    return _seq(list(parsed), flags, True, True)


def ustr(s):
    if all(32 <= ord(c) < 127 and c not in '"' for c in s):
        return f'(u "{s}")'
    return '[' + '; '.join(str(ord(c)) for c in s) + ']'


def table_text(tbl, name, pats, lines):
    def pat(r):
        key = (r.pattern, r.flags)
        if key not in pats:
            pats[key] = f're_{len(pats)}'
            lines.append(f'Definition {pats[key]} : re := {translate_pattern(r)}.')
        return pats[key]

    buckets, wild = [], []
    for k, lst in tbl.items():
        ents = '[' + '; '.join(f'({ustr(t)}, {pat(r)})' for t, r in lst) + ']'
        if k is None:
            wild.append(ents)
        elif k == '':
            buckets.append(f'(None, {ents})')
        elif isinstance(k, str) and len(k) == 1:
            buckets.append(f'(Some {ord(k)}, {ents})')
        else:
            raise TranslationError(f'unsupported resolver key {k!r}')
    if len(wild) > 1:
        raise TranslationError('several wildcard buckets')
    w = wild[0] if wild else '[]'
    lines.append(f'Definition {name} : table := {{| buckets := [\n  '
                 + ';\n  '.join(buckets) + f'];\n  wild := {w} |}}.')


def live_dumper():
    """A live Dumper instance as dumps_function creates it: its resolver table decides which str scalars get quoted."""
    import yatiml
    return yatiml.dumps_function().dumper(None, None, False, None, None, None, None, None, None, None, None, None, None, False)


def live_tables():
    import yaml
    import yatiml
    ld = yatiml.load_function().loader('')
    return {
        'loader_tbl': ld.yaml_implicit_resolvers,
        'std_tbl': yaml.SafeLoader.yaml_implicit_resolvers,
        'dumper_tbl': live_dumper().yaml_implicit_resolvers,
    }


def all_patterns():
    """(name, compiled pattern) for every distinct pattern, in emission order."""
    pats, out = {}, []
    for name, tbl in live_tables().items():
        for k, lst in tbl.items():
            for t, r in lst:
                key = (r.pattern, r.flags)
                if key not in pats:
                    pats[key] = f're_{len(pats)}'
                    out.append((pats[key], r))
    return out


def code_tables_text():
    """Small tables read from the live module objects."""
    import typing
    import collections.abc as abc
    from datetime import date
    import yatiml
    from yatiml import util
    lines = []
    names = {str: 'KStr', int: 'KInt', float: 'KFloat', bool: 'KBool',
             util.bool_union_fix: 'KBoolFix', None: 'KNone', type(None): 'KNoneType',
             date: 'KDate'}
    ents = []
    for k, v in util.scalar_type_to_tag.items():
        if k not in names:
            raise TranslationError(f'unknown scalar type {k!r} in scalar_type_to_tag')
        ents.append(f'({names[k]}, {ustr(v)})')
    lines.append('Inductive skind := KStr | KInt | KFloat | KBool | KBoolFix | KNone | KNoneType | KDate.')
    lines.append('Definition scalar_type_to_tag : list (skind * ustring) := [' + '; '.join(ents) + '].')
    seqs = {'list': typing.List[int], 'Sequence': typing.Sequence[int],
            'MutableSequence': typing.MutableSequence[int],
            'dict': typing.Dict[str, int], 'Mapping': typing.Mapping[str, int],
            'MutableMapping': typing.MutableMapping[str, int],
            'set': typing.Set[int], 'tuple': typing.Tuple[int], 'frozenset': typing.FrozenSet[int]}
    order = ['list', 'Sequence', 'MutableSequence', 'dict', 'Mapping', 'MutableMapping',
             'set', 'tuple', 'frozenset']
    sq = [str(order.index(n)) + '%nat' for n in order if util.is_generic_sequence(seqs[n])]
    mp = [str(order.index(n)) + '%nat' for n in order if util.is_generic_mapping(seqs[n])]
    lines.append('(* generic origins: 0 list 1 Sequence 2 MutableSequence 3 dict 4 Mapping 5 MutableMapping 6 set 7 tuple 8 frozenset *)')
    lines.append('Definition generic_sequence_origins : list nat := [' + '; '.join(sq) + '].')
    lines.append('Definition generic_mapping_origins : list nat := [' + '; '.join(mp) + '].')
    return lines


def generate():
    lines = ['(* GENERATED on every run by harness/translate_tables.py from /repo -- do not edit *)',
             'From Coq Require Import NArith List String. Import ListNotations.',
             'From Y Require Import Prelude Re Resolve.',
             'Local Open Scope N_scope. Local Open Scope string_scope.']
    pats = {}
    for name, tbl in live_tables().items():
        table_text(tbl, name, pats, lines)
    lines.append('Definition all_res : list re := [' + '; '.join(pats[k] for k in pats) + '].')
    lines.extend(code_tables_text())
    return '\n'.join(lines) + '\n'


if __name__ == '__main__':
    out = sys.argv[1]
    txt = generate()
    open(out, 'w').write(txt)
