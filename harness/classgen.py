"""Class models: from a first-order specification build (a) real Python classes
with real typing annotations and self-instrumenting __init__/hooks, and (b)
the Coq `cls_spec` terms of Model/Hooks.v.  Types are read back from the live
annotation objects so that typing's own normalisation is what the model sees."""
import collections.abc as abc
import datetime
import enum
import pathlib
import typing
from collections import OrderedDict, UserString

import encode
import nodeops
from common import coq_ustr

ORIGINS = ['list', 'Sequence', 'MutableSequence', 'dict', 'Mapping', 'MutableMapping', 'set', 'tuple', 'frozenset']


class _Dflt:
    def __repr__(self):
        return '_DFLT'


_DFLT = _Dflt()


# ---------------------------------------------------------------- types

def py_type(spec, ns):
    """typing object for a type spec."""
    import yatiml
    if isinstance(spec, str):
        return {'str': str, 'int': int, 'float': float, 'bool': bool, 'boolfix': yatiml.bool_union_fix,
                'none': type(None), 'date': datetime.date, 'path': pathlib.Path, 'any': typing.Any}[spec]
    k = spec[0]
    if k == 'list':
        g = [typing.List, typing.Sequence, typing.MutableSequence, None, None, None, typing.Set][spec[1]]
        return g[py_type(spec[2], ns)]
    if k == 'dict':
        g = {3: typing.Dict, 4: typing.Mapping, 5: typing.MutableMapping}[spec[1]]
        return g[py_type(spec[2], ns), py_type(spec[3], ns)]
    if k == 'union':
        return typing.Union[tuple(py_type(t, ns) for t in spec[1])]
    if k == 'optional':
        return typing.Optional[py_type(spec[1], ns)]
    if k == 'class':
        return ns[spec[1]]
    raise ValueError(spec)


def ty_term(t, classnames):
    """Coq `ty` term read back from a live type object."""
    import yatiml
    if t is str:
        return 'TStr'
    if t is int:
        return 'TInt'
    if t is float:
        return 'TFloat'
    if t is bool:
        return 'TBool'
    if t is yatiml.bool_union_fix:
        return 'TBoolFix'
    if t is None or t is type(None):
        return 'TNone'
    if t is datetime.date:
        return 'TDate'
    if t is pathlib.Path:
        return 'TPath'
    if t is typing.Any:
        return 'TAny'
    origin = getattr(t, '__origin__', None)
    if origin is typing.Union:
        return '(TUnion [' + '; '.join(ty_term(a, classnames) for a in t.__args__) + '])'
    omap = {list: 0, abc.Sequence: 1, abc.MutableSequence: 2, dict: 3, abc.Mapping: 4, abc.MutableMapping: 5,
            set: 6, abc.Set: 6, tuple: 7, frozenset: 8}
    if origin in omap:
        k = omap[origin]
        if k in (0, 1, 2, 6, 8):
            return f'(TList {k} {ty_term(t.__args__[0], classnames)})'
        if k in (3, 4, 5):
            return f'(TDict {k} {ty_term(t.__args__[0], classnames)} {ty_term(t.__args__[1], classnames)})'
    if isinstance(t, type):
        if t.__name__ in classnames:
            return f'(TClass {coq_ustr(t.__name__)})'
        return f'(TUnknown {coq_ustr(t.__name__)})'
    return f'(TUnknown {coq_ustr(str(t))})'


# ---------------------------------------------------------------- hook DSL -> Python source

def _raise_stmt(mode):
    """The ways user code refuses: an exception with a message, one without arguments, a failing assert, a KeyError."""
    return {'msg': 'raise ValueError("refused by user code")', 'bare': 'raise ValueError', 'assert': 'assert False',
            'key': 'raise KeyError(42)', 'custom': 'raise type("MyError", (Exception,), {})()',
            'rec': 'raise yatiml.RecognitionError("refused")'}[mode]


def _lit(v):
    if isinstance(v, float):
        if v != v:
            return "float('nan')"
        if v in (float('inf'), float('-inf')):
            return f"float('{v}')"
    return repr(v)


def _op_call(op, var='node'):
    k = op[0]
    if k == 'has':
        return f'{var}.has_attribute({op[1]!r})'
    if k == 'get':
        return f'{var}.get_attribute({op[1]!r})'
    if k == 'set':
        kind, x = op[2]
        if kind == 'sv':
            return f'{var}.set_attribute({op[1]!r}, {_lit(x)})'
        return f'{var}.set_attribute({op[1]!r}, _verif_node({encode.plain_view(x)!r}))'
    if k == 'remove':
        return f'{var}.remove_attribute({op[1]!r})'
    if k == 'rename':
        return f'{var}.rename_attribute({op[1]!r}, {op[2]!r})'
    if k == 'hastype':
        return f'{var}.has_attribute_type({op[1]!r}, _verif_typ({op[2]!r}))'
    if k == 'isscalar':
        return f'{var}.is_scalar()' if op[1] == 'any' else f'{var}.is_scalar(_verif_typ({op[1]!r}))'
    if k == 'ismapping':
        return f'{var}.is_mapping()'
    if k == 'issequence':
        return f'{var}.is_sequence()'
    if k == 'setvalue':
        return f'{var}.set_value({_lit(op[1])})'
    if k == 'makemapping':
        return f'{var}.make_mapping()'
    if k == 'u2d':
        return f'{var}.unders_to_dashes_in_keys()'
    if k == 'd2u':
        return f'{var}.dashes_to_unders_in_keys()'
    if k == 'rmdefaults_cls':
        return f'{var}.remove_attributes_with_default_values(cls)'
    if k == 'seq2map':
        return f'{var}.seq_attribute_to_map({op[1]!r}, {op[2]!r}, {op[3]!r}, {op[4]!r})'
    if k == 'map2seq':
        return f'{var}.map_attribute_to_seq({op[1]!r}, {op[2]!r}, {op[3]!r})'
    if k == 'idx2map':
        return f'{var}.index_attribute_to_map({op[1]!r}, {op[2]!r}, {op[3]!r})'
    if k == 'map2idx':
        return f'{var}.map_attribute_to_index({op[1]!r}, {op[2]!r}, {op[3]!r})'
    raise ValueError(op)


def sprog_source(prog, ind='        '):
    lines = []
    for p in prog:
        k = p[0]
        if k == 'op':
            lines.append(ind + _op_call(p[1]))
        elif k == 'if':
            lines.append(ind + f'if {_op_call(p[1])}:')
            lines += [ind + '    ' + _op_call(o) for o in p[2]] or [ind + '    pass']
            if p[3]:
                lines.append(ind + 'else:')
                lines += [ind + '    ' + _op_call(o) for o in p[3]]
        elif k == 'raise':
            lines.append(ind + "raise yatiml.SeasoningError('refused by savorize')")
        elif k == 's2m':
            lines.append(ind + 'if node.is_scalar(str):')
            lines.append(ind + '    _t = node.get_value()')
            lines.append(ind + '    node.make_mapping()')
            lines.append(ind + f'    node.set_attribute({p[1]!r}, _t)')
        elif k == 'm2s':
            lines.append(ind + f'if node.is_mapping() and node.has_attribute({p[1]!r}):')
            lines.append(ind + f'    _a = node.get_attribute({p[1]!r})')
            lines.append(ind + '    if _a.is_scalar(str):')
            lines.append(ind + '        node.set_value(_a.get_value())')
        else:
            raise ValueError(p)
    return lines or [ind + 'pass']


def _rmdefaults_term(spec):
    ps = '; '.join(f'({coq_ustr(p["name"])}, ' + ('None' if p['required'] else f'(Some {encode.value_term(p.get("default"))})') + ')'
                   for p in spec['params'])
    if spec.get('extra'):
        ps += ('; ' if ps else '') + f'({coq_ustr("_yatiml_extra")}, (Some VNone))'
    ov = '; '.join(f'({coq_ustr(n)}, {encode.value_term(d)})' for n, d in (spec.get('defaults_override') or {}).items())
    return f'(OpRemoveDefaults [{ps}] [{ov}])'


def sprog_term(prog, spec=None):
    out = []
    for p in prog:
        k = p[0]
        if k == 'op' and p[1][0] == 'rmdefaults_cls':
            out.append(f'(SOp {_rmdefaults_term(spec)})')
        elif k == 'op':
            out.append(f'(SOp {nodeops.op_term(p[1])})')
        elif k == 'if':
            out.append(f'(SIf {nodeops.op_term(p[1])} [' + '; '.join(nodeops.op_term(o) for o in p[2]) + '] ['
                       + '; '.join(nodeops.op_term(o) for o in p[3]) + '])')
        elif k == 'raise':
            out.append('SRaise')
        elif k == 's2m':
            out.append(f'(SScalarToMap {coq_ustr(p[1])})')
        elif k == 'm2s':
            out.append(f'(SMapToScalar {coq_ustr(p[1])})')
    return '[' + '; '.join(out) + ']'


def rprog_source(prog, ns_types, ind='        '):
    lines = []
    for r in prog:
        k = r[0]
        if k == 'scalar':
            args = ', '.join(f'_verif_typ({t!r})' for t in r[1])
            lines.append(ind + f'node.require_scalar({args})')
        elif k == 'mapping':
            lines.append(ind + 'node.require_mapping()')
        elif k == 'sequence':
            lines.append(ind + 'node.require_sequence()')
        elif k == 'attr':
            if r[2] is None:
                lines.append(ind + f'node.require_attribute({r[1]!r})')
            else:
                idx = len(ns_types)
                ns_types.append(r[2])
                lines.append(ind + f'node.require_attribute({r[1]!r}, _verif_types[{idx}])')
        elif k == 'attrvalue':
            lines.append(ind + f'node.require_attribute_value({r[1]!r}, {_lit(r[2])})')
        elif k == 'attrvaluenot':
            lines.append(ind + f'node.require_attribute_value_not({r[1]!r}, {_lit(r[2])})')
        else:
            raise ValueError(r)
    return lines or [ind + 'pass']


def rprog_term(prog, tyterm):
    out = []
    for r in prog:
        k = r[0]
        if k == 'scalar':
            out.append('(RqScalar [' + '; '.join(nodeops.typ_term(t) for t in r[1]) + '])')
        elif k == 'mapping':
            out.append('RqMapping')
        elif k == 'sequence':
            out.append('RqSequence')
        elif k == 'attr':
            out.append(f'(RqAttr {coq_ustr(r[1])} ' + ('None' if r[2] is None else f'(Some {tyterm(r[2])})') + ')')
        elif k == 'attrvalue':
            out.append(f'(RqAttrValue {coq_ustr(r[1])} {nodeops.sval_term(r[2])})')
        elif k == 'attrvaluenot':
            out.append(f'(RqAttrValueNot {coq_ustr(r[1])} {nodeops.sval_term(r[2])})')
    return '[' + '; '.join(out) + ']'


# ---------------------------------------------------------------- the class model

class Model:
    """specs: list of class specs (dicts) in definition order; registered: names passed to load_function."""

    def __init__(self, specs):
        self.specs = specs
        self.log = []
        self.ns = {}
        self._build()

    def _build(self):
        import yatiml
        ns = self.ns
        ns.update({'yatiml': yatiml, 'typing': typing, 'OrderedDict': OrderedDict, 'enum': enum,
                   'UserString': UserString, '_verif_log': self.log, '_DFLT': _DFLT, '_verif_types': [],
                   '_verif_typ': nodeops.typ_obj, '_verif_node': _node_from_view, 'abc': __import__('abc')})
        exec('class Mixin:\n    pass\n', ns)
        self.rtypes = []
        for s in self.specs:
            src = self._class_source(s)
            exec(src, ns)
            s['_source'] = src
        # annotations and types are resolved after all classes exist (forward references by name)
        for s in self.specs:
            cls = ns[s['name']]
            if s['kind'] == 'obj':
                ann = {}
                for p in s['params']:
                    if p.get('type') is not None:
                        ann[p['name']] = py_type(p['type'], ns)
                if s.get('extra'):
                    ann['_yatiml_extra'] = OrderedDict
                ann['return'] = None
                cls.__init__.__annotations__ = ann
                dflts = [(_DFLT if p.get('default', _DFLT) is _DFLT else p['default'])
                         for p in s['params'] if not p['required']]
                if s.get('extra'):
                    nreq = len([p for p in s['params'] if p['required']])
                    at = self._extra_at(s)
                    dflts.insert(at - nreq, None)
                cls.__init__.__defaults__ = tuple(dflts) or None
        ns['_verif_types'][:] = [py_type(t, ns) for t in self.rtypes]

    @staticmethod
    def _extra_at(s):
        """Number of parameters before `_yatiml_extra` in the signature (default: it is last)."""
        nreq = len([p for p in s['params'] if p['required']])
        at = s.get('extra_at')
        return len(s['params']) if at is None else max(nreq, min(len(s['params']), at))

    def _class_source(self, s):
        name = s['name']
        bases = list(s.get('bases', []))
        kind = s['kind']
        pybases = []
        for b in bases:
            pybases.append({'ABC': 'abc.ABC'}.get(b, b))
        if kind == 'enum':
            if s.get('enumvals') == 'int':
                pybases = pybases + ['enum.IntEnum']
            else:
                pybases = pybases + ['enum.Enum'] if 'enum.Enum' not in pybases else pybases
            if s.get('strmixin') or s.get('enumvals') == 'strempty':
                pybases = ['str'] + pybases       # the common `class Level(str, enum.Enum)` idiom
        if kind == 'str':
            base = s.get('strbase', 'yatiml.String')
            if not any(self._is_strlike(b) for b in bases):
                pybases.append(base)
        lines = [f'class {name}({", ".join(pybases)}):' if pybases else f'class {name}:']
        body = []
        if kind == 'enum':
            for mi, m in enumerate(s['members']):
                # member VALUES are irrelevant to YAML (members are written and read by name): falsy and non-string values too
                val = {'int': repr(mi), 'strempty': repr('' if mi == 0 else m), 'none-first': ('None' if mi == 0 else repr(m))}.get(s.get('enumvals'), repr(m))
                body.append(f'    {m} = {val}')
        elif kind == 'str':
            bad = s.get('str', ('ok',))
            body.append('    def __init__(self, s: str) -> None:')
            body.append(f'        _verif_log.append(("strctor", {name!r}, type(self).__name__, s))')
            if bad[0] == 'failon':
                body.append(f'        if s in {list(bad[1])!r}:')
                body.append('            ' + _raise_stmt(bad[2] if len(bad) > 2 else 'msg'))
            body.append('        self._verif_str = s')
            if s.get('strbase') == 'UserString':
                body.append('        UserString.__init__(self, s)')
            body.append('    def __str__(self) -> str:')
            body.append('        return self._verif_str')
            body.append('    def __hash__(self) -> int:')
            body.append('        return hash(self._verif_str)')
            body.append('    def __eq__(self, other) -> bool:')
            body.append('        return type(self) is type(other) and self._verif_str == other._verif_str')
        else:
            names = [p['name'] for p in s['params']]
            sig = ['self'] + [n if p['required'] else f'{n}=None' for n, p in zip(names, s['params'])]
            if s.get('extra'):
                # `_yatiml_extra` may stand anywhere among the optional parameters (1 + index: `self` comes first)
                sig.insert(1 + self._extra_at(s), '_yatiml_extra=None')
            body.append(f'    def __init__({", ".join(sig)}):')
            kw = ', '.join(f'({n!r}, {n})' for n in names + (['_yatiml_extra'] if s.get('extra') else []))
            body.append(f'        _kw = OrderedDict([(k, v) for k, v in [{kw}] if v is not _DFLT])')
            body.append(f'        _verif_log.append(("init", {name!r}, type(self).__name__, _kw))')
            init = s.get('init', ('ok',))
            if init[0] == 'fail':
                body.append('        ' + _raise_stmt(init[1] if len(init) > 1 else 'msg'))
            elif init[0] == 'failif':
                body.append(f'        if {init[1]!r} in _kw and type(_kw[{init[1]!r}]) is type({_lit(init[2])}) and _kw[{init[1]!r}] == {_lit(init[2])}:')
                body.append('            ' + _raise_stmt(init[3] if len(init) > 3 else 'msg'))
            body.append('        self._verif_kwargs = _kw')
            for n in names:
                body.append(f'        self.{n} = {n}')
            if s.get('extra'):
                body.append('        self._yatiml_extra = _yatiml_extra if _yatiml_extra is not None else OrderedDict()')
            if s.get('yattrs'):
                # a user-written _yatiml_attributes(): the dump is whatever it returns
                pairs = ', '.join(f'({n!r}, self.{n})' for n in names)
                rpairs = ', '.join(f'({n!r}, self.{n})' for n in reversed(names))
                if s['yattrs'] == 'stored':
                    body.append(f'        self.attrs_cache = OrderedDict([{pairs}])')
                body.append('    def _yatiml_attributes(self):')
                if s['yattrs'] == 'stored':
                    body.append('        return self.attrs_cache')
                elif s['yattrs'] == 'reversed':
                    body.append(f'        _d = OrderedDict([{rpairs}])')
                    if s.get('extra'):
                        body.append('        _d.update(self._yatiml_extra)')
                    body.append('        return _d')
                else:       # 'noextra': the constructor parameters only
                    body.append(f'        return OrderedDict([{pairs}])')
            if s.get('abstract') == 'method':
                body.append('    @abc.abstractmethod')
                body.append('    def _verif_abstract(self):')
                body.append('        pass')
            if s.get('defaults_override') is not None:
                body.append(f'    _yatiml_defaults = {s["defaults_override"]!r}')
        if s.get('recognize') is not None:
            body.append('    @classmethod')
            body.append('    def _yatiml_recognize(cls, node):')
            body.append(f'        _verif_log.append(("recognize", {name!r}, cls.__name__))')
            body += rprog_source(s['recognize'], self.rtypes)
        if s.get('savorize') is not None:
            body.append('    @classmethod')
            body.append('    def _yatiml_savorize(cls, node):')
            body.append(f'        _verif_log.append(("savorize", {name!r}, cls.__name__, _verif_mark(node)))')
            body += sprog_source(s['savorize'])
        if s.get('sweeten') is not None:
            body.append('    @classmethod')
            body.append('    def _yatiml_sweeten(cls, node):')
            body.append(f'        _verif_log.append(("sweeten", {name!r}, cls.__name__))')
            body += sprog_source(s['sweeten'])
        if not body:
            body = ['    pass']
        self.ns['_verif_mark'] = lambda node: (getattr(node.yaml_node.start_mark, 'line', -1),
                                                getattr(node.yaml_node.start_mark, 'column', -1))
        return '\n'.join(lines + body) + '\n'

    def _is_strlike(self, b):
        for s in self.specs:
            if s['name'] == b:
                return s['kind'] == 'str'
        return False

    # ---- views
    def cls(self, name):
        return self.ns[name]

    order = None      # optional registration order (permutation of the registered names)

    def registered_names(self):
        names = [s['name'] for s in self.specs if s.get('registered', True)]
        if self.order is not None:
            assert sorted(self.order) == sorted(names)
            return list(self.order)
        return names

    def registered_classes(self):
        return [self.ns[n] for n in self.registered_names()]

    def type_obj(self, spec):
        return py_type(spec, self.ns)

    def ty_term(self, spec_or_obj):
        t = spec_or_obj if not isinstance(spec_or_obj, (str, tuple, list)) else py_type(spec_or_obj, self.ns)
        return ty_term(t, set(self.registered_names()))

    def reg_term(self):
        """Coq `list cls_spec` for the registered classes, in registration order, from the LIVE classes."""
        import inspect
        import yatiml
        from yatiml import util, introspection
        regnames = set(self.registered_names())
        out = []
        byname = {s['name']: s for s in self.specs}
        for nm in self.registered_names():
            s = byname[nm]
            cls = self.ns[s['name']]
            bases = [b.__name__ for b in cls.__bases__]
            anc = [b.__name__ for b in cls.__mro__]
            # abstract as the documentation defines it (abc.ABC among the direct bases, or abstract methods), computed here and
            # not through yatiml.util.is_abstract: the model must not inherit the implementation's own verdict
            import abc as _abc
            import inspect as _inspect
            abstract = _inspect.isabstract(cls) or _abc.ABC in cls.__bases__
            if issubclass(cls, enum.Enum):
                shape = '(ShEnum [' + '; '.join(coq_ustr(m) for m in cls.__members__) + '])'
            elif issubclass(cls, (str, UserString, yatiml.String)):      # string-like as documented, not via yatiml.util
                shape = 'ShStr'
            else:
                ps = []
                # parameters read from the signature itself (not through yatiml.introspection): required iff no default
                sig = inspect.signature(cls.__init__)
                subobjects = [(pn, typing.Any if pp.annotation is inspect.Parameter.empty else pp.annotation,
                               pp.default is inspect.Parameter.empty)
                              for pn, pp in sig.parameters.items() if pn not in ('self', '_yatiml_extra')
                              and pp.kind in (pp.POSITIONAL_OR_KEYWORD, pp.POSITIONAL_ONLY)]
                for n, t, req in subobjects:
                    ps.append('{| p_name := %s; p_ty := %s; p_required := %s |}' %
                              (coq_ustr(n), ty_term(t, regnames), 'true' if req else 'false'))
                extra = '_yatiml_extra' in inspect.getfullargspec(cls.__init__).args
                shape = '(ShObj [' + '; '.join(ps) + '] ' + ('true' if extra else 'false') + ')'

            def hook(attr, key, term):
                if attr in cls.__dict__ and s.get(key) is not None:
                    return '(Some ' + term(s[key]) + ')'
                return 'None'
            rec = hook('_yatiml_recognize', 'recognize', lambda p: rprog_term(p, self.ty_term))
            sav = hook('_yatiml_savorize', 'savorize', lambda p, s=s: sprog_term(p, s))
            swe = hook('_yatiml_sweeten', 'sweeten', lambda p, s=s: sprog_term(p, s))
            init = s.get('init', ('ok',))
            it = {'ok': 'InitOk', 'fail': 'InitFail'}.get(init[0]) or \
                f'(InitFailIf {coq_ustr(init[1])} {encode.value_term(init[2])})'
            st = s.get('str', ('ok',))
            stt = 'StrOk' if st[0] == 'ok' else '(StrFailOn [' + '; '.join(coq_ustr(x) for x in st[1]) + '])'
            out.append('{| s_name := %s; s_bases := [%s]; s_ancestors := [%s]; s_abstract := %s; s_shape := %s; '
                       's_recognize := %s; s_savorize := %s; s_sweeten := %s; s_init := %s; s_str := %s |}' %
                       (coq_ustr(s['name']), '; '.join(coq_ustr(b) for b in bases), '; '.join(coq_ustr(b) for b in anc),
                        'true' if abstract else 'false', shape, rec, sav, swe, it, stt))
        return '[' + '; '.join(out) + ']'

    def hook_scalars(self):
        """(tag, text) pairs that hook programs can create (for the scalar oracle)."""
        sc = set()
        for s in self.specs:
            for key in ('savorize', 'sweeten'):
                for p in s.get(key) or []:
                    ops = [p[1]] if p[0] == 'op' else (p[2] + p[3]) if p[0] == 'if' else []
                    for op in ops:
                        if op[0] == 'set' and op[2][0] == 'sv' and isinstance(op[2][1], (int, float)) \
                                and not isinstance(op[2][1], bool):
                            sc.add((nodeops.TAG + ('int' if isinstance(op[2][1], int) else 'float'), str(op[2][1])))
                        if op[0] == 'set' and op[2][0] == 'node':
                            encode.scalars_of(op[2][1], sc)
                        if op[0] == 'setvalue' and isinstance(op[1], (int, float)) and not isinstance(op[1], bool):
                            sc.add((nodeops.TAG + ('int' if isinstance(op[1], int) else 'float'), str(op[1])))
        return sc


def _node_from_view(v):
    import yaml
    kind, tag, val = v
    if kind == 's':
        return yaml.ScalarNode(tag, val)
    if kind == 'q':
        return yaml.SequenceNode(tag, [_node_from_view(x) for x in val])
    return yaml.MappingNode(tag, [(_node_from_view(a), _node_from_view(b)) for a, b in val])
