"""Encoders between live PyYAML / Python objects and Coq terms of the model
(Model/Node.v, NodeOps.v, OpsRun.v), plus canonicalisation of outcomes."""
import datetime
import enum
import math
import pathlib
from collections import OrderedDict, UserString

import yaml

from common import coq_ustr


# ---------------------------------------------------------------- nodes

def mark_term(m):
    if m is None:
        return 'nomark'
    if getattr(m, 'name', '') in ('generated node', 'Generated node'):
        return 'genmark'
    return '{| m_line := %d; m_col := %d; m_gen := false |}' % (m.line, m.column)


def node_term(n, marks=False, depth=0, seen=None):
    """Coq `node` term for a yaml.Node TREE (aliases are expanded; cycles raise)."""
    if seen is None:
        seen = set()
    if id(n) in seen:
        raise RecursionError('cyclic node graph')
    mk = mark_term(n.start_mark) if marks else 'nomark'
    if isinstance(n, yaml.ScalarNode):
        v = n.value if isinstance(n.value, str) else str(n.value)
        return f'(Scalar {coq_ustr(n.tag)} {coq_ustr(v)} {mk})'
    seen = seen | {id(n)}
    if isinstance(n, yaml.SequenceNode):
        return f'(Seq {coq_ustr(n.tag)} [' + '; '.join(node_term(x, marks, depth + 1, seen) for x in n.value) + f'] {mk})'
    if isinstance(n, yaml.MappingNode):
        return (f'(Map {coq_ustr(n.tag)} [' + '; '.join(
            f'({node_term(k, marks, depth + 1, seen)}, {node_term(v, marks, depth + 1, seen)})' for k, v in n.value)
            + f'] {mk})')
    raise TypeError(f'not a yaml node: {n!r}')


def copy_tree(n):
    """Deep copy of a node tree (fresh objects, no sharing)."""
    if isinstance(n, yaml.ScalarNode):
        return yaml.ScalarNode(n.tag, n.value, n.start_mark, n.end_mark, n.style)
    if isinstance(n, yaml.SequenceNode):
        return yaml.SequenceNode(n.tag, [copy_tree(x) for x in n.value], n.start_mark, n.end_mark, n.flow_style)
    return yaml.MappingNode(n.tag, [(copy_tree(k), copy_tree(v)) for k, v in n.value], n.start_mark, n.end_mark,
                            n.flow_style)


def is_tree(n, seen=None):
    """No node object is reachable twice (no aliases, no cycles)."""
    seen = seen if seen is not None else set()
    if n is None:
        return True
    if id(n) in seen:
        return False
    seen.add(id(n))
    if isinstance(n, yaml.ScalarNode):
        return True
    if isinstance(n, yaml.SequenceNode):
        return all(is_tree(x, seen) for x in n.value)
    return all(is_tree(k, seen) and is_tree(v, seen) for k, v in n.value)


def plain_view(n):
    """Plain-data view of a node tree: (kind, tag, value)."""
    if isinstance(n, yaml.ScalarNode):
        return ('s', n.tag, n.value)
    if isinstance(n, yaml.SequenceNode):
        return ('q', n.tag, [plain_view(x) for x in n.value])
    return ('m', n.tag, [(plain_view(k), plain_view(v)) for k, v in n.value])


# ---------------------------------------------------------------- values

def z_term(z):
    return f'({z})%Z' if z < 0 else f'{z}%Z'


def value_term(v, classes=None):
    """Coq `value` term for a Python value as yatiml/PyYAML construct it.  User objects are
    rendered through their recorded constructor call (`_verif_kwargs`)."""
    if isinstance(v, bool):
        return f'(VBool {"true" if v else "false"})'
    if isinstance(v, enum.Enum):
        return f'(VEnum {coq_ustr(type(v).__name__)} {coq_ustr(v.name)})'
    if isinstance(v, int):
        return f'(VInt {z_term(v)})'
    if isinstance(v, float):
        return f'(VFloat {coq_ustr(v.hex())})'
    if v is None:
        return 'VNone'
    if hasattr(v, '_verif_str'):
        return f'(VUStr {coq_ustr(type(v).__name__)} {coq_ustr(v._verif_str)})'
    if isinstance(v, str):
        if type(v) is not str:
            return f'(VUStr {coq_ustr(type(v).__name__)} {coq_ustr(str.__str__(v))})'
        return f'(VStr {coq_ustr(v)})'
    if isinstance(v, UserString):
        return f'(VUStr {coq_ustr(type(v).__name__)} {coq_ustr(v.data)})'
    if isinstance(v, datetime.datetime):
        return f'(VDateTime {coq_ustr(v.isoformat())})'
    if isinstance(v, datetime.date):
        return f'(VDate {coq_ustr(v.isoformat())})'
    if isinstance(v, bytes):
        return '(VBytes [' + '; '.join(str(b) for b in v) + '])'
    if isinstance(v, pathlib.PurePath):
        return f'(VPath {coq_ustr(str(v))})'
    if isinstance(v, (list, tuple)):
        return '(VList [' + '; '.join(value_term(x) for x in v) + '])'
    if isinstance(v, dict):
        return '(VDict [' + '; '.join(f'({value_term(k)}, {value_term(x)})' for k, x in v.items()) + '])'
    if hasattr(v, '_verif_kwargs'):
        kw = v._verif_kwargs
        return (f'(VObj {coq_ustr(type(v).__name__)} [' +
                '; '.join(f'({coq_ustr(k)}, {value_term(x)})' for k, x in kw.items()) + '])')
    raise TypeError(f'cannot encode value {v!r} of type {type(v)}')


# ---------------------------------------------------------------- exceptions

def exn_term(e):
    import yatiml
    if isinstance(e, yatiml.RecognitionError):
        return 'ERecognition'
    if isinstance(e, yatiml.SeasoningError):
        return 'ESeasoning'
    if isinstance(e, yaml.YAMLError):
        return 'EYaml'
    for cls, name in ((KeyError, 'PyKeyError'), (ValueError, 'PyValueError'), (TypeError, 'PyTypeError'),
                      (AttributeError, 'PyAttributeError'), (IndexError, 'PyIndexError'),
                      (RecursionError, 'PyRecursionError'), (RuntimeError, 'PyRuntimeError')):
        if isinstance(e, cls):
            return f'(EPy {name})'
    return '(EPy PyOther)'


def exn_name(e):
    import yatiml
    if isinstance(e, yatiml.RecognitionError):
        return 'RecognitionError'
    if isinstance(e, yaml.YAMLError):
        return 'YAMLError'
    return type(e).__name__


# ---------------------------------------------------------------- scalar oracle

_SC = None


def construct_scalar(tag, text):
    """What PyYAML's SafeConstructor makes of a scalar (tag, text): ('ok', value) or ('err', exc)."""
    global _SC
    if _SC is None:
        _SC = yaml.SafeLoader('')
    n = yaml.ScalarNode(tag, text)
    try:
        return ('ok', _SC.construct_object(n, deep=True))
    except Exception as e:     # noqa
        return ('err', e)


def oracle_term(scalars):
    """Coq `oracle` for a set of (tag, text) pairs."""
    ents = []
    for tag, text in sorted(scalars):
        if tag == '!Path':
            # pathlib normalises its argument; the model's PathConstructor looks the normal form up here
            ents.append(f'(({coq_ustr(tag)}, {coq_ustr(text)}), Ok (VStr {coq_ustr(str(pathlib.Path(text)))}))')
            continue
        kind, x = construct_scalar(tag, text)
        if kind == 'ok':
            try:
                r = f'(Ok {value_term(x)})'
            except TypeError:
                r = '(Err (EPy PyOther))'
        else:
            r = f'(Err {exn_term(x)})'
        ents.append(f'(({coq_ustr(tag)}, {coq_ustr(text)}), {r})')
    return '[' + '; '.join(ents) + ']'


def scalars_of(n, acc=None):
    if acc is None:
        acc = set()
    if isinstance(n, yaml.ScalarNode):
        acc.add((n.tag, n.value))
    elif isinstance(n, yaml.SequenceNode):
        for x in n.value:
            scalars_of(x, acc)
    elif isinstance(n, yaml.MappingNode):
        for k, v in n.value:
            scalars_of(k, acc)
            scalars_of(v, acc)
    return acc


def scalars_of_graph(n, acc=None, seen=None):
    """Like scalars_of, but safe on node graphs with sharing and cycles."""
    if acc is None:
        acc, seen = set(), set()
    if id(n) in seen:
        return acc
    seen.add(id(n))
    if isinstance(n, yaml.ScalarNode):
        acc.add((n.tag, n.value))
    elif isinstance(n, yaml.SequenceNode):
        for x in n.value:
            scalars_of_graph(x, acc, seen)
    elif isinstance(n, yaml.MappingNode):
        for k, v in n.value:
            scalars_of_graph(k, acc, seen)
            scalars_of_graph(v, acc, seen)
    return acc


def graph_term(root):
    """Coq (graph, root) for a composed node graph with sharing/cycles: cells indexed by first visit."""
    index, cells = {}, []

    def visit(n):
        if id(n) in index:
            return index[id(n)]
        i = len(cells)
        index[id(n)] = i
        cells.append(None)
        mk = 'nomark'
        if isinstance(n, yaml.ScalarNode):
            cells[i] = f'(CScalar {coq_ustr(n.tag)} {coq_ustr(n.value)} {mk})'
        elif isinstance(n, yaml.SequenceNode):
            items = [visit(x) for x in n.value]
            cells[i] = f'(CSeq {coq_ustr(n.tag)} [' + '; '.join(f'{x}%nat' for x in items) + f'] {mk})'
        else:
            ps = [(visit(k), visit(v)) for k, v in n.value]
            cells[i] = f'(CMap {coq_ustr(n.tag)} [' + '; '.join(f'({a}%nat, {b}%nat)' for a, b in ps) + f'] {mk})'
        return i
    r = visit(root)
    return '[' + '; '.join(cells) + ']', r
