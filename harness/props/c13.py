"""C13 -- load is invariant under changes that do not alter the document's meaning.

Proof:  Props/C13.v: bool_union_fix added to a Union containing bool recognises the same members; the abstract sequence /
        mapping annotations are recognised alike; the node model has no style component and the load model never reads a
        mark except to report it (the error value carries no position).
Tie:    generated (class model, document) pairs x the meaning-preserving transformations named by the property, implementation
        against itself: class-mapping keys reordered; block / flow / double-quoted / canonical re-serialisations of the same node
        graph; unrelated classes additionally registered; List/Sequence/MutableSequence and Dict/Mapping/MutableMapping swapped;
        bool_union_fix added next to bool.  The base case also goes through the load-model correspondence.
"""
import copy
import random

import yaml

import classgen
import encode
import loadcase
import loadprop

PID = 'C13'
MODNAME = 'C13'
PROPS_FILE = 'Props/C13.v'
COQ_FILES = ['Proofs/Invariance.v', 'Proofs/Marks.v', 'Props/C13.v']
ASSUMPTIONS = [
    'equal outcome = equal value (extra attributes compared as a mapping, i.e. up to order, when keys were reordered) or failure in both',
    'style invariance is structural in the model (nodes have no style); that the implementation reads no style is what the tie checks',
]


def swap_origins(rnd, t):
    if t is None or isinstance(t, str):
        return t
    k = t[0]
    if k == 'list':
        return ('list', rnd.choice([0, 1, 2]), swap_origins(rnd, t[2]))
    if k == 'dict':
        return ('dict', rnd.choice([3, 4, 5]), t[2], swap_origins(rnd, t[3]))
    if k == 'union':
        # typing.Union collapses equal members: a Union whose members differ only in the container variant (already ambiguous
        # for every value) would change its number of members under the swap -- that is Python's doing, not a change of
        # meaning the property speaks about; leave such Unions alone
        norm = [repr(erase_origins(m)) for m in t[1]]
        if len(set(norm)) != len(norm):
            return t
        return ('union', [swap_origins(rnd, m) for m in t[1]])
    if k == 'optional':
        return ('optional', swap_origins(rnd, t[1]))
    return t


def erase_origins(t):
    if t is None or isinstance(t, str):
        return t
    k = t[0]
    if k == 'list':
        return ('list', 0, erase_origins(t[2]))
    if k == 'dict':
        return ('dict', 3, t[2], erase_origins(t[3]))
    if k == 'union':
        return ('union', [erase_origins(m) for m in t[1]])
    if k == 'optional':
        return ('optional', erase_origins(t[1]))
    return t


_BF_COUNTER = [0]


def add_boolfix(t):
    if t is None or isinstance(t, str):
        return t
    k = t[0]
    if k == 'list':
        return ('list', t[1], add_boolfix(t[2]))
    if k == 'dict':
        return ('dict', t[1], t[2], add_boolfix(t[3]))
    if k == 'union':
        ms = [add_boolfix(m) for m in t[1]]
        if 'bool' in ms and 'boolfix' not in ms:
            # anywhere in the Union: before bool, directly after it (the documented spelling), at the end
            _BF_COUNTER[0] += 1
            where = [ms.index('bool') + 1, len(ms), ms.index('bool'), 0][_BF_COUNTER[0] % 4]
            ms.insert(where, 'boolfix')
        return ('union', ms)
    if k == 'optional':
        return ('optional', add_boolfix(t[1]))
    return t


def map_specs(specs, f):
    out = copy.deepcopy([{k: v for k, v in s.items() if not k.startswith('_')} for s in specs])
    for s in out:
        for p in s.get('params', []):
            p['type'] = f(p.get('type'))
        if s.get('recognize'):
            s['recognize'] = [(r[0], r[1], f(r[2])) if r[0] == 'attr' and r[2] is not None else r for r in s['recognize']]
    return out


def class_param_types(specs, cname):
    """name -> declared type, for the parameters that EVERY class of the hierarchy (the class and all its registered
    descendants) declares with the same type: whichever class is recognised, the value sits at that type.  (A key that is a
    parameter of only some of them may end up among the extra attributes, where order is data.)"""
    out = None
    for n in [cname] + loadcase.all_subclasses(specs, cname):
        s = loadcase.spec_of(specs, n)
        if not s or s['kind'] != 'obj':
            return {}
        mine = {p['name']: repr(p.get('type')) for p in s['params']}
        types = {p['name']: p.get('type') for p in s['params']}
        if out is None:
            out = dict(types)
        else:
            out = {k: v for k, v in out.items() if k in mine and mine[k] == repr(v)}
    return out or {}


def shuffle_class_keys(rnd, node, specs, t):
    """Reorder the keys of every mapping that sits at a class-typed position (in place).  Returns the number of mappings
    whose order changed."""
    n = 0
    if isinstance(t, tuple) and t[0] == 'optional':
        return shuffle_class_keys(rnd, node, specs, t[1])
    if isinstance(t, tuple) and t[0] == 'list' and isinstance(node, yaml.SequenceNode):
        return sum(shuffle_class_keys(rnd, x, specs, t[2]) for x in node.value)
    if isinstance(t, tuple) and t[0] == 'dict' and isinstance(node, yaml.MappingNode):
        return sum(shuffle_class_keys(rnd, v, specs, t[3]) for _, v in node.value)
    if isinstance(t, tuple) and t[0] == 'class' and isinstance(node, yaml.MappingNode):
        s = loadcase.spec_of(specs, t[1])
        if s is None or s['kind'] != 'obj':
            return 0
        pt = class_param_types(specs, t[1])
        for k, v in node.value:
            if isinstance(k, yaml.ScalarNode):
                # only the exact parameter name is a class-typed position: a dashed spelling passes recognition but is processed
                # and constructed as an extra attribute (plain data, whose own key order is kept)
                n += shuffle_class_keys(rnd, v, specs, pt.get(k.value))
        keys = [k.value if isinstance(k, yaml.ScalarNode) else None for k, _ in node.value]
        # a mapping with duplicate (or non-scalar) keys is not a well-formed YAML mapping: which duplicate wins depends on the
        # order, so reordering it is not a meaning-preserving change
        if len(node.value) > 1 and None not in keys and len(set(keys)) == len(keys):
            before = [id(k) for k, _ in node.value]
            rnd.shuffle(node.value)
            n += before != [id(k) for k, _ in node.value]
    return n


def canon(outcome, sort_extra=False):
    if outcome[0] != 'ok':
        return ('err',)
    return ('ok', canon_value(outcome[1], sort_extra))


def canon_value(v, sort_extra):
    if isinstance(v, (list, tuple)):
        return ('list', [canon_value(x, sort_extra) for x in v])
    if isinstance(v, dict):
        return ('dict', [(canon_value(k, sort_extra), canon_value(x, sort_extra)) for k, x in v.items()])
    if hasattr(v, '_verif_kwargs'):
        kw = []
        for k, x in v._verif_kwargs.items():
            if k == '_yatiml_extra' and sort_extra and isinstance(x, dict):
                kw.append((k, ('dictset', sorted(((repr(canon_value(a, True)), repr(canon_value(b, True))) for a, b in x.items())))))
            else:
                kw.append((k, canon_value(x, sort_extra)))
        return ('obj', type(v).__name__, kw)
    try:
        return ('leaf', encode.value_term(v))
    except TypeError:
        return ('leaf', repr(v))


UNRELATED = [
    {'name': 'ZU1', 'kind': 'obj', 'bases': [], 'extra': False, 'registered': True,
     'params': [{'name': 'zq', 'type': 'int', 'required': True}]},
    {'name': 'ZU2', 'kind': 'enum', 'bases': [], 'members': ['zz_a', 'zz_b'], 'registered': True},
    {'name': 'ZU3', 'kind': 'obj', 'bases': ['ZU1'], 'extra': False, 'registered': True,
     'params': [{'name': 'zq', 'type': 'int', 'required': True}, {'name': 'zr', 'type': 'str', 'required': False}]},
]


def restyle(n, flow, sstyle, memo):
    if id(n) in memo:
        return memo[id(n)]
    if isinstance(n, yaml.ScalarNode):
        style = sstyle
        if sstyle == 'mixed':
            style = ['"', "'", None, '|'][len(memo) % 4]
        c = yaml.ScalarNode(n.tag, n.value, style=style)
        memo[id(n)] = c
        return c
    if isinstance(n, yaml.SequenceNode):
        c = yaml.SequenceNode(n.tag, [], flow_style=flow)
        memo[id(n)] = c
        c.value = [restyle(x, flow, sstyle, memo) for x in n.value]
        return c
    c = yaml.MappingNode(n.tag, [], flow_style=flow)
    memo[id(n)] = c
    c.value = [(restyle(k, flow, sstyle, memo), restyle(v, flow, sstyle, memo)) for k, v in n.value]
    return c


def unshare(n, depth=0):
    """The same document with every alias replaced by a copy of the anchored node (JSON has no aliases)."""
    if depth > 40:
        raise ValueError('cyclic')
    if isinstance(n, yaml.ScalarNode):
        return yaml.ScalarNode(n.tag, n.value)
    if isinstance(n, yaml.SequenceNode):
        return yaml.SequenceNode(n.tag, [unshare(x, depth + 1) for x in n.value])
    return yaml.MappingNode(n.tag, [(unshare(k, depth + 1), unshare(v, depth + 1)) for k, v in n.value])


def reserialise(node, how):
    if how == 'canonical':
        return yaml.serialize(node, Dumper=yaml.SafeDumper, allow_unicode=True, canonical=True)
    flow, sstyle = {'block': (False, None), 'flow': (True, None), 'quoted': (False, '"'), 'json-like': (True, '"'),
                    'mixed': (False, 'mixed')}[how]
    return yaml.serialize(restyle(node, flow, sstyle, {}), Dumper=yaml.SafeDumper, allow_unicode=True, width=1000)


def tie(ctx, model_ok=True):
    rnd = random.Random(ctx['seed'] * 13 + 1313)
    n_models = 45 if ctx['tier'] == 'quick' else 250
    counts = {}

    def metamorphic(c):
        if c.doc is None or c.doc_err is not None:
            return None
        base = canon(c.outcome)
        base_sorted = canon(c.outcome, True)
        specs = c.specs

        def rerun(specs2, ty2, text2, sort_extra=False):
            v = loadcase.run_case(specs2, ty2, text2, 'variant')
            return canon(v.outcome, sort_extra), v

        def verdict(kind, got, want, how):
            counts[kind] = counts.get(kind, 0) + 1
            if got != want:
                k2 = 'ok-vs-error' if (got[0] == 'ok') != (want[0] == 'ok') else 'different-values'
                return (f'not-invariant:{kind}:{k2}', f'{c.text!r} as {c.tyspec}: outcome {show(c.outcome)} but {how}')
            return None

        # 1. styles: the same node graph (tags kept) written in other styles
        try:
            graph = loadcase.compose_raw_text(c.text)
        except Exception:      # noqa
            graph = None
        if graph is not None:
            for how in ('block', 'flow', 'quoted', 'canonical', 'json-like', 'mixed'):
                try:
                    t2 = reserialise(graph, how)
                    if not same_graph(loadcase.compose_raw_text(t2), graph):
                        continue            # PyYAML could not express the same nodes in this style (e.g. NEL in a plain key)
                except Exception:      # noqa
                    continue
                got, v = rerun(specs, c.tyspec, t2)
                r = verdict('style-' + how, got, base, f're-serialised in {how} style ({t2!r}): {show(v.outcome)}')
                if r:
                    return r
            # 1b. JSON style proper: no anchors -- every alias written out as a copy
            if not encode.is_tree(graph):
                try:
                    tree = unshare(graph)
                    t2 = reserialise(tree, 'json-like')
                    ok = same_graph(loadcase.compose_raw_text(t2), tree)
                except Exception:      # noqa
                    ok = False
                if ok:
                    got, v = rerun(specs, c.tyspec, t2)
                    r = verdict('style-json-unaliased', got, base, f're-serialised in JSON style, aliases written out ({t2!r}): {show(v.outcome)}')
                    if r:
                        return r
            # 2. class-mapping keys reordered
            g2 = encode.copy_tree(graph) if encode.is_tree(graph) else None
            if g2 is not None and shuffle_class_keys(rnd, g2, specs, c.tyspec) > 0:
                try:
                    t2 = yaml.serialize(g2, Dumper=yaml.SafeDumper, allow_unicode=True)
                    ok = same_graph(loadcase.compose_raw_text(t2), g2)
                except Exception:      # noqa
                    ok = False
                if ok:
                    got, v = rerun(specs, c.tyspec, t2, True)
                    r = verdict('key-order', got, base_sorted, f'with class-mapping keys reordered ({t2!r}): {show(v.outcome)}')
                    if r:
                        return r
        # 3. unrelated classes additionally registered
        names = {s['name'] for s in specs}
        if not names & {'ZU1', 'ZU2', 'ZU3'}:
            got, v = rerun(specs + copy.deepcopy(UNRELATED), c.tyspec, c.text)
            r = verdict('unrelated-classes', got, base, f'with unrelated classes ZU1, ZU2, ZU3(ZU1) also registered: {show(v.outcome)}')
            if r:
                return r
        # 4. abstract sequence / mapping annotations interchanged
        f = lambda t: swap_origins(rnd, t)      # noqa
        specs2, ty2 = map_specs(specs, f), swap_origins(rnd, c.tyspec)
        if repr(specs2) != repr(map_specs(specs, lambda t: t)) or ty2 != c.tyspec:
            got, v = rerun(specs2, ty2, c.text)
            r = verdict('abstract-variants', got, base, f'with List/Sequence/MutableSequence, Dict/Mapping/MutableMapping interchanged '
                                                        f'(type {ty2}): {show(v.outcome)}')
            if r:
                return r
        # 5. bool_union_fix next to bool
        specs2, ty2 = map_specs(specs, add_boolfix), add_boolfix(c.tyspec)
        if repr(specs2) != repr(map_specs(specs, lambda t: t)) or ty2 != c.tyspec:
            got, v = rerun(specs2, ty2, c.text)
            r = verdict('bool-union-fix', got, base, f'with bool_union_fix added to the Unions containing bool (type {ty2}): {show(v.outcome)}')
            if r:
                return r
        return None

    def stream():
        for specs, tyspec, text, desc in loadcase.gen_cases(rnd, n_models, 6, hooks=True):
            yield specs, tyspec, text, desc
        # directed: unions with bool, nested abstract containers, classes with several keys
        for _ in range(n_models // 2):
            specs = loadcase.gen_model(rnd, hooks=False)
            names = [s['name'] for s in specs if s.get('registered', True)]
            tyspec = rnd.choice([('union', ['bool', 'int']), ('union', ['int', 'bool', 'str']), ('list', 1, ('union', ['bool', 'float'])),
                                 ('dict', 4, 'str', ('list', 2, 'int')), ('optional', ('union', ['bool', 'int']))])
            try:
                node = loadcase.gen_node(rnd, specs, tyspec)
                yield specs, tyspec, loadcase.serialize(node), 'directed-union'
                yield specs, tyspec, loadcase.serialize(loadcase.S(rnd.choice(['true', 'false']), 'bool')), 'directed-bool'
                yield specs, tyspec, loadcase.serialize(loadcase.S(rnd.choice(['1', '0']), 'int')), 'directed-int'
            except Exception:      # noqa
                continue

    def stream2():
        yield from stream()
        # directed: a Union in which a member after bool also reads boolean scalars (an Enum), at top level and as an attribute
        for _ in range(max(4, n_models // 6)):
            specs = loadcase.gen_model(rnd, max_classes=2, hooks=False)
            col = rnd.choice([('union', ['bool', ('class', 'Col')]), ('union', ['int', 'bool', ('class', 'Col')]),
                              ('union', [('class', 'Col'), 'bool']), ('union', ['bool', ('class', 'Col'), 'str'])])
            specs = specs + [{'name': 'Col', 'kind': 'enum', 'members': ['true', 'red', 'yes', 'false'], 'bases': [], 'registered': True},
                             {'name': 'Holder', 'kind': 'obj', 'bases': [], 'extra': False, 'registered': True,
                              'params': [{'name': 'c', 'type': col, 'required': True}]}]
            for leaf in (loadcase.S('true', 'bool'), loadcase.S('false', 'bool'), loadcase.S('red'), loadcase.S('1', 'int')):
                try:
                    yield specs, col, loadcase.serialize(leaf), 'directed-enum-or-bool'
                    yield specs, ('class', 'Holder'), loadcase.serialize(loadcase.M([(loadcase.S('c'), leaf)])), 'directed-enum-or-bool'
                except Exception:      # noqa
                    continue
        # directed: application tags on PLAIN scalars below Any (PyYAML's own emitter always quotes tagged scalars, so these
        # texts are written by hand); the style variants then quote them
        for _ in range(n_models // 3):
            specs = loadcase.gen_model(rnd, hooks=False)
            tmpl = rnd.choice(['!celsius 21.5\n', 'v: !celsius 21.5\nw: !n 7\n', '- !a 1\n- !b true\n- !c null\n- !d 1e3\n',
                               'k: [!x 0x1F, !y .inf]\n', '!t yes\n', 'a: !q 2001-12-14\n'])
            yield specs, rnd.choice(['any', None]), tmpl, 'directed-plain-tagged'
        # directed: both spellings of an attribute (max_size and max-size) in a class that takes extra attributes -- one fixed
        # family (always present), then generated ones
        fam = [{'name': 'Srv', 'kind': 'obj', 'bases': [], 'extra': True, 'registered': True,
                'params': [{'name': 'target', 'type': 'str', 'required': True}, {'name': 'max_size', 'type': 'int', 'required': True},
                           {'name': 'log_level', 'type': ('optional', 'str'), 'required': False}]}]
        S, Q, M = loadcase.S, loadcase.Q, loadcase.M
        for dashed in (S('big'), S('2.5', 'float'), Q([S('1', 'int')]), S('11', 'int')):
            for order in (0, 1, 2):
                ps = [(S('target'), S('srv')), (S('max-size'), encode.copy_tree(dashed)), (S('max_size'), S('10', 'int'))]
                ps = ps[order:] + ps[:order]
                yield fam, ('class', 'Srv'), loadcase.serialize(M(ps)), 'directed-both-spellings'
                yield fam, ('list', 0, ('class', 'Srv')), loadcase.serialize(Q([M(ps)])), 'directed-both-spellings'
        for _ in range(n_models):
            specs = loadcase.gen_model(rnd, hooks=False)
            cands = [(sp, p) for sp in specs if sp['kind'] == 'obj' and sp.get('extra') and sp.get('registered', True)
                     for p in sp['params'] if '_' in p['name']]
            if not cands:
                continue
            sp, p = rnd.choice(cands)
            try:
                node = loadcase.gen_node(rnd, specs, ('class', sp['name']))
            except Exception:      # noqa
                continue
            if not isinstance(node, yaml.MappingNode):
                continue
            keys = [k.value for k, _ in node.value if isinstance(k, yaml.ScalarNode)]
            if p['name'] not in keys:
                try:
                    node.value.append((loadcase.S(p['name']), loadcase.gen_node(rnd, specs, p.get('type'))))
                except Exception:      # noqa
                    continue
            wrong = rnd.choice([loadcase.Q([loadcase.S('1', 'int')]), loadcase.M([(loadcase.S('zz'), loadcase.S('1', 'int'))]),
                                loadcase.S('big'), loadcase.S('2.5', 'float')])
            node.value.insert(0, (loadcase.S(p['name'].replace('_', '-')), wrong))
            try:
                yield specs, ('class', sp['name']), loadcase.serialize(node), 'directed-both-spellings'
            except Exception:      # noqa
                continue

    res = loadprop.run_stream(ctx, 'C13', stream2(), [metamorphic])
    res['rule'] = ('generated class models x documents (valid / mutated / directed unions with bool) x {5 re-serialisations of the same '
                   'node graph, class-mapping keys reordered, 3 unrelated classes registered, abstract container annotations '
                   'interchanged, bool_union_fix added}: implementation against itself; base case also against the Coq load model')
    res['distribution']['variants'] = counts
    return loadprop.strip_private(res)


def show(outcome):
    if outcome[0] == 'ok':
        return 'ok ' + repr(canon_value(outcome[1], False))[:300]
    return f'{type(outcome[1]).__name__}'


def same_graph(a, b, seen=None):
    seen = seen if seen is not None else set()
    if (id(a), id(b)) in seen:
        return True
    seen.add((id(a), id(b)))
    if type(a) is not type(b) or a.tag != b.tag:
        return False
    if isinstance(a, yaml.ScalarNode):
        return a.value == b.value
    if len(a.value) != len(b.value):
        return False
    if isinstance(a, yaml.SequenceNode):
        return all(same_graph(x, y, seen) for x, y in zip(a.value, b.value))
    return all(same_graph(k, l, seen) and same_graph(x, y, seen) for (k, x), (l, y) in zip(a.value, b.value))


def search(ctx, broken, details, tie_res):
    return []


def replay(case):
    r = tie({'tier': 'quick', 'seed': 0})
    return any(f['case'].get('text') == case.get('text') and f['signature'] == case.get('signature', f['signature'])
               for f in r['failing'])
