"""C12 -- every source and sink kind gives the same result.

Proof:  Props/C12.v: the byte-level contract between the kinds -- UTF-8 decode (encode s) = s for every text (Model/Utf8.v).
Tie:    the model's encoder/decoder against CPython's str.encode / bytes.decode on adversarial texts; and, judged directly,
        every generated (type, document) case loaded from a str, a Path, an open text stream and an open binary stream (same
        value or same error class), every (dumper kind, value, indent, ensure_ascii) case written to a file name, a Path and
        an open text stream (exactly the text the corresponding dumps function returns).
"""
import io
import os
import pathlib
import random
import shutil
import tempfile

import common
import dumpcase
import loadcase
import nodeops

PID = 'C12'
MODNAME = 'C12'
PROPS_FILE = 'Props/C12.v'
COQ_FILES = ['Model/Utf8.v', 'Proofs/Utf8Proofs.v', 'Props/C12.v']
ASSUMPTIONS = [
    'the dispatch on the source / sink kind is glue without state: it is decided by the differential check, not by a theorem',
    'files are read and written with the locale encoding, which is UTF-8 in this environment (PYTHONUTF8 / C.UTF-8)',
]

HEADER = ('From Coq Require Import NArith List Bool. Import ListNotations.\n'
          'From Y Require Import Utf8.\nOpen Scope N_scope.\n'
          'Set Printing Width 1000000. Set Printing Depth 100000000.\n')

TEXTS = ['', 'a', 'é', '€', '\U0001F600', 'a\x7f\x80\u07ff\u0800\uffff\U00010000\U0010ffff', '\ud800', 'x\udfffy', '\ud7ff\ue000',
         'key: värde\n', '- "\\U0001F600"\n', 'ключ: значение\n', '名前: 値\n']

# whitespace-sensitive documents: what a block scalar keeps of its last lines, leading/trailing blank lines, common
# indentation, tabs, CR/LF, BOM -- a source kind that "tidies" the text first reads something else
WS_TEXTS = ['a: |\n  text\n', 'a: |\n  text\n\n\n', 'a: |+\n  text\n\n\n', 'a: |-\n  text\n\n', 'a: >\n  folded\n  text\n\n',
            'a: >+\n  folded\n\n', '|\n  top\n', '|+\n  top\n\n', '>\n  top\n', '- |\n  item\n- |+\n  last\n\n',
            'a: |\n  one\n   \n  two\n', 'a: |\n  one\n\t\n  two\n', 'a: |2\n    indented\n', 'a: "x\n  \n  y"\n', "a: 'x\n\n  y'\n",
            '\n\na: 1\n', 'a: 1\n\n\n', '  a: 1\n  b: 2\n', '    - 1\n    - 2\n', '  a: |\n    text\n\n', ' a: 1\nb: 2\n',
            'a: 1  \n', 'a: 1\t\n', '\ta: 1\n', 'a: 1\r\nb: 2\r\n', 'a: |\r\n  x\r\n\r\n', '\ufeffa: 1\n', 'a: 1\n...\n', '--- |\n  doc\n\n',
            '---\na: 1\n...\n\n', 'x  \n', '  x', ' x ', '\n', '   \n', '"  padded  "', "'\n'", '|\n \n', 'a: |+\n\n', '? |\n  key\n: v\n',
            'a: |\n  x\n   ', 'a: |\n  x\n  \n', 'a: >\n  x\n\n  y\n   \n']


def outcome(f, *a):
    import yatiml
    try:
        return ('ok', canon(f(*a)))
    except Exception as e:      # noqa
        return ('err', 'RecognitionError' if isinstance(e, yatiml.RecognitionError) else type(e).__name__)


def canon(v):
    import enum
    if isinstance(v, (list, tuple)):
        return [canon(x) for x in v]
    if isinstance(v, dict):
        return [(canon(k), canon(x)) for k, x in v.items()]
    if isinstance(v, enum.Enum):
        return ('enum', type(v).__name__, v.name)
    if hasattr(v, '_verif_kwargs'):
        return (type(v).__name__, [(k, canon(x)) for k, x in v._verif_kwargs.items()])
    if hasattr(v, '_verif_str'):
        return (type(v).__name__, v._verif_str)
    if isinstance(v, float) and v != v:
        return 'nan'
    return repr(v)


def load_all_kinds(load, text, tmp):
    """Outcome per source kind; None for a kind that cannot carry the text (lone surrogates cannot be written to a file)."""
    out = {'str': outcome(load, text), 'text-stream': outcome(lambda: load(io.StringIO(text)))}
    try:
        data = text.encode('utf-8')
    except UnicodeEncodeError:
        return out
    p = pathlib.Path(tmp) / 'doc.yaml'
    p.write_bytes(data)
    out['Path'] = outcome(load, p)
    out['binary-stream'] = outcome(lambda: load(io.BytesIO(data)))
    with open(p, 'r', encoding='utf-8', newline='') as f:
        out['open-text-file'] = outcome(load, f)
    with open(p, 'rb') as f:
        out['open-binary-file'] = outcome(load, f)
    return out


def tie(ctx, model_ok=True):
    import yatiml
    rnd = random.Random(ctx['seed'] * 7 + 1212)
    n_models = 50 if ctx['tier'] == 'quick' else 1200
    res = {'evaluations': 0, 'disagreements': [], 'failing': [], 'samples': [], 'distribution': {}}
    tmp = tempfile.mkdtemp(prefix='c12_', dir=os.environ.get('VERIF_SCRATCH', None))
    cwd = os.getcwd()
    kinds_seen = {}
    try:
        os.chdir(tmp)
        # names that exist relative to the working directory and as absolute paths: a str source is YAML text, never a file name
        (pathlib.Path(tmp) / 'setup.py').write_text('not: yaml-we-want\n')
        (pathlib.Path(tmp) / 'data').mkdir()
        path_like = ['.', '..', '/', 'setup.py', 'data', tmp, str(pathlib.Path(tmp) / 'setup.py'), '/etc/hostname', '~']
        # ---- sources
        cases = []
        for specs, tyspec, text, desc in loadcase.gen_cases(rnd, n_models, 5, hooks=True):
            cases.append((specs, tyspec, text, desc))
        for t in WS_TEXTS:
            cases.append(([], rnd.choice([None, 'any']), t, 'directed-whitespace'))
        for specs, tyspec, text, desc in list(cases):
            if rnd.random() < 0.3 and text.strip():
                variant = rnd.choice([lambda x: '\n\n' + x, lambda x: x + '\n\n', lambda x: x.rstrip('\n') + '   \n',
                                      lambda x: ''.join('  ' + l for l in x.splitlines(True)),
                                      lambda x: x.rstrip('\n'), lambda x: x.replace('\n', '\r\n')])
                cases.append((specs, tyspec, variant(text), desc + '+whitespace'))
        for t in path_like + TEXTS + dumpcase.STRINGS[:40]:
            cases.append(([], rnd.choice(['str', None, 'any']), t if t.endswith('\n') or t in path_like else t + '\n', 'directed'))
            cases.append(([], 'str', t, 'directed-raw'))
        model_cache = {}
        import classgen
        for specs, tyspec, text, desc in cases:
            try:
                m = model_cache.get(id(specs)) or classgen.Model(specs)
                model_cache[id(specs)] = m
                load = yatiml.load_function(m.type_obj(tyspec), *m.registered_classes())
            except Exception:      # noqa
                continue
            outs = load_all_kinds(load, text, tmp)
            res['evaluations'] += 1
            for k in outs:
                kinds_seen[k] = kinds_seen.get(k, 0) + 1
            base = outs['str']
            for k, o in outs.items():
                if o != base:
                    res['failing'].append({'signature': f'source-kinds-differ:{k}', 'what':
                                           f'{text!r} as {tyspec}: from a str {base!r}, from a {k} {o!r}',
                                           'case': {'text': text, 'type': repr(tyspec), 'specs': loadcase_clean(specs)}})
                    break
            if len(res['samples']) < 5 and res['evaluations'] % 71 == 1:
                res['samples'].append({'text': text[:120], 'type': repr(tyspec), 'outcomes': {k: repr(v)[:80] for k, v in outs.items()}})
        # ---- sinks
        nsink = 0
        for model, tyspec, v in dumpcase.gen_cases(rnd, max(8, n_models // 3), 4):
            classes = model.registered_classes()
            combos = [('yaml', None, None)] + [('json', ind, asc) for ind in (None, 0, 1, 2, 4, 10) for asc in (True, False)]
            kind, ind, asc = rnd.choice(combos)
            for kind, ind, asc in combos:
                try:
                    if kind == 'yaml':
                        want = yatiml.dumps_function(*classes)(v)
                        dump = yatiml.dump_function(*classes)
                        call = lambda sink: dump(v, sink)                                      # noqa
                    else:
                        want = yatiml.dumps_json_function(*classes)(v, indent=ind, ensure_ascii=asc)
                        dump = yatiml.dump_json_function(*classes)
                        call = lambda sink: dump(v, sink, indent=ind, ensure_ascii=asc)        # noqa
                except Exception:      # noqa  (values that cannot be dumped at all are C06/C07's business)
                    continue
                nsink += 1
                res['evaluations'] += 1
                got = {}
                try:
                    p = pathlib.Path(tmp) / 'out.txt'
                    for sk in ('str-path', 'Path', 'text-stream', 'open-file'):
                        if p.exists():
                            p.unlink()
                        if sk == 'str-path':
                            call(str(p))
                            got[sk] = p.read_bytes().decode('utf-8', 'surrogateescape')
                        elif sk == 'Path':
                            call(p)
                            got[sk] = p.read_bytes().decode('utf-8', 'surrogateescape')
                        elif sk == 'text-stream':
                            buf = io.StringIO()
                            call(buf)
                            got[sk] = buf.getvalue()
                        else:
                            with open(p, 'w', encoding='utf-8', newline='') as f:
                                call(f)
                            got[sk] = p.read_bytes().decode('utf-8', 'surrogateescape')
                except UnicodeEncodeError:
                    continue            # lone surrogates cannot be written to a UTF-8 file by any kind
                except Exception as e:      # noqa
                    res['failing'].append({'signature': f'sink-raises:{type(e).__name__}', 'what':
                                           f'{kind} dump of {dumpcase_show(v)} (indent={ind}, ensure_ascii={asc}) raised {e!r} for a sink while '
                                           f'dumps returned {want[:80]!r}', 'case': {'value': dumpcase_show(v), 'indent': ind, 'ascii': asc}})
                    continue
                for sk, text in got.items():
                    if text != want:
                        res['failing'].append({'signature': f'sink-differs:{kind}:{sk}', 'what':
                                               f'{kind} dump of {dumpcase_show(v)} (indent={ind}, ensure_ascii={asc}) wrote {text[:120]!r} to a {sk} '
                                               f'but dumps returns {want[:120]!r}', 'case': {'value': dumpcase_show(v), 'indent': ind, 'ascii': asc}})
                        break
        res['distribution'] = {'source_kinds': kinds_seen, 'sink_cases': nsink}
    finally:
        os.chdir(cwd)
        shutil.rmtree(tmp, ignore_errors=True)
    # ---- the byte-level model against CPython
    terms = []
    pool = list(TEXTS) + list(dumpcase.STRINGS)
    for _ in range(300 if ctx['tier'] == 'quick' else 5000):
        n = rnd.randrange(0, 12)
        pool.append(''.join(chr(rnd.choice([rnd.randrange(0, 128), rnd.randrange(128, 2048), rnd.randrange(2048, 65536),
                                              rnd.randrange(65536, 1114112), rnd.choice([0x7f, 0x80, 0x7ff, 0x800, 0xd7ff, 0xd800, 0xdfff,
                                                                                         0xe000, 0xffff, 0x10000, 0x10ffff])]))
                            for _ in range(n)))
    for t in pool:
        cps = '[' + '; '.join(str(ord(c)) for c in t) + ']'
        try:
            bs = 'Some [' + '; '.join(str(b) for b in t.encode('utf-8')) + ']'
        except UnicodeEncodeError:
            bs = 'None'
        terms.append('{| uc_text := ' + cps + '; uc_bytes := ' + bs + ' |}')
        res['evaluations'] += 1
    bad = nodeops.eval_shards('C12', terms, per_shard=400, header=HEADER, fn='utf8_mismatches', ctype='ucase')
    res['n_disagreements'] = len(bad)
    for b in bad[:10]:
        res['disagreements'].append({'kind': 'C12-utf8', 'text': repr(pool[b])})
    res['distinct_nontrivial'] = res['evaluations']
    res['rule'] = ('generated (type, document) cases + path-like and non-ASCII documents x {str, Path, StringIO, BytesIO, open text file, '
                   'open binary file}; generated (class model, value) x {dump_function; dump_json_function x indent in '
                   '{None,0,1,2,4,10} x ensure_ascii} x {file name, Path, StringIO, open file} against the dumps variants; '
                   'UTF-8 model vs CPython on boundary code points and lone surrogates')
    return res


def loadcase_clean(specs):
    return [{k: v for k, v in s.items() if not k.startswith('_')} for s in specs]


def dumpcase_show(v):
    import sys
    sys.path.insert(0, os.path.dirname(__file__))
    import c05
    return c05.show(v)[:200]


def search(ctx, broken, details, tie_res):
    return []


def replay(case):
    r = tie({'tier': 'quick', 'seed': 0})
    return bool(r['failing'])
