"""C07 -- JSON dumps are valid JSON with the same data under every formatting option.

Proof:  Props/C07.v: the event-driven emitter equals a recursive printer for trees of any depth and every
        option; the printer's output is in the RFC 8259 grammar with the tree's content; compact ASCII.
Tie:    EXHAUSTIVE small plain trees x indent in {None, 0..8} x ensure_ascii, the text written by the
        implementation vs the Coq state machine AND the Coq printer; string contents (every BMP code point in
        the thorough tier, samples of non-BMP and surrogates); generated class-model values; load-back.
Oracle: Python's strict json.loads on the implementation's text, content equal to the JSON projection.
"""
import datetime
import io
import itertools
import json
import math
import random
import re

import yaml

import common
import encode
import nodeops
from common import coq_ustr

PID = 'C07'
MODNAME = 'C07'
PROPS_FILE = 'Props/C07.v'
COQ_FILES = ['Props/C07.v']
ASSUMPTIONS = [
    'tree-shaped values with finite floats and string keys (the property\'s own restriction); aliases make the emitter raise',
    'number texts are what PyYAML\'s representer writes (str(int), repr(float)); that these are JSON numbers is a regular-language fact checked on every number seen',
]

HEADER = ('From Coq Require Import NArith ZArith List Bool String. Import ListNotations.\n'
          'From Y Require Import Prelude Node JsonEmit.\nOpen Scope N_scope.\n'
          'Set Printing Width 1000000. Set Printing Depth 100000000.\n')
LEAVES = ['', 'a', 0, 1.5, True, None]


def trees(n):
    """All plain trees with exactly n nodes (leaves and containers count 1), string keys 'k0','k1',.."""
    if n <= 0:
        return
    if n == 1:
        for l in LEAVES:
            yield l
        yield []
        yield {}
        return
    # list with children summing to n-1
    for parts in compositions(n - 1):
        for combo in itertools.product(*[list(trees(p)) for p in parts]):
            yield list(combo)
            yield {'k%d' % i: v for i, v in enumerate(combo)}


def compositions(n):
    if n == 0:
        yield []
        return
    for first in range(1, n + 1):
        for rest in compositions(n - first):
            yield [first] + rest


def jtree_term(node):
    if isinstance(node, yaml.ScalarNode):
        return f'(JScalar {coq_ustr(node.tag)} {coq_ustr(node.value)})'
    if isinstance(node, yaml.SequenceNode):
        return '(JSeq [' + '; '.join(jtree_term(x) for x in node.value) + '])'
    return '(JMap [' + '; '.join(f'({jtree_term(k)}, {jtree_term(v)})' for k, v in node.value) + '])'


class W:
    """A class whose _yatiml_sweeten writes scalars through the Node API: those nodes carry the texts the helpers choose
    (a null node's text is '' rather than 'null'), unlike nodes built by the representer."""
    def __init__(self, name: str, payload=None) -> None:
        self.name = name
        self.payload = payload

    def __repr__(self) -> str:
        return f'W({self.name!r}, {self.payload!r})'

    @classmethod
    def _yatiml_sweeten(cls, node) -> None:
        node.set_attribute('q', None)
        node.set_attribute('n', 5)
        node.set_attribute('f', 2.5)
        node.set_attribute('t', True)
        node.set_attribute('s', 'null')


class W2:
    def __init__(self, a: str) -> None:
        self.a = a

    def __repr__(self) -> str:
        return f'W2({self.a!r})'

    @classmethod
    def _yatiml_sweeten(cls, node) -> None:
        node.set_attribute('a', None)           # replaces an existing attribute by null
        node.set_attribute('z', False)


import enum as _enum


class E(_enum.Enum):
    alpha = 1
    beta = 'two'


class SE(str, _enum.Enum):
    low = 'l'
    high = 'HIGH'


class IE(_enum.IntEnum):
    zero = 0
    one = 1


def jproj(v):
    if isinstance(v, _enum.Enum):
        return v.name           # enum members are written by name
    if isinstance(v, W):
        return {'name': v.name, 'payload': jproj(v.payload), 'q': None, 'n': 5, 'f': 2.5, 't': True, 's': 'null'}
    if isinstance(v, W2):
        return {'a': None, 'z': False}
    if isinstance(v, (datetime.date, datetime.datetime)):
        return v.isoformat(' ') if isinstance(v, datetime.datetime) else v.isoformat()
    if isinstance(v, list):
        return [jproj(x) for x in v]
    if isinstance(v, dict):
        return {str(k): jproj(x) for k, x in v.items()}
    return v


def strict_loads(text):
    def bad(c):
        raise ValueError('non-standard constant ' + c)
    return json.loads(text, parse_constant=bad)


def _pairs(s):
    """A high surrogate directly followed by a low one IS the supplementary code point once written as \\uD8xx\\uDCxx: JSON (like
    UTF-16) cannot tell the two apart, and neither can json.dumps/json.loads themselves."""
    try:
        return s.encode('utf-16', 'surrogatepass').decode('utf-16', 'surrogatepass')
    except UnicodeError:
        return s


def same_json(a, b):
    if type(a) is not type(b):
        return False
    if isinstance(a, str):
        return _pairs(a) == _pairs(b)
    if isinstance(a, list):
        return len(a) == len(b) and all(same_json(x, y) for x, y in zip(a, b))
    if isinstance(a, dict):
        return [_pairs(k) for k in a.keys()] == [_pairs(k) for k in b.keys()] and \
            all(same_json(x, y) for x, y in zip(a.values(), b.values()))
    return a == b


_STR = re.compile(r'"(?:[^"\\]|\\.)*"')


def oracle(obj, indent, ascii_, text):
    try:
        back = strict_loads(text)
    except ValueError as e:
        return ('invalid-json', f'dumps_json({obj!r}, indent={indent}, ensure_ascii={ascii_}) = {text!r} is not strict JSON: {e}')
    if not same_json(back, jproj(obj)):
        return ('wrong-content', f'dumps_json({obj!r}, indent={indent}, ensure_ascii={ascii_}) = {text!r} parses to {back!r}')
    if indent is None and ascii_:
        if not text.isascii():
            return ('not-ascii', f'default output {text!r} is not ASCII-only')
        if re.search(r'\s', _STR.sub('""', text)):
            return ('whitespace', f'default output {text!r} has whitespace outside strings')
    if not ascii_:
        for s in strings_of(obj):
            for ch in s:
                if ord(ch) > 127 and not (0xD800 <= ord(ch) <= 0xDFFF) and ch not in text:
                    return ('escaped-nonascii', f'ensure_ascii=False: {ch!r} of {s!r} is escaped in {text!r}')
    return None


def strings_of(v):
    if isinstance(v, str):
        yield v
    elif isinstance(v, list):
        for x in v:
            yield from strings_of(x)
    elif isinstance(v, dict):
        for k, x in v.items():
            yield from strings_of(k)
            yield from strings_of(x)
    elif isinstance(v, (W, W2, _enum.Enum)):
        yield from strings_of(jproj(v))


def gen_values(ctx):
    rnd = random.Random(ctx['seed'] * 23 + 707)
    nmax = 4 if ctx['tier'] == 'quick' else 5
    vals = []
    for n in range(1, nmax + 1):
        vals.extend(trees(n))
    exhaustive_count = len(vals)
    # strings
    specials = ['"', '\\', '/', '\n', '\r', '\t', '\b', '\f', '\x00', '\x1f', '\x7f', '\x80', 'é', ' ', ' ',
                '\ud800', '\udfff', '\U0001F600', '\U0010FFFF', 'a"b\\c', '</script>', 'ÿĀ', 'true', '1.5', 'null']
    vals += specials
    vals += [{s: s} for s in specials]
    if ctx['tier'] != 'quick':
        vals += [chr(c) for c in range(0, 0x10000) if not (0xD800 <= c <= 0xDFFF)][::1]
    else:
        vals += [chr(c) for c in list(range(0, 0x180)) + list(range(0x2000, 0x2030)) + [0xD7FF, 0xE000, 0xFFFD, 0xFFFE, 0xFFFF]]
    pool = specials + ['a', 'key', 'x y', 'ünï', '0', '']
    for _ in range(300 if ctx['tier'] == 'quick' else 20000):
        vals.append(rand_value(rnd, pool, 3))
    # numbers
    vals += [0, -1, 10 ** 20, -0.0, 1e300, 1e-7, 1.5e-300, 123456789.125, 5e-324, 1e16, 1e22, 2.5, -2 ** 63,
             datetime.date(2020, 1, 2), datetime.datetime(2020, 1, 2, 3, 4, 5), [datetime.date(1999, 12, 31)]]
    return vals, exhaustive_count


def rand_value(rnd, pool, depth):
    r = rnd.random()
    if depth == 0 or r < 0.4:
        return rnd.choice([rnd.choice(pool), rnd.randrange(-1000, 1000), rnd.random() * 10 ** rnd.randrange(-5, 20),
                           True, False, None, ''.join(rnd.choice(pool) for _ in range(rnd.randrange(0, 4)))])
    if r < 0.7:
        return [rand_value(rnd, pool, depth - 1) for _ in range(rnd.randrange(0, 4))]
    return {rnd.choice(pool) + str(i): rand_value(rnd, pool, depth - 1) for i in range(rnd.randrange(0, 4))}


def tie(ctx, model_ok=True):
    import yatiml
    dumps = yatiml.dumps_json_function(W, W2, E, SE, IE)
    rep = dumps.dumper(None, None, False, None, None, None, None, None, None, None, None, None, None, False)
    vals, nex = gen_values(ctx)
    # nodes written by sweeten functions through the Node API
    vals += [E.alpha, SE.low, IE.zero, [E.beta, SE.high, IE.one], {'k': SE.low, 'l': [IE.zero]}, W('a', SE.high)]
    vals += [W('a'), W2('x'), [W('a'), W('b', [None, W2('c')])], {'k': W('a', {'x': None}), 'l': [W2('')]}, W('', W('in', 1.5))]
    indents = [None, 0, 1, 2, 3, 4, 5, 6, 7, 8]
    res = {'evaluations': 0, 'disagreements': [], 'failing': [], 'samples': [], 'exhaustive': True,
           'rule': (f'ALL plain trees with <= {4 if ctx["tier"] == "quick" else 5} nodes over leaves {LEAVES!r}, [] and {{}} '
                    f'({nex} trees) x indent in {indents} x ensure_ascii in (True, False); strings: specials (quotes, backslash, '
                    'controls, DEL, NEL, LS/PS, lone surrogates, non-BMP) as values and keys, '
                    + ('every BMP code point' if ctx['tier'] != 'quick' else 'code points 0-0x17F, 0x2000-0x202F and BMP edges')
                    + ', random nested values; numbers incl. 1e300, 5e-324, -0.0, 10**20, dates; non-trivial = output longer than 4 characters')}
    terms, info = [], []
    nontriv = set()
    for vi, v in enumerate(vals):
        opts = [(i, a) for i in indents for a in (True, False)] if vi < nex else \
            [(None, True), (None, False), (2, True), (0, False)]
        try:
            rep.represented_objects = {}
            rep.object_keeper = []
            rep.alias_key = None
            tree = jtree_term(rep.represent_data(v))
        except Exception:       # noqa
            continue
        for indent, ascii_ in opts:
            try:
                text = dumps(v, indent=indent, ensure_ascii=ascii_)
                exp = f'(Some {coq_ustr(text)})'
            except RuntimeError:
                text, exp = None, 'None'
            res['evaluations'] += 1
            if text is not None:
                o = oracle(v, indent, ascii_, text)
                if o is not None:
                    res['failing'].append({'signature': o[0] + (':indent0' if indent == 0 else ''), 'what': o[1],
                                           'case': {'value': repr(v), 'indent': indent, 'ensure_ascii': ascii_}})
                if len(text) > 4:
                    nontriv.add(text)
            ind = 'None' if indent is None else f'(Some {indent}%nat)'
            terms.append('{| jc_indent := ' + ind + '; jc_ascii := ' + ('true' if ascii_ else 'false')
                         + '; jc_tree := ' + tree + '; jc_expect := ' + exp + ' |}')
            info.append((repr(v)[:80], indent, ascii_))
    # an aborted dump (shared sub-object: aliases are not supported by JSON) must not disturb later dumps,
    # of the same function or of a new one
    probes = [{'a': [1, 2], 'b': 'x'}, [1, [2, [3]]], 'plain', {'k': {'k': {}}}]
    before = [dumps(p) for p in probes]
    shared = [1, 2]
    for bad_value in ({'a': shared, 'b': shared}, [shared, shared], {'x': [shared], 'y': {'z': shared}}):
        try:
            dumps(bad_value)
            aborted = False
        except RuntimeError:
            aborted = True
        res['evaluations'] += 1
        for fn_name, fn in (('same function', dumps), ('new function', yatiml.dumps_json_function(W, W2, E, SE, IE))):
            for p, b in zip(probes, before):
                try:
                    now = fn(p)
                except Exception as e:      # noqa
                    now = repr(e)
                res['evaluations'] += 1
                if now != b:
                    res['failing'].append({'signature': 'state-leak-after-aborted-dump',
                                           'what': f'after a dump aborted by an alias ({bad_value!r}, aborted={aborted}), {fn_name} writes {now!r} for {p!r} instead of {b!r}',
                                           'case': {'value': repr(p), 'indent': None, 'ensure_ascii': True, 'after_abort': repr(bad_value)}})
    res['distinct_nontrivial'] = len(nontriv)
    res['samples'] = [{'value': info[i][0], 'indent': info[i][1], 'ensure_ascii': info[i][2]} for i in (7, len(info) // 2, len(info) - 5)]
    bad = nodeops.eval_shards('C07', terms, per_shard=500, header=HEADER, fn='json_mismatches', ctype='jcase')
    res['n_disagreements'] = len(bad)
    for b in bad[:20]:
        res['disagreements'].append({'kind': 'C07-emit', 'value': info[b][0], 'indent': info[b][1], 'ensure_ascii': info[b][2]})
    return res


def search(ctx, broken, details, tie_res):
    return []


def replay(case):
    import yatiml
    dumps = yatiml.dumps_json_function(W, W2, E, SE, IE)
    v = eval(case['value'], {'datetime': datetime, 'inf': math.inf, 'nan': math.nan, 'W': W, 'W2': W2, 'E': E, 'SE': SE, 'IE': IE})
    if case.get('after_abort'):
        want = dumps(v)
        shared = [1, 2]
        try:
            dumps({'a': shared, 'b': shared})
        except RuntimeError:
            pass
        return dumps(v) != want or yatiml.dumps_json_function(W, W2, E, SE, IE)(v) != want
    text = dumps(v, indent=case['indent'], ensure_ascii=case['ensure_ascii'])
    o = oracle(v, case['indent'], case['ensure_ascii'], text)
    if o:
        print('  ', o[1])
    return o is not None
