"""C16 -- UnknownNode.require_* accept exactly the nodes they describe.

Proof:  Props/C16.v: each helper returns normally iff its specification predicate holds
        (require_attribute with a type is tied to the loader's own recognize), and none modifies the node
        (they are functions returning only a verdict).
Tie:    all generated nodes x attribute names x scalar values x types over a fixed registry pool, run on
        the real UnknownNode (with the loader's own Recognizer) and on the Coq model.
Oracle: predicate written from the docstrings, plus node-unchanged.
"""
import itertools
import random

import yaml

import classgen
import common
import encode
import loadcase
import nodeops
from common import coq_ustr
from nodeops import S, Q, M, TAG

PID = 'C16'
MODNAME = 'C16'
PROPS_FILE = 'Props/C16.v'
COQ_FILES = ['Props/C16.v']
ASSUMPTIONS = ['types passed to require_scalar are the scalar types the documentation lists']


def registry_specs():
    return [
        {'name': 'Color', 'kind': 'enum', 'members': ['red', 'true', 'yes'], 'bases': []},
        {'name': 'Name', 'kind': 'str', 'bases': []},
        {'name': 'Base', 'kind': 'obj', 'bases': [], 'extra': False,
         'params': [{'name': 'a', 'type': 'int', 'required': True}, {'name': 'b_c', 'type': 'str', 'required': False}]},
        {'name': 'Derived', 'kind': 'obj', 'bases': ['Base'], 'extra': False,
         'params': [{'name': 'a', 'type': 'int', 'required': True}, {'name': 'col', 'type': ('class', 'Color'), 'required': True},
                    {'name': 'b_c', 'type': 'str', 'required': False}]},
        {'name': 'Abs', 'kind': 'obj', 'bases': ['ABC'], 'extra': False, 'params': []},
        {'name': 'Impl', 'kind': 'obj', 'bases': ['Abs'], 'extra': True,
         'params': [{'name': 'n', 'type': ('optional', ('class', 'Name')), 'required': True}]},
    ]


def node_pool():
    leaves = [S('x'), S('red'), S('true', 'bool'), S('yes'), S('1', 'int'), S('017', 'int'), S('1.5', 'float'),
              S('.inf', 'float'), S('', 'null'), S('2001-12-14', 'timestamp'), yaml.ScalarNode('!Color', 'red'),
              Q([]), Q([S('1', 'int'), S('2', 'int')]), Q([S('1', 'int'), S('x')]), M([]),
              M([(S('a'), S('1', 'int'))]), M([(S('a'), S('1', 'int')), (S('b-c'), S('s'))]),
              M([(S('a'), S('1', 'int')), (S('col'), S('true', 'bool'))]),
              M([(S('a'), S('1', 'int')), (S('col'), S('red'))], '!Derived'),
              M([(S('a'), S('1', 'int'))], '!Derived'), M([(S('n'), S('', 'null')), (S('zz'), S('q'))]),
              M([(S('a'), S('x'))])]
    hosts = list(leaves)
    for v in leaves:
        hosts.append(M([(S('k'), encode.copy_tree(v)), (S('other'), S('o'))]))
    hosts.append(M([(S('k'), S('1', 'int')), (S('k'), S('2', 'int'))]))
    hosts.append(M([(S('k', 'int'), S('1', 'int'))]))
    hosts.append(M([(Q([]), S('1', 'int')), (S('k'), S('1', 'int'))]))
    return hosts


TYPES = ['str', 'int', 'float', 'bool', 'none', 'date', 'path', 'any', ('class', 'Color'), ('class', 'Name'),
         ('class', 'Base'), ('class', 'Derived'), ('class', 'Abs'), ('list', 0, 'int'), ('list', 1, 'any'),
         ('dict', 3, 'str', 'int'), ('union', ['int', 'str']), ('union', ['bool', ('class', 'Color')]),
         ('union', [('class', 'Color'), 'bool']), ('optional', ('class', 'Base')), ('union', ['bool', 'boolfix', 'int'])]
VALUES = ['x', 'red', 'true', '', 1, 15, 17, 0, 1.5, float('inf'), True, False, None]
SCALAR_TYPE_SETS = [[], ['str'], ['int'], ['float'], ['bool'], ['none'], ['int', 'str'], ['nonetype', 'bool'], ['date']]


def rop_term(r, model):
    return classgen.rprog_term([r], model.ty_term)[1:-1]


def run_rop(model, rec, node, r):
    import yatiml
    un = yatiml.UnknownNode(rec, node)
    k = r[0]
    if k == 'scalar':
        un.require_scalar(*[nodeops.typ_obj(t) for t in r[1]])
    elif k == 'mapping':
        un.require_mapping()
    elif k == 'sequence':
        un.require_sequence()
    elif k == 'attr':
        if r[2] is None:
            un.require_attribute(r[1])
        else:
            un.require_attribute(r[1], model.type_obj(r[2]))
    elif k == 'attrvalue':
        un.require_attribute_value(r[1], r[2])
    elif k == 'attrvaluenot':
        un.require_attribute_value_not(r[1], r[2])


# ---- the documented conditions
def scalar_py(n):
    kind, x = encode.construct_scalar(n.tag, n.value)
    return x if kind == 'ok' else None


def type_of_tag(n):
    return {TAG + 'str': str, TAG + 'int': int, TAG + 'float': float, TAG + 'bool': bool, TAG + 'null': type(None)}.get(n.tag)


def spec(model, load, node, r):
    """True: must return normally; False: must raise RecognitionError; None: property silent."""
    k = r[0]
    if k == 'scalar':
        if not isinstance(node, yaml.ScalarNode):
            return False
        if not r[1]:
            return True
        tags = {'str': 'str', 'int': 'int', 'float': 'float', 'bool': 'bool', 'none': 'null', 'nonetype': 'null',
                'date': 'timestamp'}
        return any(node.tag == TAG + tags[t] for t in r[1])
    if k == 'mapping':
        return isinstance(node, yaml.MappingNode)
    if k == 'sequence':
        return isinstance(node, yaml.SequenceNode)
    if not isinstance(node, yaml.MappingNode):
        return False
    vals = [v for kn, v in node.value if isinstance(kn, yaml.ScalarNode) and kn.value == r[1]]
    if k == 'attr':
        if not vals:
            return False
        if r[2] is None:
            return True
        if len(vals) > 1:
            return None
        # "recognisable as that type by the rules the loader itself uses": a load of that sub-document
        # with that declared type gets past recognition of the top node
        import yatiml
        rec = load.loader('')._Loader__recognizer
        try:
            tys, _ = rec.recognize(encode.copy_tree(vals[0]), model.type_obj(r[2]))
        except yatiml.RecognitionError:
            return False
        return len(tys) > 0
    strvals = [v for kn, v in node.value if isinstance(kn, yaml.ScalarNode) and kn.tag == TAG + 'str' and kn.value == r[1]]
    if len(strvals) != len(vals) or len(vals) > 1:
        return None
    if not vals:
        return False
    v = vals[0]
    want = r[2]
    same_type = isinstance(v, yaml.ScalarNode) and type_of_tag(v) is type(want)
    if k == 'attrvalue':
        if not same_type:
            return False
        if v.tag == TAG + 'bool' and v.value not in ('true', 'True', 'TRUE', 'false', 'False', 'FALSE'):
            return None
        x = scalar_py(v)
        return x == want and type(x) is type(want)
    if k == 'attrvaluenot':
        if not same_type:
            return True
        if v.tag == TAG + 'bool' and v.value not in ('true', 'True', 'TRUE', 'false', 'False', 'FALSE'):
            return None
        x = scalar_py(v)
        return not (x == want)
    return None


def gen_cases(ctx):
    rnd = random.Random(ctx['seed'] * 31 + 16)
    hosts = node_pool()
    rops = [('scalar', ts) for ts in SCALAR_TYPE_SETS] + [('mapping',), ('sequence',)]
    rops += [('attr', a, None) for a in ('k', 'missing', 'a')]
    rops += [('attr', a, t) for a in ('k', 'a', 'col') for t in TYPES]
    rops += [(kind, a, v) for kind in ('attrvalue', 'attrvaluenot') for a in ('k', 'a') for v in VALUES]
    cases = [(h, r) for h in hosts for r in rops]
    if ctx['tier'] == 'quick':
        cases = rnd.sample(cases, 5000)
    return cases


def tie(ctx, model_ok=True):
    import yatiml
    model = classgen.Model(registry_specs())
    load = yatiml.load_function(model.cls('Base'), *model.registered_classes())
    rec = load.loader('')._Loader__recognizer
    cases = gen_cases(ctx)
    res = {'evaluations': len(cases), 'disagreements': [], 'failing': [], 'samples': [], 'exhaustive': ctx['tier'] != 'quick',
           'rule': ('fixed registry (enum with bool-like members, string-like, base/derived, abstract/impl with _yatiml_extra) x '
                    f'{len(node_pool())} nodes (scalars of every core tag, tagged, sequences, mappings, each also as attribute '
                    '"k" of a mapping, duplicate and non-string keys) x all require_* helpers with 9 scalar-type sets, '
                    f'{len(TYPES)} types and {len(VALUES)} values (quick: 5000 sampled of the full product); non-trivial = the helper '
                    'returns normally')}
    terms = []
    regterm = model.reg_term()
    nontrivial = 0
    dist = {}
    for node, r in cases:
        n = encode.copy_tree(node)
        before = encode.plain_view(n)
        try:
            run_rop(model, rec, n, r)
            got = True
        except yatiml.RecognitionError:
            got = False
        except Exception as e:      # noqa
            got = e
        after = encode.plain_view(n)
        dist[r[0]] = dist.get(r[0], 0) + 1
        if got is True:
            nontrivial += 1
        if after != before:
            res['failing'].append({'signature': f'modifies-node:{r[0]}',
                                   'what': f'{r} modified the node: {before} -> {after}',
                                   'case': {'node': before, 'rop': repr(r)}})
        want = spec(model, load, node, r)
        if want is not None and not isinstance(got, Exception) and got != want:
            res['failing'].append({'signature': f'wrong-verdict:{r[0]}',
                                   'what': f'{r} on {before}: {"returned" if got else "raised RecognitionError"}, documented condition says {"accept" if want else "reject"}',
                                   'case': {'node': before, 'rop': repr(r)}})
        # (whatever the documented condition says about this node -- also where it is silent, e.g. a key given twice -- a helper
        #  either returns or raises RecognitionError; anything else escapes the recogniser)
        if isinstance(got, Exception):
            res['failing'].append({'signature': f'raises-other:{r[0]}:{type(got).__name__}',
                                   'what': f'{r} on {before} raised {type(got).__name__}: {got}',
                                   'case': {'node': before, 'rop': repr(r)}})
        exp = 'None' if isinstance(got, Exception) else f'(Some {"true" if got else "false"})'
        sc = {(t, v) for t, v in encode.scalars_of(node) if t in (TAG + 'int', TAG + 'float')}
        terms.append('{| rq_oracle := ' + encode.oracle_term(sc) + '; rq_specs := ' + regterm + '; rq_node := '
                     + encode.node_term(node) + '; rq_op := ' + rop_term(r, model) + '; rq_expect := ' + exp + ' |}')
    res['distinct_nontrivial'] = nontrivial
    res['distribution'] = dist
    res['samples'] = [{'node': encode.plain_view(cases[i][0]), 'rop': repr(cases[i][1])} for i in (3, len(cases) // 2, len(cases) - 2)]
    bad = nodeops.eval_shards('C16', terms, per_shard=200, header=loadcase.HEADER, fn='req_mismatches', ctype='reqcase')
    res['n_disagreements'] = len(bad)
    for b in bad[:30]:
        res['disagreements'].append({'kind': 'C16-require', 'node': encode.plain_view(cases[b][0]), 'rop': repr(cases[b][1])})
    return res


def search(ctx, broken, details, tie_res):
    return []


def replay(case):
    r = tie({'tier': 'thorough', 'seed': 0})
    return any(f['case'] == case for f in r['failing'])
