"""C04 -- a document cannot cause construction of objects the type model does not call for.

Proof:  Props/C04.v (constructors are only invoked with conforming keyword arguments: insensitivity theorem;
        only admitted classes; Any/untyped/extra positions hold plain data).
Tie:    tag-injection stream (registered class tags, unknown tags, !!python/object, !!python/object/apply,
        !!python/name, !!python/module, core tags) at arbitrary nodes of valid and invalid documents; the
        __init__ log of the self-instrumenting classes is judged entry by entry (also on failing loads);
        a canary module on sys.path plus an audit hook record any import or call caused by a load.
"""
import os
import random
import sys
import tempfile

import yaml

import encode
import loadcase
import loadprop
import oracles

PID = 'C04'
MODNAME = 'C04'
PROPS_FILE = 'Props/C04.v'
COQ_FILES = ['Props/C04.v']
ASSUMPTIONS = [
    '"nothing named by the document is imported or called" is yaml.SafeLoader\'s contract; the model shows yatiml registers no other constructor and strips tags before construction, the canary/audit hook observes the rest',
    '"plain data" includes bytes and date/datetime produced by core !!binary / !!timestamp scalars, which strip_tags leaves alone',
]

CANARY_DIR = os.path.join(os.path.dirname(os.path.dirname(os.path.abspath(__file__))), 'canary')
PY_TAGS = ['tag:yaml.org,2002:python/object:verif_canary.hit', 'tag:yaml.org,2002:python/object/apply:verif_canary.hit',
           'tag:yaml.org,2002:python/name:verif_canary.hit', 'tag:yaml.org,2002:python/module:verif_canary',
           'tag:yaml.org,2002:python/object/new:verif_canary.hit', 'tag:yaml.org,2002:python/object/apply:os.system']

_events = []
_hook_installed = [False]


def _audit(event, args):
    if event == 'import' and args and args[0] in ('verif_canary',):
        _events.append(('import', args[0]))
    elif event in ('os.system', 'subprocess.Popen', 'os.exec', 'os.posix_spawn'):
        _events.append((event, repr(args)[:80]))


def init_log_oracle(c):
    """Every constructor call made during the load -- successful or not -- got arguments conforming to the
    class's own signature, and only registered concrete classes were constructed."""
    from yatiml import util
    names = set(c.model.registered_names())
    for ent in c.log:
        if ent[0] == 'init':
            _, defining, actual, kw = ent
            why = []
            if actual not in names:
                return ('constructed-unregistered', f'__init__ of unregistered class {actual} ran for {c.text!r}')
            if oracles.is_abstract_doc(c.model.cls(actual)):
                return ('constructed-abstract', f'__init__ of abstract class {actual} ran for {c.text!r}')
            if not oracles.kwargs_conform(c.model, actual, kw, why):
                return (f'init-nonconforming:{c.desc.split("+")[0]}',
                        f'{actual}.__init__ ran with non-conforming arguments {dict(kw)!r} for {c.text!r}: {"; ".join(why[:2])}')
    return None


def canary_oracle(c):
    ev = list(_events)
    del _events[:]
    f = os.environ.get('VERIF_CANARY_FILE')
    hit = ''
    if f and os.path.exists(f):
        hit = open(f).read()
        open(f, 'w').close()
    if ev or hit or 'verif_canary' in sys.modules:
        sys.modules.pop('verif_canary', None)
        return ('canary', f'loading {c.text!r} imported/called code named by the document: {ev} {hit!r}')
    return None


def _canon(v):
    try:
        return encode.value_term(v)
    except TypeError:
        return type(v).__name__


_base_logs = {}
_base_spots = {}


def tagged_payloads(rnd, specs, names):
    """Valid nodes of registered object classes carrying their own !Class tag, bare and wrapped in untagged collections."""
    objs = [s['name'] for s in specs if s['kind'] == 'obj' and s.get('registered', True)]
    out = []
    for nm in objs[:3]:
        try:
            n = loadcase.gen_node(rnd, specs, ('class', nm))
        except (IndexError, ValueError):
            continue
        if not isinstance(n, yaml.MappingNode):
            continue
        n.tag = '!' + nm
        out += [(nm, x) for x in (n, loadcase.Q([encode.copy_tree(n)]), loadcase.M([(loadcase.S('w'), encode.copy_tree(n))]),
                                  loadcase.M([(loadcase.S('w'), loadcase.Q([encode.copy_tree(n)]))]))]
    return out


def injection_oracle(c):
    """Adding content at an Any / untyped / extra position must not cause additional constructor calls."""
    spot = c.desc.split('|')[2] if c.desc.count('|') >= 2 else _base_spots.get(c.desc[5:], '')
    if c.desc.startswith('base:'):
        spot = _base_spots.get(c.desc[5:], '')

    def sig(e):
        if e[0] == 'strctor':
            return (e[0], e[2], e[3])
        # extras and the injection spot legitimately differ between the base and the injected document
        return (e[0], e[2], repr(sorted((k, _canon(v)) for k, v in e[3].items() if k not in ('_yatiml_extra', spot))))
    calls = sorted(sig(e) for e in c.log if e[0] in ('init', 'strctor'))
    if c.desc.startswith('base:'):
        # only a base load that SUCCEEDED has a complete log: on a failing load the calls made before the failure depend on
        # PyYAML's scheduling of deferred constructor bodies, and need not be a superset of the injected document's
        _base_logs[c.desc[5:]] = calls if c.outcome[0] == 'ok' else None
        return None
    if c.desc.startswith('inject:'):
        if _base_logs.get(c.desc[7:].split('|')[0]) is None:
            return None
        base = list(_base_logs.get(c.desc[7:].split('|')[0], []))
        # (a document key spelt _yatiml_extra never gets past the attribute check, so the host itself is not built: the
        # injected document then makes FEWER calls than the base, which is fine -- only additional calls are findings)
        extra = []
        for x in calls:
            if x in base:
                base.remove(x)
            else:
                extra.append(x)
        if extra:
            return ('stray-construction:' + c.desc.split('|')[1],
                    f'content injected at an Any/extra position made constructors run: {extra[:2]} for {c.text!r}')
    return None


def directed(rnd, specs, names, counter):
    payloads = tagged_payloads(rnd, specs, names)
    if not payloads:
        return
    # (1) top-level Any: no constructor may run at all
    for _nm, p in payloads:
        counter[0] += 1
        key = 'k%d' % counter[0]
        yield 'any', loadcase.S('x'), 'base:' + key
        yield 'any', p, 'inject:' + key + '|any'
    # (2) classes with _yatiml_extra, untyped or Any parameters
    for s in specs:
        if s['kind'] != 'obj' or not s.get('registered', True):
            continue
        try:
            base = loadcase.gen_node(rnd, specs, ('class', s['name']))
        except (IndexError, ValueError):
            continue
        if not isinstance(base, yaml.MappingNode):
            continue
        spots = []
        if s.get('extra'):
            spots += ['extra_key', '_yatiml_extra']
        spots += [p['name'] for p in s['params'] if p.get('type') in (None, 'any')]
        # prefer payloads of a class other than the host's, so that a stray construction cannot be mistaken for the host's
        mine = [p for nm, p in payloads if nm != s['name']] or [p for _nm, p in payloads]
        for spot in spots:
            for p in mine[:4]:
                counter[0] += 1
                key = 'k%d' % counter[0]
                b = encode.copy_tree(base)
                b.value = [kv for kv in b.value if kv[0].value != spot]
                inj = encode.copy_tree(b)
                inj.value.append((loadcase.S(spot), encode.copy_tree(p)))
                if spot not in ('extra_key', '_yatiml_extra'):
                    b.value.append((loadcase.S(spot), loadcase.S('x')))
                _base_spots[key] = spot
                yield ('class', s['name']), b, 'base:' + key
                yield ('class', s['name']), inj, 'inject:' + key + '|' + ('extra' if spot in ('extra_key', '_yatiml_extra') else 'any-param') + '|' + spot


        # (3) a parameter key given a second time with a tagged payload as value: the load must fail (or ignore it) without
        #     constructing the payload -- whatever the parameter's type
        # (only for hosts outside any hierarchy: with registered sub- or superclasses a repeated key merely disqualifies the more
        #  derived candidates, and the class that then matches is legitimately constructed)
        in_hierarchy = bool([b for b in s.get('bases', []) if b not in ('ABC', 'Mixin')]) or bool(loadcase.all_subclasses(specs, s['name']))
        for prm in ([] if in_hierarchy else s['params'][:3]):
            if not any(kv[0].value == prm['name'] for kv in base.value):
                continue
            for p in mine[:2]:
                counter[0] += 1
                key = 'k%d' % counter[0]
                b = encode.copy_tree(base)
                inj = encode.copy_tree(b)
                inj.value.append((loadcase.S(prm['name']), encode.copy_tree(p)))
                _base_spots[key] = prm['name']
                yield ('class', s['name']), b, 'base:' + key
                yield ('class', s['name']), inj, 'inject:' + key + '|dup-param|' + prm['name']


def stream(ctx):
    rnd = random.Random(ctx['seed'] * 19 + 404)
    counter = [0]
    n_models = 100 if ctx['tier'] == 'quick' else 2500
    # directed families: one anchored node aliased at an Any / untyped position and at a class-typed one; permissive recognisers
    for fam in (loadcase.alias_cases(rnd), loadcase.permissive_cases(rnd), loadcase.keyclass_cases(rnd)):
        for specs, tyspec, node, desc in fam:
            try:
                yield specs, tyspec, loadcase.serialize(node), desc
            except Exception:       # noqa
                continue
    # a fixed family: Any / untyped parameters whose names start with an underscore
    S, Q, M = loadcase.S, loadcase.Q, loadcase.M
    fam = [{'name': 'P', 'kind': 'obj', 'bases': [], 'extra': False, 'registered': True,
            'params': [{'name': 'x', 'type': 'int', 'required': True}]},
           {'name': 'U', 'kind': 'obj', 'bases': [], 'extra': False, 'registered': True,
            'params': [{'name': 'n', 'type': 'int', 'required': True}, {'name': '_meta', 'type': 'any', 'required': False},
                       {'name': '_raw', 'type': None, 'required': False}, {'name': '_num', 'type': 'int', 'required': False}]}]
    payload = M([(S('x'), S('1', 'int'))])
    payload.tag = '!P'
    for spot in ('_meta', '_raw', '_num'):
        for wrap in (lambda p: p, lambda p: Q([p]), lambda p: M([(S('w'), p)])):
            counter[0] += 1
            key = 'k%d' % counter[0]
            _base_spots[key] = spot
            try:
                yield fam, ('class', 'U'), loadcase.serialize(M([(S('n'), S('1', 'int')), (S(spot), S('1', 'int') if spot == '_num' else S('x'))])), 'base:' + key
                yield fam, ('class', 'U'), loadcase.serialize(M([(S('n'), S('1', 'int')), (S(spot), wrap(encode.copy_tree(payload)))])), \
                    'inject:' + key + '|any-param|' + spot
            except Exception:       # noqa
                continue
    for specs in (loadcase.gen_model(rnd, hooks=True) for _ in range(n_models)):
        names = [s['name'] for s in specs if s.get('registered', True)]
        if rnd.random() < 0.5:
            for tyspec, node, desc in directed(rnd, specs, names, counter):
                try:
                    yield specs, tyspec, loadcase.serialize(node), desc
                except Exception:       # noqa
                    continue
        for _ in range(7):
            tyspec = ('class', rnd.choice(names)) if names and rnd.random() < 0.6 else loadcase.gen_type(rnd, names, 2)
            try:
                node = loadcase.gen_node(rnd, specs, tyspec)
            except (IndexError, ValueError):
                continue
            desc = 'valid'
            if rnd.random() < 0.3:
                node, desc = loadcase.mutate(rnd, node, specs)
            # inject 1-3 tags at arbitrary nodes
            nodes = loadcase.all_nodes(node)
            for _k in range(rnd.randrange(1, 4)):
                n, _, _ = rnd.choice(nodes)
                n.tag = rnd.choice(PY_TAGS + ['!' + x for x in names] + loadcase.INJECT_TAGS)
            desc += '+tags'
            try:
                text = loadcase.serialize(node, rnd.choice([None, 'flow', 'block']))
            except Exception:       # noqa
                continue
            yield specs, tyspec, text, desc


def tie(ctx, model_ok=True):
    if CANARY_DIR not in sys.path:
        sys.path.append(CANARY_DIR)
    if not _hook_installed[0]:
        sys.addaudithook(_audit)
        _hook_installed[0] = True
    fd, path = tempfile.mkstemp(prefix='verif_canary_')
    os.close(fd)
    os.environ['VERIF_CANARY_FILE'] = path
    try:
        res = loadprop.run_stream(ctx, 'C04', stream(ctx), [init_log_oracle, canary_oracle, oracles.c01_oracle, injection_oracle],
                                  compare_if=lambda c: True)
    finally:
        os.unlink(path)
        os.environ.pop('VERIF_CANARY_FILE', None)
    res['rule'] = ('random class models x documents (valid or mutated) with 1-3 injected tags per document, drawn from '
                   '!!python/object|apply|name|module|new pointing at a canary module / os.system, registered class names, '
                   'unknown names and core tags; every __init__ log entry (also of failing loads) is judged against the class '
                   'signature; audit hook + canary file must stay silent; non-trivial = a user constructor ran or the load failed '
                   'on a parseable document')
    return loadprop.strip_private(res)


def search(ctx, broken, details, tie_res):
    return []


def replay(case):
    if CANARY_DIR not in sys.path:
        sys.path.append(CANARY_DIR)
    return loadprop.replay_case(case, [init_log_oracle, oracles.c01_oracle])
