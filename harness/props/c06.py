"""C06 -- dumps are faithful, tag-free and ordered, and leave the object untouched.

Proof:  Props/C06.v: every scalar image of the representers is implicit under the dumper's (GENERATED) resolver
        table (regex certificates), hence no tag is written; the representer builds the projection.
Tie:    generated class models with real defaults x values (adversarial string pool, non-finite floats, dates,
        paths, enums, string-likes, extras, inheritance, sweeteners): the node tree built by the implementation's
        representer vs the Coq model; the text judged directly: parsed events carry no explicit tag, one document,
        yaml.safe_load(text) equals the projection, object graph snapshot unchanged, two dumps identical.
"""
import random

import yaml

import classgen
import dumpcase
import encode
import loadcase
import nodeops
from common import coq_ustr

PID = 'C06'
MODNAME = 'C06'
PROPS_FILE = 'Props/C06.v'
COQ_FILES = ['Resolver/Images.v', 'Model/Represent.v', 'Proofs/DumpProofs.v', 'Proofs/SweetenKeeps.v', 'Props/C06.v']
ASSUMPTIONS = [
    'purity ("never modifies the object graph") and determinism are trivial in a functional model and therefore NOT claimed from it: observed at run time (snapshot, double dump)',
    'supported values: no bytes / sets (written with !!binary / !!set by PyYAML), datetime offsets in whole minutes',
]


def has_sweeten(model, v):
    out = False
    if isinstance(v, (list, tuple)):
        return any(has_sweeten(model, x) for x in v)
    if isinstance(v, dict):
        return any(has_sweeten(model, x) for x in v.values())
    if hasattr(v, '_verif_kwargs'):
        for c in type(v).__mro__:
            if '_yatiml_sweeten' in c.__dict__:
                return True
        return any(has_sweeten(model, x) for k, x in vars(v).items() if not k.startswith('_verif'))
    return out


def text_oracle(model, v, text):
    try:
        events = list(yaml.parse(text, Loader=yaml.SafeLoader))
    except yaml.YAMLError as e:
        return ('not-yaml', f'dump of {v!r} is not well-formed YAML: {e}')
    docs = sum(isinstance(e, yaml.DocumentStartEvent) for e in events)
    if docs != 1:
        return ('documents', f'dump of {v!r} has {docs} documents')
    for e in events:
        if isinstance(e, yaml.ScalarEvent) and e.tag is not None and not (e.implicit[0] or e.implicit[1]):
            return ('explicit-tag:scalar', f'dump of {v!r} writes tag {e.tag} on scalar {e.value!r}: {text!r}')
        if isinstance(e, (yaml.SequenceStartEvent, yaml.MappingStartEvent)) and e.tag is not None and not e.implicit:
            return ('explicit-tag:collection', f'dump of {v!r} writes tag {e.tag} on a collection: {text!r}')
    if has_sweeten(model, v):
        # the projection altered only by the classes' own sweeteners (ancestors first, once each), compared as composed trees
        try:
            want = dumpcase.expected_node(v, model, set(model.registered_classes()))
        except Exception:      # noqa   (a sweetener refusing the projection: nothing to compare)
            want = None
        if want is not None:
            got = yaml.compose(text, Loader=yaml.SafeLoader)
            if not dumpcase.same_tree(got, want):
                return ('sweetened-projection', f'dump of {v!r} is not its projection altered once by each own sweeten function: '
                                                f'{text!r} vs {yaml.serialize(want)!r}')
    else:
        try:
            back = yaml.safe_load(text)
        except Exception as e:      # noqa
            return ('plain-parser-fails', f'a plain YAML parser cannot read the dump of {v!r}: {e!r}')
        want = dumpcase.projection(v, model)
        if not dumpcase.structurally_equal(norm(back), norm(want)):
            return ('projection', f'dump of {v!r} read by a plain parser is {back!r}, projection is {want!r}')
    return None


def norm(x):
    """yaml.safe_load is YAML 1.1: compare through strings for scalars that 1.1 types differently only when both sides agree
    on structure; numbers/bools/None/dates as they are."""
    if isinstance(x, dict):
        return {norm(k): norm(v) for k, v in x.items()}
    if isinstance(x, (list, tuple)):
        return [norm(v) for v in x]
    return x


def tie(ctx, model_ok=True):
    import yatiml
    rnd = random.Random(ctx['seed'] * 29 + 606)
    n_models = 120 if ctx['tier'] == 'quick' else 3000
    res = {'evaluations': 0, 'disagreements': [], 'failing': [], 'samples': [],
           'rule': ('generated class models (hierarchies, enums, string-likes, _yatiml_extra, real defaults, sweeteners: '
                    'remove_attributes_with_default_values, dash/underscore keys) x 8 values each drawn from adversarial pools '
                    f'({len(dumpcase.STRINGS)} strings incl. number/bool/null/date look-alikes, YAML indicators, line breaks, NEL/LS, '
                    'non-BMP, lone surrogate; non-finite floats; dates/datetimes with offsets; paths); non-trivial = the value contains '
                    'an object, a look-alike string or a non-finite float')}
    terms, info = [], []
    nontriv = 0
    for model, tyspec, v in dumpcase.gen_cases(rnd, n_models, 8, yattrs=True):
        classes = model.registered_classes()
        dumps = yatiml.dumps_function(*classes)
        before = dumpcase.snapshot(v)
        try:
            text = dumps(v)
        except Exception as e:      # noqa
            text = None
            err = e
        res['evaluations'] += 1
        if text is None:
            res['failing'].append({'signature': f'dump-raises:{type(err).__name__}', 'what': f'dumps({v!r}) raised {err!r}',
                                   'case': {'specs': loadcase_clean(model.specs), 'value': repr(v)}})
            continue
        after = dumpcase.snapshot(v)
        if before != after:
            res['failing'].append({'signature': 'object-modified', 'what': f'dumping {v!r} modified the object graph',
                                   'case': {'specs': loadcase_clean(model.specs), 'value': repr(v)}})
        if dumps(v) != text or yatiml.dumps_function(*classes)(v) != text:
            res['failing'].append({'signature': 'nondeterministic', 'what': f'two dumps of {v!r} differ',
                                   'case': {'specs': loadcase_clean(model.specs), 'value': repr(v)}})
        o = text_oracle(model, v, text)
        if o is not None:
            res['failing'].append({'signature': o[0], 'what': o[1], 'case': {'specs': loadcase_clean(model.specs), 'value': repr(v)}})
        if hasattr(v, '_verif_kwargs') or isinstance(v, (list, dict)):
            nontriv += 1
        # the node tree: implementation's representer vs the model
        d = dumps.dumper(None, None, False, None, None, None, None, None, None, None, None, None, None, False)
        node = None
        try:
            node = d.represent_data(v)
            exp = f'(Ok {encode.node_term(node)})'
        except Exception as e:      # noqa
            exp = f'(Err {encode.exn_term(e)})'
        try:
            terms.append('{| rc_oracle := ' + dumpcase.repr_oracle_term(v, None) + '; rc_specs := ' + model.reg_term()
                         + '; rc_value := ' + dumpcase.dump_term(v, model) + '; rc_expect := ' + exp + ' |}')
            info.append((repr(v)[:100], repr(tyspec)))
        except (TypeError, RecursionError):
            pass
        if len(res['samples']) < 6 and res['evaluations'] % 97 == 1:
            res['samples'].append({'value': repr(v)[:200], 'text': text[:200]})
    res['distinct_nontrivial'] = nontriv
    bad = nodeops.eval_shards('C06', terms, per_shard=200, header=dumpcase.HEADER, fn='rep_mismatches', ctype='repcase')
    res['n_disagreements'] = len(bad)
    for b in bad[:20]:
        res['disagreements'].append({'kind': 'C06-represent', 'value': info[b][0], 'type': info[b][1]})
    return res


def loadcase_clean(specs):
    return [{k: v for k, v in s.items() if not k.startswith('_')} for s in specs]


def search(ctx, broken, details, tie_res):
    """A proof or certificate broke: look for a value whose dump carries a tag / does not read back as its projection,
    over the scalar images the certificates speak about (ints of many sizes, floats, dates, datetimes) and keyword
    strings, alone and inside containers."""
    import datetime
    import yatiml
    rnd = random.Random(ctx['seed'] + 61)
    vals = [0, -1, 7, 10, -10, 2**31, -2**63, 10**30, 0o17, 0x1F, 1.0, -0.0, 1.5e300, 1e-7, 1e16, 123456789.125,
            float('inf'), float('-inf'), float('nan'), True, False, None,
            datetime.date(2001, 12, 14), datetime.date(1, 1, 1), datetime.datetime(2001, 12, 14, 21, 59, 43),
            datetime.datetime(2001, 12, 14, 21, 59, 43, 100000),
            datetime.datetime(2001, 12, 14, 21, 59, 43, tzinfo=datetime.timezone(datetime.timedelta(hours=5, minutes=30))),
            datetime.datetime(1999, 1, 1, 0, 0, 0, 1, tzinfo=datetime.timezone.utc)]
    vals += [rnd.randrange(-10**k, 10**k) for k in range(1, 40)]
    vals += [rnd.uniform(-1, 1) * 10 ** rnd.randrange(-300, 300) for _ in range(200)]
    vals += list(dumpcase.STRINGS)
    model = classgen.Model([])
    dumps = yatiml.dumps_function()
    out = []
    for v in vals:
        for w in (v, [v], {'k': v}):
            try:
                text = dumps(w)
            except Exception as e:      # noqa
                out.append({'signature': f'dump-raises:{type(e).__name__}', 'what': f'dumps({w!r}) raised {e!r}',
                            'case': {'specs': [], 'value': repr(w)}})
                continue
            o = text_oracle(model, w, text)
            if o is not None:
                out.append({'signature': o[0], 'what': o[1], 'case': {'specs': [], 'value': repr(w)}})
    return out[:5]


def replay(case):
    import datetime
    import math
    import yatiml
    if not case.get('specs'):
        try:
            v = eval(case['value'], {'datetime': datetime, 'inf': math.inf, 'nan': math.nan})
        except Exception:     # noqa
            v = None
        if v is not None or case['value'] == 'None':
            text = yatiml.dumps_function()(v)
            o = text_oracle(classgen.Model([]), v, text)
            if o:
                print('  ', o[1])
            return o is not None
    r = tie({'tier': 'quick', 'seed': 0})
    return any(f['case'].get('value') == case.get('value') for f in r['failing'])
