"""C09 -- plain scalars are typed by YAML 1.2 rules for booleans and floats.

Proof:   Props/C09.v over the GENERATED tables (certificate checks).
Tie:     (a) engine+translator: `pymatch re_i s` vs `re_i.match(s)` for every
             translated pattern; (b) `Resolve.resolve` vs the live
             `Loader(...).resolve`, `SafeLoader.resolve`, `Dumper.resolve`;
         on all strings up to a length bound over the number/boolean alphabet
         (enumerated inside Coq and in Python in the same order) plus random
         longer ones; (c) end-to-end `load_function()(s)` type and value
         against the property statement (Python oracle, independent of Coq).
Search:  shortest distinguishing strings from the regex engine, made printable,
         replayed through load_function().
"""
import io
import itertools
import math
import random
import re

import common

PID = 'C09'
MODNAME = 'C09'
PROPS_FILE = 'Props/C09.v'
COQ_FILES = ['Props/C09.v']
ASSUMPTIONS = [
    'quantifies over plain scalars: strings of code points (no EOS symbol); a scalar ending in a line break is not a plain scalar',
    'Python re.match semantics as translated by harness/translate_tables.py (validated each run on the enumerated strings)',
    'py_float_dom / py_bool_dom (Specs.v) model the domains of float() and SafeConstructor.bool_values; the value float() gives is tested, not proved',
]
TRUSTED_EXTRA = []

ALPHA = '019+-.eE_:xnatruflsiTFN'
TAGS = ['str', 'bool', 'float', 'int', 'null', 'timestamp', 'merge', 'value', 'yaml']
SIX = ['true', 'True', 'TRUE', 'false', 'False', 'FALSE']
# independent statement of the YAML 1.2 core float of the property text
FLOAT_RE = re.compile(r'[-+]?(?:(?:[0-9]+[eE][-+]?[0-9]+|[0-9]+\.(?:[eE][-+]?[0-9]+)?|[0-9]*\.[0-9]+(?:[eE][-+]?[0-9]+)?)'
                      r'|\.(?:inf|Inf|INF)|\.(?:nan|NaN|NAN))')


def tag_index(tag):
    if tag.startswith('tag:yaml.org,2002:') and tag[18:] in TAGS:
        return TAGS.index(tag[18:])
    return 15


def impl_objects():
    import yaml
    import yatiml
    from translate_tables import all_patterns
    ld = yatiml.load_function().loader('')
    sl = yaml.SafeLoader('')
    from translate_tables import live_dumper
    dm = live_dumper()          # a Dumper as dumps_function makes it (its table is per instance)
    pats = all_patterns()
    return ld, sl, dm, pats


def impl_digest(objs, s):
    import yaml
    ld, sl, dm, pats = objs
    a = tag_index(ld.resolve(yaml.ScalarNode, s, (True, False)))
    b = tag_index(sl.resolve(yaml.ScalarNode, s, (True, False)))
    c = tag_index(dm.resolve(yaml.ScalarNode, s, (True, False)))
    bits = 0
    for i, (_, r) in enumerate(pats):
        if r.match(s) is not None:
            bits |= 1 << i
    return a + 16 * b + 256 * c + 4096 * bits


COQ_HEADER = '''From Coq Require Import NArith List Bool String. Import ListNotations.
From Y Require Import Prelude Re Resolve Specs Tables.
Open Scope N_scope.
Set Printing Width 1000000. Set Printing Depth 100000000.
Definition tags : list ustring := [tag_str; tag_bool; tag_float; tag_int; tag_null; tag_timestamp; tag_merge; tag_value; tag_yaml].
Fixpoint tindex (t : ustring) (l : list ustring) (i : N) : N :=
  match l with [] => 15 | x :: r => if ueqb t x then i else tindex t r (i + 1) end.
Fixpoint bits (l : list re) (s : ustring) (w : N) : N :=
  match l with [] => 0 | r :: l' => (if pymatch r s then w else 0) + bits l' s (2 * w) end.
Definition digest (s : ustring) : N :=
  tindex (resolve loader_tbl s) tags 0 + 16 * tindex (resolve std_tbl s) tags 0
  + 256 * tindex (resolve dumper_tbl s) tags 0 + 4096 * bits all_res s 1.
Fixpoint wordsn (alpha : list N) (n : nat) : list ustring :=
  match n with O => [[]] | S k => flat_map (fun c => map (cons c) (wordsn alpha k)) alpha end.
'''


def plain_scalar_value(text):
    """If `text` is a YAML document consisting of exactly one untagged plain scalar whose value is
    `text`, return True."""
    import yaml
    try:
        ev = list(yaml.parse(text, Loader=yaml.SafeLoader))
    except yaml.YAMLError:
        return False
    if len(ev) != 5 or not isinstance(ev[2], yaml.ScalarEvent):
        return False
    e = ev[2]
    return e.style is None and e.tag is None and e.anchor is None and e.value == text and e.implicit[0]


def e2e_oracle(load, s):
    """Judge load_function()(s) against the property statement.  Returns None if fine (or the
    property does not speak about s), else (signature, description)."""
    if not plain_scalar_value(s):
        return None
    want_bool = s in SIX
    want_float = FLOAT_RE.fullmatch(s) is not None
    try:
        v = load(s)
        exc = None
    except Exception as e:       # noqa
        v, exc = None, e
    kind = 'bool' if want_bool else 'float' if want_float else 'other'
    if want_bool:
        if exc is not None or type(v) is not bool or v != (s.lower() == 'true'):
            return (f'bool-not-loaded:{s}', f'plain scalar {s!r} is a YAML 1.2 boolean but load gave {v!r} / {exc!r}')
        return None
    if want_float:
        try:
            exp = float(s.replace('.inf', 'inf').replace('.Inf', 'inf').replace('.INF', 'inf')
                        .replace('.nan', 'nan').replace('.NaN', 'nan').replace('.NAN', 'nan'))
        except ValueError:
            return (f'oracle-float-undefined:{s}', f'float() undefined on YAML 1.2 float {s!r}')
        okv = type(v) is float and (v == exp or (math.isnan(v) and math.isnan(exp)))
        if exc is not None or not okv:
            return (f'float-not-loaded:{s}', f'plain scalar {s!r} is a YAML 1.2 float but load gave {v!r} / {exc!r}')
        return None
    # neither: "integer, null and timestamp typing is PyYAML's" -- what PyYAML's own loader resolves to one of those, yatiml's
    # loader resolves to the same tag
    import yaml
    std = yaml.SafeLoader('').resolve(yaml.ScalarNode, s, (True, False))
    if std in ('tag:yaml.org,2002:int', 'tag:yaml.org,2002:null', 'tag:yaml.org,2002:timestamp'):
        got = load.loader('').resolve(yaml.ScalarNode, s, (True, False))
        if got != std:
            return (f'pyyaml-typing-changed:{std[18:]}', f'plain scalar {s!r} is a PyYAML {std[18:]} but yatiml resolves it to {got}')
    # must not come out as bool or float, and a bool/float resolution must not crash
    if exc is not None:
        import yaml
        ld = load.loader('')
        t = ld.resolve(yaml.ScalarNode, s, (True, False))
        if t.endswith(':float') or t.endswith(':bool'):
            cls = 'prefix' if (FLOAT_RE.match(s) or any(s.startswith(b) for b in SIX)) else 'other'
            return (f'resolved-{t[18:]}-but-construct-fails:{cls}',
                    f'plain scalar {s!r} is neither a YAML 1.2 bool nor float, resolves to {t} and construction raises {type(exc).__name__}: {exc}')
        return None     # int / timestamp typing is PyYAML's (C08's business)
    if type(v) is bool or type(v) is float:
        cls = 'prefix' if (FLOAT_RE.match(s) or any(s.startswith(b) for b in SIX)) else s
        return (f'typed-{type(v).__name__}-but-not-yaml12:{cls}',
                f'plain scalar {s!r} is neither a YAML 1.2 bool nor float but loaded as {v!r}')
    return None


def gen_strings(ctx):
    rnd = random.Random(ctx['seed'] * 7919 + 9)
    n_enum = 3 if ctx['tier'] == 'quick' else 4
    n_rand = 4000 if ctx['tier'] == 'quick' else 60000
    enum = []
    for k in range(n_enum + 1):
        enum.extend(''.join(t) for t in itertools.product(ALPHA, repeat=k))
    pool = ALPHA + ALPHA + 'oOyYdDbB~ \n\t#,[]{}&*!|>\'"%@`é \U0001F600\x85'
    seeds = ['1.5', '-1.5e+10', '.inf', '-.INF', '.NaN', 'true', 'FALSE', 'yes', 'No', 'on', 'OFF', '1_000.5',
             '1:30.5', '190:20:30.15', '1e5', '1.e5', '.5', '5.', '0x1F', '017', '0b11', '2001-12-14', '~', 'null',
             '<<', '=', '1.2.3', 'trueish', 'FALSEx', '+.0', '1e', 'e5', '.e5', '-', '+', '.', '..', '.inf.',
             '1.5\n', 'true\n', '6.8523015e+5_0', '0x_', '0b_', '2001-13-45']
    rand = list(seeds)
    while len(rand) < n_rand:
        if rnd.random() < 0.5:
            base = rnd.choice(seeds)
            i = rnd.randrange(len(base) + 1)
            op = rnd.random()
            if op < 0.4:
                s = base[:i] + rnd.choice(pool) + base[i:]
            elif op < 0.7 and base:
                s = base[:max(0, i - 1)] + base[i:]
            else:
                s = base[:i] + rnd.choice(pool) + base[i + 1:]
        else:
            s = ''.join(rnd.choice(pool) for _ in range(rnd.randrange(1, 12)))
        rand.append(s)
    return n_enum, enum, rand


def tie(ctx, model_ok=True):
    import yatiml
    n_enum, enum, rand = gen_strings(ctx)
    objs = impl_objects()
    load = yatiml.load_function()
    res = {'evaluations': 0, 'distinct_nontrivial': 0, 'samples': [], 'disagreements': [], 'failing': [],
           'exhaustive': True,
           'rule': (f'ALL strings of length <= {n_enum} over the {len(ALPHA)}-symbol number/boolean alphabet {ALPHA!r} '
                    f'(enumerated in Coq and Python in the same order) plus {len(rand)} seeded/random longer strings incl. '
                    'line breaks, YAML indicators and non-BMP; per string: 3 resolve results + one re.match bit per translated '
                    'pattern compared between Coq model and implementation, and load_function()(s) judged against the property '
                    'statement; non-trivial = resolves to something other than str in at least one of the three tables')}
    allstr = enum + rand
    impl = [impl_digest(objs, s) for s in allstr]
    # end-to-end oracle on the implementation alone
    dist = {'bool': 0, 'float': 0, 'other-plain': 0, 'not-a-plain-scalar': 0}
    for s in allstr:
        r = e2e_oracle(load, s)
        if plain_scalar_value(s):
            dist['bool' if s in SIX else 'float' if FLOAT_RE.fullmatch(s) else 'other-plain'] += 1
        else:
            dist['not-a-plain-scalar'] += 1
        if r is not None:
            res['failing'].append({'signature': r[0], 'what': r[1], 'case': {'kind': 'e2e', 'text': s}})
    # typing is a function of the scalar and of whether it is plain -- not of what else the document contains: the same text
    # quoted and plain in one document, in both orders and as mapping values
    for s in ['true', 'False', '1.0', '1e5', '.inf', 'null', '~', '12', '0x1F', '2001-01-01', 'yes', '.5', '-1.5e-3', 'TRUE']:
        try:
            alone = load(s)
        except Exception:       # noqa
            continue
        for text, want in ((f'["{s}", {s}]', [s, alone]), (f'[{s}, "{s}"]', [alone, s]), (f"['{s}', {s}, '{s}', {s}]", [s, alone, s, alone]),
                           (f'a: "{s}"\nb: {s}\n', {'a': s, 'b': alone}), (f'a: {s}\nb: "{s}"\n', {'a': alone, 'b': s})):
            try:
                got = load(text)
            except Exception as e:      # noqa
                got = e
            dist['pairs'] = dist.get('pairs', 0) + 1
            same = repr(got) == repr(want)
            if not same:
                res['failing'].append({'signature': 'typing-depends-on-context', 'what':
                                       f'{text!r} loads as {got!r}; each scalar alone gives {want!r}', 'case': {'kind': 'pair', 'text': text}})
    res['distribution'] = dist
    res['evaluations'] = len(allstr)
    res['distinct_nontrivial'] = len({s for s, d in zip(allstr, impl) if d % 4096 != 0})
    res['samples'] = [{'text': s, 'digest': d} for s, d in list(zip(allstr, impl))[300:304]] + \
                     [{'text': s, 'digest': d} for s, d in list(zip(allstr, impl))[-4:]]
    if not model_ok and False:
        return res
    # the table must not depend on the history of the loader class: a second instance, an instance
    # created after a load, and an instance of a class that had add_implicit_resolver() called on
    # it before its first use must all resolve like the table the theorems were proved about
    import re as _re
    import yaml as _yaml
    lf = yatiml.load_function()
    lf('1.5')
    v1 = lf.loader('')
    lf2 = yatiml.load_function(str)
    lf2.loader.add_implicit_resolver('!verif-zz', _re.compile(r'^zzverif$'), ['z'])
    v2 = lf2.loader('')
    lf2('x')
    v3 = lf2.loader('')
    for s in allstr:
        want = objs[0].resolve(_yaml.ScalarNode, s, (True, False))
        for name, v in (('second-instance', v1), ('class-with-added-resolver', v2), ('after-load', v3)):
            got = v.resolve(_yaml.ScalarNode, s, (True, False))
            if got != want:
                r = e2e_oracle(lf2 if v is not v1 else lf, s) if v is v1 else None
                res['failing'].append({'signature': f'table-depends-on-history:{name}',
                                       'what': f'{name}: plain scalar {s!r} resolves to {got} instead of {want}',
                                       'case': {'kind': 'variant', 'variant': name, 'text': s}})
                break
        else:
            continue
        break
    # model side, evaluated inside Coq
    alpha = '[' + '; '.join(str(ord(c)) for c in ALPHA) + ']'
    shards = []
    chunk = 3000
    txt = COQ_HEADER + f'Definition alpha : list N := {alpha}.\n'
    if n_enum <= 3:
        txt += f'Eval vm_compute in map digest (flat_map (wordsn alpha) (seq 0 {n_enum + 1})).\n'
    else:
        # one result list per first symbol for the longest words: a single list of ~300k results overflows Coq's stack
        # when it is printed; the order (length, then lexicographic in alphabet order) is the enumeration order of Python
        txt += f'Eval vm_compute in map digest (flat_map (wordsn alpha) (seq 0 {n_enum})).\n'
        for ch in ALPHA:
            txt += f'Eval vm_compute in map digest (map (cons {ord(ch)}) (wordsn alpha {n_enum - 1})).\n'
    for i in range(0, len(rand), chunk):
        lits = '; '.join(common.coq_ustr(s) for s in rand[i:i + chunk])
        txt += f'Eval vm_compute in map digest [{lits}].\n'
    rc, log = common.coq_eval('Cases_C09', txt, 3000)
    if rc != 0:
        raise common.Broken('correspondence:C09-model-evaluation', log[-2000:])
    vals = []
    for r in common.eval_results(log):
        vals.extend(common.parse_term(r))
    if len(vals) != len(allstr):
        raise common.Broken('correspondence:C09-count', f'{len(vals)} vs {len(allstr)}')
    for s, a, b in zip(allstr, vals, impl):
        if a != b:
            res['disagreements'].append({'kind': 'C09-digest', 'text': s, 'model': a, 'impl': b})
            if len(res['disagreements']) > 20:
                break
    return res


def printable_variants(w):
    """Witness from the regex engine -> candidate replay strings."""
    w = [c for c in w if c != 1114112]
    base = ''.join(chr(c) if c < 0x110000 else '?' for c in w)
    out = [base]
    bad = [i for i, ch in enumerate(base) if not (32 < ord(ch) < 127)]
    cands = 'x0.1-_eE:a~A '
    if bad and len(bad) <= 3:
        for combo in itertools.product(cands, repeat=len(bad)):
            t = list(base)
            for i, ch in zip(bad, combo):
                t[i] = ch
            out.append(''.join(t))
    return out


def search(ctx, broken, details, tie_res):
    import yatiml
    load = yatiml.load_function()
    failing = []
    txt = ('From Coq Require Import NArith List Bool String. Import ListNotations.\n'
           'From Y Require Import Prelude Re Resolve Decide Specs Tables C09Obl.\n'
           'Set Printing Width 1000000. Set Printing Depth 100000000.\n'
           'Eval vm_compute in map (fun \'(n, (a, b)) => (n, counterexample FUEL a b)) c09_obligations.\n')
    # needs the closure of C09Obl only (the property file itself may be broken)
    common.build(['Resolver/C09Obl.vo'])
    rc, log = common.coq_eval('Search_C09', txt, 1200)
    if rc == 0:
        for r in common.eval_results(log):
            for name, w in common.parse_term(r):
                if w is None:
                    continue
                w = w[1] if isinstance(w, tuple) else w
                for cand in printable_variants(w):
                    o = e2e_oracle(load, cand)
                    if o is not None:
                        failing.append({'signature': o[0], 'what': f'[{name}] ' + o[1],
                                        'case': {'kind': 'e2e', 'text': cand, 'obligation': name}})
                        break
    if not failing:
        # the regenerated tables could not be produced or certified and no certificate witness replays: search the implementation
        # directly over strings built from the alphabets the property speaks about (incl. what a widened character class would
        # let in: non-ASCII decimal digits, full-width forms, other Unicode letters)
        odd = ['\u0665', '\uff15', '\u096b', '\u00b2', '\u0661', '\u00e9', '\u00a0', '\uff0e', '\uff45', '\u212f']
        cands = []
        for tmpl in ['1.5', '1e5', '.5', '-1.5', '1.', '1.5e+3', '+.5e-1', '.inf', '-.inf', '.nan', 'true', 'False', 'TRUE', '12.', '0.0']:
            for i in range(len(tmpl)):
                for ch in odd:
                    cands.append(tmpl[:i] + ch + tmpl[i + 1:])
                    cands.append(tmpl[:i] + ch + tmpl[i:])
            cands += [tmpl + ch for ch in odd]
        cands += ['null', 'Null', 'NULL', '~', '0', '-7', '0x1F', '0o7', '017', '1_000', '1:30', '0b101', '2001-01-01', '2001-12-14t21:59:43.10-05:00',
                  '2001-12-14 21:59:43.10 -5', 'nul', 'None', 'N', 'n', 'y', 'o', 'O']
        small = list('01.eE+-_:') + odd[:3]
        cands += [a + b for a in small for b in small] + [a + b + c for a in small for b in small for c in small]
        for cand in cands:
            o = e2e_oracle(load, cand)
            if o is not None:
                failing.append({'signature': o[0], 'what': '[direct search] ' + o[1], 'case': {'kind': 'e2e', 'text': cand}})
                if len(failing) >= 3:
                    break
    for d in tie_res.get('disagreements', []):
        o = e2e_oracle(load, d['text'])
        if o is not None:
            failing.append({'signature': o[0], 'what': o[1], 'case': {'kind': 'e2e', 'text': d['text']}})
    return failing


def replay(case):
    import yatiml
    if case.get('kind') == 'variant':
        r = tie({'tier': 'quick', 'seed': 0})
        return any(f['signature'].startswith('table-depends-on-history') for f in r['failing'])
    load = yatiml.load_function()
    if case.get('kind') == 'pair':
        r = tie({'tier': 'quick', 'seed': 0})
        return any(f['case'].get('text') == case['text'] for f in r['failing'])
    o = e2e_oracle(load, case['text'])
    if o:
        print('  ', o[1])
    return o is not None
