"""C08 -- bad input is reported only as RecognitionError or a YAML error.

Proof:  Props/C08.v: every partial operation of the load model is guarded (error-closure of load).
Tie:    malformed stream: mutated documents, duplicate/complex/merge keys, explicit core tags on
        wrong content, aliases, token soup, arbitrary unicode; exception CLASS compared with the model.
Oracle: the class of the exception leaving load(text).
"""
import random

import loadcase
import loadprop
import oracles

PID = 'C08'
MODNAME = 'C08'
PROPS_FILE = 'Props/C08.v'
COQ_FILES = ['Props/C08.v']
ASSUMPTIONS = [
    '"a savorize function raises" means raises SeasoningError (the documented protocol); recognisers raise RecognitionError',
    'texts PyYAML cannot parse never reach yatiml; that they raise yaml.YAMLError is observed, not modelled',
]
ORACLES = [oracles.c08_oracle]

SOUP = ['- ', ': ', '? ', '[', ']', '{', '}', ',', '&a ', '*a ', '!K0 ', '!!int ', '!!str ', '!!map ', '|\n', '>\n', '"', "'",
        '#', '\n', '  ', 'a', 'b', '1', '1.5', 'true', '~', '<<', '=', '%TAG ! x:\n', '---\n', '...\n', '\t', 'é', '\u2028',
        '\x00', '!!python/object:os.system ', '!<tag:yaml.org,2002:int> ', '!!timestamp ', '!!bool ', '!!float ', '!!binary ',
        '2001-13-45', '0x_', '.inf']


def soup(rnd):
    return ''.join(rnd.choice(SOUP) for _ in range(rnd.randrange(1, 14)))


def stream(ctx):
    rnd = random.Random(ctx['seed'] * 11 + 808)
    n_models = 90 if ctx['tier'] == 'quick' else 3000
    for specs, ty, text, desc in loadcase.gen_cases(rnd, n_models, 6, hooks=True, share_p=0.15):
        yield specs, ty, text, desc
        r = rnd.random()
        if r < 0.25:
            yield specs, ty, soup(rnd), 'token-soup'
        elif r < 0.4:
            # text-level mutation of a valid document
            if text:
                i = rnd.randrange(len(text))
                yield specs, ty, text[:i] + rnd.choice(SOUP) + text[i + rnd.randrange(0, 2):], 'text-mutation'
        elif r < 0.5:
            yield specs, ty, rnd.choice(['&a [*a]', '&a {k: *a}', 'x: &a [1, *a]', '&a [&b [*a, *b]]',
                                         '!!int abc', '!!bool abc', '!!timestamp abc', '!!float x', '!!int ""',
                                         '2001-13-45', '0x_', '0b_', '!!binary "@@"', '{a: 1, a: 2}', '{[1]: 2}',
                                         '{? {a: 1} : 2}', '<<: 1', '<<: [1]', '{<<: {a: 1}, a: 2}']), 'crafted'


def tie(ctx, model_ok=True):
    res = loadprop.run_stream(ctx, 'C08', stream(ctx), ORACLES)
    # an exception of another class that left load() while a user hook was on the stack is excused by the oracle as a crash
    # of the hook itself (misuse of the Node API: the model predicts such crashes as EPy and the tie accepts them).  Where the
    # MODEL says the helper refuses properly (SeasoningError -> RecognitionError) and the implementation lets another exception
    # out, the hook used the API as documented and the exception is yatiml's: a finding with the document as input.
    import yaml
    import yatiml
    for d in res.get('disagreements', []):
        c = d.get('_case')
        if c is None or c.outcome[0] != 'err':
            continue
        e = c.outcome[1]
        if not isinstance(e, (yatiml.RecognitionError, yaml.YAMLError)) and oracles._raised_in_user_hook(e):
            res['failing'].append({'signature': f'escapes:{type(e).__name__}:from-helper-called-by-hook',
                                   'what': f'load raised {type(e).__name__}: {str(e)[:120]} out of a Node helper that a savorize/recognize '
                                           f'hook called as documented (the model: the helper refuses with SeasoningError) for {c.text!r}',
                                   'case': {'specs': loadprop._clean(c.specs), 'type': repr(c.tyspec), 'text': c.text}})
    res['rule'] = ('the C01 stream with more sharing, plus token soup over YAML indicators/tags/anchors, single text-level '
                   'mutations of valid documents, and crafted documents (cyclic aliases, explicit core tags on wrong content, '
                   'duplicate/complex/merge keys); non-trivial = a parseable document that made the load fail, or a load that '
                   'ran user code')
    return loadprop.strip_private(res)


def search(ctx, broken, details, tie_res):
    return []


def replay(case):
    return loadprop.replay_case(case, ORACLES)
