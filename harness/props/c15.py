"""C15 -- structural seasoning transforms are inverse pairs and no-ops when not applicable.

Proof:  Props/C15.v (inverse laws, shapes, no-op lemmas over Model/NodeOps.v).
Tie:    every generated (node, transform, key/value names) run on the real
        yatiml.Node and on the Coq model (vm_compute).
Oracle: documented shape / inverse law / unchanged-node judged on the
        implementation's plain-data view, written from the docstrings.
"""
import itertools
import random

import yaml

import common
import encode
import nodeops
from nodeops import S, Q, M, TAG

PID = 'C15'
MODNAME = 'C15'
PROPS_FILE = 'Props/C15.v'
COQ_FILES = ['Props/C15.v']
ASSUMPTIONS = [
    '"not of the expected kind" is read as: attribute missing, not a sequence/mapping, an item that is not a mapping, or (seq_attribute_to_map) an item without the key attribute; '
    'a key attribute that is present but not a string still raises SeasoningError (documented check), as does a key given twice inside one item',
]
NAMES = ['id', 'v', 'w']


def leaf_pool():
    return [S('x'), S('1', 'int'), Q([S('q')]), M([(S('n'), S('2', 'int'))])]


def item_mappings(rnd, n_items, distinct_ids=True):
    """Lists of item mappings over keys id/v/w."""
    out = []
    for i in range(n_items):
        ks = [k for k in NAMES if rnd.random() < 0.7]
        rnd.shuffle(ks)
        pairs = []
        for k in ks:
            if k == 'id':
                pairs.append((S('id'), S('k%d' % (i if distinct_ids or rnd.random() < 0.5 else 0))))
            else:
                pairs.append((S(k), encode.copy_tree(rnd.choice(leaf_pool()))))
        out.append(M(pairs))
    return out


def all_small_items():
    """Exhaustive: items with key subsets of {id, v, w} in every order, leaves from a 2-element pool."""
    items = []
    for n in range(0, 4):
        for ks in itertools.permutations(NAMES, n):
            for leaves in itertools.product([0, 3], repeat=len([k for k in ks if k != 'id'])):
                it = iter(leaves)
                pairs = []
                for k in ks:
                    pairs.append((S(k), S('kX')) if k == 'id' else (S(k), encode.copy_tree(leaf_pool()[next(it)])))
                items.append(pairs)
    return items


def pv(n):
    return encode.plain_view(n)


def attr(n, a):
    vs = [v for k, v in n.value if isinstance(k, yaml.ScalarNode) and k.value == a]
    return vs[0] if len(vs) == 1 else None


def is_map(n):
    return isinstance(n, yaml.MappingNode)


def str_keys_unique(m):
    ks = [k.value for k, _ in m.value if isinstance(k, yaml.ScalarNode) and k.tag == TAG + 'str']
    return len(ks) == len(m.value) and len(set(ks)) == len(ks)


# ---- documented shapes, written from the docstrings -----------------------------------------

def expect_seq2map(items, k, va):
    out = []
    for it in items:
        key = attr(it, k)
        rest = [(kk, vv) for kk, vv in it.value if kk.value != k]
        if va is not None and len(rest) == 1 and rest[0][0].value == va:
            out.append((pv(key), pv(rest[0][1])))
        else:
            out.append((pv(key), ('m', it.tag, [(pv(a), pv(b)) for a, b in rest])))
    return ('m', TAG + 'map', out)


def expect_map2seq(entries, k, va):
    out = []
    for ek, ev in entries:
        keypair = (('s', TAG + 'str', k), ('s', TAG + 'str', ek.value))
        if is_map(ev):
            rest = [(pv(a), pv(b)) for a, b in ev.value if a.value != k]
            # the key attribute is added (or overwritten in place if the item already has it)
            if any(a.value == k for a, _ in ev.value):
                ps = [(pv(a), keypair[1] if a.value == k else pv(b)) for a, b in ev.value]
            else:
                ps = [(pv(a), pv(b)) for a, b in ev.value] + [keypair]
            out.append(('m', ev.tag, ps))
        else:
            out.append(('m', TAG + 'map', [(('s', TAG + 'str', va), pv(ev)), keypair]))
    return ('q', TAG + 'seq', out)


def expect_idx2map(attrnode, k, va):
    out = []
    for ek, ev in attrnode.value:
        rest = [(a, b) for a, b in ev.value if a.value != k]
        if va is not None and len(rest) == 1 and rest[0][0].value == va:
            out.append((pv(ek), pv(rest[0][1])))
        else:
            out.append((pv(ek), ('m', ev.tag, [(pv(a), pv(b)) for a, b in rest])))
    return ('m', attrnode.tag, out)


def expect_map2idx(attrnode, k, va):
    out = []
    for ek, ev in attrnode.value:
        if not is_map(ev):
            base = ('m', TAG + 'map', [(('s', TAG + 'str', va), pv(ev))])
        else:
            base = pv(ev)
        if any(kk[2] == k for kk, _ in base[2] if kk[0] == 's'):
            out.append((pv(ek), base))
        else:
            out.append((pv(ek), ('m', base[1], base[2] + [(('s', TAG + 'str', k), pv(ek))])))
    return ('m', attrnode.tag, out)


def norm_item(itemview, k):
    """item up to the position of the key attribute"""
    kind, tag, ps = itemview
    if kind != 'm':
        return itemview
    rest = [(a, b) for a, b in ps if not (a[0] == 's' and a[2] == k)]
    key = [(a[2], b) for a, b in ps if a[0] == 's' and a[2] == k]
    return (kind, tag, rest, key)


# ---- the oracle -------------------------------------------------------------------------------

def oracle(init, ops, rets, final, trace):
    a = 'items'
    before = pv(init)
    at = attr(init, a) if is_map(init) else None
    op = ops[0]
    kind = op[0]
    k, va = op[2], op[3]
    r0 = rets[0]
    # --- unchanged-node cases
    def unchanged(reason):
        if r0[0] == 'exn':
            return (f'{kind}:raises-on-{reason}:{type(r0[1]).__name__}',
                    f'{kind}({a!r},{k!r},{va!r}) on attribute that is {reason}: raised {type(r0[1]).__name__}: {r0[1]}')
        if trace[0] != before:
            return (f'{kind}:modifies-on-{reason}', f'{kind}({a!r},{k!r},{va!r}) on attribute that is {reason}: node was modified')
        return None
    if not is_map(init) or not str_keys_unique(init):
        return None
    if at is None:
        return unchanged('missing')
    if kind == 'seq2map':
        if not isinstance(at, yaml.SequenceNode):
            return unchanged('not-a-sequence')
        items = at.value
        if not all(is_map(i) for i in items):
            return unchanged('sequence-with-non-mapping-item')
        if not all(str_keys_unique(i) for i in items):
            return None
        if any(attr(i, k) is not None and not (isinstance(attr(i, k), yaml.ScalarNode) and attr(i, k).tag == TAG + 'str')
               for i in items):
            return None       # a key attribute that is not a string: SeasoningError is the documented check
        if not all(attr(i, k) is not None for i in items):
            # an item without the key attribute makes the transform inapplicable -- unless, in strict mode, a duplicate key is met
            # among the items BEFORE it: the docstring fixes no order between the two checks, so either outcome is accepted there
            seen = []
            for i in items:
                if attr(i, k) is None:
                    break
                seen.append(attr(i, k).value)
            if op[4] and len(set(seen)) != len(seen) and r0[0] == 'exn' and type(r0[1]).__name__ == 'SeasoningError' \
                    and trace[0] == before:
                return None
            return unchanged('item-without-key-attribute')
        keys = [attr(i, k) for i in items]
        if not all(isinstance(x, yaml.ScalarNode) and x.tag == TAG + 'str' for x in keys):
            return None
        dup = len({x.value for x in keys}) != len(keys)
        strict = op[4]
        if dup:
            if strict:
                if not (r0[0] == 'exn' and type(r0[1]).__name__ == 'SeasoningError'):
                    return ('seq2map:dup-strict-no-error', 'duplicate keys in strict mode did not raise SeasoningError')
                if trace[0] != before:
                    return ('seq2map:dup-strict-modified', 'duplicate keys in strict mode: SeasoningError raised but node already modified')
                return None
            return unchanged('duplicate-keys-nonstrict')
        if r0[0] == 'exn':
            return (f'seq2map:raises:{type(r0[1]).__name__}', f'seq_attribute_to_map({k!r},{va!r}) raised {type(r0[1]).__name__}: {r0[1]} on a sequence of mappings with unique string keys')
        got = pv(attr(final if len(ops) == 1 else None, a)) if len(ops) == 1 else None
        mid = dict((kk[2], vv) for kk, vv in trace[0][2]).get(a)
        want = expect_seq2map(items, k, va)
        if mid != want:
            return ('seq2map:shape', f'seq_attribute_to_map({k!r},{va!r}): result is not the documented shape')
        if len(ops) == 2:
            # inverse law
            if va is not None and any(attr(i, va) is not None and is_map(attr(i, va)) for i in items):
                return None
            if rets[1][0] == 'exn':
                return ('inverse1:raises', f'map_attribute_to_seq after seq_attribute_to_map raised {rets[1][1]!r}')
            back = dict((kk[2], vv) for kk, vv in trace[1][2]).get(a)
            orig = pv(at)
            if back[0] != 'q' or [norm_item(x, k) for x in back[2]] != [norm_item(x, k) for x in orig[2]]:
                return ('inverse1:not-restored', f'seq_attribute_to_map then map_attribute_to_seq ({k!r},{va!r}) does not restore the data')
        return None
    # the three transforms on mapping attributes
    if not is_map(at):
        return unchanged('not-a-mapping')
    entries = at.value
    if not all(isinstance(ek, yaml.ScalarNode) and ek.tag == TAG + 'str' for ek, _ in entries):
        return None
    if len({ek.value for ek, _ in entries}) != len(entries):
        return None
    if not all(str_keys_unique(ev) for _, ev in entries if is_map(ev)):
        return None
    allmaps = all(is_map(ev) for _, ev in entries)
    if kind == 'map2seq':
        if va is None and not allmaps:
            return unchanged('mapping-with-non-mapping-value')
        want = expect_map2seq(entries, k, va)
    elif kind == 'idx2map':
        if not allmaps:
            return unchanged('mapping-with-non-mapping-value')
        want = expect_idx2map(at, k, va)
    else:
        if va is None and not allmaps:
            return unchanged('mapping-with-non-mapping-value')
        want = expect_map2idx(at, k, va)
    if r0[0] == 'exn':
        return (f'{kind}:raises:{type(r0[1]).__name__}', f'{kind}({k!r},{va!r}) raised {type(r0[1]).__name__}: {r0[1]}')
    mid = dict((kk[2], vv) for kk, vv in trace[0][2]).get(a)
    if mid != want:
        return (f'{kind}:shape', f'{kind}({k!r},{va!r}): result is not the documented shape')
    if kind == 'idx2map' and len(ops) == 2:
        # inverse: needs inner[k] == outer key (an index), and value attribute not holding a mapping
        for ek, ev in entries:
            kv = attr(ev, k)
            if kv is None or pv(kv) != pv(ek):
                return None
            if va is not None and attr(ev, va) is not None and is_map(attr(ev, va)):
                return None
        if rets[1][0] == 'exn':
            return ('inverse2:raises', f'map_attribute_to_index after index_attribute_to_map raised {rets[1][1]!r}')
        back = dict((kk[2], vv) for kk, vv in trace[1][2]).get(a)
        orig = pv(at)
        if [(x[0], norm_item(x[1], k)) for x in back[2]] != [(x[0], norm_item(x[1], k)) for x in orig[2]]:
            return ('inverse2:not-restored', f'index_attribute_to_map then map_attribute_to_index ({k!r},{va!r}) does not restore the data')
    return None


def dash_oracle(init, ops, rets, trace):
    if not is_map(init) or not all(isinstance(k, yaml.ScalarNode) for k, _ in init.value):
        return None
    for r in rets:
        if r[0] == 'exn':
            return ('dashes:raises', f'{ops} raised {r[1]!r}')
    first = ops[0][0]
    target = '-' if first == 'u2d' else '_'
    if any(target in k.value for k, _ in init.value):
        return None
    if trace[1] != pv(init):
        return ('dashes:not-inverse', f'{ops[0][0]} then {ops[1][0]} does not restore keys {[k.value for k, _ in init.value]}')
    keys1 = [kk[2] for kk, _ in trace[0][2]]
    src = '_' if first == 'u2d' else '-'
    if keys1 != [k.value.replace(src, target) for k, _ in init.value]:
        return ('dashes:wrong-keys', f'{ops[0][0]} gave keys {keys1}')
    return None


def gen_cases(ctx):
    rnd = random.Random(ctx['seed'] * 15485863 + 15)
    cases = []
    hosts = []
    small = all_small_items()
    # exhaustive single items and pairs of items (sequence form and mapping-of-mappings form)
    item_lists = [[p] for p in small]
    picks = small[::3]
    for p, q in itertools.product(picks, repeat=2):
        q2 = [(a, (S('kY') if a.value == 'id' else b)) for a, b in q]
        item_lists.append([p, q2])
    nmax = 160 if ctx['tier'] == 'quick' else len(item_lists)
    if len(item_lists) > nmax:
        item_lists = item_lists[:len(small)] + rnd.sample(item_lists[len(small):], nmax - len(small))
    for il in item_lists:
        seq = Q([M([(encode.copy_tree(a), encode.copy_tree(b)) for a, b in ps]) for ps in il])
        hosts.append(M([(S('name'), S('n')), (S('items'), seq)]))
        ids = []
        for i, ps in enumerate(il):
            kid = [b.value for a, b in ps if a.value == 'id']
            ids.append(kid[0] if kid else 'e%d' % i)
        mp = M([(S(ids[i]), M([(encode.copy_tree(a), encode.copy_tree(b)) for a, b in ps])) for i, ps in enumerate(il)])
        hosts.append(M([(S('items'), mp), (S('z'), S('1', 'int'))]))
    # short forms, scalars, wrong kinds, duplicates, missing
    hosts += [
        M([(S('items'), M([(S('a'), S('x')), (S('b'), M([(S('v'), S('y')), (S('w'), S('1', 'int'))]))]))]),
        M([(S('items'), M([(S('a'), S('x')), (S('b'), Q([S('q')]))]))]),
        M([(S('items'), Q([S('x'), M([(S('id'), S('a'))])]))]),
        M([(S('items'), Q([M([(S('id'), S('a'))]), S('x')]))]),
        M([(S('items'), Q([M([(S('id'), S('a')), (S('v'), S('1', 'int'))]), M([(S('w'), S('x'))])]))]),
        M([(S('items'), Q([M([(S('id'), S('a')), (S('v'), S('1', 'int'))]), M([(S('id'), S('a')), (S('v'), S('2', 'int'))])]))]),
        M([(S('items'), Q([M([(S('id'), S('a'))]), M([(S('id'), S('b'))]), M([(S('id'), S('a'))])]))]),
        M([(S('items'), Q([M([(S('id'), S('1', 'int'))])]))]),
        M([(S('items'), Q([M([(S('id'), S('a')), (S('id'), S('b'))])]))]),
        M([(S('items'), S('scalar'))]), M([(S('other'), S('x'))]), M([(S('items'), Q([]))]), M([(S('items'), M([]))]),
        M([(S('items'), M([(S('a'), M([(S('id'), S('a')), (S('v'), M([(S('deep'), S('1', 'int'))]))]))]))]),
        M([(S('items'), Q([M([(S('id'), S('a')), (S('v'), M([(S('deep'), S('1', 'int'))]))])]))]),
        M([(S('items'), M([(S('a'), M([(S('id'), S('zz')), (S('v'), S('x'))]))]))]),
        M([(S('items'), M([(Q([S('k')]), M([(S('v'), S('x'))]))]))]),
    ]
    for _ in range(80 if ctx['tier'] == 'quick' else 3000):
        il = item_mappings(rnd, rnd.randrange(1, 4), distinct_ids=rnd.random() < 0.8)
        if rnd.random() < 0.5:
            hosts.append(M([(S('items'), Q(il))]))
        else:
            ents = []
            for i, it in enumerate(il):
                kid = attr(it, 'id')
                ents.append((S(kid.value if kid is not None and rnd.random() < 0.8 else 'e%d' % i),
                             it if rnd.random() < 0.85 else encode.copy_tree(rnd.choice(leaf_pool()))))
            hosts.append(M([(S('items'), M(ents))]))
    names = [('id', None), ('id', 'v'), ('v', 'id'), ('v', 'w')] if ctx['tier'] == 'quick' else \
        [('id', None), ('id', 'v'), ('id', 'w'), ('v', 'id'), ('w', None), ('v', 'w')]
    for h in hosts:
        for k, va in names:
            for strict in (True, False):
                cases.append((h, [('seq2map', 'items', k, va, strict), ('map2seq', 'items', k, va)], 'transform'))
            cases.append((h, [('seq2map', 'items', k, va, True)], 'transform'))
            cases.append((h, [('map2seq', 'items', k, va)], 'transform'))
            cases.append((h, [('idx2map', 'items', k, va), ('map2idx', 'items', k, va)], 'transform'))
            cases.append((h, [('map2idx', 'items', k, va)], 'transform'))
    keysets = [['a_b', 'c-d', 'e'], ['a_b-c'], ['__', '--'], ['plain'], [], ['a_b', 'a-b'],
               # keys that are not Python identifiers in either spelling
               ['2fa_enabled', 'my_file.txt', 'x_rate limit'], ['2fa-enabled', 'my-file.txt'], ['_', '-', 'é_ü', 'a_1.b_2'], ['class_', 'for-each']]
    for ks in keysets:
        m = M([(S(k), S('x')) for k in ks])
        cases.append((m, [('u2d',), ('d2u',)], 'dash'))
        cases.append((m, [('d2u',), ('u2d',)], 'dash'))
    cases.append((M([(Q([]), S('x'))]), [('u2d',), ('d2u',)], 'dash'))
    return cases


def tie(ctx, model_ok=True):
    cases = gen_cases(ctx)
    res = {'evaluations': len(cases), 'disagreements': [], 'failing': [], 'samples': [], 'exhaustive': True,
           'rule': ('hosts: every single item mapping over key subsets of {id,v,w} in every order (exhaustive), pairs of such '
                    'items, as a sequence of mappings and as a mapping of mappings, plus short forms, wrong kinds, duplicates, '
                    'missing attribute and random hosts; x 6 choices of (key, value) attribute names x {seq->map[->seq] strict/'
                    'non-strict, map->seq, index->map[->index], map->index}; plus dash/underscore key rewriting. '
                    'non-trivial = the transform changed the node or raised')}
    terms, kept = [], []
    nontrivial = set()
    dist = {}
    for idx, (init, ops, kind) in enumerate(cases):
        final, rets, trace = nodeops.run_impl(init, ops)
        try:
            o = oracle(init, ops, rets, final, trace) if kind == 'transform' else dash_oracle(init, ops, rets, trace)
        except Exception as e:     # noqa  (an unexpected result shape trips the oracle: that is a failure of the shape)
            o = (f'{ops[0][0]}:unexpected-shape', f'{ops}: result has an unexpected shape ({type(e).__name__}: {e})')
        if o is not None:
            res['failing'].append({'signature': o[0], 'what': o[1],
                                   'case': {'init': pv(init), 'ops': repr(ops)}})
        dist[ops[0][0]] = dist.get(ops[0][0], 0) + 1
        try:
            terms.append(nodeops.case_term(init, ops, final, rets))
            kept.append(idx)
        except (TypeError, RecursionError):
            continue
        if pv(final) != pv(init) or any(r[0] == 'exn' for r in rets):
            nontrivial.add((repr(pv(init)), repr(ops)))
    res['distinct_nontrivial'] = len(nontrivial)
    res['distribution'] = dist
    res['samples'] = [{'init': pv(cases[i][0]), 'ops': repr(cases[i][1])} for i in (5, len(cases) // 2, len(cases) - 30)]
    bad = nodeops.eval_shards('C15', terms)
    for b in bad[:30]:
        init, ops, kind = cases[kept[b]]
        res['disagreements'].append({'kind': f'C15-{ops[0][0]}', 'init': pv(init), 'ops': repr(ops)})
    res['n_disagreements'] = len(bad)
    return res


def search(ctx, broken, details, tie_res):
    return []


def replay(case):
    r = tie({'tier': 'quick', 'seed': 0})
    return any(f['case'].get('ops') == case.get('ops') and f['case'].get('init') == case.get('init') for f in r['failing'])
