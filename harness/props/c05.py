"""C05 -- loading what was dumped gives back an equal object (YAML round trip).

Proof:  Props/C05.v -- text level: whatever the dumper may write without quotes, yatiml's loader resolves to the tag the
        representer gave it (regex certificates over BOTH generated tables: strings the dumper regards as str are str for the
        loader; int/float/date/datetime/bool/null images), hence compose(dumps(v)) is the represented tree for every quoting
        decision and every size (C05_reparse_identity).  Node level: what remove_attributes_with_default_values drops is what
        the constructor's default restores.
Tie:    generated class models (unambiguous values only, by an independent over-approximation of the documented recognition
        rules) x values from adversarial pools: load(dumps(v)) judged by structural equality; the load model is evaluated on the
        composed dump (Coq) and compared with the implementation's outcome.
Search: counterexample strings of the failed certificates, wrapped in load(dumps(s)).
"""
import random
import time

import yaml

import classgen
import common
import dumpcase
import encode
import loadcase
import nodeops

PID = 'C05'
MODNAME = 'C05'
PROPS_FILE = 'Props/C05.v'
COQ_FILES = ['Resolver/C05Obl.v', 'Proofs/RoundTrip.v', 'Proofs/PlainRoundTrip.v', 'Proofs/SweetenKeeps.v', 'Proofs/ClassRoundTrip.v', 'Props/C05.v']
ASSUMPTIONS = [
    'structural part (load (represent v) = v for class-typed values) is tied, not proved: C05_roundtrip is stated _partial',
    'values whose class cannot be told from another registered class by the documented recognition rules are outside the quantifier; '
    'they are identified by an independent over-approximation (key sets only) and skipped',
    'shared sub-objects come back as equal copies (C18); identity is not compared',
]


RT_HEADER = ('From Coq Require Import NArith ZArith List Bool String. Import ListNotations.\n'
             'From Y Require Import Prelude Node Tables NodeOps OpsRun Types Recognize Loader Hooks LoadRun Represent ClassRoundTrip.\n'
             'Open Scope N_scope.\nSet Printing Width 1000000. Set Printing Depth 100000000.\n')


def concrete_related(specs, top):
    return [top] + loadcase.all_subclasses(specs, top)


def ancestors(specs, name):
    out = []
    s = loadcase.spec_of(specs, name)
    for b in (s.get('bases', []) if s else []):
        if loadcase.spec_of(specs, b) is not None:
            out.append(b)
            out += ancestors(specs, b)
    return out


def key_test(specs, dname, v):
    """Necessary condition for the documented auto-recogniser to accept the dump of v as class dname."""
    import enum
    d = loadcase.spec_of(specs, dname)
    if d is None or not d.get('registered', True):
        return False
    if isinstance(v, enum.Enum):
        return d['kind'] == 'enum' and v.name in d['members'] or d['kind'] == 'str'
    if hasattr(v, '_verif_str'):
        return d['kind'] == 'str'
    if d['kind'] != 'obj':
        return False
    s = loadcase.spec_of(specs, type(v).__name__)
    keys = {p['name'] for p in s['params']}
    if s.get('extra') and getattr(v, '_yatiml_extra', None):
        keys |= {str(k) for k in v._yatiml_extra}
    keys |= {k.replace('-', '_') for k in keys} | {k.replace('_', '-') for k in keys}
    return all(p['name'] in keys for p in d['params'] if p['required'])


def ambiguous(model, t, v):
    """Over-approximation of 'the documented recognition rules cannot tell which class this is'."""
    specs = model.specs
    if isinstance(v, (list, tuple)):
        et = t[2] if isinstance(t, tuple) and t[0] == 'list' else None
        return any(ambiguous(model, et, x) for x in v)
    if isinstance(v, dict):
        et = t[3] if isinstance(t, tuple) and t[0] == 'dict' else None
        return any(ambiguous(model, et, x) for x in v.values())
    if isinstance(t, tuple) and t[0] == 'optional':
        return ambiguous(model, t[1], v)
    import enum
    if hasattr(v, '_verif_kwargs') or hasattr(v, '_verif_str') or isinstance(v, enum.Enum):
        cname = type(v).__name__
        if not (isinstance(t, tuple) and t[0] == 'class'):
            return True                                 # an object where no class type is declared: never recognisable
        anc = set(ancestors(specs, cname))
        for d in concrete_related(specs, t[1]):
            if d != cname and d not in anc and key_test(specs, d, v):
                return True
        if hasattr(v, '_verif_kwargs'):
            s = loadcase.spec_of(specs, cname)
            for p in s['params']:
                if ambiguous(model, p.get('type'), getattr(v, p['name'])):
                    return True
            if s.get('extra') and any(ambiguous(model, None, x) for x in v._yatiml_extra.values()):
                return True
            # a sweeten/savorize pair of key renamings is an inverse pair only when no extra key contains the renamed character
            if s.get('extra') and any('-' in str(k) or '_' in str(k) for k in v._yatiml_extra) and \
               any(loadcase.spec_of(specs, c).get('sweeten') for c in [cname] + list(anc)):
                return True
        return False
    return False


def twin(specs):
    import copy
    out = copy.deepcopy([{k: x for k, x in s.items() if not k.startswith('_')} for s in specs])
    for s in out:
        s.pop('sweeten', None)
        for p in s.get('params', []):
            p.pop('default', None)
    return out


def show(v):
    if hasattr(v, '_verif_kwargs'):
        return type(v).__name__ + '(' + ', '.join(f'{k}={show(x)}' for k, x in vars(v).items() if not k.startswith('_verif')) + ')'
    if isinstance(v, list):
        return '[' + ', '.join(show(x) for x in v) + ']'
    if isinstance(v, dict):
        return '{' + ', '.join(f'{show(k)}: {show(x)}' for k, x in v.items()) + '}'
    return repr(v)


def roundtrip_oracle(v, text, outcome):
    kind, x = outcome
    if kind != 'ok':
        return (f'roundtrip-raises:{type(x).__name__}', f'load(dumps({show(v)})) raised {type(x).__name__}: {str(x)[:300]!r}; text {text!r}')
    if not dumpcase.structurally_equal(x, v):
        return ('roundtrip-differs', f'load(dumps(v)) = {show(x)} for v = {show(v)}; text {text!r}')
    return None


def string_roundtrip(s):
    import yatiml
    out = []
    for v, T in ((s, str), ([s], None), ({s: s}, None)):
        text = yatiml.dumps_function()(v)
        try:
            back = yatiml.load_function(T)(text) if T else yatiml.load_function()(text)
        except Exception as e:      # noqa
            out.append((f'roundtrip-raises:{type(e).__name__}', f'load(dumps({v!r})) raised {type(e).__name__}: {str(e)[:200]!r}; text {text!r}'))
            continue
        if not dumpcase.structurally_equal(back, v):
            out.append(('roundtrip-differs', f'load(dumps({v!r})) = {back!r}; text {text!r}'))
    return out


def tie(ctx, model_ok=True):
    import yatiml
    rnd = random.Random(ctx['seed'] * 31 + 505)
    n_models = 110 if ctx['tier'] == 'quick' else 2500
    res = {'evaluations': 0, 'disagreements': [], 'failing': [], 'samples': [],
           'rule': ('generated class models (hierarchies, enums incl. str mix-ins, string-likes, _yatiml_extra, real defaults, '
                    'remove_attributes_with_default_values, dash/underscore sweeten+savorize pairs) x 8 values each from adversarial '
                    f'pools ({len(dumpcase.STRINGS)} strings: number/bool/null/date look-alikes in YAML 1.1 and 1.2, indicators, line '
                    'breaks, NEL/LS, non-BMP, lone surrogate; non-finite floats; dates/datetimes with offsets; paths; shared '
                    'sub-objects); plus every pool string alone, in a list and as key and value; skipped = not unambiguous')}
    terms, info = [], []
    rt_terms, rt_info = [], []
    skipped = nontriv = 0
    for s in dumpcase.STRINGS:
        res['evaluations'] += 1
        for sig, what in string_roundtrip(s):
            res['failing'].append({'signature': sig, 'what': what, 'case': {'specs': [], 'string': s}})
    keep_as_is, kept = set(), []

    def directed_index_cases():
        """A mapping keyed by name, stored as a dict of objects that carry their key as an attribute of a class type: the
        sweeten / savorize pair index_attribute_to_map / map_attribute_to_index."""
        from collections import OrderedDict
        col = {'name': 'Col', 'kind': 'enum', 'members': ['red', 'green'], 'bases': [], 'registered': True}
        idt = {'name': 'Ident', 'kind': 'str', 'bases': [], 'strbase': 'yatiml.String', 'registered': True}
        for kt in (('class', 'Ident'), ('class', 'Col'), 'str'):
            item = {'name': 'Item', 'kind': 'obj', 'bases': [], 'extra': False, 'registered': True,
                    'params': [{'name': 'name', 'type': kt, 'required': True}, {'name': 'v', 'type': 'int', 'required': True},
                               {'name': 'w', 'type': ('optional', 'str'), 'required': False, 'default': None}]}
            hold = {'name': 'Hold', 'kind': 'obj', 'bases': [], 'extra': False, 'registered': True,
                    'params': [{'name': 'items', 'type': ('dict', 3, 'str', ('class', 'Item')), 'required': True}],
                    'recognize': [('mapping',)], 'savorize': [('op', ('map2idx', 'items', 'name', 'v'))],
                    'sweeten': [('op', ('idx2map', 'items', 'name', 'v'))]}
            m = classgen.Model([col, idt, item, hold])

            def key(x, m=m, kt=kt):
                return m.cls('Ident')(x) if kt == ('class', 'Ident') else m.cls('Col')[x] if kt == ('class', 'Col') else x
            for names, full in ((['red', 'green'], False), (['red'], True), (['green', 'red'], True)):
                items = OrderedDict((x, m.cls('Item')(name=key(x), v=i, **({'w': 'note'} if full and i else {}))) for i, x in enumerate(names))
                for val, ty in ((m.cls('Hold')(items=items), ('class', 'Hold')), ([m.cls('Hold')(items=items)], ('list', 0, ('class', 'Hold')))):
                    keep_as_is.add(id(val))     # the pair of transforms is an inverse pair only while every item's name is its key
                    kept.append(val)
                    yield m, ty, val

    import itertools
    for model, tyspec, v in itertools.chain(dumpcase.gen_cases(rnd, n_models, 8, toggles='commuting'), directed_index_cases()):
        classes = model.registered_classes()
        if id(v) not in keep_as_is and rnd.random() < 0.25:
            dumpcase.share_in_value(rnd, v)         # the same object twice: dumped as anchor + alias
        if ambiguous(model, tyspec, v):
            skipped += 1
            continue
        dumps = yatiml.dumps_function(*classes)
        try:
            text = dumps(v)
        except Exception:      # noqa  (C06 reports dump failures)
            continue
        try:
            rt_terms.append('{| rt_oracle := ' + dumpcase.repr_oracle_term(v) + '; rt_specs := ' + model.reg_term()
                            + '; rt_value := ' + dumpcase.dump_term(v, model) + '; rt_type := ' + model.ty_term(tyspec) + ' |}')
            rt_info.append(show(v)[:200])
        except Exception:      # noqa
            pass
        t0 = time.time()
        c = loadcase.run_case(model.specs, tyspec, text, model=model)
        slow = time.time() - t0 > 0.25         # recognition is exponential in nesting depth x hierarchy width: judged, not modelled
        res['evaluations'] += 1
        if hasattr(v, '_verif_kwargs'):
            nontriv += 1
        o = roundtrip_oracle(v, text, c.outcome)
        if o is not None:
            res['failing'].append({'signature': o[0], 'what': o[1],
                                   'case': {'specs': [{k: x for k, x in s.items() if not k.startswith('_')} for s in model.specs],
                                            'type': repr(tyspec), 'value': show(v), 'text': text}})
        # the load model on the dumped text: through a twin class model with sentinel defaults, so that the recorded constructor
        # calls show which arguments were passed (with real defaults Python fills them in before the log sees them)
        t = None
        if not slow:
            try:
                c2 = loadcase.run_case(twin(model.specs), tyspec, text)
                t = loadcase.case_term(c2)
            except Exception:      # noqa
                t = None
        if t is not None and len(t) < 200000:
            terms.append(t)
            info.append((text, repr(tyspec)))
        if len(res['samples']) < 6 and res['evaluations'] % 131 == 1:
            res['samples'].append({'value': show(v)[:200], 'text': text[:200]})
    res['distinct_nontrivial'] = nontriv
    res['skipped_ambiguous'] = skipped
    # how many generated cases fall under C05_roundtrip_classes (flat registry, well-typed value), and the theorem's
    # conclusion re-checked there by evaluation of the model
    rep = nodeops.eval_shards('C05rt', rt_terms, per_shard=150, header=RT_HEADER, fn='rt_report', ctype='rtcase') if rt_terms else []
    inside = [x for x in rep if x % 1000000 == x]
    contra = [x % 1000000 for x in rep if x >= 1000000]
    res['distribution'] = {'in_flat_fragment_of_theorem': len(inside) + len(contra), 'cases_offered': len(rt_terms)}
    for b in contra[:5]:
        res['disagreements'].append({'kind': 'C05-class-roundtrip-theorem-vs-evaluation', 'value': rt_info[b]})
    bad = loadcase.eval_cases('C05', terms)
    res['n_disagreements'] = len(bad)
    for b in bad[:20]:
        res['disagreements'].append({'kind': 'C05-load-of-dump', 'text': info[b][0], 'type': info[b][1]})
    return res


def printable_variants(w):
    try:
        s = ''.join(chr(c) for c in w if c < 0x110000)
    except (ValueError, TypeError):
        return []
    return [s]


def search(ctx, broken, details, tie_res):
    """Counterexample strings of the failed certificates, each replayed as load(dumps(s))."""
    failing = []
    txt = ('From Coq Require Import NArith List Bool String. Import ListNotations.\n'
           'From Y Require Import Prelude Re Resolve Decide Images Tables C05Obl.\n'
           'Set Printing Width 1000000. Set Printing Depth 100000000.\n'
           'Eval vm_compute in map (fun \'(n, (a, b)) => (n, counterexample FUEL a b)) c05_obligations.\n')
    common.build(['Resolver/C05Obl.vo'])
    rc, log = common.coq_eval('Search_C05', txt, 1200)
    cands = []
    if rc == 0:
        for r in common.eval_results(log):
            for name, w in common.parse_term(r):
                if w is None:
                    continue
                w = w[1] if isinstance(w, tuple) else w
                cands += [(name, c) for c in printable_variants(w)]
    details['certificate_counterexamples'] = [(n, c) for n, c in cands][:20]
    for name, cand in cands:
        for sig, what in string_roundtrip(cand):
            failing.append({'signature': sig, 'what': f'[{name}] ' + what, 'case': {'specs': [], 'string': cand}})
            break
    return failing[:5]


def replay(case):
    if 'string' in case:
        r = string_roundtrip(case['string'])
        for sig, what in r:
            print('  ', what)
        return bool(r)
    r = tie({'tier': 'quick', 'seed': 0})
    return any(f['case'].get('text') == case.get('text') for f in r['failing'])
