"""C01 -- a loaded value always conforms to the declared type.

Proof:  Props/C01.v: process establishes well_tagged, construction of a well-tagged node conforms
        (for arbitrary recognisers and savorize functions).
Tie:    random class models x documents (valid, mutated, tag-injected, empty); only the direction
        "implementation returns a value => the model returns the same value" is compared, so a change that
        merely rejects more documents does not alarm this property.
Oracle: conformance of the returned value, judged in Python directly from the property text.
"""
import random

import loadcase
import loadprop
import oracles

PID = 'C01'
MODNAME = 'C01'
PROPS_FILE = 'Props/C01.v'
COQ_FILES = ['Props/C01.v']
ASSUMPTIONS = [
    'scalars other than str/null are constructed by PyYAML; their values enter through a per-case oracle table (oracle_wf checked)',
    'user hooks are arbitrary functions in the theorem; in the tie they come from the hook DSL',
]
ORACLES = [oracles.c01_oracle]


def tie(ctx, model_ok=True):
    rnd = random.Random(ctx['seed'] * 7 + 101)
    n_models = 110 if ctx['tier'] == 'quick' else 2500
    stream = loadcase.gen_cases(rnd, n_models, 8, hooks=True, share_p=0.05)
    res = loadprop.run_stream(ctx, 'C01', stream, ORACLES, compare_if=lambda c: c.outcome[0] == 'ok')
    res['rule'] = ('random class models (<= 5 classes: hierarchies, enums, string-likes, unions, abstract variants, Any, '
                   'untyped params, _yatiml_extra, recognisers and savorize programs from the DSL incl. wrong ones) x 8 '
                   'documents each (valid, 1-2 point mutations incl. tag injection, shared nodes, empty stream); '
                   'non-trivial = load succeeded and ran at least one user constructor/hook, or failed on a parseable document')
    return loadprop.strip_private(res)


def search(ctx, broken, details, tie_res):
    return []


def replay(case):
    return loadprop.replay_case(case, ORACLES)
