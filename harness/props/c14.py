"""C14 -- yatiml.Node accessors behave like an ordered map and a typed scalar.

Proof:  Props/C14.v (refinement of the six accessors to an association list,
        classification, set_value/get_value, get_value = construction,
        remove_attributes_with_default_values).
Tie:    operation sequences run on the real yatiml.Node and on Model/OpsRun.v
        (vm_compute); exhaustive short sequences over a small pool plus random
        longer ones; scalar spellings; (default, value) pairs.
Oracle: the property statement evaluated directly on the implementation
        (OrderedDict simulation, load() vs get_value(), equality-with-default).
"""
import itertools
import math
import random
from collections import OrderedDict

import yaml

import common
import encode
import nodeops
from nodeops import S, Q, M, TAG

PID = 'C14'
MODNAME = 'C14'
PROPS_FILE = 'Props/C14.v'
COQ_FILES = ['Props/C14.v']
ASSUMPTIONS = [
    'mapping helpers are specified for mapping nodes (the documentation says "use only if is_mapping()"); misuse is compared only as "some Python exception"',
    'int/float scalar denotations come from PyYAML SafeConstructor through a per-case oracle table (oracle_wf checked per case)',
    'float equality is Python == on float.hex() forms (equal text or both zeros, nan unequal)',
]
KEYS = ['a', 'b', 'c']


def value_pool():
    return [S('1', 'int'), S('x'), Q([]), M([(S('a'), S('1', 'int'))])]


def accessor_ops():
    ops = []
    for k in KEYS:
        ops += [('has', k), ('get', k), ('remove', k),
                ('set', k, ('sv', 7)), ('set', k, ('node', M([(S('z'), S('true', 'bool'))])))]
        for k2 in KEYS:
            ops.append(('rename', k, k2))
        for t in ('int', 'str', 'list', 'dict'):
            ops.append(('hastype', k, t))
    return ops


def mappings():
    out = []
    pool = value_pool()
    for n in range(0, 4):
        for ks in itertools.permutations(KEYS, n):
            out.append(M([(S(k), encode.copy_tree(pool[(i + len(ks)) % len(pool)])) for i, k in enumerate(ks)]))
    return out


# ---- property oracle 1: ordered-dict simulation (mapping with distinct string keys)
def odict_oracle(init, ops, rets, trace):
    d = OrderedDict((k.value, encode.plain_view(v)) for k, v in init.value)
    if len(d) != len(init.value):
        return None
    for i, (op, r) in enumerate(zip(ops, rets)):
        k = op[0]
        exp_exn = None
        exp_ret = ('none', None)
        if k == 'has':
            exp_ret = ('bool', op[1] in d)
        elif k == 'get':
            if op[1] in d:
                exp_ret = ('view', d[op[1]])
            else:
                exp_exn = 'SeasoningError'
        elif k == 'set':
            kind, x = op[2]
            nv = encode.plain_view(x) if kind == 'node' else \
                ('s', TAG + {bool: 'bool', int: 'int', float: 'float', str: 'str', type(None): 'null'}[type(x)],
                 ('true' if x else 'false') if isinstance(x, bool) else '' if x is None else str(x))
            d[op[1]] = nv
        elif k == 'remove':
            d.pop(op[1], None)
        elif k == 'rename':
            if op[1] in d:
                if op[2] in d and op[2] != op[1]:
                    return None          # leaves the precondition (distinct keys): property silent from here
                d = OrderedDict((op[2] if kk == op[1] else kk, vv) for kk, vv in d.items())
        elif k == 'hastype':
            if op[1] not in d:
                exp_ret = ('bool', False)
            else:
                v = d[op[1]]
                t = op[2]
                if t == 'list':
                    exp_ret = ('bool', v[0] == 'q')
                elif t == 'dict':
                    exp_ret = ('bool', v[0] == 'm')
                else:
                    tags = {'int': 'int', 'str': 'str', 'float': 'float', 'bool': 'bool', 'none': 'null'}
                    exp_ret = ('bool', v[1] == TAG + tags[t])
        else:
            return None
        # compare
        if exp_exn:
            if not (r[0] == 'exn' and type(r[1]).__name__ == exp_exn):
                return (f'odict:{k}', f'op {i} {op}: expected {exp_exn}, got {r}')
        else:
            got = r
            if r[0] == 'exn':
                return (f'odict:{k}', f'op {i} {op}: unexpected {type(r[1]).__name__}: {r[1]}')
            if exp_ret[0] == 'view':
                if not (r[0] == 'node' and encode.plain_view(r[1]) == exp_ret[1]):
                    return (f'odict:{k}', f'op {i} {op}: returned node differs')
            elif (got[0], got[1]) != exp_ret:
                return (f'odict:{k}', f'op {i} {op}: returned {got}, ordered dict says {exp_ret}')
        tv = trace[i]
        if tv is None or tv[0] != 'm':
            return (f'odict:{k}', f'op {i} {op}: node is no longer a mapping')
        now = [(kk[2], vv) for kk, vv in tv[2]]
        if now != list(d.items()):
            return (f'odict:{k}', f'op {i} {op}: mapping is {[x[0] for x in now]} with values differing from ordered dict {list(d.keys())}')
    return None


# ---- property oracle 2: scalar laws
SCALAR_TEXTS = ['', 'a', 'true', 'True', 'FALSE', 'yes', '1', '-17', '017', '0x1F', '0b11', '1_000', '1:30', '+12',
                '1.5', '-1.5e3', '.inf', '-.INF', '.nan', '1e5', '5.', '.5', '1_0.5', '~', 'null', 'Null', '2001-12-14',
                '0o17', '0', '-0', '190:20:30', '1.5e+300', '1e-7', 'é', '12345678901234567890123']


def same_value(a, b):
    if type(a) is not type(b):
        return False
    if isinstance(a, float):
        return a == b or (math.isnan(a) and math.isnan(b))
    return a == b


def scalar_cases():
    """(init node, ops) for classification / get_value / set_value."""
    import yatiml
    ld = yatiml.load_function().loader('')
    cases = []
    for t in SCALAR_TEXTS:
        tag = ld.resolve(yaml.ScalarNode, t, (True, False))
        n = yaml.ScalarNode(tag, t)
        cases.append((n, [('isscalar', 'any'), ('ismapping',), ('issequence',), ('isscalar', 'str'), ('isscalar', 'int'),
                          ('isscalar', 'float'), ('isscalar', 'bool'), ('isscalar', 'none'), ('isscalar', 'nonetype'),
                          ('isscalar', 'boolfix'), ('isscalar', 'date'), ('isscalar', 'list'), ('isscalar', 'invalid'),
                          ('getvalue',)]))
    vals = ['', 'x', 'true', '1', 'null', 'é\n', 0, -5, 10 ** 20, 1.5, -0.0, float('inf'), float('-inf'), float('nan'),
            1e300, 1e-7, 0.1, True, False, None]
    hosts = [S('old'), S('3', 'int'), yaml.ScalarNode('!Foo', 'old'), M([(S('a'), S('b'))]), Q([S('a')]),
             M([], '!Bar')]
    for h in hosts:
        for v in vals:
            tname = {bool: 'bool', int: 'int', float: 'float', str: 'str', type(None): 'nonetype'}[type(v)]
            cases.append((h, [('setvalue', v), ('getvalue',), ('isscalar', tname), ('isscalar', 'any'),
                              ('ismapping',), ('issequence',)]))
    for h in hosts:
        cases.append((h, [('ismapping',), ('issequence',), ('isscalar', 'any'), ('isscalar', 'int'), ('isempty',),
                          ('makemapping',), ('ismapping',), ('isempty',)]))
    return cases


def scalar_oracle(init, ops, rets):
    import yatiml
    # classification partitions
    for op, r in zip(ops, rets):
        pass
    kinds = {op[0]: r for op, r in zip(ops, rets) if op in (('ismapping',), ('issequence',), ('isscalar', 'any'))}
    if ops and ops[0] == ('isscalar', 'any') and len(ops) > 13 and ops[13] == ('getvalue',):
        a, b, c = rets[0], rets[1], rets[2]
        if [a[1], b[1], c[1]].count(True) != 1:
            return ('classify', f'is_scalar/is_mapping/is_sequence = {a[1]},{b[1]},{c[1]} on {init.tag} {init.value!r}')
        # get_value on a parsed scalar returns what a load would construct
        text = init.value
        from props.c09 import plain_scalar_value
        if plain_scalar_value(text):
            try:
                want = ('ok', yatiml.load_function()(text))
            except Exception as e:    # noqa
                want = ('err', e)
            got = rets[13]
            if want[0] == 'ok' and isinstance(want[1], (str, int, float, bool, type(None))):
                if got[0] != 'value' or not same_value(got[1], want[1]):
                    cls = 'int' if init.tag.endswith(':int') else 'float' if init.tag.endswith(':float') else init.tag
                    return (f'get_value-vs-load:{cls}',
                            f'parsed scalar {text!r} ({init.tag}): load constructs {want[1]!r} but get_value gives '
                            f'{got[1] if got[0] == "value" else type(got[1]).__name__ + ": " + str(got[1])!r}')
        return None
    if ops and ops[0][0] == 'setvalue':
        v = ops[0][1]
        if rets[0][0] == 'exn':
            return ('set_value-raises', f'set_value({v!r}) raised {rets[0][1]!r}')
        g, isc = rets[1], rets[2]
        host = 'class-tagged' if not init.tag.startswith(TAG) else 'core-tagged'
        if g[0] != 'value' or not same_value(g[1], v):
            return (f'set_value-get_value:{host}', f'set_value({v!r}) on {init.tag} node then get_value() gives {g}')
        if isc != ('bool', True):
            return (f'set_value-is_scalar:{host}', f'set_value({v!r}) on {init.tag} node then is_scalar(type(v)) gives {isc}')
        if rets[3] != ('bool', True) or rets[4] != ('bool', False) or rets[5] != ('bool', False):
            return ('classify', f'after set_value classification is {rets[3:6]}')
    return None


# ---- property oracle 3: remove_attributes_with_default_values
def default_pool():
    return [None, True, False, 0, 1, -3, 10 ** 20, 0.0, 1.0, 1.5, float('inf'), float('nan'), '', 'x', '1', 'true',
            'None', 'null', [], {}, 'é']


def represent(v):
    return yaml.SafeDumper(None).represent_data(v)


def default_cases():
    cases = []
    pool = default_pool()
    for d in pool:
        for v in pool:
            init = M([(S('x'), represent(v)), (S('y'), represent(5))])
            cases.append((init, [('rmdefaults', [('x', True, d)], None)], (d, v, True)))
    # parsed spellings against numeric/bool defaults
    for text, tag in (('0x1F', 'int'), ('017', 'int'), ('1_000', 'int'), ('.inf', 'float'), ('1e3', 'float'),
                      ('yes', 'bool'), ('No', 'bool'), ('TRUE', 'bool'), ('~', 'null'), ('1:30', 'int')):
        for d in (31, 15, 1000, float('inf'), 1000.0, True, False, None, 90):
            init = M([(S('x'), S(text, tag)), (S('y'), S('k'))])
            kind, val = encode.construct_scalar(TAG + tag, text)
            cases.append((init, [('rmdefaults', [('x', True, d)], None)], (d, val if kind == 'ok' else object(), True)))
    # _yatiml_defaults: overrides a defaulted parameter; entries for required or unknown names are ignored
    for d in (None, 5, 'x', 1.5, True, []):
        for v in (None, 5, 'x', 1.5, True, [], 6):
            init = M([(S('r'), represent(v)), (S('x'), represent(v)), (S('y'), represent(v))])
            cases.append((init, [('rmdefaults', [('r', False, None), ('x', True, 'sig'), ('y', True, d)],
                                  {'x': d, 'r': d, 'zz': d})], (d, v, 'ovr')))
    return cases


def strict_equal(v, d):
    if type(v) is not type(d):
        return False
    if isinstance(v, float):
        return v == d
    return v == d


def default_oracle(init, ops, rets, final, dv):
    d, v, mode = dv
    if rets[0][0] == 'exn':
        return (f'rmdefaults-raises:{type(rets[0][1]).__name__}',
                f'remove_attributes_with_default_values raised {type(rets[0][1]).__name__}: {rets[0][1]} for default {d!r} and value {v!r}')
    keys = [k.value for k, _ in final.value]
    removed = 'x' not in keys
    want = strict_equal(v, d)
    if mode == 'ovr':
        if 'r' not in keys:
            return ('rmdefaults-removes-required', f'required (non-defaulted) attribute removed because _yatiml_defaults names it (value {v!r})')
        if ('y' not in keys) != want or removed != want:
            return ('rmdefaults-override', f'_yatiml_defaults {d!r} vs value {v!r}: x {"removed" if removed else "kept"}, y {"removed" if "y" not in keys else "kept"}, expected both {"removed" if want else "kept"}')
        return None
    if 'y' not in keys or removed != want:
        return (f'rmdefaults-wrong:{type(d).__name__}-vs-{type(v).__name__}',
                f'default {d!r}, value {v!r}: attribute {"removed" if removed else "kept"}, expected {"removed" if want else "kept"}')
    return None


def gen_cases(ctx):
    rnd = random.Random(ctx['seed'] * 104729 + 14)
    aops = accessor_ops()
    maps = mappings()
    cases = []      # (init, ops, oracle_kind, extra)
    depth = 2 if ctx['tier'] == 'quick' else 2
    for m in maps:
        for n in range(0, depth + 1):
            for seq in itertools.product(aops, repeat=n):
                cases.append((m, list(seq), 'odict', None))
    nrand = 3000 if ctx['tier'] == 'quick' else 60000
    dupmaps = [M([(S('a'), S('1', 'int')), (S('a'), S('2', 'int')), (S('b'), S('x'))]),
               M([(S('1', 'int'), S('x')), (Q([]), S('y')), (S('a'), S('z'))])]
    for _ in range(nrand):
        m = rnd.choice(maps + dupmaps) if rnd.random() < 0.9 else rnd.choice([S('x'), Q([S('a')])])
        k = rnd.randrange(3, 8)
        cases.append((m, [rnd.choice(aops) for _ in range(k)], 'odict', None))
    for init, ops in scalar_cases():
        cases.append((init, ops, 'scalar', None))
    for init, ops, dv in default_cases():
        cases.append((init, ops, 'default', dv))
    return cases


def tie(ctx, model_ok=True):
    cases = gen_cases(ctx)
    res = {'evaluations': len(cases), 'disagreements': [], 'failing': [], 'samples': [],
           'exhaustive': True,
           'rule': ('accessors: ALL sequences of length <= 2 over 39 accessor op instances (has/get/set/remove/rename/'
                    'has_attribute_type x keys a,b,c) on all 16 ordered mappings over keys a,b,c, plus random sequences of '
                    'length 3-7 (also on duplicate-key / non-string-key mappings and non-mappings); scalars: '
                    f'{len(SCALAR_TEXTS)} spellings x classification/get_value, 6 host nodes x 20 values x set_value/get_value; '
                    'defaults: all (default, value) pairs over a 22-value pool plus parsed spellings; non-trivial = at least '
                    'one op changes the node or returns a non-False result')}
    terms, kept = [], []
    dist = {'odict': 0, 'scalar': 0, 'default': 0}
    nontrivial = set()
    for idx, (init, ops, kind, extra) in enumerate(cases):
        final, rets, trace = nodeops.run_impl(init, ops)
        dist[kind] += 1
        o = None
        if kind == 'odict' and isinstance(init, yaml.MappingNode):
            if all(isinstance(k, yaml.ScalarNode) and k.tag == TAG + 'str' for k, _ in init.value):
                o = odict_oracle(init, ops, rets, trace)
        elif kind == 'scalar':
            o = scalar_oracle(init, ops, rets)
        elif kind == 'default':
            o = default_oracle(init, ops, rets, final, extra)
        if o is not None:
            res['failing'].append({'signature': o[0], 'what': o[1],
                                   'case': {'kind': kind, 'init': encode.plain_view(init), 'ops': repr(ops)}})
        try:
            terms.append(nodeops.case_term(init, ops, final, rets))
            kept.append(idx)
        except (TypeError, RecursionError):
            continue
        if encode.plain_view(final) != encode.plain_view(init) or any(r[0] != 'bool' or r[1] for r in rets):
            nontrivial.add((repr(encode.plain_view(init)), repr(ops)))
    res['distinct_nontrivial'] = len(nontrivial)
    res['distribution'] = dist
    res['samples'] = [{'init': encode.plain_view(cases[i][0]), 'ops': repr(cases[i][1])} for i in (40, 700, len(cases) - 500, len(cases) - 3)]
    bad = nodeops.eval_shards('C14', terms)
    for b in bad[:30]:
        init, ops, kind, extra = cases[kept[b]]
        res['disagreements'].append({'kind': f'C14-{kind}', 'init': encode.plain_view(init), 'ops': repr(ops)})
    res['n_disagreements'] = len(bad)
    return res


def search(ctx, broken, details, tie_res):
    # the oracles already ran on every case in tie(); disagreeing cases were judged there too
    return []


def replay(case):
    print('  replay: re-run ./check C14 (cases are regenerated deterministically from the seed);', case.get('ops'))
    r = tie({'tier': 'quick', 'seed': 0})
    return any(f['case'].get('ops') == case.get('ops') and f['case'].get('init') == case.get('init') for f in r['failing'])
