"""C17 -- recognition errors point at the offending place.

Proof:  Props/C17.v: every position the recogniser's error tree cites is the position of a node of the document (for documents
        and class hierarchies of every size), and a failed recognition at the document root cites at least one.
Tie:    the positions cited in the implementation's RecognitionError message (parsed "line N, column M") against the leaf marks
        of the model's error tree, for failures raised by the recogniser.
Oracle (judged directly on the message): every RecognitionError for a parseable document cites a position, every cited position
        lies inside the document; for hierarchy-free models and single-point corruptions of valid documents some cited position
        is on the line of the corrupted node, of its key, or of the start of an enclosing mapping, and an unknown / missing key is
        named.
"""
import copy
import random
import re

import yaml

import classgen
import encode
import loadcase
import loadprop
import nodeops
from common import coq_ustr

PID = 'C17'
MODNAME = 'C17'
PROPS_FILE = 'Props/C17.v'
COQ_FILES = ['Model/ErrRun.v', 'Proofs/ErrorMarks.v', 'Props/C17.v']
ASSUMPTIONS = [
    'the wording of messages is not modelled, only which positions and key names they cite',
    'errors raised after recognition (constructor type check, user __init__) are judged by the oracle only',
]

POS = re.compile(r'line (\d+), column (\d+)')


def cited(msg):
    return [(int(a), int(b)) for a, b in POS.findall(msg)]


def flat_model(rnd):
    """A hierarchy-free class model: no bases, no recognise hooks, several required and optional attributes, nested classes."""
    n = rnd.randrange(1, 4)
    names = [f'K{i}' for i in range(n)]
    specs = []
    for i, name in enumerate(names):
        if rnd.random() < 0.15 and i > 0:
            specs.append({'name': name, 'kind': 'enum', 'members': ['red', 'green', 'blue_1'], 'bases': [], 'registered': True})
            continue
        params = []
        pool = ['name', 'size', 'kind', 'max_size', 'items', 'opt', 'host', 'port', 'mode', 'tags', 'path', 'level']
        rnd.shuffle(pool)
        for pn in pool[:rnd.choice([2, 3, 4, 9, 10])]:
            t = rnd.choice(['str', 'int', 'float', 'bool', ('list', 0, 'int'), ('dict', 3, 'str', 'str'), ('optional', 'int'),
                            ('union', ['int', ('list', 0, 'int')]), ('union', ['float', ('list', 1, 'float')]),
                            # collections below a Union / Optional, two levels deep: the failure is far below the Union's node
                            ('optional', ('dict', 3, 'str', ('dict', 3, 'str', 'int'))),
                            ('union', [('dict', 3, 'str', ('dict', 3, 'str', 'int')), ('list', 0, 'int')]),
                            ('optional', ('list', 0, ('dict', 3, 'str', 'float'))), ('dict', 3, 'str', ('list', 0, 'int')),
                            # Unions with many members: every member's complaint is listed, the one about the corrupted place too
                            ('union', ['int', 'float', 'bool', ('list', 0, 'int'), ('dict', 3, 'str', ('dict', 3, 'str', 'int'))])] +
                           ([('union', ['int', 'float', 'bool', ('class', names[i - 1])])] if i > 0 else []) +
                           ([('class', names[i - 1])] if i > 0 else []))
            params.append({'name': pn, 'type': t, 'required': rnd.random() < 0.6})
        if not any(p['required'] for p in params):
            params[0]['required'] = True
        params.sort(key=lambda p: not p['required'])
        specs.append({'name': name, 'kind': 'obj', 'bases': [], 'params': params, 'extra': False, 'registered': True})
    return specs


def path_nodes(node, path=()):
    """(path, node, key node or None, enclosing mapping chain) for every node."""
    out = [(path, node)]
    if isinstance(node, yaml.SequenceNode):
        for i, x in enumerate(node.value):
            out += path_nodes(x, path + (('i', i),))
    elif isinstance(node, yaml.MappingNode):
        for i, (k, v) in enumerate(node.value):
            out += path_nodes(v, path + (('v', i),))
    return out


def get(node, path):
    for kind, i in path:
        node = node.value[i] if kind == 'i' else node.value[i][1]
    return node


def enclosing(node, path):
    """The nodes on the way from the root to the node at path: mappings, and the key of each step."""
    out = [node]
    for kind, i in path:
        if kind == 'v':
            out.append(node.value[i][0])
            node = node.value[i][1]
        else:
            node = node.value[i]
        out.append(node)
    return out


def corrupt(rnd, specs, tyspec, node):
    """One single-point corruption.  Returns (kind, path of the place, key name to be named or None) or None."""
    nodes = path_nodes(node)
    kind = rnd.choice(['wrong-scalar', 'wrong-scalar', 'misspelt-key', 'dropped-key', 'added-key', 'enum-member'])
    if kind == 'wrong-scalar':
        sc = [(p, x) for p, x in nodes if isinstance(x, yaml.ScalarNode) and x.tag.endswith((':int', ':float', ':bool'))]
        if not sc:
            return None
        p, x = rnd.choice(sc)
        if rnd.random() < 0.5:
            x.tag, x.value = 'tag:yaml.org,2002:str', 'twenty'        # a word where a number / bool is expected
            return ('wrong-scalar-type', p, None)
        x.tag, x.value = 'tag:yaml.org,2002:seq', None
        # replace by a sequence: wrong for every scalar type
        parent = get(node, p[:-1]) if p else None
        new = yaml.SequenceNode('tag:yaml.org,2002:seq', [yaml.ScalarNode('tag:yaml.org,2002:str', 'oops')])
        if parent is None:
            return None
        if p[-1][0] == 'i':
            parent.value[p[-1][1]] = new
        else:
            parent.value[p[-1][1]] = (parent.value[p[-1][1]][0], new)
        return (kind, p, None)
    maps = [(p, x) for p, x in nodes if isinstance(x, yaml.MappingNode) and x.value and getattr(x, '_c17_class', None)]
    if not maps:
        return None
    p, m = rnd.choice(maps)
    s = loadcase.spec_of(specs, m._c17_class)
    req = [q['name'] for q in s['params'] if q['required']]
    keys = [k.value for k, _ in m.value]
    if kind == 'misspelt-key':
        cand = [i for i, k in enumerate(keys) if k in req]
        if not cand:
            return None
        i = rnd.choice(cand)
        old = keys[i]
        m.value[i][0].value = old + 'x'
        return (kind, p, old + 'x')
    if kind == 'dropped-key':
        cand = [i for i, k in enumerate(keys) if k in req]
        if not cand:
            return None
        i = rnd.choice(cand)
        old = keys[i]
        del m.value[i]
        return (kind, p, old)
    if kind == 'added-key':
        m.value.append((yaml.ScalarNode('tag:yaml.org,2002:str', 'surplus'), yaml.ScalarNode('tag:yaml.org,2002:int', '1')))
        return (kind, p, 'surplus')
    if kind == 'enum-member':
        en = [(p2, x) for p2, x in nodes if getattr(x, '_c17_enum', False)]
        if not en:
            return None
        p2, x = rnd.choice(en)
        x.value = 'no_such_member'
        return (kind, p2, None)
    return None


def gen_valid(rnd, specs, t):
    """A valid node for t with every class mapping annotated by its class (hierarchy-free, so it is the class of the type)."""
    if t == 'str':
        return yaml.ScalarNode('tag:yaml.org,2002:str', rnd.choice(['a', 'hello', 'x y']))
    if t == 'int':
        return yaml.ScalarNode('tag:yaml.org,2002:int', str(rnd.randrange(100)))
    if t == 'float':
        return yaml.ScalarNode('tag:yaml.org,2002:float', rnd.choice(['1.5', '2.25']))
    if t == 'bool':
        return yaml.ScalarNode('tag:yaml.org,2002:bool', rnd.choice(['true', 'false']))
    if t[0] == 'optional':
        return gen_valid(rnd, specs, t[1])
    if t[0] == 'union':
        if len(t[1]) > 2:
            m = t[1][-1] if rnd.random() < 0.7 else rnd.choice(t[1])
        else:
            m = t[1][1] if rnd.random() < 0.7 else t[1][0]
        if isinstance(m, tuple) and m[0] == 'list':
            return yaml.SequenceNode('tag:yaml.org,2002:seq', [gen_valid(rnd, specs, m[2]) for _ in range(rnd.randrange(2, 5))])
        return gen_valid(rnd, specs, m)
    if t[0] == 'list':
        return yaml.SequenceNode('tag:yaml.org,2002:seq', [gen_valid(rnd, specs, t[2]) for _ in range(rnd.randrange(1, 3))])
    if t[0] == 'dict':
        return yaml.MappingNode('tag:yaml.org,2002:map', [(yaml.ScalarNode('tag:yaml.org,2002:str', k), gen_valid(rnd, specs, t[3]))
                                                           for k in rnd.sample(['k1', 'k2', 'k3'], rnd.randrange(1, 3))])
    s = loadcase.spec_of(specs, t[1])
    if s['kind'] == 'enum':
        n = yaml.ScalarNode('tag:yaml.org,2002:str', rnd.choice(s['members']))
        n._c17_enum = True
        return n
    ps = [(yaml.ScalarNode('tag:yaml.org,2002:str', p['name']), gen_valid(rnd, specs, p['type']))
          for p in s['params'] if p['required'] or rnd.random() < 0.5]
    rnd.shuffle(ps)
    m = yaml.MappingNode('tag:yaml.org,2002:map', ps)
    m._c17_class = s['name']
    return m


def restore_marks(text):
    return yaml.compose(text, Loader=yaml.SafeLoader)


def tie(ctx, model_ok=True):
    import yatiml
    rnd = random.Random(ctx['seed'] * 19 + 1717)
    n_models = 150 if ctx['tier'] == 'quick' else 4000
    res = {'evaluations': 0, 'disagreements': [], 'failing': [], 'samples': [], 'distribution': {}}
    kinds = {}
    terms, info = [], []

    def judge_weak(text, msg, case):
        lines = text.split('\n')
        pos = cited(msg)
        if not pos:
            return ('no-position', f'RecognitionError for {text!r} cites no position: {msg!r}')
        for ln, col in pos:
            if not (1 <= ln <= len(lines) and 1 <= col <= len(lines[ln - 1]) + 1):
                return ('position-outside', f'RecognitionError for {text!r} cites line {ln}, column {col}, outside the document: {msg!r}')
        return None

    # ---- strong claim: hierarchy-free models, single-point corruptions of valid documents
    for _ in range(n_models):
        specs = flat_model(rnd)
        objs = [s['name'] for s in specs if s['kind'] == 'obj']
        tyspec = ('class', rnd.choice(objs))
        try:
            model = classgen.Model(specs)
            load = yatiml.load_function(model.type_obj(tyspec), *model.registered_classes())
        except Exception:      # noqa
            continue
        for _ in range(4):
            node = gen_valid(rnd, specs, tyspec)
            c = corrupt(rnd, specs, tyspec, node)
            if c is None:
                continue
            kind, path, key = c
            try:
                text = yaml.serialize(node, Dumper=yaml.SafeDumper)
                comp = restore_marks(text)
                place = enclosing(comp, path) if kind not in ('dropped-key',) else enclosing(comp, path)
            except Exception:      # noqa
                continue
            try:
                load(text)
                continue                # the corruption happened to leave a valid document (e.g. optional attribute)
            except yatiml.RecognitionError as e:
                msg = str(e)
            except Exception:      # noqa  (C08's business)
                continue
            res['evaluations'] += 1
            kinds[kind] = kinds.get(kind, 0) + 1
            case = {'specs': specs, 'type': repr(tyspec), 'text': text, 'corruption': kind}
            w = judge_weak(text, msg, case)
            if w:
                res['failing'].append({'signature': w[0] + ':' + kind, 'what': w[1], 'case': case})
                continue
            # the corrupted node, the keys on the way to it, and the starts of the enclosing MAPPINGS (not of enclosing sequences)
            # (the INNERMOST enclosing mapping: the start of an outer table is not where the corruption is)
            inner_map = [x for x in place[:-1] if isinstance(x, yaml.MappingNode)][-1:]
            last_key = [place[-2]] if path and path[-1][0] == 'v' else []
            ok_lines = {x.start_mark.line + 1 for x in inner_map + last_key} | {place[-1].start_mark.line + 1}
            if key is not None:
                # the (misspelt / surplus) key itself is a corrupted place too
                try:
                    ok_lines |= {k.start_mark.line + 1 for k, _ in get(comp, path).value if k.value == key}
                except Exception:      # noqa
                    pass
            if not any(ln in ok_lines for ln, _ in cited(msg)):
                res['failing'].append({'signature': 'position-elsewhere:' + kind, 'what':
                                       f'{kind} in {text!r}: the corrupted place and its enclosing mappings are on lines {sorted(ok_lines)}, '
                                       f'the message cites {cited(msg)}: {msg!r}', 'case': case})
                continue
            if key is not None and kind in ('misspelt-key', 'dropped-key', 'added-key') and f'"{key}"' not in msg and f"'{key}'" not in msg:
                res['failing'].append({'signature': 'key-not-named:' + kind, 'what':
                                       f'{kind} of key {key!r} in {text!r}: the message does not name it: {msg!r}', 'case': case})
            if len(res['samples']) < 6 and res['evaluations'] % 53 == 1:
                res['samples'].append({'corruption': kind, 'text': text[:200], 'message': msg[:300]})

    # ---- weak claim + model tie: arbitrary models, mutated documents
    def weak_oracle(c):
        if c.outcome[0] == 'ok' or c.doc_err is not None:
            return None
        e = c.outcome[1]
        if not isinstance(e, yatiml.RecognitionError):
            return None
        if in_user_hook(e):
            return None
        return judge_weak(c.text, str(e), None)

    def stream():
        for specs, tyspec, text, desc in loadcase.gen_cases(rnd, max(20, n_models // 3), 6, hooks=True):
            yield specs, tyspec, text, desc
    r2 = loadprop.run_stream(ctx, 'C17', stream(), [weak_oracle], compare=False)
    res['evaluations'] += r2['evaluations']
    res['failing'] += r2['failing']
    # model tie: positions cited by recognition failures at the root vs leaf marks of the model's error tree
    for c in r2['_cases']:
        if c.outcome[0] != 'err' or not isinstance(c.outcome[1], yatiml.RecognitionError) or c.doc is None:
            continue
        msg = str(c.outcome[1])
        if not (msg.startswith('An error occurred:\n') or msg.startswith('Multiple things are allowed here')):
            continue
        try:
            if not encode.is_tree(c.doc):
                continue
            t = ('{| ec_oracle := ' + encode.oracle_term(loadcase.doc_scalars(c)) + '; ec_specs := ' + c.model.reg_term()
                 + '; ec_type := ' + c.model.ty_term(c.tyspec) + '; ec_doc := ' + encode.node_term(c.doc, marks=True)
                 + '; ec_cited := [' + '; '.join(f'({a - 1}, {b - 1})%nat' for a, b in sorted(set(cited(msg)))) + ']; ec_exact := '
                 + ('false' if any(s.get('recognize') is not None for s in c.specs) else 'true') + ' |}')
        except Exception:      # noqa
            continue
        if len(t) < 200000:
            terms.append(t)
            info.append((c.text, repr(c.tyspec), msg[:300]))
    bad = nodeops.eval_shards('C17', terms, per_shard=150, header=HEADER, fn='err_mismatches', ctype='errcase') if terms else []
    res['n_disagreements'] = len(bad)
    for b in bad[:15]:
        res['disagreements'].append({'kind': 'C17-cited-positions', 'text': info[b][0], 'type': info[b][1], 'message': info[b][2]})
    res['distinct_nontrivial'] = res['evaluations']
    res['distribution'] = {'corruptions': kinds, 'weak_stream': r2['distribution'].get('outcomes'), 'compared_with_model': len(terms)}
    res['rule'] = ('hierarchy-free class models x valid documents x single-point corruptions {scalar replaced by a sequence, required key '
                   'misspelt / dropped, surplus key, unknown enum member}: message judged for position on the right line and key named; '
                   'arbitrary models x mutated documents: every RecognitionError cites a position inside the document; root recognition '
                   'failures: cited positions vs the leaf marks of the Coq error tree')
    return res


HEADER = ('From Coq Require Import NArith ZArith List Bool String. Import ListNotations.\n'
          'From Y Require Import Prelude Node Tables NodeOps OpsRun Types Recognize Loader Hooks LoadRun ErrRun.\n'
          'Open Scope N_scope.\nSet Printing Width 1000000. Set Printing Depth 100000000.\n')


def in_user_hook(e):
    tb = e.__traceback__
    while tb is not None:
        if tb.tb_frame.f_code.co_filename.startswith('<verif'):
            return True
        tb = tb.tb_next
    return False


def search(ctx, broken, details, tie_res):
    return []


def replay(case):
    import yatiml
    specs = case['specs']
    import ast
    tyspec = ast.literal_eval(case['type'])
    model = classgen.Model(specs)
    load = yatiml.load_function(model.type_obj(tyspec), *model.registered_classes())
    try:
        load(case['text'])
    except yatiml.RecognitionError as e:
        print('  ', str(e)[:300])
        r = tie({'tier': 'quick', 'seed': 0})
        return any(f['case'].get('text') == case['text'] for f in r['failing'])
    return False
