"""C10 -- seasoning and recognition hooks run once, own class only, bases first.

Proof:  Props/C10.v (savorize applies exactly savorize_order; for single-inheritance registries that is the
        registered ancestor chain filtered to classes defining the hook; once each, ancestors first; after
        recognition and before attribute processing; SeasoningError -> RecognitionError).
Tie:    EXHAUSTIVE: chains of 1..3 (thorough 4) classes x every subset of classes defining _yatiml_savorize x
        every subset defining _yatiml_recognize x an optional unregistered mix-in that defines hooks too x the
        class the document is written for x 5 positions (top level, list item, dict value, attribute, union);
        call traces recorded by the generated hooks vs the rule, vs the Coq model's savorize_order, and the
        load outcome vs the model.
"""
import itertools
import random

import yaml

import classgen
import encode
import loadcase
import loadprop
import nodeops
from common import coq_ustr

PID = 'C10'
MODNAME = 'C10'
PROPS_FILE = 'Props/C10.v'
COQ_FILES = ['Props/C10.v']
ASSUMPTIONS = [
    'single-inheritance hierarchies of registered classes (unregistered mix-ins allowed), as the property quantifies',
    'the dumping clause (sweeten) is checked for classes dumped as mappings; enum/string-like representers use hasattr by design',
]


def chain_specs(L, sav, rec, mixin_at, raise_at=None, mixin_first=False):
    specs = []
    if mixin_at is not None:
        specs.append({'name': 'U', 'kind': 'obj', 'bases': [], 'params': [], 'extra': False, 'registered': False,
                      'savorize': [('op', ('set', 'from_mixin', ('sv', 1)))], 'recognize': [('sequence',)],
                      'sweeten': [('op', ('set', 'from_mixin', ('sv', 1)))]})
    for i in range(L):
        params = [{'name': 'p%d' % j, 'type': 'int', 'required': True} for j in range(i + 1)]
        s = {'name': 'C%d' % i, 'kind': 'obj', 'bases': ((['U'] if mixin_at == i else []) + (['C%d' % (i - 1)] if i else [])) if mixin_first else
             ((['C%d' % (i - 1)] if i else []) + (['U'] if mixin_at == i else [])),
             'params': params, 'extra': False, 'registered': True}
        if i in sav:
            s['savorize'] = [('raise',)] if raise_at == i else [('if', ('has', 'noise'), [('remove', 'noise')], [])]
            s['sweeten'] = [('if', ('has', 'noise'), [('remove', 'noise')], [])]
        if i in rec:
            s['recognize'] = [('attr', 'p%d' % i, None)]
        specs.append(s)
    specs.append({'name': 'H', 'kind': 'obj', 'bases': [], 'extra': False, 'registered': True,
                  'params': [{'name': 'x', 'type': ('class', 'C0'), 'required': True}]})
    return specs


POSITIONS = ['top', 'list', 'dict', 'attr', 'union']


def position(pos, text_node):
    S, Q, M = loadcase.S, loadcase.Q, loadcase.M
    if pos == 'top':
        return ('class', 'C0'), text_node
    if pos == 'list':
        return ('list', 0, ('class', 'C0')), Q([text_node])
    if pos == 'dict':
        return ('dict', 3, 'str', ('class', 'C0')), M([(S('k'), text_node)])
    if pos == 'attr':
        return ('class', 'H'), M([(S('x'), text_node)])
    return ('union', [('class', 'C0'), 'int']), text_node


def expected_trace(specs, cname):
    """The rule of the property, computed from the live class objects: hooks defined in the bodies of the registered
    ancestors of the class and of the class itself, ancestors first, each once."""
    byname = {s['name']: s for s in specs}
    out = []

    def walk(n):
        s = byname[n]
        for b in s.get('bases', []):
            if b in byname and byname[b].get('registered', True):
                walk(b)
        if s.get('savorize') is not None and n not in out:
            out.append(n)
    walk(cname)
    return out


def tie(ctx, model_ok=True):
    import yatiml
    Lmax = 3 if ctx['tier'] == 'quick' else 4
    S, M = loadcase.S, loadcase.M
    res = {'evaluations': 0, 'disagreements': [], 'failing': [], 'samples': [], 'exhaustive': True,
           'rule': (f'ALL chains C0<-...<-C(L-1), L <= {Lmax}, x all subsets defining _yatiml_savorize x all subsets defining '
                    '_yatiml_recognize x {no mix-in, unregistered mix-in with hooks at each level} x the class the document is '
                    f'for x {len(POSITIONS)} positions, plus a SeasoningError-raising hook at each level; non-trivial = at least one '
                    'hook ran')}
    load_terms, load_cases = [], []
    sav_terms, sav_info = [], []
    nontrivial = 0
    dist = {}
    for L in range(1, Lmax + 1):
        for sav in itertools.chain.from_iterable(itertools.combinations(range(L), r) for r in range(L + 1)):
            for rec in itertools.chain.from_iterable(itertools.combinations(range(L), r) for r in range(L + 1)):
                if L == Lmax and ctx['tier'] == 'quick' and len(rec) > 1:
                    continue
                # the unregistered mix-in listed after the registered base, and (for classes that have a base) before it
                for mixin_at, mixin_first in [(None, False)] + [(m, f) for m in range(L) for f in ((False, True) if m else (False,))]:
                    for raise_at in [None] + ([sav[0]] if sav and mixin_at is None and not rec else []):
                        specs = chain_specs(L, set(sav), set(rec), mixin_at, raise_at, mixin_first)
                        model = classgen.Model(specs)
                        regterm = None
                        for i in range(L):
                            doc = M([(S('p%d' % j), S(str(j), 'int')) for j in range(i + 1)])
                            for pos in POSITIONS:
                                tyspec, node = position(pos, encode.copy_tree(doc))
                                text = loadcase.serialize(node)
                                c = loadcase.run_case(specs, tyspec, text, f'chain:L{L}:C{i}:{pos}', model=model)
                                res['evaluations'] += 1
                                dist[pos] = dist.get(pos, 0) + 1
                                trace = [e[1] for e in c.log if e[0] == 'savorize']
                                want = expected_trace(specs, 'C%d' % i)
                                if trace:
                                    nontrivial += 1
                                if raise_at is not None and raise_at <= i:
                                    if not (c.outcome[0] == 'err' and isinstance(c.outcome[1], yatiml.RecognitionError)):
                                        res['failing'].append({'signature': 'seasoning-error-not-recognition-error',
                                                               'what': f'savorize of C{raise_at} raises SeasoningError; load gave {c.outcome!r}',
                                                               'case': {'specs': loadprop._clean(specs), 'type': repr(tyspec), 'text': text}})
                                    want = want[:want.index('C%d' % raise_at) + 1]
                                elif c.outcome[0] != 'ok':
                                    res['failing'].append({'signature': f'chain-load-fails:{pos}',
                                                           'what': f'valid document for C{i} at {pos} failed: {c.outcome[1]}',
                                                           'case': {'specs': loadprop._clean(specs), 'type': repr(tyspec), 'text': text}})
                                if trace != want:
                                    res['failing'].append({'signature': f'savorize-trace:{pos}',
                                                           'what': f'document for C{i} at {pos}: savorize hooks ran {trace}, rule says {want} (hooks defined on {["C%d" % x for x in sav]}, mix-in at {mixin_at}{' listed first' if mixin_first else ''})',
                                                           'case': {'specs': loadprop._clean(specs), 'type': repr(tyspec), 'text': text}})
                                for e in c.log:
                                    if e[0] == 'recognize' and e[1] != e[2]:
                                        res['failing'].append({'signature': 'recognize-hook-inherited',
                                                               'what': f'_yatiml_recognize defined in {e[1]} was consulted for class {e[2]}',
                                                               'case': {'specs': loadprop._clean(specs), 'type': repr(tyspec), 'text': text}})
                                t = loadcase.case_term(c)
                                if t is not None:
                                    load_terms.append(t)
                                    load_cases.append(c)
                            # dumping: _yatiml_sweeten by the same rule, on the node built from the object's attributes
                            if raise_at is None:
                                obj = model.cls('C%d' % i)(**{'p%d' % j: j for j in range(i + 1)})
                                dumps = yatiml.dumps_function(*model.registered_classes())
                                for wrap in ('top', 'list', 'dict'):
                                    model.log.clear()
                                    try:
                                        dumps(obj if wrap == 'top' else [obj] if wrap == 'list' else {'k': obj})
                                        derr = None
                                    except Exception as e:      # noqa
                                        derr = e
                                    strace = [e[1] for e in model.log if e[0] == 'sweeten']
                                    res['evaluations'] += 1
                                    swant = [x for x in expected_trace(
                                        [dict(s, savorize=s.get('sweeten')) for s in specs], 'C%d' % i)]
                                    if derr is not None or strace != swant:
                                        res['failing'].append({'signature': f'sweeten-trace:{wrap}',
                                                               'what': f'dumping a C{i} ({wrap}): sweeten hooks ran {strace} / {derr!r}, rule says {swant} (hooks defined on {["C%d" % x for x in sav]}, mix-in at {mixin_at}{' listed first' if mixin_first else ''})',
                                                               'case': {'specs': loadprop._clean(specs), 'dump': 'C%d' % i, 'wrap': wrap}})
                            if regterm is None:
                                regterm = model.reg_term()
                            sav_terms.append('{| sv_specs := ' + regterm + f'; sv_class := {coq_ustr("C%d" % i)}; sv_expect := ['
                                             + '; '.join(coq_ustr(x) for x in expected_trace(specs, 'C%d' % i)) + '] |}')
                            sav_info.append((L, sav, rec, mixin_at, i))
    res['distinct_nontrivial'] = nontrivial
    res['distribution'] = dist
    res['samples'] = [{'text': load_cases[i].text, 'type': repr(load_cases[i].tyspec), 'desc': load_cases[i].desc}
                      for i in (0, len(load_cases) // 2, len(load_cases) - 1)]
    bad = loadcase.eval_cases('C10', load_terms, per_shard=200)
    for b in bad[:20]:
        c = load_cases[b]
        res['disagreements'].append({'kind': 'C10-load', 'text': c.text, 'type': repr(c.tyspec), 'desc': c.desc})
    bad2 = nodeops.eval_shards('C10s', sav_terms, per_shard=300, header=loadcase.HEADER, fn='sav_mismatches', ctype='savcase')
    for b in bad2[:20]:
        res['disagreements'].append({'kind': 'C10-savorize-order', 'case': repr(sav_info[b])})
    res['n_disagreements'] = len(bad) + len(bad2)
    return res


def search(ctx, broken, details, tie_res):
    return []


def replay(case):
    import ast
    if 'dump' in case:
        r = tie({'tier': 'quick', 'seed': 0})
        return any(f['case'].get('dump') == case['dump'] and f['case'].get('specs') == case['specs'] for f in r['failing'])
    c = loadcase.run_case(case['specs'], ast.literal_eval(case['type']), case['text'], '')
    trace = [e[1] for e in c.log if e[0] == 'savorize']
    print('  savorize trace:', trace, 'outcome:', c.outcome[0])
    r = tie({'tier': 'quick', 'seed': 0})
    return any(f['case'].get('text') == case['text'] and f['case'].get('specs') == case['specs'] for f in r['failing'])
