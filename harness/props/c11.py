"""C11 -- load and dump functions are stateless, isolated, and leave PyYAML untouched.

Proof:  Props/C11.v over Model/World.v: PyYAML's tables constant, a function's registry fixed at creation, calls pure, isolation
        (a function's table holds PyYAML's entries and its own classes only), for arbitrary histories.
Tie:    random histories of creating load / dump(s) / dump(s)_json functions over fresh (also same-named) classes and calling them
        on valid and invalid input: after each history the REAL class-level tables (yaml.SafeLoader.yaml_constructors, yatiml
        Dumper.yaml_representers, each function's loader / dumper class table with the owner of every entry) are compared with
        the model's.  Judged directly: the same call gives the same result in every history and from concurrent threads;
        deep snapshots of PyYAML's registries / resolvers, of yaml.safe_load / safe_dump on a probe set and of the user's
        classes are unchanged.
"""
import copy
import io
import random
import threading
import typing

import yaml

import common
import nodeops
from common import coq_ustr

PID = 'C11'
MODNAME = 'C11'
PROPS_FILE = 'Props/C11.v'
COQ_FILES = ['Model/World.v', 'Proofs/WorldProofs.v', 'Props/C11.v']
ASSUMPTIONS = [
    'thread interleavings are not modelled (calls are atomic steps in Model/World.v); non-interference of concurrent calls is observed, not proved',
    'results of calls are a function of the registry the function sees and of the argument (the load/dump models of C01..C10)',
]

HEADER = ('From Coq Require Import NArith List Bool String. Import ListNotations.\n'
          'From Y Require Import Prelude World.\nOpen Scope N_scope.\n'
          'Set Printing Width 1000000. Set Printing Depth 100000000.\n')

PROBES = ['1e5', 'yes', '1.2.3', 'a: 1\nb: [x, 2.5, null]\n', '2001-12-14', '0x1F', 'true', '.inf', '+.0', 'k: !!str 5\n']
DUMP_PROBES = [{'a': 1, 'b': [1.5, None, 'yes', '1e5']}, ['x', True], 'plain', 3.0]


class _SharedBase:
    def __init__(self, a: int) -> None:
        self.a = a


_SharedBase.__name__ = 'K0'
_SharedBase.__qualname__ = 'K0'


def make_classes(variant):
    """Fresh class objects; the variant decides the attributes, so same-named classes of different functions differ."""
    import enum
    import yatiml
    ns = {}
    if variant % 4 == 0:
        class K0:
            def __init__(self, a: int, b: str = 'x') -> None:
                self.a, self.b = a, b

        class K1(K0):
            def __init__(self, a: int, c: float, b: str = 'x') -> None:
                super().__init__(a, b)
                self.c = c
        docs = {'K0': ['a: 1\n', 'a: 2\nb: y\n', 'a: 1\nc: 2.5\n', 'a: nope\n', 'zz: 1\n']}
    elif variant % 4 == 1:
        class K0:           # same name, different shape
            def __init__(self, name: str) -> None:
                self.name = name

        class K1:
            def __init__(self, k: K0, n: typing.Union[int, str] = 3) -> None:
                self.k, self.n = k, n
        # (the last two documents fail inside a Union: the message lists the failed alternatives)
        docs = {'K0': ['name: n\n', 'a: 1\n', 'name: 5\n'],
                'K1': ['k: {name: z}\n', 'k: {name: z}\nn: 4\n', 'k: 1\n', 'k: {name: z}\nn: [1]\n', 'k: {name: z}\nn: {a: 1.5}\n']}
    elif variant % 4 == 3:
        # a base class SHARED by all functions of this kind (one module-level class object); each function brings its own,
        # same-named subclass of it
        K0 = _SharedBase

        class K1(K0):
            def __init__(self, a: int, c: float) -> None:
                super().__init__(a)
                self.c = c
        docs = {'K0': ['a: 1\n', 'a: 1\nc: 2.5\n', 'a: nope\n'], 'K1': ['a: 1\nc: 2.5\n', 'a: 1\n']}
    else:
        class K0:
            _yatiml_defaults = {'b': 'user-default'}       # user-declared defaults: must not be written to

            def __init__(self, a: int, b: str = 'x', c: int = 7) -> None:
                self.a, self.b, self.c = a, b, c

            @classmethod
            def _yatiml_sweeten(cls, node: 'yatiml.Node') -> None:
                node.remove_attributes_with_default_values(cls)

        class K1(enum.Enum):
            red = 1
            blue = 2
        docs = {'K0': ['a: 1\n', 'a: 1\nb: user-default\n', 'a: x\n'], 'K1': ['red\n', 'green\n']}
    ns['K0'], ns['K1'] = K0, K1
    return ns, docs


def class_snapshot(classes):
    out = []
    for c in classes:
        d = {}
        for k, v in vars(c).items():
            if k.startswith('__') and k not in ('__init__',):
                continue
            d[k] = copy.deepcopy(v) if isinstance(v, (dict, list)) else id(v)
        out.append((c.__name__, sorted(d.items(), key=lambda kv: kv[0])))
    return repr(out)


def pyyaml_snapshot():
    def tbl(t):
        return [(repr(k), id(v)) for k, v in t.items()]

    def res(t):
        return [(k, [(tag, r.pattern, r.flags) for tag, r in lst]) for k, lst in t.items()]
    out = {
        'SafeLoader.ctor': tbl(yaml.SafeLoader.yaml_constructors), 'SafeLoader.multi': tbl(yaml.SafeLoader.yaml_multi_constructors),
        'SafeDumper.repr': tbl(yaml.SafeDumper.yaml_representers), 'SafeDumper.multi': tbl(yaml.SafeDumper.yaml_multi_representers),
        'Resolver.implicit': res(yaml.resolver.Resolver.yaml_implicit_resolvers),
        'SafeLoader.implicit': res(yaml.SafeLoader.yaml_implicit_resolvers), 'SafeDumper.implicit': res(yaml.SafeDumper.yaml_implicit_resolvers),
        'Loader.ctor': tbl(yaml.Loader.yaml_constructors), 'Dumper.repr': tbl(yaml.Dumper.yaml_representers),
    }
    beh = []
    for p in PROBES:
        try:
            beh.append(repr(yaml.safe_load(p)))
        except Exception as e:      # noqa
            beh.append('exc:' + type(e).__name__)
    for v in DUMP_PROBES:
        beh.append(yaml.safe_dump(v))
    out['behaviour'] = beh
    return out


def outcome(f, *a, **kw):
    try:
        return ('ok', canon(f(*a, **kw)))
    except Exception as e:      # noqa
        import yatiml
        if isinstance(e, yatiml.RecognitionError):
            # the message too (as a multiset of words: alternatives are listed in set order): it must not carry anything over
            # from earlier calls
            return ('err', 'RecognitionError', ' '.join(sorted(str(e).split())))
        return ('err', type(e).__name__)


def canon(v):
    import enum
    if isinstance(v, (list, tuple)):
        return [canon(x) for x in v]
    if isinstance(v, dict):
        return [(canon(k), canon(x)) for k, x in v.items()]
    if isinstance(v, enum.Enum):
        return ('enum', type(v).__name__, v.name)
    if hasattr(v, '__dict__') and not isinstance(v, type):
        return (type(v).__name__, sorted((k, canon(x)) for k, x in vars(v).items()))
    return repr(v)


class History:
    """Runs a history on the real library, recording the ops for the model and the call outcomes."""
    def __init__(self):
        import yatiml
        self.y = yatiml
        self.loaders, self.dumpers = [], []         # (function, classes dict, docs, variant, top class name)
        self.ops = []
        self.calls = []                             # (kind, index, input repr, outcome)
        self.user_classes = []

    def new_load(self, variant, which):
        ns, docs = make_classes(variant)
        top = which if which in docs else 'K0'
        order = [ns[top]] + [c for n, c in ns.items() if n != top]
        f = self.y.load_function(*order)
        self.loaders.append((f, ns, docs, variant, top))
        self.user_classes += list(ns.values())
        # load_function(result, *args) registers args first and appends the result type
        self.ops.append('(NewLoad [' + '; '.join(coq_ustr(c.__name__) for c in order[1:] + order[:1]) + '])')

    def new_dump(self, variant, kind):
        ns, docs = make_classes(variant)
        order = list(ns.values())
        mk = {'dumps': self.y.dumps_function, 'dumps_json': self.y.dumps_json_function,
              'dump': self.y.dump_function, 'dump_json': self.y.dump_json_function}[kind]
        f = mk(*order)
        self.dumpers.append((f, ns, docs, variant, kind))
        self.user_classes += list(ns.values())
        self.ops.append(f'(NewDump {"true" if "json" in kind else "false"} [' + '; '.join(coq_ustr(c.__name__) for c in order) + '])')

    def call_load(self, i, j):
        f, ns, docs, variant, top = self.loaders[i]
        d = docs[top][j % len(docs[top])]
        self.ops.append(f'(CallLoad {i})')
        o = outcome(f, d)
        self.calls.append(('load', variant, top, d, o))
        return o

    def call_dump(self, i, j):
        f, ns, docs, variant, kind = self.dumpers[i]
        v = dump_value(ns, variant, j)
        self.ops.append(f'(CallDump {i})')
        if kind.startswith('dumps'):
            o = outcome(f, v)
        else:
            buf = io.StringIO()
            o = outcome(lambda: (f(v, buf), buf.getvalue())[1])
        self.calls.append(('dump', variant, kind, j % 5, o))
        return o


def dump_value(ns, variant, j):
    j = j % 5
    if j == 4:
        # the same list twice: YAML dumps write an anchor and an alias, JSON dumps abort in the middle of the emission
        shared = [1, 'two']
        return {'a': shared, 'b': [shared]}
    try:
        if variant % 4 == 0:
            return [ns['K0'](1), ns['K1'](2, 2.5, 'z'), {'k': ns['K0'](3, 'y')}, object()][j]
        if variant % 4 == 1:
            return [ns['K0']('n'), ns['K1'](ns['K0']('m')), [ns['K1'](ns['K0']('q'), 9)], object()][j]
        if variant % 4 == 3:
            return [ns['K0'](1), ns['K1'](2, 2.5), [ns['K1'](3, 0.5), ns['K0'](4)], object()][j]
        return [ns['K0'](1), ns['K0'](1, 'user-default', 7), ns['K1'].red, object()][j]
    except Exception:      # noqa
        return None


def owner_of(entry_obj, base_ids, owners, mine=(), me=None):
    if id(entry_obj) in base_ids:
        return 0
    cls = getattr(entry_obj, 'class_', None)
    # a class object may be shared by several functions (a common base): in the table of a function that registered it, the
    # entry counts as that function's own
    if cls is not None and id(cls) in mine:
        return me
    if cls is not None and id(cls) in owners:
        return owners[id(cls)]
    return owners.get(id(entry_obj), 999)


def key_name(k):
    if k is None:
        return '<None>'
    if isinstance(k, str):
        return k
    return k.__name__


def tbl_term(items):
    return '[' + '; '.join(f'({coq_ustr(k)}, {o})' for k, o in items) + ']'


def observe(h, base_ctor0, base_repr0):
    """The real class-level tables after the history, in the model's vocabulary."""
    import yatiml
    base_ids_c = {id(v) for v in base_ctor0.values()}
    base_ids_r = {id(v) for v in base_repr0.values()}
    owners_l, owners_d = {}, {}
    for i, (f, ns, *_rest) in enumerate(h.loaders):
        for c in ns.values():
            owners_l[id(c)] = i + 1
    for i, (f, ns, *_rest) in enumerate(h.dumpers):
        for c in ns.values():
            owners_d[id(c)] = i + 1
    ls = []
    for i, (f, ns, *_rest) in enumerate(h.loaders):
        items = []
        for k, v in f.loader.yaml_constructors.items():
            o = owner_of(v, base_ids_c, owners_l, {id(c) for c in ns.values()}, i + 1)
            if o == 999 and k == '!Path':
                o = i + 1               # each function gets its own PathConstructor
            items.append((key_name(k), o))
        ls.append(tbl_term(items))
    ds = []
    for i, (f, ns, *_rest) in enumerate(h.dumpers):
        dcls = getattr(f, '_DumpsFunction__dumper', None) or getattr(f, 'dumper', None)
        if dcls is None:
            for attr in vars(f).values():
                if isinstance(attr, type) and issubclass(attr, yatiml.dumper.Dumper):
                    dcls = attr
        items = []
        for k, v in dcls.yaml_representers.items():
            o = owner_of(v, base_ids_r, owners_d, {id(c) for c in ns.values()}, i + 1)
            if o == 999 and key_name(k) in ('PosixPath', 'WindowsPath'):
                o = i + 1
            items.append((key_name(k), o))
        ds.append(tbl_term(items))
    bc = tbl_term([(key_name(k), 0 if id(v) in base_ids_c else 999) for k, v in yaml.SafeLoader.yaml_constructors.items()])
    br = tbl_term([(key_name(k), 0 if id(v) in base_ids_r else 999) for k, v in yatiml.dumper.Dumper.yaml_representers.items()])
    return ('{| o_base_ctor := ' + bc + '; o_base_repr := ' + br + '; o_loaders := [' + '; '.join(ls) + ']; o_dumpers := ['
            + '; '.join(ds) + '] |}')


def run_history(rnd, length):
    h = History()
    for _ in range(length):
        r = rnd.random()
        if r < 0.25 or not h.loaders and r < 0.5:
            h.new_load(rnd.randrange(8), rnd.choice(['K0', 'K1']))
        elif r < 0.45 or not h.dumpers:
            h.new_dump(rnd.randrange(8), rnd.choice(['dumps', 'dumps_json', 'dump', 'dump_json']))
        elif r < 0.75 and h.loaders:
            h.call_load(rnd.randrange(len(h.loaders)), rnd.randrange(8))
        else:
            h.call_dump(rnd.randrange(len(h.dumpers)), rnd.randrange(8))
    return h


REF_CONFLICTS = []


def reference_outcomes():
    """Every call in a history of its own: a fresh function, called once."""
    import gc
    ref = {}
    gc.collect()
    h = None
    for variant in range(8):
        docs = make_classes(variant)[1]
        for top in docs:
            for d in docs[top]:
                h = None
                gc.collect()
                h = History()
                h.new_load(variant, top)
                o = h.call_load(0, docs[top].index(d))
                # (variants v and v+4 are the same class model: the same call in two fresh functions)
                if ref.setdefault(('load', variant % 4, top, d), o) != o:
                    REF_CONFLICTS.append((('load', variant % 4, top, d), ref[('load', variant % 4, top, d)], o))
        for kind in ('dumps', 'dumps_json', 'dump', 'dump_json'):
            for j in range(5):
                h = History()
                h.new_dump(variant, kind)
                ref[('dump', variant % 4, kind, j)] = h.call_dump(0, j)
    return ref


def tie(ctx, model_ok=True):
    import yatiml
    rnd = random.Random(ctx['seed'] * 11 + 1111)
    n_hist = 40 if ctx['tier'] == 'quick' else 600
    res = {'evaluations': 0, 'disagreements': [], 'failing': [], 'samples': [], 'distribution': {}}
    before = pyyaml_snapshot()
    base_ctor0 = dict(yaml.SafeLoader.yaml_constructors)
    base_repr0 = dict(yatiml.dumper.Dumper.yaml_representers)
    bc0 = tbl_term([(key_name(k), 0) for k in base_ctor0])
    br0 = tbl_term([(key_name(k), 0) for k in base_repr0])
    ref = reference_outcomes()
    # the first document of every kind is valid for its class model by construction: a fresh function must load it, whatever
    # other (same-named, differently shaped) classes this process has seen before
    for variant in range(4):
        docs = make_classes(variant)[1]
        for top in docs:
            o = ref.get(('load', variant, top, docs[top][0]))
            if o is not None and o[0] != 'ok':
                res['failing'].append({'signature': 'history-dependent:fresh-function-rejects-valid-document', 'what':
                                       f'a fresh load function for class variant {variant} ({top}) gave {o!r} for its valid document '
                                       f'{docs[top][0]!r}: functions created earlier in the process for same-named classes of another '
                                       'shape leak into it', 'case': {'ops': [], 'seed': ctx['seed'], 'history': -1}})
    terms, info = [], []
    ncalls = 0
    for hi in range(n_hist):
        h = run_history(rnd, rnd.randrange(3, 14))
        cls_before = None
        res['evaluations'] += 1
        # same call, same result, whatever came before
        for kind, variant, a, b, o in h.calls:
            ncalls += 1
            want = ref[(kind, variant % 4, a, b)]
            if o != want:
                res['failing'].append({'signature': f'history-dependent:{kind}', 'what':
                                       f'{kind} call ({a}, {b!r}) of class variant {variant % 4} gave {o!r} in history {h.ops} but {want!r} in a history of its own',
                                       'case': {'ops': h.ops, 'seed': ctx['seed'], 'history': hi}})
                break
        # classes of one function are unknown to the others
        for i, (f, ns, docs, variant, top) in enumerate(h.loaders):
            for j, (g, ns2, docs2, variant2, top2) in enumerate(h.loaders):
                if i != j and variant % 4 != variant2 % 4:
                    d = docs2[top2][0]
                    o1 = outcome(f, d)
                    o2 = ref.get(('load', variant % 4, top, d))
                    if o2 is None:
                        h2 = History()
                        h2.new_load(variant, top)
                        o2 = outcome(h2.loaders[0][0], d)
                        ref[('load', variant % 4, top, d)] = o2
                    if o1 != o2:
                        res['failing'].append({'signature': 'not-isolated:load', 'what':
                                               f'function {i} (variant {variant % 4}) loads {d!r} as {o1!r} in the presence of function {j} '
                                               f'but as {o2!r} alone', 'case': {'ops': h.ops, 'seed': ctx['seed'], 'history': hi}})
        terms.append('{| wc_base_ctor := ' + bc0 + '; wc_base_repr := ' + br0 + '; wc_ops := [' + '; '.join(h.ops)
                     + ']; wc_expect := ' + observe(h, base_ctor0, base_repr0) + ' |}')
        info.append(h.ops)
        if len(res['samples']) < 4:
            res['samples'].append({'ops': h.ops, 'calls': [repr(c)[:160] for c in h.calls[:4]]})
    # the user's classes are not written to
    for variant in range(6):
        ns, docs = make_classes(variant)
        snap = class_snapshot(ns.values())
        h = History()
        h.loaders.append((yatiml.load_function(*ns.values()), ns, docs, variant, 'K0'))
        h.dumpers.append((yatiml.dumps_function(*ns.values()), ns, docs, variant, 'dumps'))
        for j in range(6):
            h.call_load(0, j)
            h.call_dump(0, j)
        res['evaluations'] += 1
        if class_snapshot(ns.values()) != snap:
            res['failing'].append({'signature': 'user-class-modified', 'what':
                                   f'creating and using load/dumps functions changed the user classes of variant {variant % 4}: '
                                   f'{snap[:300]} -> {class_snapshot(ns.values())[:300]}', 'case': {'variant': variant}})
    for k, o1, o2 in REF_CONFLICTS[:1]:
        res['failing'].append({'signature': f'history-dependent:{k[0]}:same-call-later', 'what':
                               f'{k[0]} call {k[1:]!r} gave {o1!r} in one fresh function and {o2!r} in another fresh function of the same '
                               'class model later in the same process', 'case': {'ops': [], 'seed': ctx['seed'], 'history': -3}})
    del REF_CONFLICTS[:]
    # the same calls, each again in a history of its own, after everything above has happened in this process
    ref2 = reference_outcomes()
    del REF_CONFLICTS[:]
    for k, o in ref.items():
        if k in ref2 and ref2[k] != o:
            res['failing'].append({'signature': f'history-dependent:{k[0]}:same-call-later', 'what':
                                   f'{k[0]} call {k[1:]!r} in a fresh function gave {o!r} at the start of the run and {ref2[k]!r} after '
                                   'other functions had been created and called in the same process',
                                   'case': {'ops': [], 'seed': ctx['seed'], 'history': -2}})
            break
    # concurrent calls from threads
    thr_fail = threaded(rnd, ref, 6 if ctx['tier'] == 'quick' else 16, 60 if ctx['tier'] == 'quick' else 400)
    res['evaluations'] += 1
    res['failing'] += thr_fail
    after = pyyaml_snapshot()
    for k in before:
        if before[k] != after[k]:
            res['failing'].append({'signature': f'pyyaml-changed:{k}', 'what': f'{k} differs after creating and using yatiml functions: '
                                   f'{str(before[k])[:200]} -> {str(after[k])[:200]}', 'case': {'key': k}})
    res['distinct_nontrivial'] = ncalls
    res['distribution'] = {'histories': n_hist, 'calls': ncalls, 'reference_calls': len(ref)}
    bad = nodeops.eval_shards('C11', terms, per_shard=100, header=HEADER, fn='world_mismatches', ctype='wcase')
    res['n_disagreements'] = len(bad)
    for b in bad[:10]:
        res['disagreements'].append({'kind': 'C11-registries', 'ops': info[b]})
    res['rule'] = (f'{n_hist} random histories (3..13 steps) of creating load / dumps / dump / dumps_json / dump_json functions over 3 '
                   'class variants sharing the names K0, K1 (different shapes, one with _yatiml_defaults and default-removing sweeten) '
                   'and calling them on valid and invalid input; registries compared with the model after each history; each call '
                   'compared with the same call in a history of its own; cross-function isolation; user-class snapshots; threads; '
                   'PyYAML snapshot (9 registries/resolver tables + safe_load/safe_dump on probes) before vs after everything')
    return res


def threaded(rnd, ref, nthreads, ncalls):
    fails = []
    hs = []
    for t in range(nthreads):
        h = History()
        h.new_load(t % 6, 'K0')
        h.new_dump(t % 6, rnd.choice(['dumps', 'dumps_json']))
        hs.append(h)
    errs = []

    def work(h, seed):
        r = random.Random(seed)
        try:
            for _ in range(ncalls):
                if r.random() < 0.5:
                    h.call_load(0, r.randrange(8))
                else:
                    h.call_dump(0, r.randrange(8))
        except Exception as e:      # noqa
            errs.append(repr(e))
    ts = [threading.Thread(target=work, args=(h, i)) for i, h in enumerate(hs)]
    for t in ts:
        t.start()
    for t in ts:
        t.join()
    for h in hs:
        for kind, variant, a, b, o in h.calls:
            want = ref.get((kind, variant % 4, a, b))
            if want is not None and o != want:
                fails.append({'signature': f'thread-dependent:{kind}', 'what': f'{kind} call ({a}, {b!r}) gave {o!r} when run concurrently '
                              f'with {nthreads - 1} other threads but {want!r} alone', 'case': {'threads': nthreads}})
                break
    if errs:
        fails.append({'signature': 'thread-crash', 'what': f'worker raised {errs[0]}', 'case': {'threads': nthreads}})
    return fails[:3]


def search(ctx, broken, details, tie_res):
    return []


def replay(case):
    r = tie({'tier': 'quick', 'seed': case.get('seed', 0)})
    return bool(r['failing'])
