"""C03 -- polymorphic positions resolve to the unique most-derived match, never a guess.

Proof:  Props/C03.v: rec_classes characterised by the declarative most-derived set; process succeeds only
        on exactly one candidate; recognition is invariant under permutation of registration order and of
        Union members.
Tie:    hierarchy-heavy class models x documents with and without explicit tags; every case also under
        random permutations of the registration order and of all Union members (implementation vs
        implementation, and implementation vs model).
Oracle: outcomes differ across permutations; loaded object of an abstract / unregistered class.
"""
import copy
import random

import yaml

import classgen
import encode
import loadcase
import loadprop
import oracles

PID = 'C03'
MODNAME = 'C03'
PROPS_FILE = 'Props/C03.v'
COQ_FILES = ['Proofs/Polymorph.v', 'Proofs/RegOrder.v', 'Props/C03.v']
ASSUMPTIONS = ['registries have distinct class names (same-named classes collide on the tag by design)']


def permute_type(rnd, t):
    if t is None or isinstance(t, str):
        return t
    k = t[0]
    if k == 'list':
        return ('list', t[1], permute_type(rnd, t[2]))
    if k == 'dict':
        return ('dict', t[1], t[2], permute_type(rnd, t[3]))
    if k == 'union':
        ms = [permute_type(rnd, m) for m in t[1]]
        rnd.shuffle(ms)
        return ('union', ms)
    if k == 'optional':
        inner = permute_type(rnd, t[1])
        return ('union', ['none', inner]) if rnd.random() < 0.5 else ('optional', inner)
    return t


def permute_specs(rnd, specs):
    out = copy.deepcopy([{k: v for k, v in s.items() if not k.startswith('_')} for s in specs])
    for s in out:
        for p in s.get('params', []):
            p['type'] = permute_type(rnd, p.get('type'))
        if s.get('recognize'):
            s['recognize'] = [(r[0], r[1], permute_type(rnd, r[2])) if r[0] == 'attr' and r[2] is not None else r
                              for r in s['recognize']]
    return out


def hier_models(rnd, n):
    """Class models biased towards hierarchies, unions of related classes, enums with bool-like members."""
    for _ in range(n):
        specs = loadcase.gen_model(rnd, max_classes=6, hooks=True)
        if rnd.random() < 0.35:
            specs.append({'name': 'Col', 'kind': 'enum', 'members': ['true', 'red', 'yes', 'false'], 'bases': [],
                          'registered': True})
            specs.append({'name': 'Holder', 'kind': 'obj', 'bases': [], 'extra': False, 'registered': True,
                          'params': [{'name': 'c', 'type': rnd.choice([('union', [('class', 'Col'), 'bool']),
                                                                       ('union', ['bool', ('class', 'Col')]),
                                                                       ('union', ['int', ('class', 'Col'), 'bool']),
                                                                       ('optional', ('class', 'Col'))]),
                                      'required': True}]})
        if rnd.random() < 0.4:
            # a base with a custom recogniser whose subclasses have none of their own: they are recognised by their signatures
            specs.append({'name': 'PB', 'kind': 'obj', 'bases': [], 'extra': False, 'registered': True,
                          'params': [{'name': 'name', 'type': 'str', 'required': True}],
                          'recognize': [('mapping',), ('attr', 'name', None)]})
            specs.append({'name': 'PC', 'kind': 'obj', 'bases': ['PB'], 'extra': False, 'registered': True,
                          'params': [{'name': 'name', 'type': 'str', 'required': True}, {'name': 'radius', 'type': 'int', 'required': True}]})
            specs.append({'name': 'PD', 'kind': 'obj', 'bases': ['PB'], 'extra': False, 'registered': True,
                          'params': [{'name': 'name', 'type': 'str', 'required': True}, {'name': 'side', 'type': 'int', 'required': True}]})
        if rnd.random() < 0.4 or _ < 2:
            # a subclass whose constructor drops a required attribute of its base, and a family in which base and subclass
            # each have their own discriminating recogniser: documents may match ONLY the subclass
            specs.append({'name': 'QB', 'kind': 'obj', 'bases': [], 'extra': False, 'registered': True,
                          'params': [{'name': 'size', 'type': 'int', 'required': True}]})
            specs.append({'name': 'QC', 'kind': 'obj', 'bases': ['QB'], 'extra': False, 'registered': True,
                          'params': [{'name': 'label', 'type': 'str', 'required': True}]})
            specs.append({'name': 'QD', 'kind': 'obj', 'bases': ['QC'], 'extra': False, 'registered': True,
                          'params': [{'name': 'label', 'type': 'str', 'required': True}, {'name': 'deep', 'type': 'bool', 'required': True}]})
            specs.append({'name': 'RB', 'kind': 'obj', 'bases': [], 'extra': False, 'registered': True,
                          'params': [{'name': 'kind', 'type': 'str', 'required': True}],
                          'recognize': [('attrvalue', 'kind', 'RB')]})
            specs.append({'name': 'RC', 'kind': 'obj', 'bases': ['RB'], 'extra': False, 'registered': True,
                          'params': [{'name': 'kind', 'type': 'str', 'required': True}],
                          'recognize': [('attrvalue', 'kind', 'RC')]})
        if rnd.random() < 0.4 or _ < 2:
            # abstract by ABC listed AFTER another base (a mix-in or a registered class): never instantiated, its concrete
            # subclass is
            specs.append({'name': 'AB', 'kind': 'obj', 'bases': ['Mixin', 'ABC'], 'extra': False, 'registered': True,
                          'params': [{'name': 'name', 'type': 'str', 'required': True}]})
            specs.append({'name': 'AC', 'kind': 'obj', 'bases': ['AB'], 'extra': False, 'registered': True,
                          'params': [{'name': 'name', 'type': 'str', 'required': True}, {'name': 'radius', 'type': 'int', 'required': True}]})
        yield specs


def tie(ctx, model_ok=True):
    rnd = random.Random(ctx['seed'] * 17 + 303)
    n_models = 60 if ctx['tier'] == 'quick' else 500
    nperm = 3 if ctx['tier'] == 'quick' else 6
    variants = {}

    def stream():
        for specs in hier_models(rnd, n_models):
            names = [s['name'] for s in specs if s.get('registered', True)]
            if not names:
                continue
            for _ in range(6):
                tyspec = ('class', rnd.choice(names)) if rnd.random() < 0.55 else loadcase.gen_type(rnd, names, 2)
                if 'PB' in names and rnd.random() < 0.3:
                    tyspec = ('class', 'PB')
                try:
                    node = loadcase.gen_node(rnd, specs, tyspec)
                except (IndexError, ValueError):
                    continue
                desc = 'valid'
                if rnd.random() < 0.35:
                    # explicit class tags: naming a candidate, an incompatible class, an unknown class
                    cands = [x for x in loadcase.all_nodes(node) if isinstance(x[0], yaml.MappingNode)]
                    if cands:
                        # also tags that do not start with '!': verbatim !<...> tags, %TAG-expanded shorthands
                        cands[rnd.randrange(len(cands))][0].tag = rnd.choice(
                            ['!' + x for x in names + ['Unknown']] * 3 +
                            ['tag:example.com,2019:' + rnd.choice(names), rnd.choice(names), 'Unknown'])
                        desc = 'class-tag'
                elif rnd.random() < 0.25:
                    node, desc = loadcase.mutate(rnd, node, specs)
                if 'Col' in names and rnd.random() < 0.5:
                    leaf = rnd.choice([loadcase.S('true', 'bool'), loadcase.S('red'), loadcase.S('false', 'bool'),
                                       loadcase.S('1', 'int')])
                    if rnd.random() < 0.5:
                        node = loadcase.M([(loadcase.S('c'), leaf)])
                        tyspec = ('class', 'Holder')
                    else:
                        node = leaf
                        tyspec = rnd.choice([('union', [('class', 'Col'), 'bool']), ('union', ['bool', ('class', 'Col')]),
                                             ('union', ['int', 'bool', ('class', 'Col')])])
                    desc = 'enum-or-bool'
                if 'PB' in names and rnd.random() < 0.35:
                    # directed: the unique most-derived match of this family is known by construction
                    cls = rnd.choice(['PB', 'PC', 'PD'])
                    extra = {'PB': [], 'PC': [('radius', loadcase.S('3', 'int'))], 'PD': [('side', loadcase.S('4', 'int'))]}[cls]
                    node = loadcase.M([(loadcase.S('name'), loadcase.S('n'))] + [(loadcase.S(k), v) for k, v in extra])
                    tyspec = ('class', 'PB')
                    r = rnd.random()
                    if r < 0.4:
                        desc = 'directed:' + cls
                    elif r < 0.55:
                        node.tag = '!' + cls
                        desc = 'directed:' + cls
                    elif r < 0.75:
                        # a tag that names no registered class, in one of the spellings that do not start with '!'
                        node.tag = rnd.choice(['tag:example.com,2019:' + cls, cls, '!Unknown', 'tag:example.com,2019:Unknown'])
                        desc = 'directed-fail:unknown-tag'
                    else:
                        other = rnd.choice([x for x in ['PC', 'PD'] if x != cls])
                        node.tag = '!' + other
                        desc = 'directed-fail:conflicting-tag'
                if 'AB' in names and rnd.random() < 0.2:
                    S = loadcase.S
                    concrete = rnd.random() < 0.5
                    node = loadcase.M([(S('name'), S('n'))] + ([(S('radius'), S('3', 'int'))] if concrete else []))
                    tyspec = rnd.choice([('class', 'AB'), ('optional', ('class', 'AB')), ('list', 0, ('class', 'AB'))])
                    if tyspec[0] == 'list':
                        node = loadcase.Q([node])
                    desc = 'directed:AC' if concrete else 'directed-abstract'
                if 'PB' in names and rnd.random() < 0.15:
                    # a class tag (registered or unknown) on a SEQUENCE or a dict node at a list / dict / Union position
                    S = loadcase.S
                    item = loadcase.M([(S('name'), S('n')), (S('radius'), S('3', 'int'))])
                    if rnd.random() < 0.5:
                        node, tyspec = loadcase.Q([item]), rnd.choice([('list', 0, ('class', 'PB')), ('union', [('class', 'PB'), ('list', 0, ('class', 'PB'))])])
                    else:
                        node, tyspec = loadcase.M([(S('k'), item)]), rnd.choice([('dict', 3, 'str', ('class', 'PB')), ('optional', ('dict', 3, 'str', ('class', 'PB')))])
                    node.tag = rnd.choice(['!PC', '!PB', '!Unknown', 'tag:example.com,2019:PC'])
                    desc = 'directed-fail:tag-on-collection'
                if 'QB' in names and rnd.random() < 0.3:
                    cls = rnd.choice(['QB', 'QC', 'QD', 'RB', 'RC'])
                    S = loadcase.S
                    node = loadcase.M({'QB': [(S('size'), S('3', 'int'))], 'QC': [(S('label'), S('x'))],
                                       'QD': [(S('label'), S('x')), (S('deep'), S('true', 'bool'))],
                                       'RB': [(S('kind'), S('RB'))], 'RC': [(S('kind'), S('RC'))]}[cls])
                    tyspec = ('class', 'RB' if cls in ('RB', 'RC') else rnd.choice(['QB', 'QB', 'QC'] if cls != 'QB' else ['QB']))
                    if rnd.random() < 0.3:
                        tyspec = rnd.choice([('optional', tyspec), ('list', 0, tyspec), ('union', ['int', tyspec])])
                        if tyspec[0] == 'list':
                            node = loadcase.Q([node])
                    desc = 'directed:' + cls
                try:
                    text = loadcase.serialize(node)
                except Exception:      # noqa
                    continue
                key = (id(specs), repr(tyspec), text)
                variants[key] = (specs, tyspec)
                yield specs, tyspec, text, desc

    def perm_oracle(c):
        import yatiml
        from yatiml import util
        base = canon(c.outcome)
        # never an abstract or unregistered class
        bad = find_bad_class(c.model, c.outcome[1]) if c.outcome[0] == 'ok' else None
        if bad:
            return (f'instantiated:{bad[0]}', f'loaded object of {bad[0]} class {bad[1]} from {c.text!r}')
        names = c.model.registered_names()
        for i in range(nperm):
            order = list(names)
            rnd.shuffle(order)
            if i % 2 == 0:
                m2 = c.model
                old = m2.order
                m2.order = order
                try:
                    v = loadcase.run_case(c.specs, c.tyspec, c.text, 'perm', model=m2)
                finally:
                    m2.order = old
                how = f'registration order {order}'
                specs2, ty2 = c.specs, c.tyspec
            else:
                specs2 = permute_specs(rnd, c.specs)
                ty2 = permute_type(rnd, c.tyspec)
                m2 = classgen.Model(specs2)
                m2.order = order
                v = loadcase.run_case(specs2, ty2, c.text, 'perm', model=m2)
                how = f'registration order {order} and Union members permuted (type {ty2})'
            if canon(v.outcome) != base:
                kind = 'ok-vs-error' if (base[0] == 'ok') != (canon(v.outcome)[0] == 'ok') else 'different-values'
                shape = 'enum-vs-bool' if c.desc == 'enum-or-bool' else c.desc.split('+')[0]
                return (f'order-dependent:{kind}:{shape}',
                        f'{c.text!r} as {c.tyspec}: {c.outcome!r} but under {how}: {v.outcome!r}')
        return None

    def guess_oracle(c):
        # top-level Union: count the members that recognise a pristine copy of the document node
        import yatiml
        if c.outcome[0] != 'ok' or c.doc is None or not (isinstance(c.tyspec, tuple) and c.tyspec[0] == 'union'):
            return None
        load = yatiml.load_function(c.model.type_obj(c.tyspec), *c.model.registered_classes())
        found = set()
        for mt in c.tyspec[1]:
            rec = load.loader('')._Loader__recognizer
            try:
                node = loadcase.compose_raw(load, c.text)
                tys, _ = rec.recognize(node, c.model.type_obj(mt))
            except Exception:      # noqa
                return None
            found |= {str(t) for t in tys}
        found.discard(str(yatiml.bool_union_fix)) if str(bool) in found else None
        if len(found) > 1:
            shape = 'enum-vs-bool' if c.desc == 'enum-or-bool' else c.desc.split('+')[0]
            return (f'guess:{shape}', f'{c.text!r} as {c.tyspec}: members recognise it as {sorted(found)} (two or more candidates) '
                                      f'but load returned {c.outcome[1]!r}')
        return None

    def directed_oracle(c):
        if c.desc.startswith('directed:'):
            want = c.desc.split(':')[1]
            if c.outcome[0] != 'ok':
                return ('most-derived:error', f'{c.text!r} as {c.tyspec} (PB <- PC(radius), PD(side), PB has a custom recogniser; '
                                              f'QB(size) <- QC(label) <- QD(label, deep); RB, RC(RB) recognised by kind): exactly one '
                                              f'most-derived class matches ({want}) but load raised {c.outcome[1]!r}')
            got = c.outcome[1][0] if isinstance(c.outcome[1], list) and c.outcome[1] else c.outcome[1]
            if type(got).__name__ != want:
                return ('most-derived:wrong-class', f'{c.text!r} as {c.tyspec}: most-derived match is {want}, loaded a {type(got).__name__}')
        if c.desc == 'directed-abstract' and c.outcome[0] == 'ok':
            return ('instantiated:abstract', f'{c.text!r} as {c.tyspec}: only the abstract class AB(Mixin, ABC) matches, yet load returned {c.outcome[1]!r}')
        if c.desc.startswith('directed-fail') and c.outcome[0] == 'ok':
            return (c.desc.replace('directed-fail', 'tag-ignored'),
                    f'{c.text!r} as PB: the tag names an unknown or incompatible class, yet load returned a {type(c.outcome[1]).__name__}')
        return None

    res = loadprop.run_stream(ctx, 'C03', stream(), [perm_oracle, guess_oracle, directed_oracle])
    res['rule'] = (f'hierarchy-biased class models (single/multiple inheritance, abstract and unregistered intermediates, '
                   f'recognisers, enums with bool-like members in unions) x 6 documents (valid, explicit !Class tags naming '
                   f'candidates / incompatible / unknown classes, mutations) x {nperm} random permutations of registration order '
                   'and Union members; non-trivial = load ran a user constructor or failed on a parseable document')
    return loadprop.strip_private(res)


def canon(outcome):
    if outcome[0] == 'ok':
        try:
            return ('ok', encode.value_term(outcome[1]))
        except TypeError:
            return ('ok', repr(outcome[1]))
    return ('err',)


def find_bad_class(model, v):
    from yatiml import util
    import enum
    names = set(model.registered_names())
    if isinstance(v, (list, tuple)):
        for x in v:
            b = find_bad_class(model, x)
            if b:
                return b
    elif isinstance(v, dict):
        for k, x in v.items():
            b = find_bad_class(model, k) or find_bad_class(model, x)
            if b:
                return b
    elif hasattr(v, '_verif_kwargs'):
        n = type(v).__name__
        if n not in names:
            return ('unregistered', n)
        if oracles.is_abstract_doc(type(v)):
            return ('abstract', n)
        for x in v._verif_kwargs.values():
            b = find_bad_class(model, x)
            if b:
                return b
    return None


def search(ctx, broken, details, tie_res):
    return []


def replay(case):
    import ast
    rnd = random.Random(1)
    specs, ty = case['specs'], ast.literal_eval(case['type'])
    c = loadcase.run_case(specs, ty, case['text'], '')
    base = canon(c.outcome)
    for i in range(24):
        specs2, ty2 = permute_specs(rnd, specs), permute_type(rnd, ty)
        m2 = classgen.Model(specs2)
        order = m2.registered_names()
        rnd.shuffle(order)
        m2.order = order
        v = loadcase.run_case(specs2, ty2, case['text'], 'perm', model=m2)
        if canon(v.outcome) != base:
            print('  ', c.outcome, 'vs', v.outcome, 'under', order, ty2)
            return True
    return False
