"""C02 -- load accepts exactly what the documented pipeline admits and builds that value.

Proof:  Props/C02.v: each documented rule as a characterisation (iff) of the model's functions, for inputs of every size --
        built-ins by exact YAML type, lists / dicts element-wise, classes by presence and type of their required parameters with
        the dashed-key rule, the constructor's verdict (no missing, typed, no unknown unless _yatiml_extra, no reserved keys) and
        the arguments it passes (given parameters only, signature order, extras in document order) -- plus the pipeline
        equation.  The global "iff" (three verdicts agree with one bottom-up relation) is NOT proved: see DESIGN.md.
Tie:    both directions of outcome equality, implementation vs the Coq load model, on auto-recognised generated models x
        (valid, mutated, directed) documents and on ALL small documents up to a size bound for fixed models.
Oracle: an independent reference implementation of the documented pipeline (Python, ~80 lines) for the hierarchy-free,
        hook-free fragment, judged in both directions (accepts what the reference rejects / rejects what it admits / other value).
"""
import itertools
import random

import yaml

import classgen
import encode
import loadcase
import loadprop
import nodeops

PID = 'C02'
MODNAME = 'C02'
PROPS_FILE = 'Props/C02.v'
COQ_FILES = ['Proofs/Pipeline.v', 'Proofs/Verdicts.v', 'Props/C02.v']
ASSUMPTIONS = [
    'classes use automatic recognition (no _yatiml_recognize); parameters are read from the signature by the harness itself, not through yatiml.introspection',
    'the reference oracle covers the hierarchy-free fragment with default-tagged documents (no explicit tags, merge keys or aliases); the rest is decided by the model tie',
]

T = 'tag:yaml.org,2002:'


class Reject(Exception):
    pass


def ref_admit(specs, node, t):
    """The documented pipeline for the hierarchy-free, hook-free fragment: value (canonical) or Reject."""
    if t is None or t == 'any':
        return plain(node)          # untyped / Any: plain data (all tags in this fragment are core tags)
    if t in ('str', 'int', 'float', 'bool'):
        if not isinstance(node, yaml.ScalarNode) or node.tag != T + t:
            raise Reject(f'expected {t}')
        if t == 'str':
            return ('leaf', encode.value_term(node.value))
        kind, x = encode.construct_scalar(node.tag, node.value)
        if kind != 'ok':
            raise Reject('unconstructible scalar')
        return ('leaf', encode.value_term(x))
    if t == 'path':
        if not isinstance(node, yaml.ScalarNode) or node.tag != T + 'str':
            raise Reject('expected a path (string)')
        import pathlib
        return ('leaf', encode.value_term(pathlib.Path(node.value)))
    if t[0] == 'optional':
        if isinstance(node, yaml.ScalarNode) and node.tag == T + 'null':
            return ('leaf', 'VNone')
        return ref_admit(specs, node, t[1])
    if t[0] == 'union':
        # a Union member is chosen by RECOGNITION (which does not look at unknown keys); exactly one must recognise the node
        rec = [m for m in t[1] if rec_count(specs, node, m) > 0]
        if len(rec) != 1 or rec_count(specs, node, rec[0]) != 1:
            raise Reject('not exactly one union member')
        return ref_admit(specs, node, rec[0])
    if t[0] == 'list':
        if not isinstance(node, yaml.SequenceNode) or node.tag != T + 'seq':
            raise Reject('expected list')
        return ('list', [ref_admit(specs, x, t[2]) for x in node.value])
    if t[0] == 'dict':
        if not isinstance(node, yaml.MappingNode) or node.tag != T + 'map':
            raise Reject('expected dict')
        out = []
        for k, v in node.value:
            kk = ref_admit(specs, k, t[2])
            vv = ref_admit(specs, v, t[3])
            for i, (k0, _) in enumerate(out):
                if k0 == kk:
                    out[i] = (k0, vv)
                    break
            else:
                out.append((kk, vv))
        return ('dict', out)
    s = loadcase.spec_of(specs, t[1])
    if s['kind'] == 'enum':
        if not isinstance(node, yaml.ScalarNode) or node.tag not in (T + 'str', T + 'bool') or node.value not in s['members']:
            raise Reject('enum')
        return ('leaf', f'(VEnum {encode.coq_ustr(s["name"])} {encode.coq_ustr(node.value)})')
    if s['kind'] == 'str':
        if not isinstance(node, yaml.ScalarNode) or node.tag != T + 'str' or s.get('str'):
            raise (OutOfScope() if s.get('str') else Reject('string-like'))
        return ('leaf', f'(VUStr {encode.coq_ustr(s["name"])} {encode.coq_ustr(node.value)})')
    if not isinstance(node, yaml.MappingNode):
        raise Reject('expected mapping')
    keys = []
    for k, _ in node.value:
        if not isinstance(k, yaml.ScalarNode) or k.tag != T + 'str':
            raise Reject('non-string key')
        keys.append(k.value)
    names = [p['name'] for p in s['params']]
    kw = []
    for p in s['params']:
        n = keys.count(p['name'])
        if n > 1:
            raise Reject('duplicate attribute')
        if n == 1:
            kw.append((p['name'], ref_admit(specs, node.value[keys.index(p['name'])][1], p['type'])))
        elif p['required']:
            raise Reject('missing required attribute')     # a dashed key passes recognition but the constructor does not know it
    extras = []
    for (k, v) in node.value:
        if k.value in names:
            continue
        if k.value in ('self', '_yatiml_extra'):
            raise Reject('reserved key')
        if not s.get('extra'):
            raise Reject('unknown attribute')
        pv = plain(v)
        for i, (k0, _) in enumerate(extras):
            if k0 == ('leaf', encode.value_term(k.value)):
                extras[i] = (k0, pv)
                break
        else:
            extras.append((('leaf', encode.value_term(k.value)), pv))
    if s.get('extra'):
        kw.append(('_yatiml_extra', ('dict', extras)))
    return ('obj', s['name'], kw)


def plain(node):
    """Extra attributes arrive as plain data: what PyYAML's SafeConstructor builds from the node by its (core) tags."""
    if isinstance(node, yaml.ScalarNode):
        if node.tag == T + 'str':
            return ('leaf', encode.value_term(node.value))
        kind, x = encode.construct_scalar(node.tag, node.value)
        if kind != 'ok':
            raise Reject('unconstructible scalar')
        return ('leaf', encode.value_term(x))
    if isinstance(node, yaml.SequenceNode):
        if node.tag != T + 'seq':
            raise OutOfScope()
        return ('list', [plain(x) for x in node.value])
    if node.tag != T + 'map':
        raise OutOfScope()
    out = []
    for k, v in node.value:
        kk, vv = plain(k), plain(v)
        if kk[0] != 'leaf':
            raise Reject('unhashable key')
        for i, (k0, _) in enumerate(out):
            if k0 == kk:
                out[i] = (k0, vv)
                break
        else:
            out.append((kk, vv))
    return ('dict', out)


class OutOfScope(Exception):
    pass


def rec_count(specs, node, t):
    """How many types the documented recognition rules find for the node at type t: 0, 1 or 2 (= several)."""
    if t is None or t == 'any':
        return 1
    if t in ('str', 'int', 'float', 'bool'):
        return int(isinstance(node, yaml.ScalarNode) and node.tag == T + t)
    if t == 'path':
        return int(isinstance(node, yaml.ScalarNode) and node.tag == T + 'str')
    if t[0] == 'optional':
        return min(2, int(isinstance(node, yaml.ScalarNode) and node.tag == T + 'null') + rec_count(specs, node, t[1]))
    if t[0] == 'union':
        return min(2, sum(rec_count(specs, node, m) for m in t[1]))
    if t[0] == 'list':
        if not isinstance(node, yaml.SequenceNode):
            return 0
        for x in node.value:
            c = rec_count(specs, x, t[2])
            if c != 1:
                return c
        return 1
    if t[0] == 'dict':
        if not isinstance(node, yaml.MappingNode):
            return 0
        for k, v in node.value:
            if rec_count(specs, k, t[2]) != 1:
                return 0
            c = rec_count(specs, v, t[3])
            if c != 1:
                return c
        return 1
    s = loadcase.spec_of(specs, t[1])
    if s['kind'] == 'enum':
        return int(isinstance(node, yaml.ScalarNode) and node.tag in (T + 'str', T + 'bool'))
    if s['kind'] == 'str':
        return int(isinstance(node, yaml.ScalarNode) and node.tag == T + 'str')
    if not isinstance(node, yaml.MappingNode):
        return 0
    keys = [k.value if isinstance(k, yaml.ScalarNode) else None for k, _ in node.value]
    for p in s['params']:
        for name in (p['name'], p['name'].replace('_', '-')):
            if name in keys:
                if keys.count(name) > 1 or rec_count(specs, node.value[keys.index(name)][1], p['type']) == 0:
                    return 0
                break
        else:
            if p['required']:
                return 0
    return 1


def canon_loaded(v):
    import enum
    if isinstance(v, (list, tuple)):
        return ('list', [canon_loaded(x) for x in v])
    if isinstance(v, dict):
        return ('dict', [(canon_loaded(k), canon_loaded(x)) for k, x in v.items()])
    if hasattr(v, '_verif_kwargs'):
        return ('obj', type(v).__name__, [(k, canon_loaded(x)) for k, x in v._verif_kwargs.items()])
    return ('leaf', encode.value_term(v))


def small_docs():
    """ALL node trees up to 4 nodes over a small alphabet of scalars and keys."""
    scal = [loadcase.S('a'), loadcase.S('1', 'int'), loadcase.S('1.5', 'float'), loadcase.S('true', 'bool'), loadcase.S('~', 'null')]
    keys = ['a', 'a-b', 'a_b', 'self', '_yatiml_extra', 'n']
    out = list(scal)
    out += [loadcase.Q([])] + [loadcase.Q([x]) for x in scal] + [loadcase.Q([x, y]) for x in scal[:3] for y in scal[:3]]
    out += [loadcase.M([])]
    for k in keys:
        for x in scal:
            out.append(loadcase.M([(loadcase.S(k), encode.copy_tree(x))]))
    for k1, k2 in itertools.product(keys[:4] + ['n'], repeat=2):
        for x, y in ((scal[1], scal[0]), (scal[0], scal[1]), (scal[1], scal[1])):
            out.append(loadcase.M([(loadcase.S(k1), encode.copy_tree(x)), (loadcase.S(k2), encode.copy_tree(y))]))
    for k in keys[:3]:
        out.append(loadcase.M([(loadcase.S(k), loadcase.Q([encode.copy_tree(scal[1])]))]))
        out.append(loadcase.M([(loadcase.S(k), loadcase.M([(loadcase.S('n'), encode.copy_tree(scal[1]))]))]))
        out.append(loadcase.M([(encode.copy_tree(scal[1]), encode.copy_tree(scal[1]))]))
    return out


def flat_model2(rnd, c17):
    """c17's hierarchy-free models, plus: classes taking _yatiml_extra (with the usual None default), and attributes typed as a
    Union of two unrelated classes (exactly one of which must admit the value)."""
    specs = c17.flat_model(rnd)
    objs = [s for s in specs if s['kind'] == 'obj']
    for s in objs:
        if rnd.random() < 0.4:
            s['extra'] = True
    if len(objs) >= 2 and rnd.random() < 0.7:
        a, b = objs[0], objs[1]
        if not any(isinstance(p.get('type'), tuple) and p['type'] == ('class', a['name']) for p in b['params']):
            specs.append({'name': 'U', 'kind': 'obj', 'bases': [], 'extra': False, 'registered': True,
                          'params': [{'name': 'item', 'type': ('union', [('class', a['name']), ('class', b['name'])]), 'required': True}]})
    return specs


FIXED_MODELS = [
    ([{'name': 'P', 'kind': 'obj', 'bases': [], 'extra': False, 'registered': True,
       'params': [{'name': 'a_b', 'type': 'int', 'required': True}, {'name': 'n', 'type': 'int', 'required': False}]}],
     [('class', 'P'), ('list', 0, ('class', 'P')), ('optional', ('class', 'P'))]),
    ([{'name': 'E', 'kind': 'obj', 'bases': [], 'extra': True, 'registered': True,
       'params': [{'name': 'a', 'type': 'str', 'required': True}, {'name': 'n', 'type': ('optional', 'int'), 'required': False}]}],
     [('class', 'E'), ('dict', 3, 'str', ('class', 'E'))]),
    ([{'name': 'C', 'kind': 'enum', 'bases': [], 'members': ['a', 'true'], 'registered': True, 'enumvals': 'strempty'},
      {'name': 'H', 'kind': 'obj', 'bases': [], 'extra': False, 'registered': True,
       'params': [{'name': 'a', 'type': ('class', 'C'), 'required': True}, {'name': 'n', 'type': ('union', ['int', 'float']), 'required': False}]}],
     [('class', 'H'), ('class', 'C'), ('union', [('class', 'C'), 'int'])]),
    ([], ['int', 'str', ('list', 0, 'int'), ('dict', 3, 'str', 'int'), ('union', ['int', 'str']), ('optional', 'float'), 'any', None]),
]


def tie(ctx, model_ok=True):
    import yatiml
    import sys
    import os
    sys.path.insert(0, os.path.dirname(__file__))
    import c17
    rnd = random.Random(ctx['seed'] * 23 + 202)
    n_models = 60 if ctx['tier'] == 'quick' else 1500
    frag = {'n': 0, 'admitted': 0, 'rejected': 0}
    ref_fail = []

    def stream():
        # 1. auto-recognised generated models (hierarchies allowed), valid / mutated / directed documents
        yield from loadcase.gen_cases(rnd, n_models, 6, hooks=False)
        # 2. exhaustive small documents for fixed models
        docs = small_docs()
        for specs, types in FIXED_MODELS:
            for t in types:
                for d in (docs if ctx['tier'] != 'quick' else rnd.sample(docs, 70)):
                    try:
                        yield specs, t, loadcase.serialize(encode.copy_tree(d)), 'small'
                    except Exception:      # noqa
                        continue
        # 2b. directed, judged by the reference oracle: a Union of two unrelated classes one of which takes _yatiml_extra (in both
        #     signature positions), and explicit nulls at parameters whose type admits null
        S, M, Q = loadcase.S, loadcase.M, loadcase.Q
        for extra_at in (None, 2):
            fam = [{'name': 'Tg', 'kind': 'obj', 'bases': [], 'extra': True, 'registered': True, 'extra_at': extra_at,
                    'params': [{'name': 'value', 'type': 'int', 'required': True}, {'name': 'name', 'type': 'str', 'required': True},
                               {'name': 'note', 'type': ('optional', 'str'), 'required': False}]},
                   {'name': 'Pl', 'kind': 'obj', 'bases': [], 'extra': False, 'registered': True,
                    'params': [{'name': 'value', 'type': 'int', 'required': True},
                               {'name': 'maybe', 'type': ('optional', 'int'), 'required': True},
                               {'name': 'free', 'type': None, 'required': True}]},
                   {'name': 'Ho', 'kind': 'obj', 'bases': [], 'extra': False, 'registered': True,
                    'params': [{'name': 'item', 'type': ('union', [('class', 'Tg'), ('class', 'Pl')]), 'required': True}]}]
            i7, nul = S('7', 'int'), S('null', 'null')
            items = [M([(S('value'), i7), (S('maybe'), nul), (S('free'), nul)]), M([(S('value'), i7), (S('maybe'), i7), (S('free'), S('x'))]),
                     M([(S('name'), S('x')), (S('value'), i7)]), M([(S('name'), S('x')), (S('value'), i7), (S('note'), nul)]),
                     M([(S('name'), S('x')), (S('value'), i7), (S('zz'), i7)]), M([(S('name'), S('x'))]), M([(S('value'), i7)]),
                     M([(S('value'), i7), (S('maybe'), nul)]), M([(S('value'), i7), (S('free'), nul)]), M([]),
                     M([(S('value'), S('x')), (S('maybe'), nul), (S('free'), nul)]), M([(S('name'), nul), (S('value'), i7)])]
            for it in items:
                for tyspec, node in ((('class', 'Ho'), M([(S('item'), encode.copy_tree(it))])),
                                     (('union', [('class', 'Tg'), ('class', 'Pl')]), encode.copy_tree(it)),
                                     (('class', 'Pl'), encode.copy_tree(it)), (('class', 'Tg'), encode.copy_tree(it))):
                    try:
                        yield fam, tyspec, loadcase.serialize(node), 'flat-directed'
                    except Exception:      # noqa
                        continue
        # 2c. declarative seasoning: documents that are valid by construction once the savorize transform has run
        for fspecs, fty, fnode, fdesc in loadcase.transform_cases(rnd):
            if fdesc.startswith('valid-by-construction'):
                try:
                    yield fspecs, fty, loadcase.serialize(fnode), fdesc
                except Exception:      # noqa
                    continue
        # 2d. nested objects of ONE class that takes _yatiml_extra, each with its own extra attributes
        nest = [{'name': 'Nd', 'kind': 'obj', 'bases': [], 'extra': True, 'registered': True,
                 'params': [{'name': 'title', 'type': 'str', 'required': True},
                            {'name': 'child', 'type': ('optional', ('class', 'Nd')), 'required': False},
                            {'name': 'kids', 'type': ('list', 0, ('class', 'Nd')), 'required': False}]}]
        leaf = M([(S('title'), S('leaf')), (S('editor'), S('z'))])
        for doc in (M([(S('title'), S('top')), (S('author'), S('me')), (S('child'), encode.copy_tree(leaf))]),
                    M([(S('title'), S('top')), (S('child'), encode.copy_tree(leaf)), (S('author'), S('me')), (S('year'), S('7', 'int'))]),
                    M([(S('title'), S('top')), (S('author'), S('me')), (S('kids'), Q([encode.copy_tree(leaf), M([(S('title'), S('k2'))])]))]),
                    M([(S('title'), S('top')), (S('child'), M([(S('title'), S('mid')), (S('a'), S('1', 'int')), (S('child'), encode.copy_tree(leaf))]))])):
            try:
                yield nest, ('class', 'Nd'), loadcase.serialize(doc), 'flat-directed'
            except Exception:      # noqa
                continue
        # 2e. scalars of every kind at string-like / Enum / Path positions (alone, in a Union with bool, as dict keys)
        sl = [{'name': 'Ident', 'kind': 'str', 'bases': [], 'strbase': 'yatiml.String', 'registered': True},
              {'name': 'Col', 'kind': 'enum', 'members': ['red', 'true'], 'bases': [], 'registered': True, 'enumvals': 'int'}]
        for leaf in (S('true', 'bool'), S('False', 'bool'), S('red'), S('7', 'int'), S('1.5', 'float'), S('~', 'null'), S('true')):
            for ty in (('class', 'Ident'), ('class', 'Col'), 'path', ('union', ['bool', ('class', 'Ident')]),
                       ('union', ['int', 'bool', ('class', 'Ident')]), ('optional', ('class', 'Ident'))):
                try:
                    yield sl, ty, loadcase.serialize(encode.copy_tree(leaf)), 'flat-directed'
                    yield sl, ('list', 0, ty), loadcase.serialize(Q([encode.copy_tree(leaf)])), 'flat-directed'
                except Exception:      # noqa
                    continue
            for kty in (('class', 'Ident'), 'str'):
                try:
                    yield sl, ('dict', 3, kty, 'int'), loadcase.serialize(M([(encode.copy_tree(leaf), S('1', 'int'))])), 'flat-directed'
                except Exception:      # noqa
                    continue
        # 3. the hierarchy-free fragment: valid documents and corruptions (also judged by the reference oracle)
        for _ in range(n_models * 2):
            specs = flat_model2(rnd, c17)
            objs = [s['name'] for s in specs if s['kind'] == 'obj']
            tyspec = ('class', rnd.choice(objs))
            for _ in range(3):
                node = c17.gen_valid(rnd, specs, tyspec)
                r = rnd.random()
                desc = 'flat-valid'
                if r < 0.6:
                    c = c17.corrupt(rnd, specs, tyspec, node)
                    desc = 'flat-' + (c[0] if c else 'valid')
                elif r < 0.75:
                    # a dashed key standing in for an underscored one / a duplicated key / a non-string key
                    maps = [x for _, x in c17.path_nodes(node) if isinstance(x, yaml.MappingNode) and x.value]
                    if maps:
                        m = rnd.choice(maps)
                        i = rnd.randrange(len(m.value))
                        how = rnd.choice(['dash', 'dup', 'intkey', 'retag', 'retag'])
                        if how == 'retag':
                            # an explicit core tag that is not the collection's own: lists and dicts must refuse it
                            colls = [x for _, x in c17.path_nodes(node) if not isinstance(x, yaml.ScalarNode)]
                            x = rnd.choice(colls)
                            x.tag = T + rnd.choice(['omap', 'set', 'pairs'] + (['map'] if isinstance(x, yaml.SequenceNode) else ['seq']))
                        if how == 'retag':
                            pass
                        elif how == 'dash':
                            m.value[i][0].value = m.value[i][0].value.replace('_', '-')
                        elif how == 'dup':
                            m.value.append((encode.copy_tree(m.value[i][0]), encode.copy_tree(m.value[i][1])))
                        else:
                            m.value[i] = (yaml.ScalarNode(T + 'int', '7'), m.value[i][1])
                        desc = 'flat-' + how
                try:
                    text = yaml.serialize(node, Dumper=yaml.SafeDumper)
                except Exception:      # noqa
                    continue
                yield specs, tyspec, text, desc

    def reference_oracle(c):
        if not c.desc.startswith(('flat-', 'alias-')) or c.doc is None or c.doc_err is not None:
            return None
        # (aliases: the documented meaning is that of the document with every alias replaced by a copy -- the composed graph read
        #  as a tree; only the directed acyclic alias family is judged here)
        if '<<' in c.text or (('&' in c.text or '*' in c.text) and not c.desc.startswith('alias-')) or \
                not all(x.tag.startswith(T) for x, *_ in loadcase.all_nodes(c.doc)):
            return None
        try:
            want = ('ok', ref_admit(c.specs, c.doc, c.tyspec))
            frag['n'] += 1
            frag['admitted'] += 1
        except OutOfScope:
            return None
        except Reject as e:
            frag['n'] += 1
            want = ('reject', str(e))
            frag['rejected'] += 1
        if c.outcome[0] == 'ok':
            got = ('ok', canon_loaded(c.outcome[1]))
        elif isinstance(c.outcome[1], yatiml.RecognitionError):
            got = ('reject', '')
        else:
            return None         # another exception class: C08's business
        if want[0] == 'ok' and got[0] == 'reject':
            return ('rejects-admitted:' + c.desc, f'{c.text!r} as {c.tyspec}: the documented pipeline admits it ({want[1]!r}) but load raised '
                                                  f'{str(c.outcome[1])[:200]!r}')
        if want[0] == 'reject' and got[0] == 'ok':
            return ('accepts-rejected:' + c.desc, f'{c.text!r} as {c.tyspec}: the documented pipeline rejects it ({want[1]}) but load returned {got[1]!r}')
        if want[0] == 'ok' and got != want:
            return ('other-value:' + c.desc, f'{c.text!r} as {c.tyspec}: the documented pipeline builds {want[1]!r}, load returned {got[1]!r}')
        return None

    def valid_oracle(c):
        if c.desc.startswith('valid-by-construction') and c.outcome[0] != 'ok':
            return ('rejects-valid-document:' + c.desc.split(':')[-1],
                    f'{c.text!r} as {c.tyspec} is valid once the class\'s declarative seasoning has run, but load raised {str(c.outcome[1])[:200]!r}')
        return None

    res = loadprop.run_stream(ctx, 'C02', stream(), [reference_oracle, valid_oracle])
    res['distribution']['reference_fragment'] = frag
    res['rule'] = ('auto-recognised generated class models x (valid / mutated / directed) documents; ALL node trees <= 4 nodes over '
                   '{a, 1, 1.5, true, ~} x keys {a, a-b, a_b, self, _yatiml_extra, n} for 4 fixed models x their types (sampled in the '
                   'quick tier); hierarchy-free models x valid documents and corruptions (wrong scalar, misspelt/dropped/surplus/dashed/'
                   'duplicated/non-string key, unknown enum member) judged by the independent reference pipeline in both directions')
    return loadprop.strip_private(res)


def search(ctx, broken, details, tie_res):
    return []


def replay(case):
    r = tie({'tier': 'quick', 'seed': 0})
    return any(f['case'].get('text') == case.get('text') for f in r['failing'])
