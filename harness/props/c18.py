"""C18 -- anchors and aliases are transparent.

Proof:  Props/C18.v: expansion of an alias graph into a tree is total (cycles rejected, never looped on)
        and loading a graph is loading its expansion.
Tie:    for generated (class model, document) pairs, all sharing variants: the aliased document and the
        textually expanded one must load to equal values / both fail; the aliased one is also compared with
        the Coq model run on the expanded tree; self/mutual cycles must be rejected with an error.
Oracle: outcome pair differs / RecursionError.
"""
import random

import yaml

import classgen
import encode
import loadcase
import loadprop

PID = 'C18'
MODNAME = 'C18'
PROPS_FILE = 'Props/C18.v'
COQ_FILES = ['Props/C18.v']
ASSUMPTIONS = ['values are compared structurally (equal classes and attribute values), not by object identity']

CYCLES = ['&a [*a]', '&a {k: *a}', 'x: &a [1, *a]', '&a [&b [*a, *b]]', 'k: &a {a: 1, b: *a}', '&a [[[*a]]]',
          '- &a [x, *a]\n- y', '&a {? *a : 1}', 'k: &a {? [*a] : v}']


def canon(outcome):
    if outcome[0] == 'ok':
        try:
            return ('ok', encode.value_term(outcome[1]))
        except TypeError:
            return ('ok', repr(outcome[1]))
    return ('err',)


def tie(ctx, model_ok=True):
    import yatiml
    rnd = random.Random(ctx['seed'] * 13 + 1818)
    n_models = 70 if ctx['tier'] == 'quick' else 2000
    pairs = {}
    failing = []

    def stream():
        for specs, ty, text, desc in loadcase.gen_cases(rnd, n_models, 7, hooks=True, share_p=0.0):
            # rebuild the node graph from the text, then share
            try:
                root = yaml.compose(text, Loader=yaml.SafeLoader)
            except yaml.YAMLError:
                continue
            if root is None:
                continue
            shared, how = loadcase.share(rnd, root)
            if how is None:
                continue
            if rnd.random() < 0.3:
                shared, how2 = loadcase.share(rnd, shared)
            try:
                t_alias = loadcase.serialize(shared)
                t_exp = loadcase.serialize(encode.copy_tree(shared))
            except Exception:      # noqa
                continue
            if '*' not in t_alias:
                continue
            pairs[t_alias + '|' + repr(ty)] = t_exp
            yield specs, ty, t_alias, desc + '+' + how
        # directed: MANY aliases to one small collection, one alias to a LARGE collection, aliases inside an aliased subtree
        S, Q, M = loadcase.S, loadcase.Q, loadcase.M
        for n_alias in (2, 10, 51, 60, 200):
            small = M([(S('x'), S('1', 'int'))])
            doc = Q([small] * n_alias)
            for ty in (('list', 0, ('dict', 3, 'str', 'int')), 'any', ('list', 0, 'any')):
                t_alias, t_exp = loadcase.serialize(doc), loadcase.serialize(encode.copy_tree(doc))
                pairs[t_alias + '|' + repr(ty)] = t_exp
                yield [], ty, t_alias, 'many-aliases'
        for rows in (70, 300):
            big = Q([Q([S(str(i), 'int')]) for i in range(rows)])
            inner = M([(S('p'), big), (S('q'), big)])
            doc = M([(S('a'), inner), (S('b'), inner)])
            for ty in (('dict', 3, 'str', ('dict', 3, 'str', ('list', 0, ('list', 0, 'int')))), 'any'):
                t_alias, t_exp = loadcase.serialize(doc), loadcase.serialize(encode.copy_tree(doc))
                pairs[t_alias + '|' + repr(ty)] = t_exp
                yield [], ty, t_alias, 'big-alias'
        names = ['K0']
        for specs, ty, text, desc in loadcase.gen_cases(rnd, 6, 1, hooks=False):
            for cyc in CYCLES:
                for t in ('any', ('list', 0, 'any'), ('dict', 3, 'str', 'any'), ty):
                    yield specs, t, cyc, 'cycle'

    def pair_oracle(c):
        if c.desc == 'cycle':
            if c.outcome[0] == 'ok':
                return ('cycle-accepted', f'self-referential document {c.text!r} loaded as {c.outcome[1]!r}')
            if isinstance(c.outcome[1], (yatiml.RecognitionError, yaml.YAMLError)):
                return None
            return (f'cycle:{type(c.outcome[1]).__name__}',
                    f'self-referential document {c.text!r} raised {type(c.outcome[1]).__name__} instead of an error report')
        t_exp = pairs.get(c.text + '|' + repr(c.tyspec))
        if t_exp is None:
            return None
        e = loadcase.run_case(c.specs, c.tyspec, t_exp, 'expanded', model=c.model)
        a, b = canon(c.outcome), canon(e.outcome)
        if a != b:
            kind = 'aliased-fails' if a[0] == 'err' else 'expanded-fails' if b[0] == 'err' else 'values-differ'
            return (f'alias-vs-expanded:{kind}',
                    f'aliased document {c.text!r} gives {c.outcome!r} but its expansion {t_exp!r} gives {e.outcome!r}')
        return None

    # Loader.__expand_aliases vs Graph.expand on the composed graphs
    exp_terms, exp_texts = [], []

    def expand_probe(c):
        if c.doc is None:
            return None
        import yatiml as _y
        ld = _y.load_function().loader('')
        try:
            tree = ld._Loader__expand_aliases(c.doc, frozenset())
            exp = f'(Ok {encode.node_term(tree)})'
        except _y.RecognitionError:
            exp = '(Err ERecognition)'
        except RecursionError:
            exp = '(Err (EPy PyRecursionError))'
        g, r = encode.graph_term(c.doc)
        exp_terms.append('{| ec_graph := ' + g + f'; ec_root := {r}%nat; ec_expect := ' + exp + ' |}')
        exp_texts.append(c.text)
        return None

    res = loadprop.run_stream(ctx, 'C18', stream(), [pair_oracle, expand_probe])
    import nodeops as _no
    bad = _no.eval_shards('C18x', exp_terms, per_shard=200,
                          header=loadcase.HEADER.replace('LoadRun.', 'LoadRun Graph.'), fn='exp_mismatches', ctype='expcase')
    for b in bad[:20]:
        res['disagreements'].append({'kind': 'C18-expand', 'text': exp_texts[b]})
    res['distribution']['expand_compared'] = len(exp_terms)
    res['rule'] = ('C01-style (class model, document) pairs re-composed and given 1-2 sharings of equal sub-nodes (or forced '
                   'sharing across positions of different declared types); each aliased text is loaded, its textual expansion is '
                   'loaded, and the aliased one is compared with the Coq model evaluated on the expanded tree; plus 7 cyclic '
                   'documents x 4 declared types x 6 models; non-trivial = the aliased document contains at least one alias')
    return loadprop.strip_private(res)


def search(ctx, broken, details, tie_res):
    return []


def replay(case):
    import ast
    import yatiml
    c = loadcase.run_case(case['specs'], ast.literal_eval(case['type']), case['text'], case.get('desc', ''))
    if case.get('desc') == 'cycle':
        return not (c.outcome[0] == 'err' and isinstance(c.outcome[1], (yatiml.RecognitionError, yaml.YAMLError)))
    root = yaml.compose(case['text'], Loader=yaml.SafeLoader)
    e = loadcase.run_case(case['specs'], ast.literal_eval(case['type']), loadcase.serialize(encode.copy_tree(root)),
                          'expanded', model=c.model)
    print('  aliased :', c.outcome)
    print('  expanded:', e.outcome)
    return canon(c.outcome) != canon(e.outcome)
