"""Load-pipeline cases: random class models, documents derived from values of the
declared type plus mutations, execution on the implementation, encoding for the
Coq model (Model/LoadRun.v)."""
import copy
import io
import random

import yaml

import classgen
import common
import encode
import nodeops
from common import coq_ustr
from nodeops import S, Q, M, TAG

HEADER = ('From Coq Require Import NArith ZArith List Bool String. Import ListNotations.\n'
          'From Y Require Import Prelude Node Tables NodeOps OpsRun Types Recognize Loader Hooks LoadRun.\n'
          'Open Scope N_scope.\nSet Printing Width 1000000. Set Printing Depth 100000000.\n')

PNAMES = ['a', 'b', 'c_d', 'e', 'name', 'kind', 'x_y_z', 'f', '_meta']
SCALARS = ['str', 'int', 'float', 'bool', 'none', 'date', 'path', 'any']


# ---------------------------------------------------------------- class models

def gen_type(rnd, classes, depth=2, allow_any=True):
    r = rnd.random()
    if depth <= 0 or r < 0.45:
        pool = ['str', 'int', 'float', 'bool', 'str', 'int'] + (['any'] if allow_any else []) + ['date', 'path', 'none']
        if classes and rnd.random() < 0.5:
            return ('class', rnd.choice(classes))
        return rnd.choice(pool)
    if r < 0.6:
        return ('list', rnd.choice([0, 0, 1, 2]), gen_type(rnd, classes, depth - 1, allow_any))
    if r < 0.72:
        return ('dict', rnd.choice([3, 3, 4, 5]), 'str', gen_type(rnd, classes, depth - 1, allow_any))
    if r < 0.86:
        n = rnd.choice([2, 2, 3])
        ts = [gen_type(rnd, classes, depth - 1, False) for _ in range(n)]
        if 'bool' in ts and rnd.random() < 0.5:
            ts.append('boolfix')
        return ('union', ts)
    return ('optional', gen_type(rnd, classes, depth - 1, False))


def gen_model(rnd, max_classes=5, hooks=True):
    specs = []
    objs, names = [], []
    n = rnd.randrange(1, max_classes + 1)
    for i in range(n):
        name = 'K%d' % i
        r = rnd.random()
        if r < 0.12:
            members = rnd.sample(['red', 'green', 'true', 'yes', 'blue_1', 'N'], rnd.randrange(1, 4))
            s = {'name': name, 'kind': 'enum', 'members': members, 'bases': []}
            if rnd.random() < 0.5:
                s['enumvals'] = rnd.choice(['int', 'strempty', 'none-first'])
            if hooks and rnd.random() < 0.3:
                s['savorize'] = [('if', ('isscalar', 'str'), [], [])]
        elif r < 0.24:
            s = {'name': name, 'kind': 'str', 'bases': [], 'strbase': rnd.choice(['yatiml.String', 'UserString', 'str'])}
            if s['strbase'] == 'str':
                s['strbase'] = 'yatiml.String'
            if rnd.random() < 0.4:
                s['str'] = ('failon', ['bad', ''], rnd.choice(['msg', 'bare', 'assert', 'key', 'custom']))
        else:
            bases = []
            params = []
            if objs and rnd.random() < 0.5:
                b = rnd.choice(objs)
                bases.append(b['name'])
                params = copy.deepcopy(b['params']) if rnd.random() < 0.8 else []
                if len(objs) > 1 and rnd.random() < 0.12:
                    b2 = rnd.choice([o for o in objs if o is not b])
                    if b2['name'] not in bases and not _related(specs, b['name'], b2['name']):
                        bases.append(b2['name'])
            if rnd.random() < 0.1:
                bases.append('Mixin')
            have = {p['name'] for p in params}
            for _ in range(rnd.randrange(0, 4)):
                pn = rnd.choice([x for x in PNAMES if x not in have] or ['zz%d' % len(have)])
                have.add(pn)
                p = {'name': pn, 'type': gen_type(rnd, names, 2), 'required': rnd.random() < 0.65}
                if rnd.random() < 0.08:
                    p['type'] = None        # untyped parameter
                params.append(p)
            params.sort(key=lambda p: not p['required'])
            s = {'name': name, 'kind': 'obj', 'bases': bases, 'params': params, 'extra': rnd.random() < 0.15}
            if s['extra'] and rnd.random() < 0.5:
                s['extra_at'] = rnd.randrange(0, len(params) + 1)      # `_yatiml_extra` not last in the signature
            if rnd.random() < 0.12:
                s['bases'] = s['bases'] + ['ABC']
            if rnd.random() < 0.14:
                mode = rnd.choice(['msg', 'bare', 'assert', 'key', 'custom', 'rec'])
                s['init'] = rnd.choice([('fail', mode), ('failif', params[0]['name'], 7, mode)]) if params else ('fail', mode)
            if hooks and rnd.random() < 0.15:
                s['recognize'] = rnd.choice([
                    [], [('mapping',)], [('mapping',), ('attr', 'kind', None)],
                    [('attrvalue', 'kind', name)], [('attrvaluenot', 'kind', 'other')],
                    [('scalar', ['str', 'int'])], [('attr', params[0]['name'], params[0]['type'])] if params and params[0]['type'] else [('mapping',)],
                ])
            if hooks and rnd.random() < 0.2:
                s['savorize'] = rnd.choice([
                    [('op', ('d2u',))],
                    [('if', ('has', 'alias'), [('rename', 'alias', params[0]['name'] if params else 'a')], [])],
                    [('if', ('has', 'zz'), [], [('set', 'zz', ('sv', 5))])],
                    [('s2m', params[0]['name'] if params else 'a')],
                    [('op', ('setvalue', 'oops'))],
                    [('raise',)],
                    [('if', ('hastype', 'a', 'int'), [('set', 'a', ('sv', 'now-a-string'))], [])],
                    [('op', ('seq2map', 'items', 'id', None, True))],
                    [('op', ('map2seq', params[0]['name'] if params else 'a', 'id', 'v'))],
                    [('op', ('remove', 'junk'))],
                ])
            objs.append(s)
        s['registered'] = rnd.random() > 0.07
        specs.append(s)
        if s['registered']:
            names.append(name)
    return specs


def _related(specs, a, b):
    def anc(n):
        out = {n}
        for s in specs:
            if s['name'] == n:
                for x in s.get('bases', []):
                    out |= anc(x)
        return out
    return a in anc(b) or b in anc(a)


# ---------------------------------------------------------------- values -> nodes

def all_subclasses(specs, name):
    out = []
    for s in specs:
        if s.get('registered', True) and name in s.get('bases', []):
            out.append(s['name'])
            out += all_subclasses(specs, s['name'])
    return out


def spec_of(specs, name):
    for s in specs:
        if s['name'] == name:
            return s
    return None


def gen_node(rnd, specs, t, depth=3):
    """A yaml node tree that is (meant to be) a valid document for type spec t."""
    if t is None or t == 'any':
        return rnd.choice([S('x'), S('1', 'int'), S('1.5', 'float'), S('true', 'bool'), S('', 'null'),
                           Q([S('a'), S('2', 'int')]), M([(S('k'), S('v')), (S('n'), Q([]))]),
                           yaml.ScalarNode('!K0', 'tagged'), M([(S('q'), S('1', 'int'))], '!K1'),
                           S('2001-12-14', 'timestamp'), M([(S('1', 'int'), S('x'))])])
    if isinstance(t, str):
        return {
            'str': lambda: S(rnd.choice(['x', 'hello world', '', 'true1', 'é', '12abc', 'a: b', '- x', 'null ', 'k0'])),
            'int': lambda: S(rnd.choice(['0', '1', '-17', '0x1F', '017', '1_000', '7'])
                             , 'int'),
            'float': lambda: S(rnd.choice(['1.5', '-0.0', '.inf', '1e3', '.5', '-.NaN']), 'float'),
            'bool': lambda: S(rnd.choice(['true', 'False', 'TRUE']), 'bool'),
            'boolfix': lambda: S(rnd.choice(['true', 'false']), 'bool'),
            'none': lambda: S(rnd.choice(['', '~', 'null']), 'null'),
            'date': lambda: S(rnd.choice(['2001-12-14', '2001-12-14 21:59:43.10 -5', '2002-1-1']), 'timestamp'),
            'path': lambda: S(rnd.choice(['/tmp/x', 'rel/p.txt', '.', '~/notes.txt', '~', '../up', '~nosuchuser/data', '~~', '$HOME/x'])),
        }[t]()
    k = t[0]
    if k == 'list':
        return Q([gen_node(rnd, specs, t[2], depth - 1) for _ in range(rnd.randrange(0, 3 if depth > 0 else 1))])
    if k == 'dict':
        return M([(S(rnd.choice(['k%d' % i, 'key', 'x_y'])), gen_node(rnd, specs, t[3], depth - 1))
                  for i in range(rnd.randrange(0, 3 if depth > 0 else 1))])
    if k == 'union':
        return gen_node(rnd, specs, rnd.choice(t[1]), depth)
    if k == 'optional':
        return S('', 'null') if rnd.random() < 0.3 else gen_node(rnd, specs, t[1], depth)
    if k == 'class':
        cands = [t[1]] + all_subclasses(specs, t[1])
        s = spec_of(specs, rnd.choice(cands))
        if s['kind'] == 'enum':
            return S(rnd.choice(s['members'] + s['members'] + ['nomember']))
        if s['kind'] == 'str':
            return S(rnd.choice(['text', 'bad', 'x y', '']))
        pairs = []
        for p in s['params']:
            if p['required'] or rnd.random() < 0.5:
                key = p['name'] if rnd.random() < 0.85 else p['name'].replace('_', '-')
                pairs.append((S(key), gen_node(rnd, specs, p['type'], depth - 1) if depth > 0 else S('x')))
        if s.get('extra') and rnd.random() < 0.6:
            pairs.append((S('extra1'), gen_node(rnd, specs, 'any', 1)))
        if any(r and r[0] in ('attrvalue', 'attr') for r in (s.get('recognize') or [])) and rnd.random() < 0.8:
            pairs.append((S('kind'), S(s['name'])))
        rnd.shuffle(pairs)
        return M(pairs)
    raise ValueError(t)


def all_nodes(n, acc=None, parent=None, idx=None):
    if acc is None:
        acc = []
    acc.append((n, parent, idx))
    if isinstance(n, yaml.SequenceNode):
        for i, x in enumerate(n.value):
            all_nodes(x, acc, n, i)
    elif isinstance(n, yaml.MappingNode):
        for i, (k, v) in enumerate(n.value):
            all_nodes(k, acc, n, (i, 0))
            all_nodes(v, acc, n, (i, 1))
    return acc


INJECT_TAGS = ['!K0', '!K1', '!K2', '!Unknown', 'tag:yaml.org,2002:python/object:os.system',
               'tag:yaml.org,2002:python/object/apply:os.system', 'tag:yaml.org,2002:python/name:os.getcwd',
               TAG + 'set', TAG + 'omap', TAG + 'binary', TAG + 'map', TAG + 'str', TAG + 'int', TAG + 'seq',
               '!Path', TAG + 'bool', TAG + 'timestamp', TAG + 'float']


def replace_child(parent, idx, new):
    if isinstance(parent, yaml.SequenceNode):
        parent.value[idx] = new
    else:
        i, side = idx
        k, v = parent.value[i]
        parent.value[i] = (new, v) if side == 0 else (k, new)


def mutate(rnd, root, specs):
    """One single-point mutation of a node tree (in place on a copy).  Returns (root, description)."""
    root = encode.copy_tree(root)
    nodes = all_nodes(root)
    n, parent, idx = rnd.choice(nodes)
    r = rnd.random()
    if r < 0.25:
        n.tag = rnd.choice(INJECT_TAGS)
        return root, 'tag-injection'
    if r < 0.45 and isinstance(n, yaml.ScalarNode):
        new = rnd.choice([S('x'), S('1', 'int'), S('1.5', 'float'), S('true', 'bool'), S('', 'null'), S('yes'),
                          S('2001-12-14', 'timestamp'), S('<<', 'merge'), S('=', 'value')])
        n.tag, n.value = new.tag, new.value
        return root, 'scalar-kind'
    if r < 0.6 and isinstance(n, yaml.MappingNode) and n.value:
        i = rnd.randrange(len(n.value))
        c = rnd.random()
        if c < 0.35:
            del n.value[i]
            return root, 'drop-key'
        if c < 0.6:
            k, v = n.value[i]
            n.value.insert(rnd.randrange(len(n.value) + 1),
                           (encode.copy_tree(k), rnd.choice([S('dup'), S('true', 'bool'), S('false', 'bool'), S('7', 'int'),
                                                             S('1.5', 'float'), S('', 'null'), encode.copy_tree(v)])))
            return root, 'duplicate-key'
        if c < 0.8:
            k, v = n.value[i]
            if isinstance(k, yaml.ScalarNode):
                k.value = rnd.choice([k.value + 'x', k.value.replace('_', '-'), 'self', '_yatiml_extra', k.value.upper()])
            return root, 'rename-key'
        k, v = n.value[i]
        n.value[i] = (rnd.choice([Q([S('k')]), M([]), S('1', 'int'), S('', 'null')]), v)
        return root, 'complex-key'
    if r < 0.64 and isinstance(n, yaml.MappingNode):
        # a merge key supplying (possibly ill-typed) attributes
        names = [k.value for k, _ in n.value if isinstance(k, yaml.ScalarNode)] + ['a', 'b', 'c_d', 'e']
        sub = M([(S(rnd.choice(names)), rnd.choice([S('true', 'bool'), S('7', 'int'), S('x'), Q([S('false', 'bool')])]))
                 for _ in range(rnd.randrange(1, 3))])
        n.value.insert(rnd.randrange(len(n.value) + 1), (S('<<', 'merge'), sub if rnd.random() < 0.8 else Q([sub])))
        return root, 'merge-key'
    if r < 0.7 and isinstance(n, yaml.MappingNode):
        n.value.append((S(rnd.choice(['added', 'a', 'kind', 'self', 'extra1'])), gen_node(rnd, specs, 'any', 1)))
        return root, 'add-key'
    if r < 0.8 and parent is not None:
        replace_child(parent, idx, rnd.choice([S('x'), Q([]), M([]), Q([encode.copy_tree(n)]),
                                               M([(S('w'), encode.copy_tree(n))])]))
        return root, 'replace-subtree'
    if r < 0.9 and isinstance(n, yaml.SequenceNode):
        n.value.append(gen_node(rnd, specs, 'any', 1))
        return root, 'add-item'
    if parent is None:
        return rnd.choice([S('x'), Q([]), M([]), S('', 'null')]), 'replace-root'
    return root, 'none'


def share(rnd, root):
    """Make two equal sub-nodes the same object (anchor + alias when serialised)."""
    root = encode.copy_tree(root)
    nodes = [x for x in all_nodes(root) if x[1] is not None]
    by = {}
    for n, parent, idx in nodes:
        by.setdefault(repr(encode.plain_view(n)), []).append((n, parent, idx))
    groups = [g for g in by.values() if len(g) > 1]
    if not groups:
        if len(nodes) >= 2:
            (a, pa, ia), (b, pb, ib) = rnd.sample(nodes, 2)
            if not _contains(a, b) and not _contains(b, a):
                replace_child(pb, ib, a)
                return root, 'share-forced'
        return root, None
    g = rnd.choice(groups)
    first = g[0][0]
    for n, parent, idx in g[1:]:
        if not _contains(first, parent) and not _contains(n, first):
            replace_child(parent, idx, first)
    return root, 'share-equal'


def _contains(a, b):
    return any(x[0] is b for x in all_nodes(a))


def serialize(node, style=None):
    """YAML text for a node tree/graph (shared nodes become anchors/aliases)."""
    kw = {}
    if style == 'flow':
        _set_flow(node, True)
    elif style == 'block':
        _set_flow(node, False)
    elif style == 'canonical':
        kw['canonical'] = True
    return yaml.serialize(node, Dumper=yaml.Dumper, allow_unicode=True, width=1000, **kw)


def _set_flow(n, f, seen=None):
    seen = seen or set()
    if id(n) in seen:
        return
    seen.add(id(n))
    if isinstance(n, yaml.SequenceNode):
        n.flow_style = f
        for x in n.value:
            _set_flow(x, f, seen)
    elif isinstance(n, yaml.MappingNode):
        n.flow_style = f
        for k, v in n.value:
            _set_flow(k, f, seen)
            _set_flow(v, f, seen)


# ---------------------------------------------------------------- running

class Case:
    __slots__ = ('specs', 'tyspec', 'text', 'desc', 'model', 'outcome', 'log', 'doc', 'doc_err', 'cyclic')


def compose_raw(load, text):
    """The composed node graph before yatiml touches it (None for an empty stream)."""
    ld = load.loader(text)
    try:
        return yaml.composer.Composer.get_single_node(ld)
    finally:
        ld.dispose()


_PLAIN_LOAD = None


def compose_raw_text(text):
    """The node graph yatiml's loader composes from text (its resolver tables), before any processing."""
    global _PLAIN_LOAD
    import yatiml
    if _PLAIN_LOAD is None:
        _PLAIN_LOAD = yatiml.load_function()
    return compose_raw(_PLAIN_LOAD, text)


def run_case(specs, tyspec, text, desc='', model=None):
    import yatiml
    c = Case()
    c.specs, c.tyspec, c.text, c.desc = specs, tyspec, text, desc
    c.model = model or classgen.Model(specs)
    m = c.model
    regs = m.registered_classes()
    top = m.type_obj(tyspec)
    # load_function appends the result type to the user classes unless it is already among them; list it
    # explicitly so that the registration order is the one the model is given
    load = yatiml.load_function(top, *regs)
    c.doc, c.doc_err, c.cyclic = None, None, False
    try:
        c.doc = compose_raw(load, text)
    except yaml.YAMLError as e:
        c.doc_err = e
    m.log.clear()
    try:
        c.outcome = ('ok', load(text))
    except RecursionError as e:
        c.outcome = ('err', e)
    except Exception as e:       # noqa
        c.outcome = ('err', e)
    c.log = list(m.log)
    return c


def doc_scalars(c):
    import yatiml
    sc = set()
    if c.doc is not None:
        try:
            sc = encode.scalars_of_graph(c.doc)
        except RecursionError:
            pass
    sc |= c.model.hook_scalars()
    load = yatiml.load_function()
    ld = load.loader('')
    out = set()
    for tag, text in sc:
        if not isinstance(text, str):
            continue
        out.add((tag, text))
        out.add((ld.resolve(yaml.ScalarNode, text, (True, False)), text))
    ld.dispose()
    res = {(t, v) for t, v in out if t not in (TAG + 'str', TAG + 'null')}
    import pathlib
    for _, text in sc:
        if isinstance(text, str):
            try:
                if str(pathlib.Path(text)) != text:
                    res.add(('!Path', text))
            except Exception:      # noqa
                pass
    return res


def case_term(c, with_calls=True):
    """Coq loadcase term, or None when the model does not apply (text PyYAML cannot parse)."""
    if c.doc_err is not None:
        return None
    m = c.model
    try:
        doc = 'None' if c.doc is None else f'(Some {encode.node_term(c.doc, marks=True)})'
    except RecursionError:
        return None
    kind, x = c.outcome
    if kind == 'ok':
        try:
            exp = f'(Ok {encode.value_term(x)})'
        except TypeError:
            return None
    else:
        exp = f'(Err {encode.exn_term(x)})'
    try:
        calls = '(Some [' + '; '.join(call_term(e) for e in c.log if e[0] in ('init', 'strctor')) + '])'
    except TypeError:
        calls = 'None'
    if not with_calls:
        calls = 'None'
    return ('{| lc_oracle := ' + encode.oracle_term(doc_scalars(c)) + '; lc_specs := ' + m.reg_term()
            + '; lc_type := ' + m.ty_term(c.tyspec) + '; lc_doc := ' + doc + '; lc_expect := ' + exp
            + '; lc_calls := ' + calls + ' |}')


def call_term(e):
    if e[0] == 'init':
        _, defining, actual, kw = e
        return (f'(CallInit {coq_ustr(actual)} [' +
                '; '.join(f'({coq_ustr(k)}, {encode.value_term(v)})' for k, v in kw.items()) + '])')
    _, defining, actual, text = e
    return f'(CallStr {coq_ustr(actual)} {coq_ustr(text)})'


def eval_cases(name, terms, per_shard=150):
    return nodeops.eval_shards(name, terms, per_shard=per_shard, header=HEADER, fn='load_mismatches', ctype='loadcase')


def wrong_value(rnd, t):
    """A node of the wrong YAML type for t that Python's isinstance would nevertheless accept, or just a wrong one."""
    if t == 'int':
        return S(rnd.choice(['true', 'false']), 'bool')
    if isinstance(t, tuple) and t[0] == 'list':
        return Q([wrong_value(rnd, t[2])])
    if isinstance(t, tuple) and t[0] == 'dict':
        return M([(S('k'), wrong_value(rnd, t[3]))])
    if isinstance(t, tuple) and t[0] in ('union', 'optional'):
        return S('true', 'bool')
    return rnd.choice([S('true', 'bool'), S('7', 'int'), S('x'), Q([])])


def directed_cases(rnd, specs):
    """Documents aimed at the attribute type check: a duplicated or merged-in parameter whose second value is
    ill-typed in a way isinstance() cannot see (bool for int), for every object class of the model."""
    for s in specs:
        if s['kind'] != 'obj' or not s.get('registered', True) or not s['params']:
            continue
        try:
            base = gen_node(rnd, specs, ('class', s['name']))
        except (IndexError, ValueError):
            continue
        if not isinstance(base, yaml.MappingNode):
            continue
        for p in s['params']:
            w = wrong_value(rnd, p.get('type'))
            has = [i for i, (k, _) in enumerate(base.value) if k.value == p['name']]
            d1 = encode.copy_tree(base)
            d1.value.append((S(p['name']), encode.copy_tree(w)))
            yield ('class', s['name']), d1, 'directed-duplicate'
            d2 = encode.copy_tree(base)
            d2.value = [kv for kv in d2.value if kv[0].value != p['name']]
            d2.value.insert(0, (S('<<', 'merge'), M([(S(p['name']), encode.copy_tree(w))])))
            yield ('class', s['name']), d2, 'directed-merge'
            if has:
                d3 = encode.copy_tree(base)
                d3.value[has[0]] = (d3.value[has[0]][0], encode.copy_tree(w))
                yield ('class', s['name']), d3, 'directed-wrong-type'


def permissive_cases(rnd):
    """Hand-designed models whose recognisers / savorize functions let wrongly typed scalars through to the attribute
    type check (a permissive _yatiml_recognize, a savorize writing a node of the wrong kind), with every scalar kind at
    every scalar-typed parameter, at top level and below a list / dict / optional attribute."""
    scal = [('int', S('7', 'int')), ('bool', S('true', 'bool')), ('float', S('1.5', 'float')), ('str', S('x')),
            ('null', S('~', 'null'))]
    ptypes = ['int', 'str', 'float', 'bool']
    for recog in ([('mapping',)], []):
        params = [{'name': 'p_' + t, 'type': t, 'required': i < 2} for i, t in enumerate(ptypes)]
        k0 = {'name': 'K0', 'kind': 'obj', 'bases': [], 'params': params, 'extra': False, 'recognize': recog,
              'registered': True}
        k1 = {'name': 'K1', 'kind': 'obj', 'bases': [], 'extra': False, 'registered': True,
              'params': [{'name': 'count', 'type': 'int', 'required': True}],
              'savorize': [('if', ('has', 'unlimited'), [('remove', 'unlimited'), ('set', 'count', ('sv', rnd.choice([True, 1.5, 'many'])))], [])]}
        k2 = {'name': 'K2', 'kind': 'obj', 'bases': [], 'extra': False, 'registered': True,
              'params': [{'name': 'jobs', 'type': ('list', 0, ('class', 'K0')), 'required': False},
                         {'name': 'one', 'type': ('optional', ('class', 'K1')), 'required': False},
                         {'name': 'tbl', 'type': ('dict', 3, 'str', ('class', 'K0')), 'required': False}]}
        specs = [k0, k1, k2]
        good = {'int': S('7', 'int'), 'str': S('x'), 'float': S('1.5', 'float'), 'bool': S('true', 'bool')}
        for t in ptypes:
            for kind, w in scal:
                doc = M([(S('p_' + u), encode.copy_tree(w if u == t else good[u])) for u in ptypes])
                yield specs, ('class', 'K0'), doc, 'permissive-%s-for-%s' % (kind, t)
                if rnd.random() < 0.5:
                    yield specs, ('class', 'K2'), M([(S('jobs'), Q([encode.copy_tree(doc)]))]), 'permissive-nested-list'
                else:
                    yield specs, ('class', 'K2'), M([(S('tbl'), M([(S('k'), encode.copy_tree(doc))]))]), 'permissive-nested-dict'
        for t in ptypes:
            for kind, w in scal:
                doc = M([(S(('p-' if u == t else 'p_') + u), encode.copy_tree(w if u == t else good[u])) for u in ptypes])
                yield specs, ('class', 'K0'), doc, 'permissive-dashed-%s-for-%s' % (kind, t)
        yield specs, ('class', 'K1'), M([(S('count'), S('3', 'int')), (S('unlimited'), S('yes'))]), 'savorize-writes-wrong-kind'
        yield specs, ('class', 'K2'), M([(S('one'), M([(S('count'), S('3', 'int')), (S('unlimited'), S('yes'))]))]), 'savorize-writes-wrong-kind-nested'
        yield specs, ('class', 'K1'), M([(S('count'), S('3', 'int'))]), 'valid'


def alias_cases(rnd):
    """One anchored scalar (or small collection) aliased at positions of DIFFERENT declared types: str / Any / untyped next to an
    Enum, a string-like class, a Path -- in both parameter orders, at top level and inside a list."""
    col = {'name': 'Col', 'kind': 'enum', 'members': ['red', 'green'], 'bases': [], 'registered': True, 'enumvals': 'int'}
    idt = {'name': 'Ident', 'kind': 'str', 'bases': [], 'strbase': 'yatiml.String', 'registered': True}
    for first_plain in (True, False):
        for plain_t in ('str', 'any', None):
            for typed_t in (('class', 'Col'), ('class', 'Ident'), 'path'):
                ps = [{'name': 'label', 'type': plain_t, 'required': True}, {'name': 'typed', 'type': typed_t, 'required': True}]
                if not first_plain:
                    ps.reverse()
                host = {'name': 'A', 'kind': 'obj', 'bases': [], 'params': ps, 'extra': False, 'registered': True}
                lst = {'name': 'L', 'kind': 'obj', 'bases': [], 'extra': False, 'registered': True,
                       'params': [{'name': 'items', 'type': ('list', 0, ('class', 'A')), 'required': True}]}
                specs = [col, idt, host, lst]
                shared = S('red')
                doc = M([(S(p['name']), shared) for p in ps])
                if typed_t == 'path':
                    yield specs, ('class', 'A'), M([(S(p['name']), S('~nosuchuser/data')) for p in ps]), 'path-unknown-user'
                yield specs, ('class', 'A'), doc, 'alias-scalar'
                yield specs, ('class', 'L'), M([(S('items'), Q([doc, M([(S(p['name']), S('green')) for p in ps])]))]), 'alias-scalar-nested'
    # an anchored scalar used as a dict KEY at one place and as a value / a key of another key type elsewhere
    kh = {'name': 'KH', 'kind': 'obj', 'bases': [], 'extra': False, 'registered': True,
          'params': [{'name': 'label', 'type': 'str', 'required': True},
                     {'name': 'by_id', 'type': ('dict', 3, ('class', 'Ident'), 'int'), 'required': True},
                     {'name': 'by_name', 'type': ('dict', 3, 'str', 'str'), 'required': False}]}
    shared = S('s1')
    yield [col, idt, kh], ('class', 'KH'), M([(S('label'), shared), (S('by_id'), M([(shared, S('1', 'int'))]))]), 'alias-key'
    yield [col, idt, kh], ('class', 'KH'), M([(S('label'), S('x')), (S('by_id'), M([(shared, S('1', 'int'))])),
                                             (S('by_name'), M([(shared, S('v'))]))]), 'alias-key'
    yield [col, idt, kh], ('class', 'KH'), M([(S('label'), S('x')), (S('by_name'), M([(shared, S('v'))])),
                                             (S('by_id'), M([(shared, S('1', 'int'))]))]), 'alias-key'
    # a collection shared between an Any position and a typed one, and the same mapping many times
    k = {'name': 'K', 'kind': 'obj', 'bases': [], 'extra': False, 'registered': True,
         'params': [{'name': 'a', 'type': 'any', 'required': True}, {'name': 'b', 'type': ('list', 0, 'int'), 'required': True},
                    {'name': 'c', 'type': ('dict', 3, 'str', ('list', 0, 'int')), 'required': False}]}
    shared = Q([S('1', 'int'), S('2', 'int')])
    yield [k], ('class', 'K'), M([(S('a'), shared), (S('b'), shared)]), 'alias-collection'
    yield [k], ('class', 'K'), M([(S('a'), S('x')), (S('b'), shared), (S('c'), M([(S('k%d' % i), shared) for i in range(60)]))]), 'alias-many'
    big = Q([S(str(i), 'int') for i in range(70)])
    yield [k], ('class', 'K'), M([(S('a'), big), (S('b'), big)]), 'alias-big'


def keyclass_cases(rnd):
    """Dict keys of a string-like class whose savorize hook replaces the key node (set_value), and plain ones."""
    for sav in ([('op', ('setvalue', 'renamed'))], None, [('if', ('isscalar', 'str'), [('setvalue', 'seen')], [])]):
        name = {'name': 'Name', 'kind': 'str', 'bases': [], 'strbase': rnd.choice(['yatiml.String', 'UserString']), 'registered': True}
        if sav is not None:
            name['savorize'] = sav
        host = {'name': 'H', 'kind': 'obj', 'bases': [], 'extra': False, 'registered': True,
                'params': [{'name': 'tbl', 'type': ('dict', rnd.choice([3, 4]), ('class', 'Name'), 'int'), 'required': True}]}
        specs = [name, host]
        d = M([(S('a'), S('1', 'int'))])
        yield specs, ('dict', 3, ('class', 'Name'), 'int'), d, 'key-class'
        yield specs, ('list', 0, ('dict', 3, ('class', 'Name'), 'int')), Q([encode.copy_tree(d)]), 'key-class-nested'
        yield specs, ('class', 'H'), M([(S('tbl'), encode.copy_tree(d))]), 'key-class-attr'


def transform_cases(rnd):
    """Savorize hooks calling the structural transforms on attributes whose items have key attributes of every kind: the
    transforms must refuse (SeasoningError -> RecognitionError) or leave alone, never let another exception out."""
    # a mapping keyed by name whose items get their key as an attribute of a class-typed kind (string-like, Enum): the key of the
    # outer mapping and the new attribute must be independent nodes.  Valid by construction.
    col = {'name': 'Col', 'kind': 'enum', 'members': ['red', 'green'], 'bases': [], 'registered': True}
    idt = {'name': 'Ident', 'kind': 'str', 'bases': [], 'strbase': 'yatiml.String', 'registered': True}
    for kt in (('class', 'Ident'), ('class', 'Col'), 'str'):
        item = {'name': 'Item', 'kind': 'obj', 'bases': [], 'extra': False, 'registered': True,
                'params': [{'name': 'name', 'type': kt, 'required': True}, {'name': 'v', 'type': 'int', 'required': True}]}
        hold = {'name': 'Hold', 'kind': 'obj', 'bases': [], 'extra': False, 'registered': True,
                'params': [{'name': 'items', 'type': ('dict', 3, 'str', ('class', 'Item')), 'required': True}],
                'recognize': [('mapping',)], 'savorize': [('op', ('map2idx', 'items', 'name', 'v'))]}
        specs = [col, idt, item, hold]
        yield specs, ('class', 'Hold'), M([(S('items'), M([(S('red'), M([(S('v'), S('1', 'int'))])), (S('green'), S('2', 'int'))]))]), 'valid-by-construction:index'
        yield specs, ('list', 0, ('class', 'Hold')), Q([M([(S('items'), M([(S('red'), S('3', 'int'))]))])]), 'valid-by-construction:index'
    keys = [S('k'), S('7', 'int'), S('2001-01-01', 'timestamp'), S('x', '!Item'), S('abc', 'int'), S('', 'float'), S('~', 'null'),
            Q([S('1', 'int')]), M([(S('a'), S('1', 'int'))]), S('true', 'bool')]
    for op in (('seq2map', 'items', 'id', None, True), ('seq2map', 'items', 'id', 'v', False), ('idx2map', 'items', 'id', 'v'),
               ('map2seq', 'items', 'id', 'v'), ('map2idx', 'items', 'id', 'v')):
        c = {'name': 'T', 'kind': 'obj', 'bases': [], 'extra': False, 'registered': True, 'recognize': [('mapping',)],
             'params': [{'name': 'items', 'type': 'any', 'required': True}], 'savorize': [('op', op)]}
        for kn in keys:
            item = M([(S('id'), encode.copy_tree(kn)), (S('v'), S('1', 'int'))])
            yield [c], ('class', 'T'), M([(S('items'), Q([item]))]), 'transform-key-kinds'
            yield [c], ('class', 'T'), M([(S('items'), M([(S('k'), encode.copy_tree(item))]))]), 'transform-key-kinds'


# ---------------------------------------------------------------- standard case stream

def gen_cases(rnd, n_models, docs_per_model, hooks=True, share_p=0.0):
    """Yields (specs, tyspec, text, desc)."""
    directed = [alias_cases(rnd)]
    if hooks:
        directed += [permissive_cases(rnd), keyclass_cases(rnd), transform_cases(rnd)]
    for fam in directed:
        for specs, tyspec, node, desc in fam:
            try:
                yield specs, tyspec, serialize(node), desc
            except Exception:       # noqa
                continue
    for _ in range(n_models):
        specs = gen_model(rnd, hooks=hooks)
        names = [s['name'] for s in specs if s.get('registered', True)]
        if rnd.random() < 0.5:
            for tyspec, node, desc in directed_cases(rnd, specs):
                try:
                    yield specs, tyspec, serialize(node), desc
                except Exception:       # noqa
                    continue
        for _ in range(docs_per_model):
            r = rnd.random()
            if names and r < 0.6:
                tyspec = ('class', rnd.choice(names))
            else:
                tyspec = gen_type(rnd, names, 2)
            try:
                node = gen_node(rnd, specs, tyspec)
            except (IndexError, ValueError):
                continue
            desc = 'valid'
            k = rnd.random()
            if k < 0.45:
                node, desc = mutate(rnd, node, specs)
                if rnd.random() < 0.2:
                    node, d2 = mutate(rnd, node, specs)
                    desc += '+' + d2
            if rnd.random() < share_p:
                node, d3 = share(rnd, node)
                if d3:
                    desc += '+' + d3
            try:
                text = serialize(node, rnd.choice([None, 'flow', 'block']))
            except Exception:       # noqa
                continue
            if rnd.random() < 0.03:
                text = rnd.choice(['', '---\n', '# nothing\n', '--- \n...\n'])
                desc = 'empty'
            yield specs, tyspec, text, desc
