"""Canary: importing or calling anything here is recorded."""
import os
_f = os.environ.get('VERIF_CANARY_FILE')
if _f:
    open(_f, 'a').write('imported\n')


def hit(*a, **k):
    if _f:
        open(_f, 'a').write('called\n')
    return 'canary'
