"""Property oracles that judge the IMPLEMENTATION's behaviour on a concrete case
directly against a property statement (independent of the Coq model)."""
import datetime
import enum
import pathlib
from collections import OrderedDict, UserString

import yaml

import classgen


# ---------------------------------------------------------------- C01: conformance

def is_abstract_doc(cls):
    """Abstract as documented -- abc.ABC among the direct bases, or abstract methods -- independent of yatiml.util.is_abstract."""
    import abc
    import inspect
    return inspect.isabstract(cls) or abc.ABC in cls.__bases__


def plain(v):
    if v is None or type(v) in (str, int, float, bool, datetime.date, datetime.datetime, bytes):
        return True
    if type(v) is list:
        return all(plain(x) for x in v)
    if type(v) in (dict, OrderedDict):
        return all(plain(k) and plain(x) for k, x in v.items())
    return False


def registered_subclass(model, d, c):
    """d is c or reachable from c through registered direct-subclass steps (as the recogniser descends)."""
    names = set(model.registered_names())
    if d not in names or c not in names:
        return False
    if d == c:
        return True
    cls = model.cls(d)
    return any(b.__name__ in names and registered_subclass(model, b.__name__, c) for b in cls.__bases__)


def conforms(model, v, t, why):
    """v conforms to type spec t all the way down; appends reasons to `why` when not."""
    import yatiml
    from yatiml import util
    if t is None or t == 'any':
        if not plain(v):
            why.append(f'value {v!r} under Any/untyped is not plain data')
            return False
        return True
    if isinstance(t, str):
        ok = {'str': lambda: type(v) is str, 'int': lambda: type(v) is int, 'float': lambda: type(v) is float,
              'bool': lambda: type(v) is bool, 'boolfix': lambda: type(v) is bool, 'none': lambda: v is None,
              'date': lambda: isinstance(v, datetime.date), 'path': lambda: isinstance(v, pathlib.PurePath)}[t]()
        if not ok:
            why.append(f'{v!r} is not exactly a {t}')
        return ok
    k = t[0]
    if k == 'list':
        if type(v) is not list:
            why.append(f'{v!r} is not a list')
            return False
        return all(conforms(model, x, t[2], why) for x in v)
    if k == 'dict':
        if type(v) not in (dict, OrderedDict):
            why.append(f'{v!r} is not a dict')
            return False
        return all(conforms(model, kk, t[2], why) and conforms(model, x, t[3], why) for kk, x in v.items())
    if k == 'union':
        for m in t[1]:
            w = []
            if conforms(model, v, m, w):
                return True
        why.append(f'{v!r} conforms to no member of {t}')
        return False
    if k == 'optional':
        return v is None or conforms(model, v, t[1], why)
    if k == 'class':
        c = t[1]
        d = type(v).__name__
        if not registered_subclass(model, d, c):
            why.append(f'{v!r} of class {d} is not {c} or a registered subclass')
            return False
        cls = model.cls(d)
        if is_abstract_doc(cls):
            why.append(f'abstract class {d} was instantiated')
            return False
        if isinstance(v, enum.Enum) or hasattr(v, '_verif_str'):
            return True
        return kwargs_conform(model, d, v._verif_kwargs, why)
    raise ValueError(t)


def kwargs_conform(model, d, kw, why):
    spec = [s for s in model.specs if s['name'] == d][0]
    ok = True
    names = {p['name'] for p in spec['params']}
    for p in spec['params']:
        if p['name'] in kw:
            if not conforms(model, kw[p['name']], p.get('type'), why):
                why.append(f'argument {p["name"]} of {d} does not conform to {p.get("type")}')
                ok = False
        elif p['required']:
            why.append(f'required argument {p["name"]} of {d} missing')
            ok = False
    for k, x in kw.items():
        if k not in names:
            if k == '_yatiml_extra' and spec.get('extra'):
                if x is not None and not (isinstance(x, OrderedDict) and plain(x)):
                    why.append(f'_yatiml_extra of {d} is not a plain ordered mapping: {x!r}')
                    ok = False
            else:
                why.append(f'{d} received unexpected argument {k}')
                ok = False
    return ok


def c01_oracle(case):
    """None, or (signature, description)."""
    if case.outcome[0] != 'ok':
        return None
    why = []
    if not conforms(case.model, case.outcome[1], case.tyspec, why):
        top = type(case.outcome[1]).__name__
        sig = 'empty-document-returns-None' if (case.outcome[1] is None and case.doc is None) else \
            f'nonconforming:{case.desc.split("+")[0]}'
        return (sig, f'load returned {case.outcome[1]!r} for declared type {case.tyspec}: ' + '; '.join(why[:3]))
    return None


# ---------------------------------------------------------------- C08: only RecognitionError / YAMLError

def c08_oracle(case):
    import yatiml
    if case.outcome[0] == 'ok':
        return None
    e = case.outcome[1]
    if isinstance(e, (yatiml.RecognitionError, yaml.YAMLError)):
        return None
    name = type(e).__name__
    msg = str(e)[:120]
    if _raised_in_user_hook(e):
        return None     # a hook that crashes (instead of raising SeasoningError/RecognitionError) breaks the protocol itself
    # classify for known-findings signatures
    if name == 'SeasoningError' and 'found multiple times' in msg:
        cls = 'duplicate-key'
    elif name == 'TypeError' and 'unhashable' in msg:
        cls = 'nonscalar-key-in-diagnosis'
    elif name == 'RecursionError':
        cls = 'cyclic-alias'
    elif name in ('ValueError', 'KeyError', 'AttributeError', 'IndexError', 'OverflowError') and \
            _pyyaml_scalar_origin(e):
        cls = 'pyyaml-scalar-constructor'
    else:
        cls = case.desc.split('+')[0]
    return (f'escapes:{name}:{cls}', f'load raised {name}: {msg} (neither RecognitionError nor YAMLError)')


def _pyyaml_scalar_origin(e):
    tb = e.__traceback__
    last = None
    while tb is not None:
        last = tb
        tb = tb.tb_next
    return last is not None and ('yaml/constructor.py' in last.tb_frame.f_code.co_filename
                                 or last.tb_frame.f_code.co_name.startswith('construct_yaml_'))


def _raised_in_user_hook(e):
    """The exception was raised while a generated _yatiml_savorize/_yatiml_recognize body was on the stack and is not
    one of the documented ways of refusing."""
    tb = e.__traceback__
    while tb is not None:
        if tb.tb_frame.f_code.co_name in ('_yatiml_savorize', '_yatiml_recognize', '_yatiml_sweeten'):
            return True
        tb = tb.tb_next
    return False
