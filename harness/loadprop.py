"""Shared tie for the properties decided on the load pipeline: run a stream of
(class model, type, text) cases on the implementation, judge each with the
property's oracle(s), and compare the outcome with the Coq model."""
import collections
import random

import classgen
import common
import encode
import loadcase


def run_stream(ctx, name, stream, oracles, per_shard=150, compare=True, sample_every=97, compare_if=None):
    """stream yields (specs, tyspec, text, desc).  oracles: list of functions case -> None | (sig, what)."""
    res = {'evaluations': 0, 'disagreements': [], 'failing': [], 'samples': [], 'distribution': {}}
    outcomes = collections.Counter()
    descs = collections.Counter()
    terms, kept, cases = [], [], []
    nontrivial = set()
    model_cache = {}
    for specs, tyspec, text, desc in stream:
        key = id(specs)
        m = model_cache.get(key)
        try:
            c = loadcase.run_case(specs, tyspec, text, desc, model=m)
        except RecursionError:
            raise
        except Exception as e:      # noqa  -- a generator slip (e.g. invalid class model), not a finding
            outcomes['harness-skip:' + type(e).__name__] += 1
            continue
        model_cache[key] = c.model
        cases.append(c)
        res['evaluations'] += 1
        k = 'ok' if c.outcome[0] == 'ok' else encode.exn_name(c.outcome[1])
        outcomes[k] += 1
        descs[desc.split('+')[0]] += 1
        if c.outcome[0] == 'ok' and c.log:
            nontrivial.add(text + '|' + repr(tyspec))
        elif c.outcome[0] != 'ok' and c.doc is not None:
            nontrivial.add(text + '|' + repr(tyspec))
        for orc in oracles:
            try:
                o = orc(c)
            except Exception as e:      # noqa
                o = ('oracle-exception:' + type(e).__name__, f'oracle crashed on its input: {e!r}')
            if o is not None:
                res['failing'].append({'signature': o[0], 'what': o[1],
                                       'case': {'specs': _clean(c.specs), 'type': repr(c.tyspec), 'text': c.text,
                                                'desc': c.desc}})
        if compare and (compare_if is None or compare_if(c)):
            try:
                t = loadcase.case_term(c)
            except Exception as e:      # noqa
                t = None
                outcomes['unencodable:' + type(e).__name__] += 1
            if t is not None:
                terms.append(t)
                kept.append(len(cases) - 1)
        if len(cases) % sample_every == 1 and len(res['samples']) < 8:
            res['samples'].append({'type': repr(tyspec), 'text': text[:300], 'desc': desc, 'outcome': k,
                                   'classes': [s['name'] + ':' + s['kind'] for s in specs]})
    res['distinct_nontrivial'] = len(nontrivial)
    res['distribution'] = {'outcomes': dict(outcomes), 'kinds': dict(descs), 'compared_with_model': len(terms)}
    if compare and terms:
        bad = loadcase.eval_cases(name, terms, per_shard=per_shard)
        res['n_disagreements'] = len(bad)
        for b in bad[:40]:
            c = cases[kept[b]]
            res['disagreements'].append({'kind': f'{name}-load', 'text': c.text, 'type': repr(c.tyspec), 'desc': c.desc,
                                         'impl': 'ok' if c.outcome[0] == 'ok' else encode.exn_name(c.outcome[1]),
                                         'specs': _clean(c.specs), '_case': c})
    res['_cases'] = cases
    return res


def _clean(specs):
    return [{k: v for k, v in s.items() if not k.startswith('_')} for s in specs]


def strip_private(res):
    res.pop('_cases', None)
    for d in res.get('disagreements', []):
        d.pop('_case', None)
    return res


def replay_case(case, oracles):
    """Re-run one recorded case on the implementation; True when an oracle still objects."""
    import ast
    specs = case['specs']
    tyspec = ast.literal_eval(case['type'])
    c = loadcase.run_case(specs, tyspec, case['text'], case.get('desc', ''))
    for orc in oracles:
        o = orc(c)
        if o is not None:
            print('  ', o[1])
            return True
    return False
