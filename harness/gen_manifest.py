#!/usr/bin/env python3
"""Regenerate MANIFEST.json from the table below (single source for the manifest text)."""
import json
import os

HERE = os.path.dirname(os.path.dirname(os.path.abspath(__file__)))
TECH = 'Coq proof over hand-written executable model + vm_compute differential correspondence with /repo'

CHECKS = {
 'C09': dict(
  text="Theorems in coq/Props/C09.v over the resolver tables REGENERATED from /repo on every run: for strings of every length, resolve = bool iff one of six spellings, = float iff YAML 1.2 core float, bool/float resolutions lie in the constructors' domains, all other typing equals PyYAML's. Decided by kernel-checked bisimulation certificates (regex derivatives with intersection/complement); the engine's meaning is proved against a denotational semantics (ReSem.v).",
  note="Trusted: Coq kernel + vm_compute; translate_tables.py (re._parser based; validated each run: pymatch vs re.match and Resolve.resolve vs live Loader/SafeLoader/Dumper.resolve on all strings <= 3 (thorough 4) over a 23-symbol alphabet + random ones); float()/bool_values domains are models; the VALUE float() gives is tested end-to-end, not proved.",
  technique='Coq proof: regex-derivative bisimulation certificates over generated resolver tables + vm_compute differential correspondence',
  design='6 C09, 4'),
 'C14': dict(
  text="Theorems in coq/Props/C14.v: for operation sequences of EVERY length the six Node accessors refine an insertion-ordered dictionary (simulation proof by induction over the sequence); classification; set_value/get_value/is_scalar law (core-tagged nodes; the unrestricted statement is refuted by witness and listed as a known finding); remove_attributes_with_default_values is total and removes exactly type-strictly matching defaults. Model = Model/NodeOps.v, tied to yatiml/helpers.py by differential execution of ~25k operation sequences (exhaustive to length 2) inside Coq.",
  note="Trusted: Coq kernel + vm_compute; hand-written model of helpers.py validated by the correspondence run; int/float denotations via per-case oracle tables computed with PyYAML's SafeConstructor; scalar_type_to_tag regenerated from /repo. Misuse of mapping helpers on non-mappings is outside the statement.",
  technique=TECH, design='6 C14'),
 'C15': dict(
  text="Theorems in coq/Props/C15.v over Model/NodeOps.v: both inverse laws (seq<->map, index<->map) for item lists of every length, stated up to the position of the key attribute and marks, under exactly the property's side conditions; short form only when the value attribute is the sole remaining key; unchanged-node lemmas for missing / wrong-kind attributes and ill-shaped items; SeasoningError for duplicate keys exactly in strict mode; dash/underscore rewriting inverse. Model tied to helpers.py by ~10k (thorough: all enumerated) transform runs evaluated inside Coq and by a docstring-derived oracle on the implementation.",
  note="Trusted: Coq kernel + vm_compute; hand-written model of the four transforms validated by the correspondence run. 'Not of the expected kind' is read as documented in DESIGN.md (a present but non-string key attribute still raises SeasoningError).",
  technique=TECH, design='6 C15'),
 'C01': dict(
  text="Theorem C01_load_conforms (coq/Props/C01.v): for EVERY registry with arbitrary recognisers/savorize functions/raising constructors, every scalar oracle, declared type and composed document (incl. the empty stream), if the load model returns a value it conforms to the declared type all the way down (conforms: inductive predicate over values; classes: registered concrete subclass whose constructor received a conforming argument per parameter or none for a defaulted one, extras only as plain ordered mapping). Proof: recogniser soundness -> process establishes the well_tagged invariant -> construction of a well-tagged node conforms (induction on fuel and type), independent of the constructor's redundant type_matches pass.",
  note="Trusted: Coq kernel; the hand-written load model (Model/Recognize.v, Loader.v) is tied to yatiml by differential execution (vm_compute) of ~900 (thorough ~20k) generated (class model, document) cases per run, in the direction 'implementation returns a value => model returns the same value'; scalar values other than str/null come from PyYAML through per-case oracle tables (oracle_wfb checked per case); PyYAML's composer is shared, not modelled. Python-side conformance oracle judges every returned value independently.",
  technique=TECH, design='6 C01, 5'),
 'C16': dict(
  text="Theorems in coq/Props/C16.v: each require_* helper of the model returns normally iff its documented condition holds (require_scalar over any list of valid scalar types, require_mapping/sequence, require_attribute present / recognisable by the loader's own recognize with non-empty result, require_attribute_value(_not) on a uniquely present str-keyed attribute), and value checks reject a missing attribute. The helpers are functions node -> verdict in the model; 'never modify the node' is observed on every tie case (and was violated before fix 5cbeffb).",
  note="Trusted: Coq kernel; Model/Recognize.v (require, recognize) tied to yatiml by running ~5000 (thorough: the full product, ~11k) helper calls on the real UnknownNode with the loader's own Recognizer and comparing verdicts inside Coq, plus a docstring-derived Python oracle and a node-unchanged check.",
  technique=TECH, design='6 C16'),
 'C18': dict(
  text="Theorems in coq/Props/C18.v over Model/Graph.v (documents as node graphs): expansion of aliases into copies terminates with a verdict for EVERY graph -- it never exhausts its fuel, self-references are rejected with RecognitionError (proved via a pigeonhole bound on the current path) -- and loading a graph is by construction loading its expansion, hence fails iff that fails. The content that aliases are transparent in the IMPLEMENTATION is carried by fix 3ade162 (expand before processing) and the tie.",
  note="Trusted: Coq kernel; tie: Loader.__expand_aliases vs Graph.expand on every composed graph of the run; aliased vs textually expanded document on the implementation (metamorphic); aliased document on the implementation vs the load model on the expanded tree; 7 cyclic documents x 4 declared types x 6 models must raise RecognitionError/YAMLError.",
  technique=TECH, design='6 C18'),
 'C04': dict(
  text="Theorems in coq/Props/C04.v: (1) on every successfully processed document, construction is insensitive to how user constructors behave on keyword arguments that do not conform to their own signature -- i.e. constructors are only ever invoked with arguments that passed the type check, on succeeding and failing loads alike (stated without an event log, as an extensional irrelevance theorem over arbitrary replacement constructors); (2) an object is built only where the declared type admits its class; (3) Any / untyped / extra positions hold plain data: strip_tags establishes `stripped`, stripped nodes construct to plain values. All for arbitrary hooks and documents.",
  note="Trusted: Coq kernel; load model tied to yatiml by the tag-injection stream (700 quick / ~17k thorough cases, both outcome directions compared); every __init__ log entry of the self-instrumenting classes is judged independently in Python; 'nothing named by the document is imported or called' is yaml.SafeLoader's contract -- observed with a canary module on sys.path and a sys.addaudithook monitor, not proved.",
  technique=TECH, design='6 C04, 9'),
 'C10': dict(
  text="Theorems in coq/Props/C10.v: a node loaded as class c has exactly the hooks of savorize_order applied, in order; for single-inheritance registries savorize_order = the registered ancestor chain (root first, c last) filtered to classes defining the hook in their own body, so no other class's hook runs; under an acyclicity witness the chain has no duplicates and is strictly ordered ancestors-first; savorize sits after recognition and before attribute processing (stage equation of process); a SeasoningError from savorize makes process return RecognitionError. Sweeten (dump side) clause: covered by the tie only until the Represent model is proved (see DESIGN).",
  note="Trusted: Coq kernel; tie is EXHAUSTIVE over chains of length <= 3 (thorough 4): every subset of classes defining _yatiml_savorize x every subset defining _yatiml_recognize x unregistered mix-in with its own hooks x target class x 5 positions: traces recorded by the generated hooks vs the property's rule computed from the live classes, vs Coq savorize_order, and load outcome vs model. The registry handed to the model holds cls.__dict__ hooks only.",
  technique=TECH, design='6 C10'),
 'C08': dict(
  text="Theorem C08_load_error_closed (coq/Props/C08.v): for every registry whose savorize hooks fail only with SeasoningError/RecognitionError, whose declared types are supported, every oracle whose conversion errors concern core-tagged scalars, and EVERY composed document, load returns a value or RecognitionError or a YAML error -- no other exception class (proved by walking every partial operation of recognize, process and construct; the 'good' predicate is closed under bind). Constructors and string-like constructors may raise anything. Half of the property lives before the model: unparseable text raising yaml.YAMLError is observed, not proved.",
  note="Trusted: Coq kernel; load model tied to yatiml on the malformed stream (mutated documents, duplicate/complex/merge keys, explicit core tags on wrong content, cyclic aliases, token soup; ~1700 quick / ~55k thorough) comparing the exception CLASS with the model; the class of the exception leaving load() is judged directly. Crashes inside a user hook body (protocol violation by the hook) are outside the statement.",
  technique=TECH, design='6 C08, 9'),
 'C07': dict(
  text="Theorems in coq/Props/C07.v: (1) the event-driven emitter with its state stack writes exactly the recursive rendering, for trees of every depth/shape and every indent/ensure_ascii option (induction over trees, generalised over the stack, in continuation style); (2) that rendering belongs to the RFC 8259 grammar of Model/Json.v and denotes the tree's JSON projection (so the dump is strict JSON with the same content under every option); (3) every string is written as a valid literal denoting exactly itself, incl. controls, non-BMP (surrogate pairs, arithmetic proved) and lone surrogates; (4) default output is the whitespace-free compact rendering, string literals ASCII-only under ensure_ascii, non-ASCII left unescaped otherwise; (5) int/finite-float images of the representer lie inside the JSON number language (regex certificate).",
  note="Trusted: Coq kernel + vm_compute; Model/JsonEmit.v tied to Dumper.emit_json by EXHAUSTIVE small trees (<= 4 nodes quick, <= 6 thorough) x 10 indents x 2 ensure_ascii plus string/number pools (44k cases quick), comparing the implementation's text with BOTH the Coq state machine and the Coq printer; Python's strict json.loads judges every text. repr(float)/str(int) images are a model (each number text seen is checked). Load-back clause: by the tie of C05.",
  technique='Coq proof: simulation of a pushdown emitter by a recursive printer + membership in an inductive RFC 8259 grammar; vm_compute differential correspondence', design='6 C07'),
 'C06': dict(
  text="Theorems in coq/Props/C06.v: (1) C06_tag_free: for values of every size and shape the tree the representers build carries no explicit tag under the serializer's implicit rule over the GENERATED dumper resolver table -- integer texts for integers of every size (z_to_dec_image + certificate), float/date/datetime texts by regular-language image certificates covering strings of every length, str scalars and default collection tags; (2) C06_reparse_identity + C06_faithful: written with any quoting decisions and read by a plain parser (PyYAML's table, proved equal to the dumper's) the tree denotes the object's projection: constructor parameters in declaration order then extras, enum members by name, string-likes/paths by str(), list/dict order kept; (3) C06_only_sweeteners_alter: the attribute mapping is altered only by the class's own sweeten chain. Purity and determinism are NOT claimed from the functional model: observed (deep snapshot before/after, double dump, fresh dump function).",
  note="Trusted: Coq kernel + vm_compute; Model/Represent.v tied to yatiml's Representer/Dumper on generated class models (hierarchies incl. inherited non-idempotent sweeteners, str+Enum mix-ins, _yatiml_extra, real defaults, remove_attributes_with_default_values) x values from adversarial pools (960 quick / 24k thorough) comparing node trees; the TEXT is judged directly: yaml.parse event stream has no explicit tag and one document, yaml.safe_load(text) equals the projection. leaves_ok (float/date texts in the modelled languages; PyYAML reads each leaf back) is evaluated on every case. The emitter's quoting is PyYAML's (abstracted as plain_ok, any function).",
  technique='Coq proof: induction over values + regular-language image certificates over the regenerated resolver table; vm_compute differential correspondence', design='6 C06'),
 'C05': dict(
  text="Theorems in coq/Props/C05.v: (1) C05_str_stays_str: every valid string (any length) that the dumper's resolver table regards as str -- and may hence be written unquoted -- is resolved to str by yatiml's loader table (cross-table certificate over BOTH generated tables; this is the theorem that failed before fix 2c35a4a with witness 1e5); (2) C05_int/float/date_texts: the texts the representers write for ints of every size, floats incl. non-finite, dates, datetimes are resolved by the loader to the same tag (image certificates); (3) C05_reparse_identity: composing the dumped text gives back exactly the represented tree for values of every size/shape and for EVERY quoting decision of the emitter; (4) C05_roundtrip_partial: hence load(text) = load(represented tree). The remaining structural step load(represent v) = v for unambiguous class-typed values is NOT proved (stated as missing in the file); it is covered by the tie.",
  note="Trusted: Coq kernel + vm_compute. Tie: generated class models x values (889 quick / ~20k thorough) incl. every pool string alone/in a list/as key+value: load(dumps(v)) judged by structural equality (classes, attribute values, list and mapping order; dict/OrderedDict identified); values that an independent over-approximation of the documented recognition rules (required-key sets) cannot tell from another registered class are skipped and counted; the load model is evaluated in Coq on each composed dump via a sentinel-default twin of the class model and compared with the implementation. Search: witness strings of failed certificates replayed as load(dumps(s)).",
  technique='Coq proof: regular-language certificates across two regenerated resolver tables + induction over values; vm_compute differential correspondence', design='6 C05'),
 'C03': dict(
  text="Theorems in coq/Props/C03.v: (1) C03_exactly_one_or_fail: processing a node succeeds only if exactly one type was recognised, otherwise RecognitionError; (2) C03_candidates_registered_concrete: everything a class position recognises is a registered, non-abstract class that is the expected class or a registered descendant (any hierarchy depth, multiple inheritance); (3) C03_most_derived / subclass_match_wins / abstract_not_candidate: the candidate set is what registered direct subclasses recognise recursively, the class itself only if none matched and it is concrete; (4) C03_tag_picks / ambiguous_stays_ambiguous / tag_conflict_rejects / decision_never_invents: an explicit tag decides only among the candidates, several candidates without such a tag stay several (so the load fails), a tag naming an incompatible or unknown class rejects; (5) C03_union_order: under any permutation of Union members the same set is recognised and the same single member. Independence of the REGISTRATION order is not proved; it is decided by the tie (every case re-run under random permutations).",
  note="Trusted: Coq kernel; load model tied to yatiml on hierarchy-heavy generated models (multiple inheritance, abstract and unregistered intermediates, custom recognisers, enum-vs-bool unions) x documents with/without class tags (~360 quick / ~9000 thorough), each re-run under permutations of registration order and of all Union members: implementation vs itself (outcome classes must coincide) and vs the model; the oracle also rejects any loaded object of an abstract or unregistered class.",
  technique='Coq proof: case analysis of the candidate/decision functions, soundness induction, permutation invariance of duplicate-free unions; vm_compute differential correspondence + metamorphic permutation oracle', design='6 C03'),
}

REASON_TODO = 'check not built yet (work in progress; DESIGN.md section 11 gives the build order)'


def main():
    props = [json.loads(l)['id'] for l in open(os.path.join(HERE, 'properties.jsonl'))]
    m = {"version": 1, "setup_cmd": "./setup.sh",
         "hooks": {"guard": "YATIML_VERIF",
                   "enable": "no hooks are installed in /repo; checks run /repo's working tree via PYTHONPATH=/repo",
                   "baseline_off_cmd": "cd /repo && /venv/bin/python -m pytest -ra -q -p no:cacheprovider --timeout=900 --continue-on-collection-errors",
                   "source_commits": [], "add_only": True},
         "engines": [{"name": "coq-proof+correspondence", "path": "check", "serves_properties": sorted(CHECKS),
                      "kind_free_text": "Coq 8.16.1 development under coq/ (theorems per property in coq/Props), model text regenerated from /repo (coq/Gen/Tables.v) and hand-written model differentially executed (vm_compute) against /repo by harness/"}],
         "checks": [], "not_applicable": []}
    for pid in props:
        if pid in CHECKS:
            c = CHECKS[pid]
            m['checks'].append({"property_id": pid, "quick_cmd": f"./check {pid} --tier quick",
                                "thorough_cmd": f"./check {pid} --tier thorough",
                                "evidence_file": f"evidence/{pid}.json",
                                "replay_cmd_template": "./check --replay {path}",
                                "engine": "coq-proof+correspondence",
                                "level_claimed": {"category": "proof", "text": c['text'], "design_ref": c['design']},
                                "level_note": c['note'], "technique": c['technique']})
        else:
            m['not_applicable'].append({"property_id": pid, "reason": REASON_TODO})
    m['notes'] = ('Genuine defects repaired in /repo by unguarded "fix:" commits are listed in known_findings.json '
                  '(status fixed); open findings are reported as KNOWN-FINDING lines.')
    json.dump(m, open(os.path.join(HERE, 'MANIFEST.json'), 'w'), indent=1)


if __name__ == '__main__':
    main()
