"""Shared machinery of the check driver: building the Coq development against
/repo's current tree, evaluating generated Coq files, parsing printed terms,
evidence, known findings, violation reporting."""
import fcntl
import hashlib
import json
import os
import re
import subprocess
import sys
import time

VERIF = os.path.dirname(os.path.dirname(os.path.abspath(__file__)))
COQ = os.path.join(VERIF, 'coq')
GEN = os.path.join(COQ, 'Gen')
REPO = '/repo'
PY = '/venv/bin/python'
NCPU = 16

FORBIDDEN = re.compile(
    r'\b(Admitted|admit|Axiom|Axioms|Parameter|Parameters|Conjecture|Hypothesis|Variable|'
    r'Unset\s+Guard|bypass_check|type-in-type|impredicative-set|Admit\s+Obligations)\b')


class Broken(Exception):
    """A proof obligation or the model/code tie no longer checks."""
    def __init__(self, what, detail=''):
        super().__init__(what)
        self.what = what
        self.detail = detail


def impl_env():
    env = dict(os.environ)
    env['PYTHONPATH'] = REPO
    env['PYTHONHASHSEED'] = '0'
    env['PYTHONDONTWRITEBYTECODE'] = '1'
    return env


def sh(cmd, timeout, cwd=None, env=None):
    p = subprocess.run(cmd, cwd=cwd, env=env, stdout=subprocess.PIPE, stderr=subprocess.STDOUT,
                       timeout=timeout, text=True, errors='replace')
    return p.returncode, p.stdout


# ---------------------------------------------------------------- build

def write_if_changed(path, text):
    try:
        if open(path).read() == text:
            return False
    except OSError:
        pass
    tmp = path + '.tmp%d' % os.getpid()
    open(tmp, 'w').write(text)
    os.replace(tmp, path)
    return True


def source_files():
    out = []
    for d in ('Base', 'Regex', 'Resolver', 'Model', 'Proofs', 'Props'):
        dd = os.path.join(COQ, d)
        if os.path.isdir(dd):
            for f in sorted(os.listdir(dd)):
                if f.endswith('.v'):
                    out.append(f'{d}/{f}')
    out.append('Gen/Tables.v')
    return out


class Lock:
    def __init__(self):
        self.f = None

    def __enter__(self):
        self.f = open(os.path.join(COQ, '.buildlock'), 'w')
        fcntl.flock(self.f, fcntl.LOCK_EX)
        return self

    def __exit__(self, *a):
        fcntl.flock(self.f, fcntl.LOCK_UN)
        self.f.close()


def regen_tables():
    """Regenerate Gen/Tables.v from /repo (in a subprocess so that the driver
    never imports a stale yatiml)."""
    out = os.path.join(GEN, 'Tables.v.new%d' % os.getpid())
    rc, log = sh([PY, os.path.join(VERIF, 'harness', 'translate_tables.py'), out], 120, env=impl_env())
    if rc != 0:
        try:
            os.unlink(out)
        except OSError:
            pass
        raise Broken('translator:Gen/Tables.v', log[-3000:])
    txt = open(out).read()
    os.unlink(out)
    write_if_changed(os.path.join(GEN, 'Tables.v'), txt)


def ensure_makefile():
    files = source_files()
    proj = ('-Q . Y\n-arg -w -arg -notation-overridden,-abstract-large-number,'
            '-deprecated-hint-without-locality,-deprecated-instance-without-locality\n'
            + '\n'.join(files) + '\n')
    changed = write_if_changed(os.path.join(COQ, '_CoqProject'), proj)
    if changed or not os.path.exists(os.path.join(COQ, 'Makefile')):
        rc, log = sh(['coq_makefile', '-f', '_CoqProject', '-o', 'Makefile'], 120, cwd=COQ)
        if rc != 0:
            raise Broken('coq_makefile', log[-2000:])


def theorem_at(vfile, line):
    """Name of the theorem/lemma enclosing a line of a .v file."""
    try:
        lines = open(os.path.join(COQ, vfile)).read().split('\n')
    except OSError:
        return None
    for i in range(min(line, len(lines)) - 1, -1, -1):
        m = re.match(r'\s*(Theorem|Lemma|Example|Corollary|Definition|Fixpoint|Fact)\s+([A-Za-z0-9_\']+)', lines[i])
        if m:
            return m.group(2)
    return None


def build(targets, timeout=1500):
    """make the given .vo targets (full .vo build).  Returns (ok, failures) where
    failures is a list of dicts {file, line, theorem, message}."""
    with Lock():
        ensure_makefile()
        failures = []
        # -k: keep going so that every broken file is reported
        rc, log = sh(['make', '-k', '-j', str(NCPU)] + targets, timeout, cwd=COQ)
        if rc != 0:
            for m in re.finditer(r'File "\./([^"]+)", line (\d+), characters [\d-]+:\n((?:(?!File ").*\n?){1,12})', log):
                f, ln, msg = m.group(1), int(m.group(2)), m.group(3)
                if 'Warning' in msg.split('\n')[0]:
                    continue
                failures.append({'file': f, 'line': ln, 'theorem': theorem_at(f, ln),
                                 'message': msg.strip()[:600]})
            if not failures:
                failures.append({'file': '?', 'line': 0, 'theorem': None, 'message': log[-1500:]})
        # the modules the generated case files import (evaluation of the model), whether or not the property's own theorems need
        # them: they must never be stale with respect to a regenerated Gen/Tables.vo
        support = sorted(f[:-2] + '.vo' for f in source_files() if f.startswith('Model/')) + \
            ['Resolver/C05Obl.vo', 'Resolver/C09Obl.vo', 'Resolver/Specs.vo', 'Proofs/ClassRoundTrip.vo']
        support = [t for t in support if t not in targets]
        rc2, log2 = sh(['make', '-k', '-j', str(NCPU)] + support, timeout, cwd=COQ)
        if rc2 != 0 and rc == 0:
            failures.append({'file': 'support-modules', 'line': 0, 'theorem': None, 'message': log2[-1500:]})
        return rc == 0 and rc2 == 0, failures, log


def hygiene():
    """No admits/axioms/parameters anywhere in the hand-written development."""
    bad = []
    for f in source_files():
        if f.startswith('Gen/'):
            continue
        txt = open(os.path.join(COQ, f)).read()
        # strip comments (non-nested good enough: we never nest)
        txt2 = re.sub(r'\(\*.*?\*\)', '', txt, flags=re.S)
        for m in FORBIDDEN.finditer(txt2):
            # Section-local Variable/Hypothesis are allowed only inside a Section
            w = m.group(1)
            if w in ('Variable', 'Hypothesis'):
                before = txt2[:m.start()]
                if before.count('Section ') > before.count('\nEnd '):
                    continue
            bad.append(f'{f}: {w}')
    return bad


_eval_counter = [0]


def coq_eval(name, text, timeout=900):
    """Compile a generated file Gen/<name>.v and return coqc's output."""
    path = os.path.join(GEN, name + '.v')
    open(path, 'w').write(text)
    rc, log = sh(['coqc', '-Q', '.', 'Y', '-w', '-notation-overridden,-abstract-large-number', f'Gen/{name}.v'],
                 timeout, cwd=COQ)
    for ext in ('.vo', '.vok', '.vos', '.glob'):
        try:
            os.unlink(os.path.join(GEN, name + ext))
        except OSError:
            pass
    try:
        os.unlink(os.path.join(GEN, '.' + name + '.aux'))
    except OSError:
        pass
    return rc, log


def print_assumptions(modname, theorems):
    txt = (f'From Y Require Import {modname}.\n'
           + '\n'.join(f'Print Assumptions {t}.' for t in theorems) + '\n')
    rc, log = coq_eval(f'Assum_{modname}', txt, 300)
    if rc != 0:
        raise Broken(f'assumptions:{modname}', log[-1500:])
    blocks = [b.strip() for b in re.split(r'(?=Closed under the global context|Axioms:)', log) if b.strip()]
    blocks = [b for b in blocks if b.startswith('Closed') or b.startswith('Axioms:')]
    return dict(zip(theorems, blocks)), log


def theorems_of(vfile):
    txt = open(os.path.join(COQ, vfile)).read()
    txt = re.sub(r'\(\*.*?\*\)', '', txt, flags=re.S)
    return re.findall(r'^\s*Theorem\s+([A-Za-z0-9_\']+)', txt, flags=re.M), \
        re.findall(r'^\s*(?:Example|Lemma|Corollary)\s+([A-Za-z0-9_\']+)', txt, flags=re.M)


def discharged_before_failure(props_file, failures):
    """Theorems/examples of the property file that were checked before the first failure."""
    if any(f['file'] != props_file for f in failures):
        return 0
    first = min([f['line'] for f in failures] or [0])
    txt = open(os.path.join(COQ, props_file)).read().split('\n')
    n = 0
    for i, l in enumerate(txt[:max(0, first - 1)]):
        if re.match(r'\s*(Theorem|Example|Lemma|Corollary)\s', l):
            n += 1
    return max(0, n - 1)


# ---------------------------------------------------------------- Coq term parsing

_tok = re.compile(r'\s*(\[|\]|\(|\)|;|,|"(?:[^"]|"")*"|[A-Za-z_][A-Za-z0-9_\'.]*|-?\d+)(%[A-Za-z_]+)?')


def parse_term(s):
    """Parse a printed Coq term made of lists, pairs, Some/None, inl/inr,
    numerals, booleans and strings into Python data."""
    toks = []
    pos = 0
    s = s.strip()
    while pos < len(s):
        m = _tok.match(s, pos)
        if not m:
            raise ValueError('cannot tokenise at %r' % s[pos:pos + 40])
        toks.append(m.group(1))
        pos = m.end()
    i = [0]

    def atom():
        t = toks[i[0]]
        i[0] += 1
        if t == '[':
            out = []
            if toks[i[0]] == ']':
                i[0] += 1
                return out
            while True:
                out.append(app())
                t2 = toks[i[0]]
                i[0] += 1
                if t2 == ']':
                    return out
                assert t2 == ';', t2
        if t == '(':
            items = [app()]
            while toks[i[0]] == ',':
                i[0] += 1
                items.append(app())
            assert toks[i[0]] == ')', toks[i[0]]
            i[0] += 1
            return items[0] if len(items) == 1 else tuple(items)
        if t.startswith('"'):
            return t[1:-1].replace('""', '"')
        if re.fullmatch(r'-?\d+', t):
            return int(t)
        if t == 'true':
            return True
        if t == 'false':
            return False
        if t == 'None':
            return None
        if t == 'nil':
            return []
        return ('@', t)

    def app():
        h = atom()
        if isinstance(h, tuple) and len(h) == 2 and h[0] == '@':
            args = []
            while i[0] < len(toks) and toks[i[0]] not in (']', ')', ';', ','):
                args.append(atom())
            name = h[1]
            if name == 'Some':
                return ('Some', args[0])
            if not args:
                return name
            return (name,) + tuple(args)
        return h

    r = app()
    return r


def eval_results(log):
    """All `= term : type` results printed by Eval/Compute commands in a log."""
    out = []
    for m in re.finditer(r'^\s*= (.*?)\n\s*: ', log, flags=re.S | re.M):
        out.append(m.group(1))
    return out


# ---------------------------------------------------------------- Coq literals

def coq_ustr(s):
    """Coq term of type ustring (list N) for a Python str."""
    if s and all(32 <= ord(c) < 127 and c != '"' for c in s):
        return f'(u "{s}")'
    return '[' + '; '.join(str(ord(c)) for c in s) + ']'


# ---------------------------------------------------------------- findings / evidence

def load_known():
    p = os.path.join(VERIF, 'known_findings.json')
    try:
        return json.load(open(p))
    except OSError:
        return {'findings': []}


def is_known(pid, signature):
    for f in load_known().get('findings', []):
        if f.get('property') == pid and f.get('status') == 'open' and f.get('signature') == signature:
            return f
    return None


def write_replay(pid, payload):
    d = os.path.join(VERIF, 'replays')
    os.makedirs(d, exist_ok=True)
    blob = json.dumps(payload, sort_keys=True, ensure_ascii=True, indent=1)
    h = hashlib.sha1(blob.encode()).hexdigest()[:12]
    path = os.path.join(d, f'{pid}-{h}.json')
    open(path, 'w').write(blob)
    return path


def write_evidence(pid, tier, seed, level, coverage, assumptions, wall, violations):
    d = os.path.join(VERIF, 'evidence')
    os.makedirs(d, exist_ok=True)
    ev = {'property_id': pid, 'tier': tier, 'seed': seed, 'level': level,
          'coverage': coverage, 'assumptions': assumptions, 'wall_s': round(wall, 2),
          'violations': violations}
    open(os.path.join(d, pid + '.json'), 'w').write(json.dumps(ev, indent=1, ensure_ascii=True))


TRUSTED_BASE = [
    'Coq 8.16.1 kernel including its vm_compute machine (certificate checks); native_compute not used',
    'no axioms declared; Print Assumptions output of every property theorem is recorded in this file',
    'harness/translate_tables.py (CPython re._parser based) for regenerated tables, validated each run against re.match',
    'correspondence harness (case generators, encoders into Coq terms, canonicalisation of outcomes)',
    'CPython 3.12 / PyYAML 6.0 behaviour outside yatiml is modelled (see DESIGN.md section 8), monitored by the tie',
]
