"""Operation sequences over yatiml.Node: run on the implementation, encode for
the Coq model (Model/OpsRun.v), shard evaluation."""
import datetime
import os
import subprocess

import yaml

import common
import encode
from common import coq_ustr

TAG = 'tag:yaml.org,2002:'


def S(text, tag='str'):
    return yaml.ScalarNode(TAG + tag if ':' not in tag and not tag.startswith('!') else tag, text)


def Q(items, tag='seq'):
    return yaml.SequenceNode(TAG + tag if not tag.startswith('!') else tag, list(items))


def M(pairs, tag='map'):
    return yaml.MappingNode(TAG + tag if not tag.startswith('!') else tag, [(k, v) for k, v in pairs])


def typ_obj(t):
    import yatiml
    return {'str': str, 'int': int, 'float': float, 'bool': bool, 'none': None, 'nonetype': type(None),
            'boolfix': yatiml.bool_union_fix, 'date': datetime.date, 'list': list, 'dict': dict,
            'invalid': complex}[t]


def typ_term(t):
    return {'any': 'TyAnyScalar', 'str': '(TyK KStr)', 'int': '(TyK KInt)', 'float': '(TyK KFloat)',
            'bool': '(TyK KBool)', 'none': '(TyK KNone)', 'nonetype': '(TyK KNoneType)',
            'boolfix': '(TyK KBoolFix)', 'date': '(TyK KDate)', 'list': 'TyList', 'dict': 'TyDict',
            'invalid': 'TyInvalid'}[t]


def sval_term(v):
    if isinstance(v, bool):
        return f'(SvBool {"true" if v else "false"})'
    if isinstance(v, int):
        return f'(SvInt {encode.z_term(v)})'
    if isinstance(v, float):
        return f'(SvFloat {coq_ustr(str(v))} {coq_ustr(v.hex())})'
    if v is None:
        return 'SvNone'
    return f'(SvStr {coq_ustr(v)})'


def opt_term(x):
    return 'None' if x is None else f'(Some {coq_ustr(x)})'


def defaults_class(params, overrides):
    """params: list of (name, has_default, default); required ones first."""
    sig = ', '.join(f'{n}=None' if h else n for n, h, _ in params)
    ns = {}
    exec(f'class _B:\n    pass\nclass _D(_B):\n    def __init__(self, {sig}):\n        pass\n', ns)
    cls = ns['_D']
    cls.__init__.__defaults__ = tuple(d for _, h, d in params if h) or None
    if overrides is not None:
        # every other time the user-declared defaults sit on a base class (a mix-in) and are inherited
        _DEFAULTS_COUNTER[0] += 1
        (ns['_B'] if _DEFAULTS_COUNTER[0] % 2 else cls)._yatiml_defaults = dict(overrides)
    return cls


_DEFAULTS_COUNTER = [0]


def op_term(op):
    k = op[0]
    if k == 'has':
        return f'(OpHas {coq_ustr(op[1])})'
    if k == 'get':
        return f'(OpGet {coq_ustr(op[1])})'
    if k == 'set':
        kind, x = op[2]
        arg = f'(PScalar {sval_term(x)})' if kind == 'sv' else f'(PNode {encode.node_term(x)})'
        return f'(OpSet {coq_ustr(op[1])} {arg})'
    if k == 'remove':
        return f'(OpRemove {coq_ustr(op[1])})'
    if k == 'rename':
        return f'(OpRename {coq_ustr(op[1])} {coq_ustr(op[2])})'
    if k == 'hastype':
        return f'(OpHasType {coq_ustr(op[1])} {typ_term(op[2])})'
    if k == 'isscalar':
        return f'(OpIsScalar {typ_term(op[1])})'
    if k == 'ismapping':
        return 'OpIsMapping'
    if k == 'issequence':
        return 'OpIsSequence'
    if k == 'isempty':
        return 'OpIsEmpty'
    if k == 'getvalue':
        return 'OpGetValue'
    if k == 'setvalue':
        return f'(OpSetValue {sval_term(op[1])})'
    if k == 'makemapping':
        return 'OpMakeMapping'
    if k == 'u2d':
        return 'OpU2D'
    if k == 'd2u':
        return 'OpD2U'
    if k == 'rmdefaults':
        ps = '; '.join(f'({coq_ustr(n)}, {"(Some " + encode.value_term(d) + ")" if h else "None"})' for n, h, d in op[1])
        ov = '; '.join(f'({coq_ustr(n)}, {encode.value_term(d)})' for n, d in (op[2] or {}).items())
        return f'(OpRemoveDefaults [{ps}] [{ov}])' 
    if k == 'seq2map':
        return f'(OpSeqToMap {coq_ustr(op[1])} {coq_ustr(op[2])} {opt_term(op[3])} {"true" if op[4] else "false"})'
    if k == 'map2seq':
        return f'(OpMapToSeq {coq_ustr(op[1])} {coq_ustr(op[2])} {opt_term(op[3])})'
    if k == 'idx2map':
        return f'(OpIndexToMap {coq_ustr(op[1])} {coq_ustr(op[2])} {opt_term(op[3])})'
    if k == 'map2idx':
        return f'(OpMapToIndex {coq_ustr(op[1])} {coq_ustr(op[2])} {opt_term(op[3])})'
    raise ValueError(op)


def apply_op(N, op):
    """Apply one op to a yatiml.Node; returns an encoded oret term builder (kind, payload)."""
    k = op[0]
    if k == 'has':
        return ('bool', N.has_attribute(op[1]))
    if k == 'get':
        return ('node', N.get_attribute(op[1]).yaml_node)
    if k == 'set':
        kind, x = op[2]
        N.set_attribute(op[1], encode.copy_tree(x) if kind == 'node' else x)
        return ('none', None)
    if k == 'remove':
        N.remove_attribute(op[1])
        return ('none', None)
    if k == 'rename':
        N.rename_attribute(op[1], op[2])
        return ('none', None)
    if k == 'hastype':
        return ('bool', N.has_attribute_type(op[1], typ_obj(op[2])))
    if k == 'isscalar':
        return ('bool', N.is_scalar() if op[1] == 'any' else N.is_scalar(typ_obj(op[1])))
    if k == 'ismapping':
        return ('bool', N.is_mapping())
    if k == 'issequence':
        return ('bool', N.is_sequence())
    if k == 'isempty':
        return ('bool', N.is_empty())
    if k == 'getvalue':
        return ('value', N.get_value())
    if k == 'setvalue':
        N.set_value(op[1])
        return ('none', None)
    if k == 'makemapping':
        N.make_mapping()
        return ('none', None)
    if k == 'u2d':
        N.unders_to_dashes_in_keys()
        return ('none', None)
    if k == 'd2u':
        N.dashes_to_unders_in_keys()
        return ('none', None)
    if k == 'rmdefaults':
        N.remove_attributes_with_default_values(defaults_class(op[1], op[2]))
        return ('none', None)
    if k == 'seq2map':
        N.seq_attribute_to_map(op[1], op[2], op[3], op[4])
        return ('none', None)
    if k == 'map2seq':
        N.map_attribute_to_seq(op[1], op[2], op[3])
        return ('none', None)
    if k == 'idx2map':
        N.index_attribute_to_map(op[1], op[2], op[3])
        return ('none', None)
    if k == 'map2idx':
        N.map_attribute_to_index(op[1], op[2], op[3])
        return ('none', None)
    raise ValueError(op)


def run_impl(init, ops):
    """Run ops on a fresh copy of init with the real yatiml.Node.  Returns (final_node, rets, trace)
    where rets are (kind, payload) and trace the plain views after every op."""
    import yatiml
    N = yatiml.Node(encode.copy_tree(init))
    rets, trace = [], []
    for op in ops:
        try:
            r = apply_op(N, op)
            if r[0] == 'node':
                r = ('node', encode.copy_tree(r[1]))
        except RecursionError:
            raise
        except Exception as e:      # noqa
            r = ('exn', e)
        rets.append(r)
        try:
            trace.append(encode.plain_view(N.yaml_node))
        except Exception:           # noqa
            trace.append(None)
    return N.yaml_node, rets, trace


def ret_term(r):
    kind, x = r
    if kind == 'none':
        return 'RNone'
    if kind == 'bool':
        return f'(RBool {"true" if x else "false"})'
    if kind == 'node':
        return f'(RNode {encode.node_term(x)})'
    if kind == 'value':
        return f'(RValue {encode.value_term(x)})'
    return f'(RExn {encode.exn_term(x)})'


def case_scalars(init, ops, final, rets):
    sc = encode.scalars_of(init)
    encode.scalars_of(final, sc)
    for op in ops:
        if op[0] == 'set' and op[2][0] == 'node':
            encode.scalars_of(op[2][1], sc)
        if op[0] == 'set' and op[2][0] == 'sv' and isinstance(op[2][1], (int, float)) and not isinstance(op[2][1], bool):
            sc.add((TAG + ('int' if isinstance(op[2][1], int) else 'float'), str(op[2][1])))
        if op[0] == 'setvalue' and isinstance(op[1], (int, float)) and not isinstance(op[1], bool):
            sc.add((TAG + ('int' if isinstance(op[1], int) else 'float'), str(op[1])))
    for r in rets:
        if r[0] == 'node':
            encode.scalars_of(r[1], sc)
    return {(t, v) for t, v in sc if t in (TAG + 'int', TAG + 'float')}


def case_term(init, ops, final, rets):
    o = encode.oracle_term(case_scalars(init, ops, final, rets))
    return ('{| oc_oracle := ' + o + '; oc_init := ' + encode.node_term(init) + '; oc_ops := ['
            + '; '.join(op_term(op) for op in ops) + ']; oc_impl_final := ' + encode.node_term(final)
            + '; oc_impl_rets := [' + '; '.join(ret_term(r) for r in rets) + '] |}')


HEADER = ('From Coq Require Import NArith ZArith List Bool String. Import ListNotations.\n'
          'From Y Require Import Prelude Node Tables NodeOps OpsRun.\n'
          'Open Scope N_scope.\nSet Printing Width 1000000. Set Printing Depth 100000000.\n')


def eval_shards(name, case_terms, per_shard=400, header=HEADER, fn='mismatches', ctype='opcase', timeout=1800):
    """Evaluate `fn [cases]` inside Coq, sharded and in parallel.  Returns the list of global
    indices the model flags."""
    shards = [case_terms[i:i + per_shard] for i in range(0, len(case_terms), per_shard)]
    procs = []
    bad = []
    maxpar = common.NCPU

    def launch(si, terms):
        path = os.path.join(common.GEN, f'Cases_{name}_{si}.v')
        with open(path, 'w') as f:
            f.write(header)
            for j, t in enumerate(terms):
                f.write(f'Definition c{j} : {ctype} := {t}.\n')
            f.write(f'Eval vm_compute in {fn} [' + '; '.join(f'c{j}' for j in range(len(terms))) + '].\n')
        p = subprocess.Popen(['coqc', '-Q', '.', 'Y', '-w', '-notation-overridden,-abstract-large-number',
                              f'Gen/Cases_{name}_{si}.v'], cwd=common.COQ, stdout=subprocess.PIPE,
                             stderr=subprocess.STDOUT, text=True)
        return p

    def finish(si, p):
        try:
            out, _ = p.communicate(timeout=timeout)
        except subprocess.TimeoutExpired:
            p.kill()
            raise common.Broken(f'correspondence:{name}-shard-timeout', f'shard {si}')
        base = os.path.join(common.GEN, f'Cases_{name}_{si}')
        for ext in ('.vo', '.vok', '.vos', '.glob', '.v'):
            try:
                os.unlink(base + ext)
            except OSError:
                pass
        try:
            os.unlink(os.path.join(common.GEN, f'.Cases_{name}_{si}.aux'))
        except OSError:
            pass
        if p.returncode != 0:
            raise common.Broken(f'correspondence:{name}-model-evaluation', out[-2500:])
        res = common.eval_results(out)
        if len(res) != 1:
            raise common.Broken(f'correspondence:{name}-output', out[-1500:])
        for idx in common.parse_term(res[0]):
            bad.append(si * per_shard + idx)

    running = []
    for si, terms in enumerate(shards):
        running.append((si, launch(si, terms)))
        if len(running) >= maxpar:
            s0, p0 = running.pop(0)
            finish(s0, p0)
    for s0, p0 in running:
        finish(s0, p0)
    return sorted(bad)
