"""Dump-side cases: class models with real defaults, values of their types, execution of
dumps / load(dumps) on the implementation, encoding for the Coq representer model."""
import collections
import copy
import datetime
import enum
import math
import pathlib
import random
from collections import OrderedDict

import yaml

import classgen
import common
import encode
import loadcase
import nodeops
from common import coq_ustr

HEADER = ('From Coq Require Import NArith ZArith List Bool String. Import ListNotations.\n'
          'From Y Require Import Prelude Node Tables NodeOps OpsRun Types Recognize Loader Hooks LoadRun Represent.\n'
          'Open Scope N_scope.\nSet Printing Width 1000000. Set Printing Depth 100000000.\n')

STRINGS = ['x', 'hello world', '', 'true', 'True', 'false', 'yes', 'no', 'on', 'off', 'null', '~', 'Null', '1', '-17', '0x1F',
           '017', '1_000', '1.5', '1e5', '+.0', '1.e5', '.5', '.inf', '-.INF', '.nan', '1:30', '190:20:30.15', '2001-12-14',
           '2001-12-14 21:59:43', 'a: b', '- x', '[a]', '{a: b}', '# c', 'a #b', '"q"', "it's", '|', '>', '&a', '*a', '!t', '%d',
           '@x', '`x', ' lead', 'trail ', 'multi\nline', 'tab\there', 'nel\x85x', 'ls x', 'é', '\U0001F600', '\ud800',
           '<<', '=', '?', ':', '-', '--- x', '... y', 'k0', 'K0', '0o17', '1e', 'e5', '6.8523015e+5_0']
INTS = [0, 1, -5, 10 ** 20, 255, -2 ** 63]
FLOATS = [0.0, -0.0, 1.5, 1e300, 1e-7, 1e16, 1e17, 5e-324, float('inf'), float('-inf'), float('nan'), 123456789.125, 2.5e-5]
DATES = [datetime.date(2001, 12, 14), datetime.date(1, 1, 1), datetime.datetime(2001, 12, 14, 21, 59, 43),
         datetime.datetime(2001, 12, 14, 21, 59, 43, 100000), datetime.datetime(1999, 1, 2, 3, 4, 5,
                                                                                tzinfo=datetime.timezone(datetime.timedelta(hours=-5))),
         datetime.datetime(2020, 2, 29, 0, 0, 0, tzinfo=datetime.timezone.utc)]


def default_for(rnd, t):
    """A real default value conforming to type spec t, or classgen._DFLT-free 'required' marker None."""
    if t is None or t == 'any':
        return rnd.choice([None, 'd', 3])
    if isinstance(t, str):
        return {'str': 'dflt', 'int': 7, 'float': 0.5, 'bool': False, 'none': None, 'boolfix': False}.get(t, '__required__')
    if t[0] == 'optional':
        return None
    if t[0] == 'list':
        return []
    if t[0] == 'dict':
        return {}
    if t[0] == 'union':
        return default_for(rnd, t[1][0])
    return '__required__'


def gen_model(rnd, max_classes=4, toggles=True, yattrs=False):
    """Class model for dumping: every optional parameter has a real default; unions avoid obviously ambiguous members."""
    specs = loadcase.gen_model(rnd, max_classes=max_classes, hooks=False)
    for s in specs:
        s['registered'] = True
        if 'ABC' in s.get('bases', []):
            s['bases'] = [b for b in s['bases'] if b != 'ABC']
        s.pop('init', None)
        s.pop('str', None)
        if s['kind'] == 'enum' and rnd.random() < 0.3:
            s['strmixin'] = True
        if s['kind'] != 'obj':
            continue
        for p in s['params']:
            p['type'] = disambiguate(p.get('type'))
            if not p['required']:
                d = default_for(rnd, p['type'])
                if d == '__required__':
                    p['required'] = True
                else:
                    p['default'] = d
        s['params'].sort(key=lambda p: not p['required'])
        if rnd.random() < 0.25 and any(not p['required'] for p in s['params']):
            s['sweeten'] = [('op', ('rmdefaults_cls',))]
        elif rnd.random() < 0.12:
            # a sweeten / savorize pair that are inverses: dashes in keys
            s['sweeten'] = [('op', ('u2d',))]
            s['savorize'] = [('op', ('d2u',))]
        elif toggles and rnd.random() < 0.5 and any(s['name'] in o.get('bases', []) for o in specs):
            # a base class whose sweeten is NOT idempotent (and is its own inverse): subclasses inherit it, it must run once
            toggle = [('if', ('has', 'v_mark'), [('remove', 'v_mark')], [('set', 'v_mark', ('sv', 1))])]
            s['sweeten'] = toggle
            s['savorize'] = toggle
    # a base class's remove_attributes_with_default_values(cls) runs for objects of its subclasses too, with the BASE's
    # defaults: it is an inverse of loading only if the subclass declares the same-named parameters with the same default
    for s in specs:
        if s['kind'] != 'obj':
            continue
        for a in _ancestors(specs, s['name']):
            sa = loadcase.spec_of(specs, a)
            if not sa or sa.get('sweeten') != [('op', ('rmdefaults_cls',))] or not sa.get('registered', True):
                continue
            for pa in sa['params']:
                if 'default' not in pa:
                    continue
                for ps in s['params']:
                    if ps['name'] == pa['name']:
                        ps['default'] = copy.deepcopy(pa['default'])
                        ps['required'] = False
                        ps['type'] = pa['type']
        s['params'].sort(key=lambda p: not p['required'])
    if toggles == 'commuting':
        # sweeteners and savorizers both run ancestors-first, so a hierarchy's hooks are mutual inverses only when they commute:
        # a model with a toggling class gets no key-renaming hooks at all
        if any((s.get('sweeten') or [(None,)])[0][0] == 'if' for s in specs):
            for s in specs:
                if s.get('sweeten') == [('op', ('u2d',))]:
                    s.pop('sweeten')
                    s.pop('savorize', None)
    if yattrs:
        # classes with their own _yatiml_attributes(): the dump is whatever it returns (C06 only: such dumps need not load back)
        for s in specs:
            if s['kind'] == 'obj' and not s.get('bases') and not loadcase.all_subclasses(specs, s['name']) and \
                    rnd.random() < (0.5 if s.get('extra') else 0.15):
                s['yattrs'] = rnd.choice(['noextra', 'stored', 'reversed'])
                s.pop('sweeten', None)
    return specs


def _ancestors(specs, name):
    out = []
    s = loadcase.spec_of(specs, name)
    for b in (s.get('bases', []) if s else []):
        if loadcase.spec_of(specs, b) is not None:
            out.append(b)
            out += _ancestors(specs, b)
    return out


def disambiguate(t):
    if t is None or isinstance(t, str):
        return t
    k = t[0]
    if k == 'list':
        return ('list', t[1], disambiguate(t[2]))
    if k == 'dict':
        return ('dict', t[1], t[2], disambiguate(t[3]))
    if k == 'optional':
        inner = disambiguate(t[1])
        return inner if inner == 'none' or (isinstance(inner, tuple) and inner[0] in ('optional', 'union')) else ('optional', inner)
    if k == 'union':
        # keep at most one member per YAML kind: scalar-string-ish, int, float, bool, list, dict, class
        seen, out = set(), []
        for m in t[1]:
            m = disambiguate(m)
            kind = m if isinstance(m, str) else m[0]
            kind = {'str': 'strish', 'path': 'strish', 'date': 'date', 'boolfix': 'bool', 'any': 'any'}.get(kind, kind)
            if kind in ('any', 'optional', 'union', 'class') or kind in seen:
                continue
            seen.add(kind)
            out.append(m)
        return ('union', out) if len(out) > 1 else (out[0] if out else 'str')
    return t


def admits_str(t):
    if t is None or t in ('any', 'str'):
        return True
    if isinstance(t, tuple) and t[0] == 'optional':
        return admits_str(t[1])
    if isinstance(t, tuple) and t[0] == 'union':
        return any(admits_str(m) for m in t[1])
    return False


def gen_value(rnd, model, t, depth=3):
    specs = model.specs
    if t is None or t == 'any':
        return rnd.choice([rnd.choice(STRINGS), 5, 2.5, True, None, ['a', 1], {'k': 'v', 'n': []},
                           OrderedDict([('z', 1), ('a', 2)])])
    if isinstance(t, str):
        return {'str': lambda: rnd.choice(STRINGS), 'int': lambda: rnd.choice(INTS), 'float': lambda: rnd.choice(FLOATS),
                'bool': lambda: rnd.random() < 0.5, 'boolfix': lambda: rnd.random() < 0.5, 'none': lambda: None,
                'date': lambda: rnd.choice(DATES), 'path': lambda: pathlib.Path(rnd.choice(['/tmp/x', 'rel/p.txt', '.', 'a b', '~/notes.txt', '~', '~root/x', '$HOME/x', '../up']))}[t]()
    k = t[0]
    if k == 'list':
        return [gen_value(rnd, model, t[2], depth - 1) for _ in range(rnd.randrange(0, 3 if depth > 0 else 1))]
    if k == 'dict':
        keys = rnd.sample(STRINGS, rnd.randrange(0, 3 if depth > 0 else 1))
        return {kk: gen_value(rnd, model, t[3], depth - 1) for kk in keys}
    if k == 'union':
        return gen_value(rnd, model, rnd.choice(t[1]), depth)
    if k == 'optional':
        return None if rnd.random() < 0.3 else gen_value(rnd, model, t[1], depth)
    if k == 'class':
        cands = [t[1]] + loadcase.all_subclasses(specs, t[1])
        s = loadcase.spec_of(specs, rnd.choice(cands))
        cls = model.cls(s['name'])
        if s['kind'] == 'enum':
            return cls[rnd.choice(s['members'])]
        if s['kind'] == 'str':
            return cls(rnd.choice(['text', 'x y', 'true', '1.5', '']))
        kw = {}
        for p in s['params']:
            if p['required'] or rnd.random() < 0.6:
                if depth < -6:
                    raise ValueError('class model forces unboundedly deep values')
                kw[p['name']] = gen_value(rnd, model, p['type'], depth - 1)
                # a string spelled exactly like a non-string default (None -> 'None', 7 -> '7') must not be taken for the default
                if 'default' in p and not isinstance(p['default'], str) and admits_str(p['type']) and rnd.random() < 0.3:
                    kw[p['name']] = str(p['default'])
        if s.get('extra') and rnd.random() < 0.6:
            kw['_yatiml_extra'] = OrderedDict([('extra1', rnd.choice(['x', 1, ['a']])), ('b-c', rnd.choice(STRINGS))])
        return cls(**kw)
    raise ValueError(t)


# ---------------------------------------------------------------- canonical forms

def attrs_of(v, s):
    """(name, value) pairs the representer starts from, and whether the extras are to be appended: the constructor parameters'
    attributes then the extras -- or whatever the class's own _yatiml_attributes() returns (then no extras are added)."""
    if s.get('yattrs'):
        return list(v._yatiml_attributes().items()), False
    return [(p['name'], getattr(v, p['name'])) for p in s['params']], bool(s.get('extra'))


def dump_term(v, model):
    """Coq `value` term for a dump-side value: objects by ALL their constructor parameters' attributes."""
    if isinstance(v, bool):
        return f'(VBool {"true" if v else "false"})'
    if isinstance(v, enum.Enum):
        return f'(VEnum {coq_ustr(type(v).__name__)} {coq_ustr(v.name)})'
    if isinstance(v, int):
        return f'(VInt {encode.z_term(v)})'
    if isinstance(v, float):
        return f'(VFloat {coq_ustr(v.hex())})'
    if v is None:
        return 'VNone'
    if hasattr(v, '_verif_str'):
        return f'(VUStr {coq_ustr(type(v).__name__)} {coq_ustr(v._verif_str)})'
    if isinstance(v, str):
        return f'(VStr {coq_ustr(v)})'
    if isinstance(v, datetime.datetime):
        return f'(VDateTime {coq_ustr(v.isoformat())})'
    if isinstance(v, datetime.date):
        return f'(VDate {coq_ustr(v.isoformat())})'
    if isinstance(v, pathlib.PurePath):
        return f'(VPath {coq_ustr(str(v))})'
    if isinstance(v, (list, tuple)):
        return '(VList [' + '; '.join(dump_term(x, model) for x in v) + '])'
    if isinstance(v, dict):
        return '(VDict [' + '; '.join(f'({dump_term(k, model)}, {dump_term(x, model)})' for k, x in v.items()) + '])'
    if hasattr(v, '_verif_kwargs'):
        s = loadcase.spec_of(model.specs, type(v).__name__)
        attrs, with_extra = attrs_of(v, s)
        parts = [f'({coq_ustr(a)}, {dump_term(x, model)})' for a, x in attrs]
        if with_extra:
            parts.append(f'({coq_ustr("_yatiml_extra")}, {dump_term(dict(v._yatiml_extra), model)})')
        return f'(VObj {coq_ustr(type(v).__name__)} [' + '; '.join(parts) + '])'
    raise TypeError(f'cannot encode {v!r}')


def floats_of(v, acc):
    if isinstance(v, float):
        acc.add(v.hex())
    elif isinstance(v, (list, tuple)):
        for x in v:
            floats_of(x, acc)
    elif isinstance(v, dict):
        for k, x in v.items():
            floats_of(k, acc)
            floats_of(x, acc)
    elif hasattr(v, '_verif_kwargs'):
        for k, x in vars(v).items():
            if not k.startswith('_verif'):
                floats_of(x, acc)
    return acc


def leaves_of(v, acc):
    if isinstance(v, (list, tuple)):
        for x in v:
            leaves_of(x, acc)
    elif isinstance(v, dict):
        for k, x in v.items():
            leaves_of(k, acc)
            leaves_of(x, acc)
    elif hasattr(v, '_verif_kwargs'):
        for k, x in vars(v).items():
            if not k.startswith('_verif'):
                leaves_of(x, acc)
    else:
        acc.append(v)
    return acc


def ints_of(v, acc):
    if isinstance(v, bool):
        return acc
    if isinstance(v, int) and not isinstance(v, enum.Enum):
        acc.add(int(v))
    elif isinstance(v, (list, tuple)):
        for x in v:
            ints_of(x, acc)
    elif isinstance(v, dict):
        for k, x in v.items():
            ints_of(k, acc)
            ints_of(x, acc)
    elif hasattr(v, '_verif_kwargs'):
        for k, x in vars(v).items():
            if not k.startswith('_verif'):
                ints_of(x, acc)
    return acc


def repr_oracle_term(v, node=None):
    rep = yaml.SafeDumper(None)
    ents = []
    # what PyYAML constructs from the int/float scalars the representer writes (used by default-value matching)
    sc = set()
    for h in floats_of(v, set()):
        sc.add((nodeops.TAG + 'float', rep.represent_float(float.fromhex(h)).value))
    for i in ints_of(v, set()):
        sc.add((nodeops.TAG + 'int', str(i)))
    for x in leaves_of(v, []):
        if isinstance(x, bool):
            sc.add((nodeops.TAG + 'bool', 'true' if x else 'false'))
        elif x is None:
            sc.add((nodeops.TAG + 'null', 'null'))
        elif isinstance(x, datetime.datetime):
            sc.add((nodeops.TAG + 'timestamp', x.isoformat(' ')))
        elif isinstance(x, datetime.date):
            sc.add((nodeops.TAG + 'timestamp', x.isoformat()))
    inner = encode.oracle_term(sc)[1:-1]
    if inner:
        ents.append(inner)
    for h in sorted(floats_of(v, set())):
        node = rep.represent_float(float.fromhex(h))
        ents.append(f'(({coq_ustr("repr:float")}, {coq_ustr(h)}), Ok (VStr {coq_ustr(node.value)}))')
    return '[' + '; '.join(ents) + ']'


def share_in_value(rnd, v, depth=0):
    """Makes the SAME Python object occur twice somewhere inside v (in place): a list gets its first element appended again,
    a dict gets its first value under a further key.  Types are preserved.  Returns True when something was shared."""
    if depth > 6:
        return False
    kids = []
    if isinstance(v, list):
        kids = list(v)
        if v and rnd.random() < 0.6:
            v.append(v[0])
            return True
    elif isinstance(v, dict):
        kids = list(v.values())
        if v and 'dupkey' not in v and all(isinstance(k, str) for k in v) and rnd.random() < 0.6:
            v['dupkey'] = next(iter(v.values()))
            return True
    elif hasattr(v, '_verif_kwargs'):
        kids = [getattr(v, k) for k in vars(v) if not k.startswith('_verif') and k != '_yatiml_extra']
    rnd.shuffle(kids)
    return any(share_in_value(rnd, k, depth + 1) for k in kids if isinstance(k, (list, dict)) or hasattr(k, '_verif_kwargs'))


def structurally_equal(a, b):
    if isinstance(a, dict) and isinstance(b, dict):
        a, b = dict(a), dict(b)         # OrderedDict and dict are the same YAML mapping; order is compared below
    if type(a) is not type(b):
        return False
    if isinstance(a, float):
        return a == b or (math.isnan(a) and math.isnan(b))
    if isinstance(a, (list, tuple)):
        return len(a) == len(b) and all(structurally_equal(x, y) for x, y in zip(a, b))
    if isinstance(a, dict):
        return list(a.keys()) == list(b.keys()) and all(structurally_equal(a[k], b[k]) for k in a) and \
            all(structurally_equal(x, y) for x, y in zip(a.keys(), b.keys()))
    if hasattr(a, '_verif_str'):
        return a._verif_str == b._verif_str
    if hasattr(a, '_verif_kwargs'):
        names = [k for k in vars(a) if not k.startswith('_verif')]
        return names == [k for k in vars(b) if not k.startswith('_verif')] and \
            all(structurally_equal(getattr(a, k), getattr(b, k)) for k in names)
    return a == b


def projection(v, model):
    """The YAML projection of a value as the property words it: constructor parameters in declaration order then extras,
    enum members by name, string-likes and paths by str(), order kept (before any _yatiml_sweeten)."""
    if isinstance(v, enum.Enum):
        return v.name
    if hasattr(v, '_verif_str'):
        return str(v)
    if isinstance(v, pathlib.PurePath):
        return str(v)
    if isinstance(v, (list, tuple)):
        return [projection(x, model) for x in v]
    if isinstance(v, dict):
        return {projection(k, model): projection(x, model) for k, x in v.items()}
    if hasattr(v, '_verif_kwargs'):
        s = loadcase.spec_of(model.specs, type(v).__name__)
        attrs, with_extra = attrs_of(v, s)
        out = {a: projection(x, model) for a, x in attrs}
        if with_extra:
            for k, x in v._yatiml_extra.items():
                out[k] = projection(x, model)
        return out
    return v


def expected_node(v, model, registered):
    """The node tree the property describes, sweeteners included: the projection, each object's mapping altered by its class's
    own `_yatiml_sweeten` functions (registered ancestors first, each once).  Returns None when the hierarchy is not a chain."""
    import yatiml
    sd = yaml.SafeDumper(None)
    T = nodeops.TAG
    if isinstance(v, enum.Enum):
        return yaml.ScalarNode(T + 'str', v.name)
    if hasattr(v, '_verif_str') or isinstance(v, pathlib.PurePath):
        return yaml.ScalarNode(T + 'str', str(v))
    if isinstance(v, (list, tuple)):
        items = [expected_node(x, model, registered) for x in v]
        return None if any(i is None for i in items) else yaml.SequenceNode(T + 'seq', items)
    if isinstance(v, dict):
        ps = [(expected_node(k, model, registered), expected_node(x, model, registered)) for k, x in v.items()]
        return None if any(a is None or b is None for a, b in ps) else yaml.MappingNode(T + 'map', ps)
    if hasattr(v, '_verif_kwargs'):
        s = loadcase.spec_of(model.specs, type(v).__name__)
        attrs, with_extra = attrs_of(v, s)
        ps = [(yaml.ScalarNode(T + 'str', a), expected_node(x, model, registered)) for a, x in attrs]
        if with_extra:
            ps += [(expected_node(k, model, registered), expected_node(x, model, registered)) for k, x in v._yatiml_extra.items()]
        if any(a is None or b is None for a, b in ps):
            return None
        node = yaml.MappingNode(T + 'map', ps)
        chain = [c for c in reversed(type(v).__mro__) if c in registered]
        for c in chain:
            if sum(b in registered for b in c.__bases__) > 1:
                return None
        for c in chain:
            if '_yatiml_sweeten' in c.__dict__:
                c._yatiml_sweeten(yatiml.Node(node))
        return node
    return sd.represent_data(v)


def same_tree(a, b):
    if type(a) is not type(b) or a.tag != b.tag:
        return False
    if isinstance(a, yaml.ScalarNode):
        return a.value == b.value
    if isinstance(a, yaml.SequenceNode):
        return len(a.value) == len(b.value) and all(same_tree(x, y) for x, y in zip(a.value, b.value))
    return len(a.value) == len(b.value) and all(same_tree(k, l) and same_tree(x, y) for (k, x), (l, y) in zip(a.value, b.value))


def snapshot(v, memo=None):
    """Deep, identity-aware snapshot of an object graph."""
    if isinstance(v, (list, tuple)):
        return (type(v).__name__, id(v), [snapshot(x) for x in v])
    if isinstance(v, dict):
        return (type(v).__name__, id(v), [(snapshot(k), snapshot(x)) for k, x in v.items()])
    if hasattr(v, '_verif_kwargs'):
        return (type(v).__name__, id(v), [(k, snapshot(x)) for k, x in vars(v).items() if k != '_verif_kwargs'])
    if isinstance(v, float) and v != v:
        return ('nan',)
    return (type(v).__name__, repr(v))


def gen_cases(rnd, n_models, per_model, toggles=True, yattrs=False):
    for _ in range(n_models):
        specs = gen_model(rnd, toggles=toggles, yattrs=yattrs)
        try:
            model = classgen.Model(specs)
        except Exception:       # noqa
            continue
        names = model.registered_names()
        for _ in range(per_model):
            tyspec = ('class', rnd.choice(names)) if names and rnd.random() < 0.7 else disambiguate(loadcase.gen_type(rnd, names, 2))
            try:
                v = gen_value(rnd, model, tyspec)
            except Exception:       # noqa
                continue
            yield model, tyspec, v
        # directed: an attribute holding the string that spells its own non-string default (None -> 'None', 7 -> '7')
        for s in specs:
            if s['kind'] != 'obj' or not s.get('registered', True):
                continue
            for p in s['params']:
                if 'default' in p and not isinstance(p['default'], str) and admits_str(p['type']) and \
                        not isinstance(p['default'], (list, dict)):
                    try:
                        v = gen_value(rnd, model, ('class', s['name']), depth=1)
                        if type(v).__name__ == s['name']:
                            setattr(v, p['name'], str(p['default']))
                            v._verif_kwargs[p['name']] = str(p['default'])
                            yield model, ('class', s['name']), v
                    except Exception:       # noqa
                        pass
