(* Generic lemmas turning one accepted certificate (equiv_check ... = true,
   evaluated by the kernel's VM) into a statement about `resolve` on every
   valid string. *)
From Coq Require Import NArith List Bool Lia String.
Import ListNotations.
From Y Require Import Prelude Re ReSound ReSem Resolve.
Open Scope N_scope.

Definition table_ok (t : table) : bool := nodup_keys (buckets t) && keys_ok t.

Definition FUEL : nat := Nat.mul 300 300.

(* "exactly": the strings resolving to tag are exactly those matching spec *)
Definition exact_query (t : table) (tag : ustring) (spec : re) : re * re :=
  (mkAnd valid_re (resolves_to t tag), mkAnd valid_re (mkCat spec (chr EOS))).
Definition exact_check t tag spec : bool :=
  table_ok t && equiv_check FUEL (fst (exact_query t tag spec)) (snd (exact_query t tag spec)).

Theorem exact_check_sound t tag spec : exact_check t tag spec = true ->
  forall s, valid s = true -> (resolve t s = tag <-> matches spec s = true).
Proof.
  unfold exact_check, table_ok, exact_query. cbn [fst snd].
  intros H s Hv. apply andb_true_iff in H. destruct H as [Ht Hc].
  apply andb_true_iff in Ht. destruct Ht as [Hnd Hko].
  pose proof (equiv_check_sound _ _ _ Hc (s ++ [EOS])) as E.
  rewrite !matches_mkAnd, (valid_re_spec s Hv), matches_cat_eos in E. simpl in E.
  rewrite (resolves_to_spec t tag s Hnd Hko Hv) in E.
  rewrite <- E. apply iff_sym, ueqb_eq.
Qed.

(* "only": everything resolving to tag matches spec *)
Definition incl_query (t : table) (tag : ustring) (spec : re) : re :=
  mkAnd valid_re (mkAnd (resolves_to t tag) (mkNot (mkCat spec (chr EOS)))).
Definition incl_check t tag spec : bool :=
  table_ok t && equiv_check FUEL (incl_query t tag spec) Emp.

Theorem incl_check_sound t tag spec : incl_check t tag spec = true ->
  forall s, valid s = true -> resolve t s = tag -> matches spec s = true.
Proof.
  unfold incl_check, table_ok, incl_query.
  intros H s Hv Hr. apply andb_true_iff in H. destruct H as [Ht Hc].
  apply andb_true_iff in Ht. destruct Ht as [Hnd Hko].
  pose proof (equiv_check_sound _ _ _ Hc (s ++ [EOS])) as E.
  rewrite !matches_mkAnd, matches_mkNot, (valid_re_spec s Hv), matches_cat_eos, matches_Emp in E.
  rewrite (resolves_to_spec t tag s Hnd Hko Hv) in E.
  apply ueqb_eq in Hr. rewrite Hr in E. simpl in E.
  destruct (matches spec s); [reflexivity | discriminate].
Qed.

(* cross-table: whatever resolves to tag in t1 resolves in t2 to one of tags *)
Definition cross_query (t1 t2 : table) (tag : ustring) (tags : list ustring) : re :=
  mkAnd valid_re (mkAnd (resolves_to t1 tag)
                        (mkNot (big_alt (map (resolves_to t2) tags)))).
Definition cross_check t1 t2 tag tags : bool :=
  table_ok t1 && table_ok t2 && equiv_check FUEL (cross_query t1 t2 tag tags) Emp.

Theorem cross_check_sound t1 t2 tag tags : cross_check t1 t2 tag tags = true ->
  forall s, valid s = true -> resolve t1 s = tag -> In (resolve t2 s) tags.
Proof.
  unfold cross_check, table_ok, cross_query.
  intros H s Hv Hr. apply andb_true_iff in H. destruct H as [Ht Hc].
  apply andb_true_iff in Ht. destruct Ht as [Ht1 Ht2].
  apply andb_true_iff in Ht1. destruct Ht1 as [Hnd1 Hko1].
  apply andb_true_iff in Ht2. destruct Ht2 as [Hnd2 Hko2].
  pose proof (equiv_check_sound _ _ _ Hc (s ++ [EOS])) as E.
  rewrite !matches_mkAnd, matches_mkNot, (valid_re_spec s Hv), matches_Emp, matches_big_alt in E.
  rewrite (resolves_to_spec t1 tag s Hnd1 Hko1 Hv) in E.
  apply ueqb_eq in Hr. rewrite Hr in E. simpl in E.
  apply negb_false_iff in E. rewrite existsb_exists in E. destruct E as [r [Hin Hm]].
  apply in_map_iff in Hin. destruct Hin as [tg [<- Hin]].
  rewrite (resolves_to_spec t2 tg s Hnd2 Hko2 Hv) in Hm. apply ueqb_eq in Hm.
  rewrite Hm. exact Hin.
Qed.

(* meaning of literal alternatives, for specs that are finite word lists *)
Lemma lang_lit w s : lang (lit w) s <-> s = w.
Proof.
  revert s. induction w as [|c w IH]; intros s; cbn [lit].
  - simpl. tauto.
  - rewrite lang_mkCat. simpl. split.
    + intros (s1 & s2 & -> & (c' & -> & Hc) & H2). apply IH in H2. subst.
      simpl in Hc. rewrite orb_false_r in Hc. apply andb_true_iff in Hc. destruct Hc as [A B].
      apply N.leb_le in A. apply N.leb_le in B. assert (c' = c) by lia. subst. reflexivity.
    + intros ->. exists [c], w. split; [reflexivity|]. split.
      * exists c. split; [reflexivity|]. simpl. rewrite N.leb_refl. reflexivity.
      * apply IH. reflexivity.
Qed.

Lemma lang_big_alt l s : lang (big_alt l) s <-> exists r, In r l /\ lang r s.
Proof.
  induction l as [|r l IH]; cbn [big_alt fold_right].
  - simpl. split; [tauto | intros (r & [] & _)].
  - fold (big_alt l). rewrite lang_mkAlt, IH. split.
    + intros [H | (r' & Hin & H)]; [exists r; simpl; auto | exists r'; simpl; auto].
    + intros (r' & [<- | Hin] & H); [left; exact H | right; exists r'; auto].
Qed.

Definition words (ws : list ustring) : re := big_alt (map lit ws).
Lemma matches_words ws s : matches (words ws) s = true <-> In s ws.
Proof.
  rewrite matches_spec. unfold words. rewrite lang_big_alt. split.
  - intros (r & Hin & H). apply in_map_iff in Hin. destruct Hin as (w & <- & Hw).
    apply lang_lit in H. subst. exact Hw.
  - intros H. exists (lit s). split; [apply in_map; exact H | apply lang_lit; reflexivity].
Qed.
