(* "image" certificates: every string of a regular language (what a representer writes
   for some type) resolves, in a given table, to a given tag -- one accepted certificate
   covers the strings of every length.  Also: decimal text of integers is inside the
   language of an optional minus sign, then 0 or a digit string without leading 0, for integers of every size. *)
From Coq Require Import NArith ZArith List Bool Lia String.
Import ListNotations.
From Y Require Import Prelude Re ReSound ReSem Resolve Decide Node NodeOps.
Open Scope N_scope.

Lemma valid_re_inv s : matches valid_re (s ++ [EOS]) = true -> valid s = true.
Proof.
  intros H. apply matches_spec in H. unfold valid_re in H. simpl in H.
  destruct H as (s1 & s2 & E & H1 & (c & -> & Hc)).
  simpl in Hc. rewrite orb_false_r in Hc. apply andb_true_iff in Hc. destruct Hc as [Hc1 Hc2].
  apply N.leb_le in Hc1. apply N.leb_le in Hc2. assert (c = EOS) by lia. subst c.
  apply app_inj_tail in E. destruct E as [-> _].
  unfold valid. induction H1 as [|a b Ha Hb IH]; [reflexivity|].
  destruct Ha as (c & -> & Hc). simpl. rewrite IH, andb_true_r.
  simpl in Hc. rewrite orb_false_r in Hc. apply andb_true_iff in Hc. tauto.
Qed.

(* every string of img is a valid string resolving to tag *)
Definition image_query (t : table) (tag : ustring) (img : re) : re :=
  mkAnd (mkCat img (chr EOS)) (mkNot (mkAnd valid_re (resolves_to t tag))).
Definition image_check t tag img : bool :=
  table_ok t && equiv_check FUEL (image_query t tag img) Emp.

Theorem image_check_sound t tag img : image_check t tag img = true ->
  forall s, matches img s = true -> valid s = true /\ resolve t s = tag.
Proof.
  unfold image_check, table_ok, image_query.
  intros H s Hm. apply andb_true_iff in H. destruct H as [Ht Hc].
  apply andb_true_iff in Ht. destruct Ht as [Hnd Hko].
  pose proof (equiv_check_sound _ _ _ Hc (s ++ [EOS])) as E.
  rewrite !matches_mkAnd, matches_mkNot, matches_mkAnd, matches_cat_eos, matches_Emp, Hm in E.
  simpl in E. apply negb_false_iff, andb_true_iff in E. destruct E as [Ev Er].
  apply valid_re_inv in Ev. split; [exact Ev|].
  rewrite (resolves_to_spec t tag s Hnd Hko Ev) in Er. apply ueqb_eq. exact Er.
Qed.

(* ---- str(int) ---- *)
Definition digit := rng 48 57.
Definition int_image : re := mkCat (opt (chr 45)) (mkAlt (chr 48) (mkCat (rng 49 57) (mkStar digit))).

Lemma lang_digit c : 48 <= c <= 57 -> lang digit [c].
Proof.
  intros H. exists c. split; [reflexivity|]. simpl.
  replace (48 <=? c) with true by (symmetry; apply N.leb_le; lia).
  replace (c <=? 57) with true by (symmetry; apply N.leb_le; lia). reflexivity.
Qed.
Lemma star_digits l : Forall (fun c => 48 <= c <= 57) l -> star (lang digit) l.
Proof.
  induction 1 as [|c l Hc _ IH]; [constructor|].
  change (c :: l) with ([c] ++ l). constructor; [apply lang_digit; exact Hc | exact IH].
Qed.

Lemma pos_lt_pow p : N.pos p < 2 ^ N.of_nat (Pos.size_nat p).
Proof.
  induction p as [p IH|p IH|]; cbn [Pos.size_nat]; rewrite ?Nnat.Nat2N.inj_succ, ?N.pow_succ_r'; try lia.
Qed.

Lemma dec_digits_shape : forall fuel n acc, 0 < n -> n < 2 ^ N.of_nat fuel ->
  exists d rest, dec_digits fuel n acc = d :: rest ++ acc /\ 49 <= d <= 57 /\ Forall (fun c => 48 <= c <= 57) rest.
Proof.
  induction fuel as [|f IH]; intros n acc Hpos Hlt.
  - simpl in Hlt. lia.
  - cbn [dec_digits]. destruct (N.ltb_spec n 10) as [Hs|Hs].
    + exists (48 + n mod 10), []. rewrite N.mod_small by lia. split; [reflexivity|]. split; [lia | constructor].
    + rewrite Nnat.Nat2N.inj_succ, N.pow_succ_r' in Hlt.
      assert (H10 : 0 < n / 10) by (apply N.div_str_pos; lia).
      assert (Hq : n / 10 < 2 ^ N.of_nat f).
      { apply N.div_lt_upper_bound; [lia|]. lia. }
      destruct (IH (n / 10) ((48 + n mod 10) :: acc) H10 Hq) as (d & rest & E & Hd & Hr).
      exists d, (rest ++ [48 + n mod 10]). rewrite E, <- app_assoc. split; [reflexivity|]. split; [exact Hd|].
      apply Forall_app. split; [exact Hr|]. constructor; [|constructor].
      assert (Hm : n mod 10 < 10) by (apply N.mod_upper_bound; discriminate).
      revert Hm. generalize (n mod 10). intros m Hm. lia.
Qed.

Theorem z_to_dec_image z : matches int_image (z_to_dec z) = true.
Proof.
  apply matches_spec. unfold int_image. rewrite lang_mkCat. cbn [lang].
  assert (P : forall p, lang (mkAlt (chr 48) (mkCat (rng 49 57) (mkStar digit)))
                             (dec_digits (S (N.size_nat (N.pos p))) (N.pos p) [])).
  { intros p. rewrite lang_mkAlt. right. rewrite lang_mkCat.
    destruct (dec_digits_shape (S (N.size_nat (N.pos p))) (N.pos p) []) as (d & rest & E & Hd & Hr).
    - lia.
    - cbn [N.size_nat]. rewrite Nnat.Nat2N.inj_succ, N.pow_succ_r'. pose proof (pos_lt_pow p). lia.
    - rewrite E, app_nil_r. exists [d], rest. split; [reflexivity|]. split.
      + exists d. split; [reflexivity|]. simpl.
        replace (49 <=? d) with true by (symmetry; apply N.leb_le; lia).
        replace (d <=? 57) with true by (symmetry; apply N.leb_le; lia). reflexivity.
      + apply lang_mkStar, star_digits, Hr. }
  destruct z as [|p|p]; cbn [z_to_dec].
  - exists [], [48]. split; [reflexivity|]. split.
    + unfold opt. rewrite lang_mkAlt. left. reflexivity.
    + rewrite lang_mkAlt. left. exists 48. split; reflexivity.
  - exists [], (dec_digits (S (N.size_nat (N.pos p))) (N.pos p) []). split; [reflexivity|]. split.
    + unfold opt. rewrite lang_mkAlt. left. reflexivity.
    + apply P.
  - exists [45], (dec_digits (S (N.size_nat (N.pos p))) (N.pos p) []). split; [reflexivity|]. split.
    + unfold opt. rewrite lang_mkAlt. right. exists 45. split; reflexivity.
    + apply P.
Qed.

(* ---- what PyYAML's representers write for floats, dates and datetimes (premises on the values; the tie evaluates
        them on every generated case) ---- *)
Definition sign := Cls [(43,43); (45,45)].
Definition float_finite_image : re :=
  mkCat int_image (mkCat (chr 46) (mkCat (plus digit) (opt (mkCat (chr 101) (mkCat sign (plus digit)))))).
Definition float_image : re :=
  mkAlt float_finite_image (mkAlt (lit (u ".inf")) (mkAlt (lit (u "-.inf")) (lit (u ".nan")))).
Definition d2 := mkCat digit digit.
Definition d4 := mkCat d2 d2.
Definition date_image : re := mkCat d4 (mkCat (chr 45) (mkCat d2 (mkCat (chr 45) d2))).
Definition time_image : re :=
  mkCat d2 (mkCat (chr 58) (mkCat d2 (mkCat (chr 58) (mkCat d2
    (mkCat (opt (mkCat (chr 46) (mkCat d2 (mkCat d2 d2))))
           (opt (mkCat sign (mkCat d2 (mkCat (chr 58) d2))))))))).
Definition datetime_image : re := mkCat date_image (mkCat (chr 32) time_image).
