(* The certificate obligations of C05 (what the dumper may leave unquoted is read back with the same tag by
   yatiml's loader), named, so that the same terms serve the theorems and the counterexample search. *)
From Coq Require Import NArith List Bool String.
Import ListNotations.
From Y Require Import Prelude Re Resolve Decide Images Tables.
Local Open Scope N_scope. Local Open Scope string_scope.

Definition c05_obligations : list (string * (re * re)) :=
  [ ("str_stays_str", (cross_query dumper_tbl loader_tbl tag_str [tag_str], Emp));
    ("int_image", (image_query loader_tbl tag_int int_image, Emp));
    ("float_image", (image_query loader_tbl tag_float float_image, Emp));
    ("date_image", (image_query loader_tbl tag_timestamp date_image, Emp));
    ("datetime_image", (image_query loader_tbl tag_timestamp datetime_image, Emp)) ].
