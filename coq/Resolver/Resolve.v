(* Model of yaml.resolver.Resolver.resolve for plain scalars (kind ScalarNode,
   implicit[0] = True): buckets keyed by the first character ('' for the empty
   string), then the wildcard (None) bucket; the first pattern that
   `regexp.match`es wins; the default is tag:yaml.org,2002:str.
   Python's `regexp.match(value)` (prefix match, `$` = optional "\n" then end)
   is `matches (r . any* ) (value ++ [EOS])` with `$` translated to
   ("\n")? EOS -- see harness/translate_tables.py.

   resolves_to builds, for a tag, ONE regular expression denoting exactly the
   inputs that resolve to it (first-match-wins is a Boolean combination), and
   resolves_to_spec proves that for every string. *)
From Coq Require Import NArith List Bool Lia String.
Import ListNotations.
From Y Require Import Prelude Re ReSound ReSem.
Open Scope N_scope.

Definition key := option N.               (* None: the '' bucket; Some c: first character c *)
Definition key_eqb (a b : key) : bool :=
  match a, b with None, None => true | Some x, Some y => N.eqb x y | _, _ => false end.
Lemma key_eqb_eq a b : key_eqb a b = true <-> a = b.
Proof.
  destruct a, b; simpl; try (split; congruence).
  rewrite N.eqb_eq. split; congruence.
Qed.

Definition entry := (ustring * re)%type.   (* (tag, pattern) *)
Record table := { buckets : list (key * list entry); wild : list entry }.

Definition key_of (s : ustring) : key := match s with [] => None | c :: _ => Some c end.
Fixpoint kassoc (k : key) (l : list (key * list entry)) : option (list entry) :=
  match l with
  | [] => None
  | (k', v) :: l' => if key_eqb k k' then Some v else kassoc k l'
  end.
Definition bucket (t : table) (k : key) : list entry :=
  match kassoc k (buckets t) with Some l => l | None => [] end ++ wild t.

Definition pm (r : re) : re := mkCat r (mkStar anyc).
Definition pymatch (r : re) (s : ustring) : bool := matches (pm r) (s ++ [EOS]).


Fixpoint first_hit (lst : list entry) (s : ustring) : option ustring :=
  match lst with
  | [] => None
  | (t, r) :: rest => if pymatch r s then Some t else first_hit rest s
  end.
Definition first_tag (lst : list entry) (s : ustring) : ustring :=
  match first_hit lst s with Some t => t | None => tag_str end.
Definition resolve (t : table) (s : ustring) : ustring := first_tag (bucket t (key_of s)) s.

(* ---- the regular expression of everything that resolves to a tag ---- *)
Fixpoint first_is (tag : ustring) (lst : list entry) : re :=
  match lst with
  | [] => Emp
  | (t, r) :: rest =>
      if ueqb t tag then mkAlt (pm r) (mkAnd (mkNot (pm r)) (first_is tag rest))
      else mkAnd (mkNot (pm r)) (first_is tag rest)
  end.
Fixpoint none_of (lst : list entry) : re :=
  match lst with
  | [] => top
  | (_, r) :: rest => mkAnd (mkNot (pm r)) (none_of rest)
  end.
Definition tag_re (tag : ustring) (lst : list entry) : re :=
  if ueqb tag_str tag then mkAlt (first_is tag lst) (none_of lst) else first_is tag lst.

Definition start_re (k : key) : re :=
  match k with None => chr EOS | Some c => Cat (chr c) (Star anyc) end.
Definition big_alt (l : list re) : re := fold_right mkAlt Emp l.

Definition resolves_to (t : table) (tag : ustring) : re :=
  mkAlt (big_alt (map (fun kl => mkAnd (start_re (fst kl)) (tag_re tag (snd kl ++ wild t))) (buckets t)))
        (mkAnd (mkNot (big_alt (map (fun kl => start_re (fst kl)) (buckets t)))) (tag_re tag (wild t))).

Fixpoint nodup_keys (l : list (key * list entry)) : bool :=
  match l with
  | [] => true
  | (k, _) :: l' => negb (existsb (fun kl => key_eqb k (fst kl)) l') && nodup_keys l'
  end.

Definition valid (s : ustring) : bool := forallb (fun c => c <=? 1114111) s.
Definition valid_re : re := Cat (Star ucs) (chr EOS).

(* ---- proofs ---- *)
Lemma matches_big_alt l w : matches (big_alt l) w = existsb (fun r => matches r w) l.
Proof.
  induction l as [|r l IH]; cbn [big_alt fold_right existsb].
  - apply matches_Emp.
  - fold (big_alt l). rewrite matches_mkAlt, IH. reflexivity.
Qed.

Lemma first_is_spec tag lst s :
  matches (first_is tag lst) (s ++ [EOS]) =
  match first_hit lst s with Some t => ueqb t tag | None => false end.
Proof.
  induction lst as [|[t r] rest IH]; cbn [first_is first_hit].
  - apply matches_Emp.
  - unfold pymatch. destruct (ueqb t tag) eqn:E.
    + rewrite matches_mkAlt, matches_mkAnd, matches_mkNot, IH.
      destruct (matches (pm r) (s ++ [EOS])); simpl; [symmetry; exact E | reflexivity].
    + rewrite matches_mkAnd, matches_mkNot, IH.
      destruct (matches (pm r) (s ++ [EOS])); simpl; [symmetry; exact E | reflexivity].
Qed.

Lemma none_of_spec lst s :
  matches (none_of lst) (s ++ [EOS]) =
  match first_hit lst s with Some _ => false | None => true end.
Proof.
  induction lst as [|[t r] rest IH]; cbn [none_of first_hit].
  - apply matches_top.
  - unfold pymatch. rewrite matches_mkAnd, matches_mkNot, IH.
    destruct (matches (pm r) (s ++ [EOS])); reflexivity.
Qed.

Lemma tag_re_spec tag lst s :
  matches (tag_re tag lst) (s ++ [EOS]) = ueqb (first_tag lst s) tag.
Proof.
  unfold tag_re, first_tag. destruct (ueqb tag_str tag) eqn:E.
  - rewrite matches_mkAlt, first_is_spec, none_of_spec.
    destruct (first_hit lst s); [apply orb_false_r | symmetry; exact E].
  - rewrite first_is_spec. destruct (first_hit lst s); [reflexivity | symmetry; exact E].
Qed.

Lemma derivs_Emp t : derivs Emp t = Emp.
Proof. induction t as [|c t IH]; simpl; auto. Qed.

Lemma deriv_star_any c : (c <=? EOS) = true -> deriv c (Star anyc) = Star anyc.
Proof.
  intros H. unfold anyc. cbn [deriv in_ranges existsb]. rewrite H.
  replace (0 <=? c) with true by (symmetry; apply N.leb_le; lia). reflexivity.
Qed.

Lemma derivs_star_any t : forallb (fun c => c <=? EOS) t = true -> derivs (Star anyc) t = Star anyc.
Proof.
  induction t as [|c t IH]; [reflexivity|].
  intros H. cbn [forallb] in H. apply andb_true_iff in H. destruct H as [Hc Ht].
  unfold derivs. cbn [fold_left]. rewrite (deriv_star_any c Hc). apply IH; exact Ht.
Qed.

Lemma valid_syms s : valid s = true -> forallb (fun c => c <=? EOS) (s ++ [EOS]) = true.
Proof.
  unfold valid. intros H. rewrite forallb_app. apply andb_true_iff. split.
  - rewrite forallb_forall in *. intros c Hc. specialize (H c Hc).
    apply N.leb_le in H. apply N.leb_le. unfold EOS. lia.
  - simpl. reflexivity.
Qed.

Definition key_ok (k : key) : bool := match k with None => true | Some c => c <=? 1114111 end.

Lemma start_spec k s : valid s = true -> key_ok k = true ->
  matches (start_re k) (s ++ [EOS]) = key_eqb (key_of s) k.
Proof.
  intros Hv Hk. pose proof (valid_syms s Hv) as Hs.
  destruct k as [c|]; destruct s as [|x s]; simpl app in *; unfold matches;
    cbn [key_of key_eqb start_re].
  - (* Some c, empty string: w = [EOS] *)
    unfold derivs. cbn [fold_left deriv nullable chr in_ranges existsb].
    simpl in Hk. apply N.leb_le in Hk.
    destruct (N.leb_spec EOS c) as [H|H]; [unfold EOS in H; lia|].
    rewrite andb_false_r. reflexivity.
  - (* Some c, x :: s *)
    unfold derivs. cbn [fold_left]. fold (derivs (deriv x (Cat (chr c) (Star anyc))) (s ++ [EOS])).
    cbn [deriv nullable chr in_ranges existsb]. rewrite orb_false_r.
    simpl in Hs. apply andb_true_iff in Hs. destruct Hs as [_ Hs].
    destruct (N.eqb_spec x c) as [E|E].
    + subst. rewrite N.leb_refl. cbn [andb mkCat mkStar anyc]. fold anyc.
      rewrite (derivs_star_any _ Hs). reflexivity.
    + assert (F : (c <=? x) && (x <=? c) = false).
      { destruct (N.leb_spec c x), (N.leb_spec x c); try reflexivity. lia. }
      rewrite F. cbn [mkCat]. rewrite derivs_Emp. reflexivity.
  - (* None, empty string *)
    unfold derivs. cbn [fold_left deriv nullable chr in_ranges existsb].
    rewrite N.leb_refl. reflexivity.
  - (* None, x :: s *)
    unfold derivs. cbn [fold_left]. fold (derivs (deriv x (chr EOS)) (s ++ [EOS])).
    cbn [deriv chr in_ranges existsb]. rewrite orb_false_r.
    simpl in Hv. apply andb_true_iff in Hv. destruct Hv as [Hx _]. apply N.leb_le in Hx.
    assert (F : (EOS <=? x) && (x <=? EOS) = false).
    { destruct (N.leb_spec EOS x) as [H|H]; [unfold EOS in H; lia | reflexivity]. }
    rewrite F.
    destruct (s ++ [EOS]) as [|y w] eqn:Ew; [destruct s; discriminate|].
    rewrite derivs_Emp. reflexivity.
Qed.

Definition keys_ok (t : table) : bool := forallb (fun kl => key_ok (fst kl)) (buckets t).

Lemma exists_bucket (P : list entry -> bool) ks l :
  nodup_keys l = true ->
  existsb (fun kl => key_eqb ks (fst kl) && P (snd kl)) l =
  match kassoc ks l with Some v => P v | None => false end.
Proof.
  induction l as [|[k v] l IH]; simpl; [reflexivity|].
  intros H. apply andb_true_iff in H. destruct H as [Hn Hd].
  destruct (key_eqb ks k) eqn:E; simpl.
  - apply key_eqb_eq in E. subst.
    destruct (P v); simpl; [reflexivity|].
    apply negb_true_iff in Hn.
    assert (Z : existsb (fun kl => key_eqb k (fst kl) && P (snd kl)) l = false).
    { clear -Hn. induction l as [|[k' v'] l IH]; simpl in *; [reflexivity|].
      apply orb_false_iff in Hn. destruct Hn as [H1 H2]. rewrite H1. simpl. auto. }
    exact Z.
  - apply IH; exact Hd.
Qed.

Lemma exists_key ks l :
  existsb (fun kl : key * list entry => key_eqb ks (fst kl)) l =
  match kassoc ks l with Some _ => true | None => false end.
Proof.
  induction l as [|[k v] l IH]; simpl; [reflexivity|].
  destruct (key_eqb ks k); simpl; auto.
Qed.

Lemma existsb_map {A B} (f : A -> B) (p : B -> bool) l : existsb p (map f l) = existsb (fun x => p (f x)) l.
Proof. induction l as [|x l IH]; simpl; [reflexivity | rewrite IH; reflexivity]. Qed.
Lemma existsb_ext' {A} (p q : A -> bool) l : (forall x, In x l -> p x = q x) -> existsb p l = existsb q l.
Proof.
  induction l as [|x l IH]; simpl; intros H; [reflexivity|].
  rewrite (H x (or_introl eq_refl)), IH; [reflexivity|]. intros y Hy; apply H; right; exact Hy.
Qed.

Theorem resolves_to_spec t tag s :
  nodup_keys (buckets t) = true -> keys_ok t = true -> valid s = true ->
  matches (resolves_to t tag) (s ++ [EOS]) = ueqb (resolve t s) tag.
Proof.
  intros Hnd Hko Hv. unfold resolves_to, resolve, bucket.
  rewrite matches_mkAlt, matches_mkAnd, matches_mkNot, !matches_big_alt, !existsb_map.
  unfold keys_ok in Hko. rewrite forallb_forall in Hko.
  rewrite (existsb_ext' _ (fun kl => key_eqb (key_of s) (fst kl)
                             && ueqb (first_tag (snd kl ++ wild t) s) tag)).
  2:{ intros kl Hin. rewrite matches_mkAnd, tag_re_spec, start_spec; auto. }
  rewrite (existsb_ext' (fun kl => matches (start_re (fst kl)) (s ++ [EOS]))
                       (fun kl => key_eqb (key_of s) (fst kl))).
  2:{ intros kl Hin. rewrite start_spec; auto. }
  rewrite (exists_bucket (fun v => ueqb (first_tag (v ++ wild t) s) tag) _ _ Hnd).
  rewrite exists_key, tag_re_spec.
  destruct (kassoc (key_of s) (buckets t)); simpl.
  - apply orb_false_r.
  - reflexivity.
Qed.

Lemma valid_re_spec s : valid s = true -> matches valid_re (s ++ [EOS]) = true.
Proof.
  intros Hv. apply matches_spec. unfold valid_re. simpl.
  exists s, [EOS]. split; [reflexivity|]. split.
  - unfold valid in Hv. induction s as [|c s IH]; [constructor|].
    simpl in Hv. apply andb_true_iff in Hv. destruct Hv as [Hc Hs].
    change (c :: s) with ([c] ++ s). constructor; [|auto].
    exists c. split; [reflexivity|]. simpl. rewrite Hc.
    replace (0 <=? c) with true by (symmetry; apply N.leb_le; lia). reflexivity.
  - exists EOS. split; [reflexivity|]. reflexivity.
Qed.

(* r . EOS on s ++ [EOS] is r on s, when r cannot consume EOS -- stated through lang *)
Lemma lang_cat_eos r s : lang (Cat r (chr EOS)) (s ++ [EOS]) <-> lang r s.
Proof.
  simpl. split.
  - intros (s1 & s2 & E & H1 & (c & -> & Hc)).
    simpl in Hc. rewrite orb_false_r in Hc. apply andb_true_iff in Hc. destruct Hc as [Hc1 Hc2].
    apply N.leb_le in Hc1. apply N.leb_le in Hc2. assert (c = EOS) by lia. subst c.
    apply app_inj_tail in E. destruct E as [-> _]. exact H1.
  - intros H. exists s, [EOS]. repeat split; auto. exists EOS. split; reflexivity.
Qed.

Lemma matches_cat_eos r s : matches (mkCat r (chr EOS)) (s ++ [EOS]) = matches r s.
Proof.
  apply eq_true_iff_eq. rewrite !matches_spec, lang_mkCat. apply lang_cat_eos.
Qed.
