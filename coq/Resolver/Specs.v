(* Hand-written specification languages.  Each is meant to be readable in a
   minute; the theorems in Props/ relate the GENERATED resolver tables to
   these.  Those that describe CPython / PyYAML behaviour (domains of float(),
   bool_values, ...) are models, monitored by the harness on every run. *)
From Coq Require Import NArith List Bool String.
Import ListNotations.
From Y Require Import Prelude Re Resolve Decide.
Open Scope N_scope.


Definition word (s : string) : re := lit (u s).
Definition ci (s : string) : re :=          (* case-insensitive ASCII word *)
  fold_right (fun c acc =>
     let lo := if (65 <=? c) && (c <=? 90) then c + 32 else c in
     let up := if (97 <=? c) && (c <=? 122) then c - 32 else c in
     mkCat (Cls [(up, up); (lo, lo)]) acc) Eps (u s).

(* --- YAML 1.2 booleans: exactly six spellings --- *)
Definition six_bools : list ustring :=
  map u ["true"; "True"; "TRUE"; "false"; "False"; "FALSE"]%string.
Definition spec_bool : re := words six_bools.

(* --- YAML 1.2 core float, as the property words it:
       digits with a fraction point and/or an exponent, or .inf / .nan --- *)
Definition D := rng 48 57.
Definition sign := Cls [(43,43); (45,45)].
Definition expo := mkCat (Cls [(69,69); (101,101)]) (mkCat (opt sign) (plus D)).
Definition dot := chr 46.
Definition float_number : re :=
  mkAlt (mkCat (plus D) expo)                                   (* 12e3      *)
 (mkAlt (mkCat (plus D) (mkCat dot (opt expo)))                 (* 12.  12.e3 *)
        (mkCat (mkStar D) (mkCat dot (mkCat (plus D) (opt expo))))).  (* .5 1.5 1.5e3 *)
Definition float_special : re :=
  mkCat dot (mkAlt (words (map u ["inf"; "Inf"; "INF"]%string))
                   (words (map u ["nan"; "NaN"; "NAN"]%string))).
Definition yaml12_float : re := mkCat (opt sign) (mkAlt float_number float_special).

(* --- model of CPython/PyYAML: strings on which construct_yaml_float is defined
       (sound under-approximation: no '_' and no ':' forms) --- *)
Definition py_float_dom : re :=
  mkCat (opt sign)
   (mkAlt (mkCat dot (mkAlt (ci "inf") (ci "nan")))
   (mkAlt (mkCat (plus D) (mkCat (opt (mkCat dot (mkStar D))) (opt expo)))
          (mkCat dot (mkCat (plus D) (opt expo))))).
(* --- model of PyYAML: keys of SafeConstructor.bool_values under .lower() --- *)
Definition py_bool_dom : re :=
  big_alt (map ci ["yes"; "no"; "true"; "false"; "on"; "off"]%string).
