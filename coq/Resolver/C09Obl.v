(* The certificate obligations of C09, named, so that the same terms serve the
   theorems (Props/C09.v) and the counterexample search (harness). *)
From Coq Require Import NArith List Bool String.
Import ListNotations.
From Y Require Import Prelude Re Resolve Decide Specs Tables.
Local Open Scope N_scope. Local Open Scope string_scope.

Definition other_tags : list ustring :=
  [tag_int; tag_null; tag_timestamp; tag_merge; tag_value; tag_yaml; tag_str].
Definition pyyaml_tags : list ustring :=
  [tag_int; tag_null; tag_timestamp; tag_merge; tag_value; tag_yaml].

Definition c09_obligations : list (string * (re * re)) :=
  [ ("bool_exact", exact_query loader_tbl tag_bool spec_bool);
    ("float_exact", exact_query loader_tbl tag_float yaml12_float);
    ("float_agree", (incl_query loader_tbl tag_float py_float_dom, Emp));
    ("bool_agree", (incl_query loader_tbl tag_bool py_bool_dom, Emp)) ]
  ++ map (fun t => ("rest", (cross_query loader_tbl std_tbl t [t; tag_bool; tag_float], Emp))) other_tags
  ++ map (fun t => ("rest_conv", (cross_query std_tbl loader_tbl t [t], Emp))) pyyaml_tags.
