(* C01 core, second half: constructing a well-tagged node yields a value that
   conforms to the declared type -- whatever the hooks, recognisers and the
   constructor's own (redundant) type_matches pass do. *)
From Coq Require Import NArith ZArith List Bool String Lia.
Import ListNotations.
From Y Require Import Prelude Node Tables NodeOps Types Recognize Loader Spec ScalarProofs Conform.
Open Scope N_scope.
Local Arguments uprefix : simpl never.
Local Arguments ueqb : simpl never.
Local Arguments umem : simpl never.
Local Arguments class_of_tag : simpl never.

(* ---------------------------------------------------------------- keyword arguments from pairs *)
Lemma kwargs_dict_set a b v d :
  uassoc a (kwargs_of (dict_set (VStr b) v d)) = if ueqb a b then Some v else uassoc a (kwargs_of d).
Proof.
  unfold kwargs_of. induction d as [|[k0 v0] d IH]; cbn [dict_set flat_map fst snd app uassoc].
  - destruct (ueqb a b); reflexivity.
  - unfold key_eqb. cbn [key_norm].
    destruct k0 as [s| | | | | | | | | | | | |]; cbn [key_norm value_eqb];
      try (cbn [flat_map fst snd app]; exact IH);
      try (destruct b0; cbn [flat_map fst snd app]; exact IH).
    destruct (ueqb_spec b s) as [->|Nbs]; cbn [flat_map fst snd app uassoc].
    + destruct (ueqb a s); reflexivity.
    + rewrite IH. destruct (ueqb_spec a s) as [->|Nas].
      * destruct (ueqb_spec s b) as [E|_]; [exfalso; apply Nbs; symmetry; exact E | reflexivity].
      * reflexivity.
Qed.

Lemma kwargs_keys_dict_set b v d :
  map fst (kwargs_of (dict_set (VStr b) v d)) =
  if umem b (map fst (kwargs_of d)) then map fst (kwargs_of d) else map fst (kwargs_of d) ++ [b].
Proof.
  unfold kwargs_of, umem. induction d as [|[k0 v0] d IH]; cbn [dict_set flat_map fst snd app map existsb].
  - reflexivity.
  - unfold key_eqb. cbn [key_norm].
    destruct k0 as [s| | | | | | | | | | | | |]; cbn [key_norm value_eqb];
      try (cbn [flat_map fst snd app]; exact IH);
      try (destruct b0; cbn [flat_map fst snd app]; exact IH).
    cbn [flat_map fst snd app map existsb].
    destruct (ueqb_spec b s) as [->|Nbs]; cbn [flat_map fst snd app map existsb orb].
    + reflexivity.
    + rewrite IH. destruct (existsb (ueqb b) _); reflexivity.
Qed.
Lemma kwargs_nodup_dict_set b v d : NoDup (map fst (kwargs_of d)) -> NoDup (map fst (kwargs_of (dict_set (VStr b) v d))).
Proof.
  intros H. rewrite kwargs_keys_dict_set. destruct (umem b (map fst (kwargs_of d))) eqn:E; [exact H|].
  assert (Hn : ~ In b (map fst (kwargs_of d))) by (intros Hi; apply umem_In in Hi; congruence).
  revert H Hn. generalize (map fst (kwargs_of d)). induction l as [|x l IH]; intros H Hn; simpl.
  - constructor; [intros [] | constructor].
  - inversion H; subst. constructor.
    + intros Hi. apply in_app_or in Hi. destruct Hi as [Hi|[Hi|[]]]; [auto | subst; apply Hn; left; reflexivity].
    + apply IH; [assumption | intros Hi; apply Hn; right; exact Hi].
Qed.
Lemma nodup_assoc {A} (l : list (ustring * A)) a x : NoDup (map fst l) -> In (a, x) l -> uassoc a l = Some x.
Proof.
  induction l as [|[k y] l IH]; simpl; intros Hn Hin; [tauto|].
  inversion Hn as [|? ? Hk Hr]; subst. destruct Hin as [E|Hin].
  - injection E as -> ->. rewrite ueqb_refl. reflexivity.
  - destruct (ueqb_spec a k) as [->|]; [|auto]. exfalso. apply Hk. apply (in_map fst) in Hin. exact Hin.
Qed.

Lemma str_key_construct o reg f k : (match k with Scalar t _ _ => ueqb t tag_str | _ => false end) = true ->
  construct o reg (S f) k = Ok (VStr (key_text' k)).
Proof.
  destruct k as [t v m| |]; try discriminate. intros H. apply ueqb_eq in H. subst t.
  destruct core_tags as (Cs&_). cbn [construct ntag].
  rewrite (core_not_bang _ Cs), (core_not_path _ Cs), ueqb_refl. reflexivity.
Qed.

(* every keyword argument is the construction of some pair's value under that key *)
Definition keys_as_text (rec : node -> result value) : Prop :=
  forall k x, (match k with Scalar t _ _ => ueqb t tag_str | _ => false end) = true -> rec k = Ok x -> x = VStr (key_text' k).
Lemma keys_as_text_construct o reg f : keys_as_text (construct o reg f).
Proof.
  intros k x Hk E. destruct f as [|f]; [discriminate|]. rewrite (str_key_construct o reg f k Hk) in E.
  injection E as <-. reflexivity.
Qed.

Lemma construct_pairs_kw rec : keys_as_text rec -> forall ps acc d,
  str_keyed ps = true ->
  construct_pairs rec ps acc = Ok d ->
  forall a v, uassoc a (kwargs_of d) = Some v ->
    (exists vn, In vn (lookup_all a ps) /\ rec vn = Ok v) \/ uassoc a (kwargs_of acc) = Some v.
Proof.
  intros Hrec. induction ps as [|[k vn] r IH]; intros acc d Hk E a v Ha.
  - simpl in E. injection E as <-. right. exact Ha.
  - unfold str_keyed in Hk. cbn [forallb fst] in Hk. apply andb_true_iff in Hk. destruct Hk as [Hk1 Hk2].
    cbn [construct_pairs] in E. apply bind_ok in E. destruct E as (kv & Ek & E).
    rewrite (Hrec k kv Hk1 Ek) in E. cbn [hashable negb] in E.
    apply bind_ok in E. destruct E as (vv & Ev & E).
    assert (Kk : key_is (key_text' k) k = true).
    { destruct k; try discriminate. cbn [key_is key_text']. apply ueqb_refl. }
    destruct (IH _ _ Hk2 E a v Ha) as [(vn' & Hin & Hc)|Hacc].
    + left. exists vn'. split; [|exact Hc]. unfold lookup_all in *. cbn [filter fst].
      destruct (key_is a k); cbn [map snd]; [right; exact Hin | exact Hin].
    + rewrite kwargs_dict_set in Hacc. destruct (ueqb_spec a (key_text' k)) as [->|Na].
      * injection Hacc as <-. left. exists vn. split; [|exact Ev].
        unfold lookup_all. cbn [filter fst]. rewrite Kk. left. reflexivity.
      * right. exact Hacc.
Qed.

Lemma construct_pairs_nodup rec : keys_as_text rec -> forall ps acc d, str_keyed ps = true ->
  construct_pairs rec ps acc = Ok d ->
  NoDup (map fst (kwargs_of acc)) -> NoDup (map fst (kwargs_of d)).
Proof.
  intros Hrec. induction ps as [|[k vn] r IH]; intros acc d Hk E Hn.
  - simpl in E. injection E as <-. exact Hn.
  - unfold str_keyed in Hk. cbn [forallb fst] in Hk. apply andb_true_iff in Hk. destruct Hk as [Hk1 Hk2].
    cbn [construct_pairs] in E. apply bind_ok in E. destruct E as (kv & Ek & E).
    rewrite (Hrec k kv Hk1 Ek) in E. cbn [hashable negb] in E.
    apply bind_ok in E. destruct E as (vv & Ev & E).
    eapply IH; [exact Hk2 | exact E | apply kwargs_nodup_dict_set; exact Hn].
Qed.

Lemma lookup_strip_known known ps a : umem a known = true ->
  lookup_all a (strip_unknown known ps) = lookup_all a ps.
Proof.
  intros Ha. unfold lookup_all, strip_unknown. induction ps as [|[k v] r IH]; [reflexivity|].
  cbn [map filter fst snd].
  destruct (umem (key_text' k) known) eqn:Ek; cbn [fst snd].
  - destruct (key_is a k); cbn [map snd]; rewrite IH; reflexivity.
  - destruct (key_is a k) eqn:Ka.
    + exfalso. destruct k as [t kv m| |]; try discriminate. cbn [key_is] in Ka. apply ueqb_eq in Ka. subst kv.
      cbn [key_text'] in Ek. congruence.
    + exact IH.
Qed.
Lemma lookup_strip_unknown known ps a vn : umem a known = false ->
  In vn (lookup_all a (strip_unknown known ps)) -> stripped vn.
Proof.
  intros Ha. unfold lookup_all, strip_unknown. induction ps as [|[k v] r IH]; [intros []|].
  cbn [map filter fst snd].
  destruct (umem (key_text' k) known) eqn:Ek; cbn [fst snd].
  - destruct (key_is a k) eqn:Ka.
    + exfalso. destruct k as [t kv m| |]; try discriminate. cbn [key_is] in Ka. apply ueqb_eq in Ka. subst kv.
      cbn [key_text'] in Ek. congruence.
    + exact IH.
  - destruct (key_is a k); cbn [map snd]; [intros [<-|H]; [apply strip_tags_stripped | auto] | exact IH].
Qed.
Lemma str_keyed_strip known ps : str_keyed (strip_unknown known ps) = str_keyed ps.
Proof.
  unfold str_keyed, strip_unknown. induction ps as [|[k v] r IH]; [reflexivity|].
  cbn [map forallb fst]. rewrite IH. destruct (umem (key_text' k) known); reflexivity.
Qed.
Lemma str_keyed_no_merge ps : str_keyed ps = true ->
  Forall (fun kv => ntag (fst kv) <> tag_merge /\ ntag (fst kv) <> tag_value) ps.
Proof.
  unfold str_keyed. rewrite forallb_forall. intros H. apply Forall_forall. intros [k v] Hin.
  specialize (H _ Hin). cbn [fst] in *. destruct k as [t kv m| |]; try discriminate.
  apply ueqb_eq in H. subst t. cbn [ntag]. split; intros E; revert E; vm_compute; discriminate.
Qed.

(* ---------------------------------------------------------------- arguments passed to __init__ *)
Lemma main_args_assoc params kw a : NoDup (map p_name params) ->
  uassoc a (main_args params kw) = if umem a (map p_name params) then uassoc a kw else None.
Proof.
  unfold main_args. induction params as [|p r IH]; intros Hn; [reflexivity|].
  inversion Hn as [|? ? Hp Hr]; subst. cbn [flat_map map].
  unfold umem in *. cbn [existsb].
  destruct (ueqb_spec a (p_name p)) as [->|Na].
  - cbn [orb]. destruct (uassoc (p_name p) kw) as [v|] eqn:Ev.
    + cbn [app uassoc]. rewrite ueqb_refl. reflexivity.
    + cbn [app]. rewrite (IH Hr).
      destruct (existsb (ueqb (p_name p)) (map p_name r)) eqn:Ex; [|reflexivity].
      exfalso. apply Hp. apply existsb_exists in Ex. destruct Ex as (y & Hy & Ey). apply ueqb_eq in Ey. subst y. exact Hy.
  - cbn [orb]. destruct (uassoc (p_name p) kw) as [v|]; cbn [app uassoc].
    + destruct (ueqb_spec a (p_name p)); [contradiction | apply IH; exact Hr].
    + apply IH; exact Hr.
Qed.
Lemma main_args_in params kw a v : In (a, v) (main_args params kw) -> exists p, In p params /\ p_name p = a.
Proof.
  unfold main_args. intros H. apply in_flat_map in H. destruct H as (p & Hp & Hin).
  destruct (uassoc (p_name p) kw); [|destruct Hin]. destruct Hin as [E|[]]. injection E as <- _. eauto.
Qed.
Lemma uassoc_app_l {A} a (l1 l2 : list (ustring * A)) v : uassoc a l1 = Some v -> uassoc a (l1 ++ l2) = Some v.
Proof. induction l1 as [|[k x] l IH]; simpl; [discriminate|]. destruct (ueqb a k); auto. Qed.
Lemma uassoc_app_r {A} a (l1 l2 : list (ustring * A)) : uassoc a l1 = None -> uassoc a (l1 ++ l2) = uassoc a l2.
Proof. induction l1 as [|[k x] l IH]; simpl; [reflexivity|]. destruct (ueqb a k); [discriminate | auto]. Qed.
Lemma uassoc_in {A} a (l : list (ustring * A)) v : uassoc a l = Some v -> In (a, v) l.
Proof.
  induction l as [|[k x] l IH]; simpl; [discriminate|].
  destruct (ueqb_spec a k) as [->|]; [intros E; injection E as ->; left; reflexivity | intros E; right; auto].
Qed.

(* ---------------------------------------------------------------- the theorem *)
Section conform.
  Variable o : oracle.
  Variable reg : registry.
  Hypothesis Ho : oracle_wf o.
  Hypothesis Hreg : wf_registry reg.

  Lemma scalar_tag_cases T t : scalar_tag T = Some t ->
    (T = TStr /\ t = tag_str) \/ (T = TInt /\ t = tag_int) \/ (T = TFloat /\ t = tag_float) \/
    (T = TBool /\ t = tag_bool) \/ (T = TBoolFix /\ t = tag_bool) \/ (T = TNone /\ t = tag_null) \/
    (T = TDate /\ t = tag_timestamp).
  Proof.
    destruct tag_of_kind_table as (A&B&C&D&E&F&G&H).
    unfold scalar_tag. destruct T; cbn [kind_of_ty]; try discriminate; intros X.
    - rewrite A in X. injection X as <-. tauto.
    - rewrite B in X. injection X as <-. tauto.
    - rewrite C in X. injection X as <-. tauto.
    - rewrite D in X. injection X as <-. tauto.
    - rewrite E in X. injection X as <-. tauto.
    - rewrite G in X. injection X as <-. do 5 right. left. split; reflexivity.
    - rewrite H in X. injection X as <-. do 6 right. split; reflexivity.
  Qed.

  Lemma construct_scalar_core f t v m x : uprefix core_prefix_colon t = true ->
    ueqb t tag_str = false -> ueqb t tag_null = false ->
    construct o reg (S f) (Scalar t v m) = Ok x -> olookup o t v = Ok x.
  Proof.
    intros Hc H1 H2. cbn [construct ntag]. rewrite (core_not_bang _ Hc), (core_not_path _ Hc), H1, H2.
    destruct (olookup o t v) as [y|e]; [auto|]. destruct e; try discriminate. rewrite Hc. discriminate.
  Qed.

  (* the keyword arguments __init__ is called with conform, whether or not __init__ then accepts them *)
  Lemma init_args_conform k d c params extra ps f mapping args :
    find_cls reg d = Some k -> c_shape k = ShObj params extra -> rsub reg d c -> c_abstract k = false ->
    str_keyed ps = true ->
    (forall p, In p params ->
       (List.length (lookup_all (p_name p) ps) <= 1)%nat /\
       forall sub, lookup_all (p_name p) ps = [sub] -> well_tagged reg sub (p_ty p)) ->
    (forall n T x, well_tagged reg n T -> construct o reg f n = Ok x -> conforms reg x T) ->
    construct_map (S f) (construct o reg f) (strip_unknown (map p_name params) ps) = Ok mapping ->
    init_args reg params extra mapping = Some args ->
    conforms reg (VObj d args) (TClass c).
  Proof.
    intros Hf Hsh Hsub Habs Hk Hattrs IH Hm Hb.
    assert (Hwf : wf_cls k).
    { destruct Hreg as (_ & Hall & _). rewrite Forall_forall in Hall. apply Hall. eapply find_cls_in; eauto. }
    destruct Hwf as (Hnd & Hnx & Hns). unfold params_of in *. rewrite Hsh in *.
    set (known := map p_name params) in *.
    set (ps1 := strip_unknown known ps) in *.
    assert (Hk1 : str_keyed ps1 = true) by (unfold ps1; rewrite str_keyed_strip; exact Hk).
    unfold construct_map in Hm. rewrite (flatten_id _ _ (str_keyed_no_merge _ Hk1)) in Hm. cbn [bind] in Hm.
    pose proof (construct_pairs_kw _ (keys_as_text_construct o reg f) ps1 [] mapping Hk1 Hm) as Hkw.
    unfold init_args in Hb. fold known in Hb.
    set (kw := kwargs_of mapping) in *.
    destruct (negb (forallb _ params)) eqn:C1; [discriminate|].
    apply negb_false_iff in C1. rewrite forallb_forall in C1.
    destruct (negb extra && negb (forallb _ kw)) eqn:C2; [discriminate|].
    destruct (existsb _ kw) eqn:C3; [discriminate|]. injection Hb as <-.
    (* facts about kw *)
    assert (Hparam : forall p x, In p params -> uassoc (p_name p) kw = Some x -> conforms reg x (p_ty p)).
    { intros p x Hp Hx. destruct (Hkw _ _ Hx) as [(vn & Hin & Hc)|Hn]; [|discriminate].
      assert (Hkn : umem (p_name p) known = true) by (apply umem_In; apply in_map; exact Hp).
      unfold ps1 in Hin. rewrite (lookup_strip_known _ _ _ Hkn) in Hin.
      destruct (Hattrs p Hp) as [Hlen Hwt].
      destruct (lookup_all (p_name p) ps) as [|s0 [|s1 l]] eqn:El; [destruct Hin | | cbn in Hlen; lia].
      destruct Hin as [<-|[]]. eapply IH; [apply Hwt; reflexivity | exact Hc]. }
    assert (Hextra : forall a x, umem a known = false -> uassoc a kw = Some x -> plain x).
    { intros a x Ha Hx. destruct (Hkw _ _ Hx) as [(vn & Hin & Hc)|Hn]; [|discriminate].
      eapply stripped_plain; [exact Ho | | exact Hc]. eapply lookup_strip_unknown; eauto. }
    eapply cf_obj; eauto.
    - intros p x Hp Hx. apply Hparam; [exact Hp|].
      assert (Hkn : umem (p_name p) known = true) by (apply umem_In; apply in_map; exact Hp).
      destruct extra.
      + destruct (uassoc (p_name p) (main_args params kw)) as [y|] eqn:Em.
        * rewrite (uassoc_app_l _ _ _ _ Em) in Hx. injection Hx as <-.
          rewrite main_args_assoc in Em by exact Hnd. fold known in Em. rewrite Hkn in Em. exact Em.
        * rewrite (uassoc_app_r _ _ _ Em) in Hx. cbn [uassoc] in Hx.
          destruct (ueqb_spec (p_name p) extra_name) as [E|_]; [|discriminate].
          exfalso. apply Hnx. rewrite <- E. apply in_map. exact Hp.
      + rewrite main_args_assoc in Hx by exact Hnd. fold known in Hx. rewrite Hkn in Hx. exact Hx.
    - intros p Hp Hx. specialize (C1 p Hp).
      assert (Hkn : umem (p_name p) known = true) by (apply umem_In; apply in_map; exact Hp).
      assert (Hnone : uassoc (p_name p) kw = None).
      { destruct extra.
        - destruct (uassoc (p_name p) (main_args params kw)) as [y|] eqn:Em.
          + rewrite (uassoc_app_l _ _ _ _ Em) in Hx. discriminate.
          + rewrite main_args_assoc in Em by exact Hnd. fold known in Em. rewrite Hkn in Em. exact Em.
        - rewrite main_args_assoc in Hx by exact Hnd. fold known in Hx. rewrite Hkn in Hx. exact Hx. }
      rewrite Hnone in C1. apply negb_true_iff in C1. exact C1.
    - intros a x Hin. destruct extra.
      + apply in_app_or in Hin. destruct Hin as [Hin|[E|[]]].
        * left. eapply main_args_in; eauto.
        * injection E as <- <-. right. repeat split. eexists. split; [reflexivity|].
          unfold extra_args. apply Forall_forall. intros [kk vv] Hi. apply in_map_iff in Hi.
          destruct Hi as ([a' x'] & E' & Hi). injection E' as <- <-. apply filter_In in Hi. destruct Hi as [Hi Hn].
          cbn [fst snd] in *. split; [eauto|]. apply negb_true_iff in Hn.
          eapply Hextra; [exact Hn|]. apply nodup_assoc; [|exact Hi].
          eapply (construct_pairs_nodup _ (keys_as_text_construct o reg f) ps1 [] mapping Hk1 Hm). constructor.
      + left. eapply main_args_in; eauto.
  Qed.

  Lemma build_object_conforms k d c params extra ps f mapping v :
    find_cls reg d = Some k -> c_shape k = ShObj params extra -> rsub reg d c -> c_abstract k = false ->
    str_keyed ps = true ->
    (forall p, In p params ->
       (List.length (lookup_all (p_name p) ps) <= 1)%nat /\
       forall sub, lookup_all (p_name p) ps = [sub] -> well_tagged reg sub (p_ty p)) ->
    (forall n T x, well_tagged reg n T -> construct o reg f n = Ok x -> conforms reg x T) ->
    construct_map (S f) (construct o reg f) (strip_unknown (map p_name params) ps) = Ok mapping ->
    build_object reg k params extra mapping = Ok v ->
    conforms reg v (TClass c).
  Proof.
    intros Hf Hsh Hsub Habs Hk Hattrs IH Hm Hb. unfold build_object in Hb.
    destruct (init_args reg params extra mapping) as [args|] eqn:Ea; [|discriminate].
    destruct (c_init_ok k args); [|discriminate]. injection Hb as <-.
    rewrite (find_cls_name _ _ _ Hf). eapply init_args_conform; eauto.
  Qed.

  Theorem construct_conforms : forall fuel n T v,
    well_tagged reg n T -> construct o reg fuel n = Ok v -> conforms reg v T.
  Proof.
    induction fuel as [|f IHf]; [intros n T v _ E; discriminate|].
    intros n T. revert n. induction T using ty_ind2; intros n v Hw E;
      try (inversion Hw as [T0 t sv m Hst | | | | | | ]; subst;
           destruct (scalar_tag_cases _ _ Hst) as [[HT Ht]|[[HT Ht]|[[HT Ht]|[[HT Ht]|[[HT Ht]|[[HT Ht]|[HT Ht]]]]]]];
           try discriminate HT; subst t;
           destruct core_tags as (Cstr&Cint&Cfloat&Cbool&Cnull&Cts&_&_);
           destruct tags_distinct as (T1&T2&T3&T4&T5&T6&T7&T8&T9&T10)).
    - (* TStr *) cbn [construct ntag] in E. rewrite (core_not_bang _ Cstr), (core_not_path _ Cstr), ueqb_refl in E.
      injection E as <-. constructor.
    - (* TInt *) apply construct_scalar_core in E; [|exact Cint|exact T1|].
      + destruct (Ho _ _ _ E) as (_ & _ & Hi & _). destruct (Hi eq_refl) as [z ->]. constructor.
      + vm_compute. reflexivity.
    - (* TFloat *) apply construct_scalar_core in E; [|exact Cfloat|exact T2|].
      + destruct (Ho _ _ _ E) as (_ & _ & _ & Hfl & _). destruct (Hfl eq_refl) as [h ->]. constructor.
      + vm_compute. reflexivity.
    - (* TBool *) apply construct_scalar_core in E; [|exact Cbool|exact T4|].
      + destruct (Ho _ _ _ E) as (_ & Hb & _). destruct (Hb eq_refl) as [b ->]. constructor.
      + vm_compute. reflexivity.
    - (* TBoolFix *) apply construct_scalar_core in E; [|exact Cbool|exact T4|].
      + destruct (Ho _ _ _ E) as (_ & Hb & _). destruct (Hb eq_refl) as [b ->]. constructor.
      + vm_compute. reflexivity.
    - (* TNone *) cbn [construct ntag] in E. rewrite (core_not_bang _ Cnull), (core_not_path _ Cnull), T7, ueqb_refl in E.
      injection E as <-. constructor.
    - (* TDate *) apply construct_scalar_core in E; [|exact Cts| |]; [|vm_compute; reflexivity|vm_compute; reflexivity].
      destruct (Ho _ _ _ E) as (_ & _ & _ & _ & Hd). destruct (Hd eq_refl) as [[s0 ->]|[s0 ->]]; constructor.
    - (* TPath *) inversion Hw as [T0 t sv m Hst | sv m | | | | | ]; subst.
      + unfold scalar_tag in Hst. cbn [kind_of_ty] in Hst. discriminate.
      + cbn [construct ntag] in E.
        assert (Hp : class_of_tag reg tag_path = None).
        { change tag_path with (bang (u "Path")). rewrite class_of_tag_bang. destruct (find_cls reg (u "Path")) as [k|] eqn:F; [|reflexivity].
          exfalso. destruct Hreg as (_ & _ & Hnp). rewrite Forall_forall in Hnp.
          apply (Hnp k (find_cls_in _ _ _ F)). eapply find_cls_name; eauto. }
        rewrite Hp, ueqb_refl in E. injection E as <-. constructor.
    - (* TAny *) inversion Hw as [T0 t sv m Hst | | n0 Hs | | | | ]; subst.
      + unfold scalar_tag in Hst. cbn [kind_of_ty] in Hst. discriminate.
      + constructor. eapply stripped_plain; eauto.
    - (* TList *) inversion Hw as [T0 t0 sv m Hst | | | k0 t0 items m Hit | | | ]; subst.
      + unfold scalar_tag in Hst. cbn [kind_of_ty] in Hst. discriminate.
      + destruct core_tags as (_&_&_&_&_&_&Cs&_). cbn [construct ntag] in E.
        rewrite (core_not_bang _ Cs), (core_not_path _ Cs), ueqb_refl in E.
        apply bind_ok in E. destruct E as (l & E1 & E). injection E as <-. constructor.
        eapply construct_items_inv; [|exact Hit|exact E1]. intros x v' Hx Ex. eapply IHf; [exact Hx | exact Ex].
    - (* TDict *) inversion Hw as [T0 t0 sv m Hst | | | | k0 kt0 vt0 ps m Hps Hnm | | ]; subst.
      + unfold scalar_tag in Hst. cbn [kind_of_ty] in Hst. discriminate.
      + destruct core_tags as (_&_&_&_&_&_&_&Cm). cbn [construct ntag] in E.
        rewrite (core_not_bang _ Cm), (core_not_path _ Cm), ueqb_refl in E.
        apply bind_ok in E. destruct E as (d & E1 & E). injection E as <-. constructor.
        unfold construct_map in E1. rewrite (flatten_id _ _ Hnm) in E1. cbn [bind] in E1.
        eapply (construct_pairs_inv _ (fun x => well_tagged reg x T1) (fun x => well_tagged reg x T2)
                                      (fun x => conforms reg x T1) (fun x => conforms reg x T2));
          [| | exact Hps | constructor | exact E1]; intros x v' Hx Ex; (eapply IHf; [exact Hx | exact Ex]).
    - (* TUnion *) inversion Hw as [T0 t0 sv m Hst | | | | | ts0 t0 n0 Hin Hwt | ]; subst.
      + unfold scalar_tag in Hst. cbn [kind_of_ty] in Hst. discriminate.
      + rewrite Forall_forall in H. eapply cf_union; [exact Hin|]. eapply H; eauto.
    - (* TClass *) inversion Hw as [T0 t0 sv m Hst | | | | | | c0 d k n0 Hsub Hf Habs Htag Hattrs]; subst.
      + unfold scalar_tag in Hst. cbn [kind_of_ty] in Hst. discriminate.
      + cbn [construct] in E. rewrite Htag, class_of_tag_bang, Hf in E.
        pose proof (find_cls_name _ _ _ Hf) as Hname.
        destruct (c_shape k) as [params extra|members|] eqn:Hsh.
        * destruct n as [| |tg ps m]; try discriminate.
          destruct (negb (str_keyed ps)) eqn:Hk; [discriminate|]. apply negb_false_iff in Hk.
          apply bind_ok in E. destruct E as (mapping & Em & Eb).
          eapply build_object_conforms; eauto.
          -- intros p Hp. apply (Hattrs tg ps m p eq_refl). unfold params_of. rewrite Hsh. exact Hp.
        * destruct n as [t0 sv m| |]; try discriminate.
          destruct (umem sv members) eqn:Hm; [|discriminate]. injection E as <-. rewrite Hname.
          eapply cf_enum; eauto. apply umem_In. exact Hm.
        * destruct n as [t0 sv m| |]; try discriminate.
          destruct (c_str_ok k sv); [|discriminate]. injection E as <-. rewrite Hname.
          eapply cf_ustr; eauto.
  Qed.
End conform.
