(* C13: the keys of a mapping loaded as a class may come in any order.
   For registries without custom recognisers and savorize hooks: recognition of the mapping at a class type is literally the
   same function of the permuted mapping; processing yields the correspondingly permuted mapping; construction of a class
   without _yatiml_extra gives the identical object (keyword arguments are listed in signature order). *)
From Coq Require Import NArith ZArith List Bool String Lia Permutation.
Import ListNotations.
From Y Require Import Prelude Node Tables NodeOps Types Recognize Loader Conform Polymorph RegOrder PlainRoundTrip.
Open Scope N_scope.

Local Arguments ueqb : simpl never.
Local Arguments uprefix : simpl never.
Local Arguments class_of_tag : simpl never.
Local Arguments bang : simpl never.

Definition sel (a : ustring) (ps : list (node * node)) := filter (fun kv => key_is a (fst kv)) ps.
(* the two mappings answer every lookup by key name alike *)
Definition same_lookup (ps ps' : list (node * node)) : Prop := forall a, sel a ps = sel a ps'.

Lemma has_attr_sel a ps : has_attr_ps a ps = negb (is_nil (sel a ps)).
Proof.
  unfold has_attr_ps, sel. induction ps as [|[k v] r IH]; [reflexivity|]. cbn [existsb filter fst].
  destruct (key_is a k); [reflexivity|]. exact IH.
Qed.
Lemma same_has a ps ps' : same_lookup ps ps' -> has_attr_ps a ps = has_attr_ps a ps'.
Proof. intros H. rewrite !has_attr_sel, (H a). reflexivity. Qed.
Lemma same_get a ps ps' : same_lookup ps ps' -> get_attr_ps a ps = get_attr_ps a ps'.
Proof. intros H. unfold get_attr_ps, lookup_all. fold (sel a ps). fold (sel a ps'). rewrite (H a). reflexivity. Qed.
Lemma same_fkm a ps ps' d : same_lookup ps ps' -> first_key_mark a ps d = first_key_mark a ps' d.
Proof. intros H. unfold first_key_mark. fold (sel a ps). fold (sel a ps'). rewrite (H a). reflexivity. Qed.

(* distinct key texts + permutation => same lookups *)
Definition keys (ps : list (node * node)) : list ustring := map (fun kv => key_text' (fst kv)) ps.
Definition scalar_keys (ps : list (node * node)) : Prop := Forall (fun kv => match fst kv with Scalar _ _ _ => True | _ => False end) ps.

Lemma sel_notin a ps : ~ In a (keys ps) -> sel a ps = [].
Proof.
  unfold sel, keys. induction ps as [|[k v] r IH]; intros H; [reflexivity|]. cbn [filter fst map] in *.
  assert (H' : ~ In a (map (fun kv => key_text' (fst kv)) r)) by (intros Hin; apply H; right; exact Hin).
  destruct k as [t x m|t l m|t l m]; cbn [key_is key_text'] in *; try (apply IH; exact H').
  destruct (ueqb_spec x a) as [->|N]; [exfalso; apply H; left; reflexivity|]. apply IH. exact H'.
Qed.
Lemma sel_short a ps : scalar_keys ps -> NoDup (keys ps) -> (List.length (sel a ps) <= 1)%nat.
Proof.
  unfold scalar_keys. induction ps as [|[k v] r IH]; intros Hs Hn; [cbn; lia|].
  inversion Hs as [|? ? Hk Hr]; subst. cbn [keys map fst] in Hn. inversion Hn as [|? ? Hni Hnr]; subst.
  unfold sel. cbn [filter fst]. destruct k as [t x m|t l m|t l m]; try contradiction. cbn [key_is key_text'] in *.
  destruct (ueqb_spec x a) as [->|N].
  - fold (sel a r). rewrite (sel_notin a r Hni). cbn. lia.
  - apply IH; assumption.
Qed.
Lemma perm_same ps ps' : Permutation ps ps' -> scalar_keys ps -> NoDup (keys ps) -> same_lookup ps ps'.
Proof.
  intros HP Hs Hn a.
  assert (P : Permutation (sel a ps) (sel a ps')) by (apply Permutation_filter', HP).
  pose proof (sel_short a ps Hs Hn) as L.
  destruct (sel a ps) as [|x [|y l]] eqn:E.
  - apply Permutation_nil in P. rewrite P. reflexivity.
  - apply Permutation_length_1_inv in P. rewrite P. reflexivity.
  - cbn in L. lia.
Qed.

(* ---- recognition ---- *)
Lemma rec_params_same rec t t' ps ps' m c : same_lookup ps ps' -> forall params,
  rec_params rec (Map t ps m) ps params c = rec_params rec (Map t' ps' m) ps' params c.
Proof.
  intros H. induction params as [|p rest IH]; [reflexivity|]. cbn [rec_params nmark].
  rewrite !(same_has _ ps ps' H), !(same_get _ ps ps' H), !(same_fkm _ ps ps' _ H).
  cbn [nmark] in IH. rewrite IH. reflexivity.
Qed.

Definition no_recognisers (reg : registry) : Prop := forall k, In k reg -> c_recognize k = None.
Definition no_savorizers (reg : registry) : Prop := forall k, In k reg -> c_savorize k = None.

Lemma rec_subs_ext (r1 r2 : ustring -> result RecResult) : forall l acc causes,
  (forall d, In d l -> r1 (c_name d) = r2 (c_name d)) -> rec_subs r1 l acc causes = rec_subs r2 l acc causes.
Proof.
  induction l as [|d l IH]; intros acc causes H; [reflexivity|]. cbn [rec_subs].
  rewrite (H d (or_introl eq_refl)). destruct (r2 (c_name d)) as [res|e]; cbn [bind]; [|reflexivity].
  apply IH. intros d' Hd'. apply H. right. exact Hd'.
Qed.

Section rec.
  Variable o : oracle.
  Variable reg : registry.
  Hypothesis Hrec : no_recognisers reg.

  Lemma rec_class_same rec k t ps ps' m : In k reg -> same_lookup ps ps' ->
    rec_class o rec k (Map t ps m) = rec_class o rec k (Map t ps' m).
  Proof.
    intros Hin H. unfold rec_class. rewrite (Hrec k Hin). destruct (c_shape k); try reflexivity.
    apply rec_params_same, H.
  Qed.

  Lemma rec_classes_same t ps ps' m : same_lookup ps ps' -> forall f c top,
    rec_classes o reg f (Map t ps m) c top = rec_classes o reg f (Map t ps' m) c top.
  Proof.
    intros H. induction f as [|f IH]; intros c top; [reflexivity|].
    destruct (find_cls reg c) as [k|] eqn:Ek.
    - rewrite !(rec_classes_eq o reg f _ c top k Ek). unfold candidates.
      rewrite (rec_subs_ext (fun d => rec_classes o reg f (Map t ps m) d false) (fun d => rec_classes o reg f (Map t ps' m) d false)
                            (direct_subclasses reg c) [] []) by (intros d _; apply IH).
      rewrite (rec_class_same (recognize o reg f) k t ps ps' m (proj1 (find_cls_In _ _ _ Ek)) H).
      reflexivity.
    - cbn [rec_classes]. rewrite Ek. reflexivity.
  Qed.

  Lemma recognize_class_same t ps ps' m c f : same_lookup ps ps' ->
    recognize o reg f (Map t ps m) (TClass c) = recognize o reg f (Map t ps' m) (TClass c).
  Proof.
    intros H. destruct f as [|f]; [reflexivity|]. cbn [recognize]. destruct (registered reg c); [|reflexivity].
    apply rec_classes_same, H.
  Qed.
End rec.

(* ---- class positions recognise classes only ---- *)
Definition only_classes (l : list ty) : Prop := Forall (fun R => exists d, R = TClass d) l.
Lemma only_classes_union a b : only_classes a -> only_classes b -> only_classes (ty_union a b).
Proof.
  unfold only_classes. rewrite !Forall_forall. intros Ha Hb x Hx. apply ty_union_In in Hx. destruct Hx; auto.
Qed.
Lemma rec_subs_only recsub : (forall d r, recsub d = Ok r -> only_classes (fst r)) ->
  forall l acc causes r, only_classes acc -> rec_subs recsub l acc causes = Ok r -> only_classes (fst r).
Proof.
  intros H. induction l as [|d l IH]; intros acc causes r Ha E; cbn [rec_subs] in E.
  - injection E as <-. exact Ha.
  - destruct (recsub (c_name d)) as [res|e] eqn:Er; cbn [bind] in E; [|discriminate E].
    eapply IH; [|exact E]. apply only_classes_union; [exact Ha | eapply H, Er].
Qed.
Lemma rec_params_only rec n ps c : forall params r, rec_params rec n ps params c = Ok r -> only_classes (fst r).
Proof.
  induction params as [|p rest IH]; intros r E; cbn [rec_params] in E.
  - injection E as <-. constructor; [eauto|constructor].
  - assert (TRY : forall name (kont : result RecResult), (forall r', kont = Ok r' -> only_classes (fst r')) ->
               forall r', (if has_attr_ps name ps then
                             match get_attr_ps name ps with
                             | Err _ => Ok ([], RE [nmark n] [name] [])
                             | Ok sub => res <- rec sub (p_ty p) ;;
                                         if is_nil (fst res) then Ok ([], RE [first_key_mark name ps (nmark n)] [name] [snd res])
                                         else rec_params rec n ps rest c
                             end
                           else kont) = Ok r' -> only_classes (fst r')).
    { intros name kont Hk r' E'. destruct (has_attr_ps name ps); [|apply Hk, E'].
      destruct (get_attr_ps name ps) as [sub|e].
      - destruct (rec sub (p_ty p)) as [res|e]; cbn [bind] in E'; [|discriminate E'].
        destruct (is_nil (fst res)); [injection E' as <-; constructor | apply IH, E'].
      - injection E' as <-. constructor. }
    eapply TRY; [|exact E]. intros r1 E1. eapply TRY; [|exact E1]. intros r2 E2.
    destruct (p_required p); [injection E2 as <-; constructor | apply IH, E2].
Qed.
Lemma rec_class_only o rec k n r : rec_class o rec k n = Ok r -> only_classes (fst r).
Proof.
  unfold rec_class. intros E.
  destruct (c_recognize k) as [h|].
  - destruct (h _ n); injection E as <-; [constructor; [eauto|constructor] | constructor].
  - destruct (c_shape k); destruct n; try (injection E as <-; constructor);
      try (eapply rec_params_only; exact E);
      match type of E with context [if ?b then _ else _] => destruct b end; injection E as <-;
      first [constructor; [eauto|constructor] | constructor].
Qed.
Lemma rec_classes_only o reg : forall f n c top r, rec_classes o reg f n c top = Ok r -> only_classes (fst r).
Proof.
  induction f as [|f IH]; intros n c top r E; [discriminate E|].
  destruct (find_cls reg c) as [k|] eqn:Ek; [|cbn [rec_classes] in E; rewrite Ek in E; discriminate E].
  rewrite (rec_classes_eq o reg f n c top k Ek) in E. unfold candidates in E.
  destruct (rec_subs _ _ _ _) as [subs|e] eqn:Es; cbn [bind] in E; [|discriminate E].
  assert (Hs : only_classes (fst subs)).
  { eapply rec_subs_only; [| |exact Es]; [intros d r0 E0; eapply IH, E0 | constructor]. }
  match type of E with (bind ?X _) = _ => destruct X as [own|e] eqn:Eo end; cbn [bind] in E; [|discriminate E].
  assert (Ho : only_classes (fst own)).
  { destruct (is_nil (fst subs) && negb (c_abstract k)).
    - destruct (rec_class o (recognize o reg f) k n) as [r1|e] eqn:E1; cbn [bind] in Eo; [|discriminate Eo].
      injection Eo as <-. cbn [fst]. eapply rec_class_only, E1.
    - injection Eo as <-. exact Hs. }
  injection E as <-. unfold decide.
  destruct (fst own) as [|x [|y l]] eqn:Ef; cbn [fst].
  - constructor.
  - destruct (negb (uprefix core_prefix (ntag n))); [|exact Ho].
    destruct (class_of_tag reg (ntag n)); [|constructor]. destruct (ty_mem _ _); [exact Ho|constructor].
  - destruct (class_of_tag reg (ntag n)) as [kt|]; [|exact Ho]. destruct (ty_mem _ _); [|exact Ho].
    constructor; [eauto|constructor].
Qed.

(* ---- processing ---- *)
Definition upd (a : ustring) (v : node) (kv : node * node) : node * node := if key_is a (fst kv) then (fst kv, v) else kv.
Lemma upd_fst a v kv : fst (upd a v kv) = fst kv.
Proof. unfold upd. destruct (key_is a (fst kv)); reflexivity. Qed.
Lemma sel_map_upd b a v ps : sel b (map (upd a v) ps) = map (upd a v) (sel b ps).
Proof.
  unfold sel. induction ps as [|kv r IH]; [reflexivity|]. cbn [map filter]. rewrite upd_fst.
  destruct (key_is b (fst kv)); cbn [map]; rewrite IH; reflexivity.
Qed.
Lemma map_upd_none a v ps : sel a ps = [] -> map (upd a v) ps = ps.
Proof.
  unfold sel. induction ps as [|kv r IH]; intros H; [reflexivity|]. cbn [filter map] in *. unfold upd at 1.
  destruct (key_is a (fst kv)); [discriminate H|]. rewrite (IH H). reflexivity.
Qed.
Lemma set_attr_unique a v ps : List.length (sel a ps) = 1%nat -> set_attr_ps a v ps = map (upd a v) ps.
Proof.
  unfold set_attr_ps.
  assert (G : forall ps, List.length (sel a ps) = 1%nat -> replace_first a v ps = Some (map (upd a v) ps)).
  { clear ps. induction ps as [|[k v0] r IH]; intros H; [discriminate H|]. unfold sel in H. cbn [filter fst] in H.
    cbn [replace_first map]. unfold upd at 1. cbn [fst]. destruct (key_is a k).
    - cbn [List.length] in H. injection H as H. apply length_zero_iff_nil in H. fold (sel a r) in H.
      rewrite (map_upd_none a v r H). reflexivity.
    - fold (sel a r) in H. rewrite (IH H). reflexivity. }
  intros H. rewrite (G ps H). reflexivity.
Qed.
Lemma same_lookup_map a v ps ps' : same_lookup ps ps' -> same_lookup (map (upd a v) ps) (map (upd a v) ps').
Proof. intros H b. rewrite !sel_map_upd, (H b). reflexivity. Qed.
Lemma keys_map_upd a v ps : map fst (map (upd a v) ps) = map fst ps.
Proof. rewrite map_map. apply map_ext. intros kv. apply upd_fst. Qed.

Lemma process_attrs_perm (proc : node -> ty -> result node) t m : forall params ps ps' r,
  Permutation ps ps' -> same_lookup ps ps' ->
  process_attrs proc params (Map t ps m) = Ok r ->
  exists qs qs', r = Map t qs m /\ process_attrs proc params (Map t ps' m) = Ok (Map t qs' m) /\
                 Permutation qs qs' /\ same_lookup qs qs' /\ map fst qs = map fst ps /\ map fst qs' = map fst ps'.
Proof.
  induction params as [|p rest IH]; intros ps ps' r HP HS E; cbn [process_attrs] in *.
  - injection E as <-. exists ps, ps'. repeat split; auto.
  - cbn [has_attribute pairs_of bind] in *. rewrite <- (same_has _ ps ps' HS).
    destruct (has_attr_ps (p_name p) ps) eqn:Hh; [|apply IH; assumption].
    cbn [get_attribute pairs_of bind] in *. rewrite <- (same_get _ ps ps' HS).
    destruct (get_attr_ps (p_name p) ps) as [sub|e] eqn:G; [|destruct e; discriminate E]. cbn [bind] in *.
    destruct (proc sub (p_ty p)) as [sub'|e]; cbn [bind] in *; [|discriminate E].
    cbn [set_attribute node_of_arg bind] in *.
    assert (L : List.length (sel (p_name p) ps) = 1%nat).
    { unfold get_attr_ps, lookup_all in G. fold (sel (p_name p) ps) in G.
      destruct (sel (p_name p) ps) as [|x [|y l]]; try discriminate G. reflexivity. }
    assert (L' : List.length (sel (p_name p) ps') = 1%nat) by (rewrite <- (HS (p_name p)); exact L).
    rewrite (set_attr_unique _ _ ps L) in E. rewrite (set_attr_unique _ _ ps' L').
    destruct (IH _ _ r (Permutation_map _ HP) (same_lookup_map _ _ _ _ HS) E) as (qs & qs' & -> & E' & P & S & K & K').
    exists qs, qs'. rewrite keys_map_upd in K, K'. repeat split; auto.
Qed.

Lemma savorize_order_none reg : no_savorizers reg -> forall f c, savorize_order reg f c = [].
Proof.
  intros H. induction f as [|f IH]; intros c; [reflexivity|]. cbn [savorize_order].
  destruct (find_cls reg c) as [k|] eqn:Ek; [|reflexivity].
  rewrite (H k (proj1 (find_cls_In _ _ _ Ek))), app_nil_r.
  induction (registered_bases reg k) as [|b l IHl]; [reflexivity|]. cbn [flat_map]. rewrite IH, IHl. reflexivity.
Qed.

(* ---- construction ---- *)
Lemma forallb_perm {A} (f : A -> bool) l l' : Permutation l l' -> forallb f l = forallb f l'.
Proof.
  intros P. induction P as [|x l l' P IH|x y l|l l' l'' P1 IH1 P2 IH2]; cbn [forallb]; try congruence.
  destruct (f x), (f y); reflexivity.
Qed.
Lemma existsb_perm {A} (f : A -> bool) l l' : Permutation l l' -> existsb f l = existsb f l'.
Proof.
  intros P. induction P as [|x l l' P IH|x y l|l l' l'' P1 IH1 P2 IH2]; cbn [existsb]; try congruence.
  destruct (f x), (f y); reflexivity.
Qed.
Lemma uassoc_In {A} a (l : list (ustring * A)) v : NoDup (map fst l) -> In (a, v) l -> uassoc a l = Some v.
Proof.
  induction l as [|[k x] r IH]; intros Hn Hin; [contradiction|]. cbn [uassoc map fst] in *.
  inversion Hn as [|? ? Hni Hnr]; subst. destruct Hin as [E|Hin].
  - injection E as -> ->. rewrite ueqb_refl. reflexivity.
  - destruct (ueqb_spec a k) as [->|N]; [|apply IH; assumption].
    exfalso. apply Hni. apply in_map_iff. exists (k, v). split; [reflexivity|exact Hin].
Qed.
Lemma uassoc_None {A} a (l : list (ustring * A)) : uassoc a l = None -> ~ In a (map fst l).
Proof.
  induction l as [|[k x] r IH]; intros H; [intros []|]. cbn [uassoc map fst] in *.
  destruct (ueqb_spec a k) as [->|N]; [discriminate H|]. intros [E|Hin]; [congruence | exact (IH H Hin)].
Qed.
Lemma uassoc_Some {A} a (l : list (ustring * A)) v : uassoc a l = Some v -> In (a, v) l.
Proof.
  induction l as [|[k x] r IH]; intros H; [discriminate H|]. cbn [uassoc] in H.
  destruct (ueqb_spec a k) as [->|N]; [injection H as ->; left; reflexivity | right; apply IH, H].
Qed.
Lemma uassoc_perm {A} a (l l' : list (ustring * A)) : Permutation l l' -> NoDup (map fst l) -> uassoc a l = uassoc a l'.
Proof.
  intros P Hn.
  assert (Hn' : NoDup (map fst l')) by (eapply Permutation_NoDup; [apply Permutation_map, P | exact Hn]).
  destruct (uassoc a l) as [v|] eqn:E.
  - symmetry. apply uassoc_In; [exact Hn'|]. eapply Permutation_in; [exact P|]. apply uassoc_Some, E.
  - destruct (uassoc a l') as [v'|] eqn:E'; [|reflexivity].
    exfalso. apply (uassoc_None a l E). apply in_map_iff. exists (a, v'). split; [reflexivity|].
    eapply Permutation_in; [apply Permutation_sym, P | apply uassoc_Some, E'].
Qed.

Section construct.
  Variable o : oracle.
  Variable reg : registry.

  (* the constructed mapping of a str-keyed pair list with distinct key texts: one entry per pair, in document order *)
  Definition entry (rec : node -> result value) (kv : node * node) : value * value :=
    (VStr (key_text' (fst kv)), match rec (snd kv) with Ok x => x | Err _ => VNone end).
  Definition good_key (rec : node -> result value) (k : node) : Prop := rec k = Ok (VStr (key_text' k)).

  Lemma fresh_false a (acc : list (value * value)) :
    ~ In (VStr a) (map fst acc) -> Forall (fun kv => exists b, fst kv = VStr b) acc -> existsb (key_eqb (VStr a)) (map fst acc) = false.
  Proof.
    induction acc as [|[k x] r IH]; intros Hni Hs; [reflexivity|]. cbn [map fst existsb] in *.
    inversion Hs as [|? ? (b & Hb) Hr]; subst. cbn [fst] in Hb. subst k. change (key_eqb (VStr a) (VStr b)) with (ueqb a b).
    destruct (ueqb_spec a b) as [->|N]; [exfalso; apply Hni; left; reflexivity|]. cbn [orb]. apply IH; [intros Hin; apply Hni; right; exact Hin | exact Hr].
  Qed.

  Lemma construct_pairs_spec (rec : node -> result value) : forall l acc r,
    Forall (fun kv => good_key rec (fst kv)) l -> NoDup (keys l) ->
    (forall a, In a (keys l) -> ~ In (VStr a) (map fst acc)) -> Forall (fun kv => exists b, fst kv = VStr b) acc ->
    construct_pairs rec l acc = Ok r ->
    (forall kv, In kv l -> exists x, rec (snd kv) = Ok x) /\ r = acc ++ map (entry rec) l.
  Proof.
    induction l as [|[k v] l IH]; intros acc r Hk Hn Hf Hs E; cbn [construct_pairs] in E.
    - injection E as <-. split; [intros kv []|]. rewrite app_nil_r. reflexivity.
    - inversion Hk as [|? ? Hk1 Hkr]; subst. cbn [fst] in Hk1. unfold good_key in Hk1. rewrite Hk1 in E. cbn [bind hashable negb] in E.
      destruct (rec v) as [x|e] eqn:Ev; cbn [bind] in E; [|discriminate E].
      cbn [keys map fst] in Hn, Hf. inversion Hn as [|? ? Hni Hnr]; subst.
      rewrite (dict_set_fresh _ _ acc) in E by (apply fresh_false; [apply Hf; left; reflexivity | exact Hs]).
      destruct (IH (acc ++ [(VStr (key_text' k), x)]) r Hkr Hnr) as [H1 H2].
      + intros a Ha. rewrite map_app, in_app_iff. cbn [map fst]. intros [Hin|[E0|[]]].
        * exact (Hf a (or_intror Ha) Hin).
        * injection E0 as E0. apply Hni. rewrite E0. exact Ha.
      + apply Forall_app. split; [exact Hs|]. constructor; [eexists; reflexivity|constructor].
      + exact E.
      + split.
        * intros kv [<-|Hin]; [exists x; exact Ev | apply H1, Hin].
        * rewrite H2, <- app_assoc. cbn [app map]. unfold entry at 2. cbn [fst snd]. rewrite Ev. reflexivity.
  Qed.
  Lemma construct_pairs_build (rec : node -> result value) : forall l acc,
    Forall (fun kv => good_key rec (fst kv)) l -> NoDup (keys l) ->
    (forall a, In a (keys l) -> ~ In (VStr a) (map fst acc)) -> Forall (fun kv => exists b, fst kv = VStr b) acc ->
    (forall kv, In kv l -> exists x, rec (snd kv) = Ok x) ->
    construct_pairs rec l acc = Ok (acc ++ map (entry rec) l).
  Proof.
    induction l as [|[k v] l IH]; intros acc Hk Hn Hf Hs Hv; cbn [construct_pairs].
    - rewrite app_nil_r. reflexivity.
    - inversion Hk as [|? ? Hk1 Hkr]; subst. cbn [fst] in Hk1. unfold good_key in Hk1. rewrite Hk1. cbn [bind hashable negb].
      destruct (Hv (k, v) (or_introl eq_refl)) as (x & Ev). cbn [snd] in Ev. rewrite Ev. cbn [bind].
      cbn [keys map fst] in Hn, Hf. inversion Hn as [|? ? Hni Hnr]; subst.
      rewrite (dict_set_fresh _ _ acc) by (apply fresh_false; [apply Hf; left; reflexivity | exact Hs]).
      rewrite (IH (acc ++ [(VStr (key_text' k), x)]) Hkr Hnr).
      + rewrite <- app_assoc. cbn [app map]. unfold entry at 2. cbn [fst snd]. rewrite Ev. reflexivity.
      + intros a Ha. rewrite map_app, in_app_iff. cbn [map fst]. intros [Hin|[E0|[]]].
        * exact (Hf a (or_intror Ha) Hin).
        * injection E0 as E0. apply Hni. rewrite E0. exact Ha.
      + apply Forall_app. split; [exact Hs|]. constructor; [eexists; reflexivity|constructor].
      + intros kv Hin. apply Hv. right. exact Hin.
  Qed.

  (* the checks before __init__ and its keyword arguments do not depend on the order of the constructed mapping *)
  Lemma kwargs_entries rec l : kwargs_of (map (entry rec) l) = map (fun kv => (key_text' (fst kv), snd (entry rec kv))) l.
  Proof. unfold kwargs_of. induction l as [|kv l IH]; [reflexivity|]. cbn [map flat_map entry fst snd app]. rewrite IH. reflexivity. Qed.

  Lemma init_args_perm params (kw kw' : list (value * value)) :
    Permutation (kwargs_of kw) (kwargs_of kw') -> NoDup (map fst (kwargs_of kw)) ->
    init_args reg params false kw = init_args reg params false kw'.
  Proof.
    intros P Hn. unfold init_args.
    assert (U : forall a, uassoc a (kwargs_of kw) = uassoc a (kwargs_of kw')) by (intros a; apply uassoc_perm; assumption).
    assert (F1 : forallb (fun p => match uassoc (p_name p) (kwargs_of kw) with
                                   | None => negb (p_required p) | Some v => type_matches reg v (p_ty p) end) params =
                 forallb (fun p => match uassoc (p_name p) (kwargs_of kw') with
                                   | None => negb (p_required p) | Some v => type_matches reg v (p_ty p) end) params).
    { induction params as [|p r IHp]; [reflexivity|]. cbn [forallb]. rewrite U, IHp. reflexivity. }
    rewrite F1. rewrite (forallb_perm _ _ _ P), (existsb_perm _ _ _ P).
    assert (M : main_args params (kwargs_of kw) = main_args params (kwargs_of kw')).
    { unfold main_args. apply flat_map_ext. intros p. rewrite U. reflexivity. }
    rewrite M. reflexivity.
  Qed.
End construct.

Section main.
  Variable o : oracle.
  Variable reg : registry.
  Hypothesis Hrec : no_recognisers reg.
  Hypothesis Hsav : no_savorizers reg.

  Lemma savorize_none f c n : savorize reg f c n = Ok n.
  Proof. unfold savorize. rewrite (savorize_order_none reg Hsav). reflexivity. Qed.

  Theorem process_key_order f t ps ps' m c n1 :
    Permutation ps ps' -> same_lookup ps ps' ->
    process o reg (S f) (Map t ps m) (TClass c) = Ok n1 ->
    exists d k qs qs', find_cls reg d = Some k /\ n1 = Map (bang d) qs m /\
      process o reg (S f) (Map t ps' m) (TClass c) = Ok (Map (bang d) qs' m) /\
      Permutation qs qs' /\ map fst qs = map fst ps /\ map fst qs' = map fst ps'.
  Proof.
    intros HP HS E. cbn [process] in *.
    rewrite <- (recognize_class_same o reg Hrec t ps ps' m c (S f) HS).
    destruct (recognize o reg (S f) (Map t ps m) (TClass c)) as [res|e] eqn:Er; cbn [bind] in *; [|discriminate E].
    assert (Hoc : only_classes (fst res)).
    { cbn [recognize] in Er. destruct (registered reg c); [|discriminate Er]. eapply rec_classes_only, Er. }
    destruct (fst res) as [|R [|R2 l]]; try discriminate E.
    inversion Hoc as [|? ? (d & ->) _]; subst.
    destruct (find_cls reg d) as [k|] eqn:Ek; [|discriminate E].
    assert (N0 : forall qs, match c_shape k, Map t qs m with
                            | ShEnum _, Scalar tg v m0 => if ueqb tg tag_bool then Scalar tag_str v m0 else Map t qs m
                            | _, _ => Map t qs m end = Map t qs m) by (intros qs; destruct (c_shape k); reflexivity).
    rewrite N0 in *. rewrite savorize_none in *. cbn [bind] in *.
    cbn [is_mapping] in *. rewrite andb_true_r in *.
    destruct (is_objectlike k).
    - destruct (process_attrs (process o reg f) (params_of k) (Map t ps m)) as [n2|e] eqn:Ea; cbn [bind] in E; [|discriminate E].
      destruct (process_attrs_perm (process o reg f) t m (params_of k) ps ps' n2 HP HS Ea) as (qs & qs' & -> & Ea' & P & _ & K & K').
      rewrite Ea'. cbn [bind set_tag] in *. injection E as <-. exists d, k, qs, qs'. repeat split; auto.
    - cbn [bind set_tag] in *. injection E as <-. exists d, k, ps, ps'. repeat split; auto.
  Qed.

  Lemma str_key_constructs g tg x mk : ueqb tg tag_str = true -> construct o reg (S g) (Scalar tg x mk) = Ok (VStr x).
  Proof.
    intros H. apply ueqb_eq in H. subst tg. cbn [construct ntag].
    change (class_of_tag reg tag_str) with (@None cls).
    change (ueqb tag_str tag_path) with false. cbn iota. rewrite ueqb_refl. reflexivity.
  Qed.

  Lemma construct_obj_unfold f d k params ex qs m : find_cls reg d = Some k -> c_shape k = ShObj params ex ->
    construct o reg (S f) (Map (bang d) qs m) =
    (if negb (str_keyed qs) then Err ERecognition
     else mapping <- construct_map (S f) (construct o reg f) (strip_unknown (map p_name params) qs) ;;
          build_object reg k params ex mapping).
  Proof. intros Ek Es. cbn [construct ntag]. rewrite class_of_tag_bang, Ek, Es. reflexivity. Qed.
  Lemma construct_nonobj f d k qs m : find_cls reg d = Some k -> (forall params ex, c_shape k <> ShObj params ex) ->
    construct o reg (S f) (Map (bang d) qs m) = Err ERecognition.
  Proof.
    intros Ek Es. cbn [construct ntag]. rewrite class_of_tag_bang, Ek. destruct (c_shape k) as [params ex| |]; try reflexivity.
    exfalso. exact (Es params ex eq_refl).
  Qed.

  Theorem construct_key_order g d k params qs qs' m v :
    find_cls reg d = Some k -> c_shape k = ShObj params false ->
    Permutation qs qs' -> NoDup (keys qs) ->
    construct o reg (S (S g)) (Map (bang d) qs m) = Ok v ->
    construct o reg (S (S g)) (Map (bang d) qs' m) = Ok v.
  Proof.
    intros Ek Es HP Hn E. remember (S g) as g1 eqn:Hg1.
    rewrite (construct_obj_unfold g1 d k params false qs m Ek Es) in E.
    rewrite (construct_obj_unfold g1 d k params false qs' m Ek Es).
    assert (SK : str_keyed qs' = str_keyed qs) by (unfold str_keyed; symmetry; apply forallb_perm, HP).
    rewrite SK. destruct (str_keyed qs) eqn:Hsk; cbn [negb] in *; [|discriminate E].
    set (known := map p_name params) in *.
    set (h := fun kv : node * node => if umem (key_text' (fst kv)) known then kv else (fst kv, strip_tags (snd kv))).
    change (strip_unknown known qs) with (map h qs) in E. change (strip_unknown known qs') with (map h qs').
    assert (Hfst : forall kv, fst (h kv) = fst kv) by (intros kv; unfold h; destruct (umem _ _); reflexivity).
    assert (Hkeys : forall l, keys (map h l) = keys l).
    { intros l. unfold keys. rewrite map_map. apply map_ext. intros kv. rewrite Hfst. reflexivity. }
    assert (Hstr : forall l, str_keyed l = true -> Forall (fun kv => match fst kv with Scalar tg _ _ => ueqb tg tag_str = true | _ => False end) (map h l)).
    { intros l Hl. unfold str_keyed in Hl. rewrite forallb_forall in Hl. apply Forall_forall. intros kv Hin.
      apply in_map_iff in Hin. destruct Hin as (kv0 & <- & Hin0). rewrite Hfst. specialize (Hl kv0 Hin0).
      destruct (fst kv0); [exact Hl | discriminate Hl | discriminate Hl]. }
    assert (Hsk' : str_keyed qs' = true) by exact SK.
    assert (PL : forall l, str_keyed l = true -> Forall (fun kv => ntag (fst kv) <> tag_merge /\ ntag (fst kv) <> tag_value) (map h l)).
    { intros l Hl. eapply Forall_impl; [|apply (Hstr l Hl)]. intros kv Hkv. cbv beta in Hkv. destruct (fst kv) as [tg x mk| |]; try contradiction.
      apply ueqb_eq in Hkv. subst tg. cbn [ntag]. split; intros H0; apply ueqb_eq in H0; vm_compute in H0; discriminate H0. }
    assert (GK : forall l, str_keyed l = true -> Forall (fun kv => good_key (construct o reg g1) (fst kv)) (map h l)).
    { intros l Hl. eapply Forall_impl; [|apply (Hstr l Hl)]. intros kv Hkv. cbv beta in Hkv. destruct (fst kv) as [tg x mk| |]; try contradiction.
      unfold good_key. cbn [key_text']. subst g1. apply str_key_constructs, Hkv. }
    unfold construct_map in *. rewrite (flatten_plain _ _ (PL qs Hsk)) in E. rewrite (flatten_plain _ _ (PL qs' Hsk')). cbn [bind] in *.
    destruct (construct_pairs (construct o reg g1) (map h qs) []) as [mp|e] eqn:Ec; cbn [bind] in E; [|discriminate E].
    destruct (construct_pairs_spec (construct o reg g1) (map h qs) [] mp (GK qs Hsk)) as [Hv Hmp].
    { rewrite Hkeys. exact Hn. } { intros a _ []. } { constructor. } { exact Ec. }
    assert (Hn' : NoDup (keys qs')).
    { eapply Permutation_NoDup; [|exact Hn]. unfold keys. apply Permutation_map, HP. }
    rewrite (construct_pairs_build (construct o reg g1) (map h qs') [] (GK qs' Hsk')).
    - cbn [bind app] in *. subst mp. cbn [app] in E. unfold build_object in *.
      rewrite <- (init_args_perm reg params (map (entry (construct o reg g1)) (map h qs)) (map (entry (construct o reg g1)) (map h qs'))).
      + exact E.
      + rewrite !kwargs_entries. apply Permutation_map, Permutation_map, HP.
      + rewrite kwargs_entries, map_map. cbn [fst]. fold (keys (map h qs)). rewrite Hkeys. exact Hn.
    - rewrite Hkeys. exact Hn'.
    - intros a _ [].
    - constructor.
    - intros kv Hin. apply Hv. eapply Permutation_in; [apply Permutation_sym, Permutation_map, HP | exact Hin].
  Qed.

  (* the whole load *)
  Lemma load_key_order_gen fu g0 t ps ps' m c v : fu = S (S g0) ->
    Permutation ps ps' -> scalar_keys ps -> NoDup (keys ps) ->
    (n' <- process o reg fu (Map t ps m) (TClass c) ;; construct o reg fu n') = Ok v ->
    (forall d k params ex args, v = VObj d args -> find_cls reg d = Some k -> c_shape k = ShObj params ex -> ex = false) ->
    (n' <- process o reg fu (Map t ps' m) (TClass c) ;; construct o reg fu n') = Ok v.
  Proof.
    intros -> HP Hs Hn E Hex.
    destruct (process o reg (S (S g0)) (Map t ps m) (TClass c)) as [n1|e] eqn:Ep; cbn [bind] in E; [|discriminate E].
    destruct (process_key_order _ t ps ps' m c n1 HP (perm_same ps ps' HP Hs Hn) Ep) as (d & k & qs & qs' & Ek & -> & Ep' & P & K & K').
    rewrite Ep'. cbn [bind].
    assert (Hnq : NoDup (keys qs)).
    { unfold keys in *. rewrite <- (map_map fst key_text'), K, (map_map fst key_text'). exact Hn. }
    destruct (c_shape k) as [params ex|ms|] eqn:Es.
    - assert (ex = false).
      { rewrite (construct_obj_unfold _ d k params ex qs m Ek Es) in E.
        destruct (negb (str_keyed qs)); [discriminate E|].
        destruct (construct_map _ _ _) as [mp|e]; cbn [bind] in E; [|discriminate E].
        unfold build_object in E. destruct (init_args reg params ex mp) as [args|]; [|discriminate E].
        destruct (c_init_ok k args); [|discriminate E]. injection E as <-.
        eapply (Hex (c_name k) k params ex args eq_refl); [|exact Es].
        rewrite (proj2 (find_cls_In _ _ _ Ek)). exact Ek. }
      subst ex. exact (construct_key_order g0 d k params qs qs' m v Ek Es P Hnq E).
    - rewrite (construct_nonobj _ d k qs m Ek) in E by (intros ? ?; rewrite Es; discriminate). discriminate E.
    - rewrite (construct_nonobj _ d k qs m Ek) in E by (intros ? ?; rewrite Es; discriminate). discriminate E.
  Qed.

  Theorem load_key_order t ps ps' m c v :
    Permutation ps ps' -> scalar_keys ps -> NoDup (keys ps) ->
    load o reg (Some (Map t ps m)) (TClass c) = Ok v ->
    (forall d k params ex args, v = VObj d args -> find_cls reg d = Some k -> c_shape k = ShObj params ex -> ex = false) ->
    load o reg (Some (Map t ps' m)) (TClass c) = Ok v.
  Proof. unfold load. exact (load_key_order_gen FUEL 198 t ps ps' m c v eq_refl). Qed.
End main.

(* ---- classes that take _yatiml_extra: the extra attributes arrive in document order, everything else is unchanged ---- *)
Section extras.
  Variable o : oracle.
  Variable reg : registry.
  Hypothesis Hrec : no_recognisers reg.
  Hypothesis Hsav : no_savorizers reg.

  (* two objects of the same class whose keyword arguments agree except for the order inside the _yatiml_extra mapping *)
  Definition same_upto_extras (v v' : value) : Prop :=
    exists d main ex ex', v = VObj d (main ++ [(extra_name, VDict ex)]) /\ v' = VObj d (main ++ [(extra_name, VDict ex')]) /\ Permutation ex ex'.

  Lemma init_args_perm_extra params (kw kw' : list (value * value)) args :
    Permutation (kwargs_of kw) (kwargs_of kw') -> NoDup (map fst (kwargs_of kw)) ->
    init_args reg params true kw = Some args ->
    exists main ex ex', args = main ++ [(extra_name, VDict ex)] /\
      init_args reg params true kw' = Some (main ++ [(extra_name, VDict ex')]) /\ Permutation ex ex'.
  Proof.
    intros P Hn.
    assert (U : forall a, uassoc a (kwargs_of kw) = uassoc a (kwargs_of kw')) by (intros a; apply uassoc_perm; assumption).
    assert (F1 : forallb (fun p => match uassoc (p_name p) (kwargs_of kw) with
                                   | None => negb (p_required p) | Some v => type_matches reg v (p_ty p) end) params =
                 forallb (fun p => match uassoc (p_name p) (kwargs_of kw') with
                                   | None => negb (p_required p) | Some v => type_matches reg v (p_ty p) end) params).
    { induction params as [|p r IHp]; [reflexivity|]. cbn [forallb]. rewrite U, IHp. reflexivity. }
    assert (M : main_args params (kwargs_of kw) = main_args params (kwargs_of kw')).
    { unfold main_args. apply flat_map_ext. intros p. rewrite U. reflexivity. }
    intros E. unfold init_args in *.
    rewrite <- F1, <- (existsb_perm _ _ _ P), <- M. cbn [negb andb] in *.
    match type of E with (if negb ?b then _ else _) = _ => destruct b end; cbn [negb] in *; [|discriminate E].
    match type of E with (if ?b then _ else _) = _ => destruct b end; [discriminate E|]. injection E as <-.
    eexists _, _, _. split; [reflexivity|]. split; [reflexivity|].
    unfold extra_args. apply Permutation_map, Permutation_filter', P.
  Qed.

  Theorem construct_key_order_extra g d k params qs qs' m v :
    find_cls reg d = Some k -> c_shape k = ShObj params true ->
    (forall main ex ex', Permutation ex ex' ->
       c_init_ok k (main ++ [(extra_name, VDict ex)]) = c_init_ok k (main ++ [(extra_name, VDict ex')])) ->
    Permutation qs qs' -> NoDup (keys qs) ->
    construct o reg (S (S g)) (Map (bang d) qs m) = Ok v ->
    exists v', construct o reg (S (S g)) (Map (bang d) qs' m) = Ok v' /\ same_upto_extras v v'.
  Proof.
    intros Ek Es Hinit HP Hn E. remember (S g) as g1 eqn:Hg1.
    rewrite (construct_obj_unfold o reg g1 d k params true qs m Ek Es) in E.
    rewrite (construct_obj_unfold o reg g1 d k params true qs' m Ek Es).
    assert (SK : str_keyed qs' = str_keyed qs) by (unfold str_keyed; symmetry; apply forallb_perm, HP).
    rewrite SK. destruct (str_keyed qs) eqn:Hsk; cbn [negb] in *; [|discriminate E].
    set (known := map p_name params) in *.
    set (h := fun kv : node * node => if umem (key_text' (fst kv)) known then kv else (fst kv, strip_tags (snd kv))).
    change (strip_unknown known qs) with (map h qs) in E. change (strip_unknown known qs') with (map h qs').
    assert (Hfst : forall kv, fst (h kv) = fst kv) by (intros kv; unfold h; destruct (umem _ _); reflexivity).
    assert (Hkeys : forall l, keys (map h l) = keys l).
    { intros l. unfold keys. rewrite map_map. apply map_ext. intros kv. rewrite Hfst. reflexivity. }
    assert (Hstr : forall l, str_keyed l = true -> Forall (fun kv => match fst kv with Scalar tg _ _ => ueqb tg tag_str = true | _ => False end) (map h l)).
    { intros l Hl. unfold str_keyed in Hl. rewrite forallb_forall in Hl. apply Forall_forall. intros kv Hin.
      apply in_map_iff in Hin. destruct Hin as (kv0 & <- & Hin0). rewrite Hfst. specialize (Hl kv0 Hin0).
      destruct (fst kv0); [exact Hl | discriminate Hl | discriminate Hl]. }
    assert (Hsk' : str_keyed qs' = true) by exact SK.
    assert (PL : forall l, str_keyed l = true -> Forall (fun kv => ntag (fst kv) <> tag_merge /\ ntag (fst kv) <> tag_value) (map h l)).
    { intros l Hl. eapply Forall_impl; [|apply (Hstr l Hl)]. intros kv Hkv. cbv beta in Hkv. destruct (fst kv) as [tg x mk| |]; try contradiction.
      apply ueqb_eq in Hkv. subst tg. cbn [ntag]. split; intros H0; apply ueqb_eq in H0; vm_compute in H0; discriminate H0. }
    assert (GK : forall l, str_keyed l = true -> Forall (fun kv => good_key (construct o reg g1) (fst kv)) (map h l)).
    { intros l Hl. eapply Forall_impl; [|apply (Hstr l Hl)]. intros kv Hkv. cbv beta in Hkv. destruct (fst kv) as [tg x mk| |]; try contradiction.
      unfold good_key. cbn [key_text']. subst g1. apply str_key_constructs, Hkv. }
    unfold construct_map in *. rewrite (flatten_plain _ _ (PL qs Hsk)) in E. rewrite (flatten_plain _ _ (PL qs' Hsk')). cbn [bind] in *.
    destruct (construct_pairs (construct o reg g1) (map h qs) []) as [mp|e] eqn:Ec; cbn [bind] in E; [|discriminate E].
    destruct (construct_pairs_spec (construct o reg g1) (map h qs) [] mp (GK qs Hsk)) as [Hv Hmp].
    { rewrite Hkeys. exact Hn. } { intros a _ []. } { constructor. } { exact Ec. }
    assert (Hn' : NoDup (keys qs')).
    { eapply Permutation_NoDup; [|exact Hn]. unfold keys. apply Permutation_map, HP. }
    rewrite (construct_pairs_build (construct o reg g1) (map h qs') [] (GK qs' Hsk')).
    - cbn [bind app] in *. subst mp. cbn [app] in E. unfold build_object in *.
      destruct (init_args reg params true (map (entry (construct o reg g1)) (map h qs))) as [args|] eqn:Ei; [|discriminate E].
      assert (PK : Permutation (kwargs_of (map (entry (construct o reg g1)) (map h qs))) (kwargs_of (map (entry (construct o reg g1)) (map h qs'))))
        by (rewrite !kwargs_entries; apply Permutation_map, Permutation_map, HP).
      assert (NK : NoDup (map fst (kwargs_of (map (entry (construct o reg g1)) (map h qs)))))
        by (rewrite kwargs_entries, map_map; cbn [fst]; fold (keys (map h qs)); rewrite Hkeys; exact Hn).
      destruct (init_args_perm_extra params _ _ args PK NK Ei) as (main & ex & ex' & -> & Ei' & Pex).
      + rewrite Ei'. rewrite <- (Hinit main ex ex' Pex).
        destruct (c_init_ok k (main ++ [(extra_name, VDict ex)])); [|discriminate E]. injection E as <-.
        eexists. split; [reflexivity|]. exists (c_name k), main, ex, ex'. repeat split; auto.
    - rewrite Hkeys. exact Hn'.
    - intros a _ [].
    - constructor.
    - intros kv Hin. apply Hv. eapply Permutation_in; [apply Permutation_sym, Permutation_map, HP | exact Hin].
  Qed.

  Lemma load_key_order_extra_gen fu g0 t ps ps' m c v : fu = S (S g0) ->
    Permutation ps ps' -> scalar_keys ps -> NoDup (keys ps) ->
    (n' <- process o reg fu (Map t ps m) (TClass c) ;; construct o reg fu n') = Ok v ->
    (forall k main ex ex', In k reg -> Permutation ex ex' ->
       c_init_ok k (main ++ [(extra_name, VDict ex)]) = c_init_ok k (main ++ [(extra_name, VDict ex')])) ->
    exists v', (n' <- process o reg fu (Map t ps' m) (TClass c) ;; construct o reg fu n') = Ok v' /\ (v' = v \/ same_upto_extras v v').
  Proof.
    intros -> HP Hs Hn E Hinit.
    destruct (process o reg (S (S g0)) (Map t ps m) (TClass c)) as [n1|e] eqn:Ep; cbn [bind] in E; [|discriminate E].
    destruct (process_key_order o reg Hrec Hsav _ t ps ps' m c n1 HP (perm_same ps ps' HP Hs Hn) Ep)
      as (d & k & qs & qs' & Ek & -> & Ep' & P & K & K').
    rewrite Ep'. cbn [bind].
    assert (Hnq : NoDup (keys qs)).
    { unfold keys in *. rewrite <- (map_map fst key_text'), K, (map_map fst key_text'). exact Hn. }
    destruct (c_shape k) as [params [|]|ms|] eqn:Es.
    - destruct (construct_key_order_extra g0 d k params qs qs' m v Ek Es) as (v' & E' & S'); auto.
      + intros main ex ex' Pe. apply Hinit; [exact (proj1 (find_cls_In _ _ _ Ek)) | exact Pe].
      + exists v'. split; [exact E' | right; exact S'].
    - exists v. split; [|left; reflexivity]. exact (construct_key_order o reg g0 d k params qs qs' m v Ek Es P Hnq E).
    - rewrite (construct_nonobj o reg _ d k qs m Ek) in E by (intros ? ?; rewrite Es; discriminate). discriminate E.
    - rewrite (construct_nonobj o reg _ d k qs m Ek) in E by (intros ? ?; rewrite Es; discriminate). discriminate E.
  Qed.

  Theorem load_key_order_extra t ps ps' m c v :
    Permutation ps ps' -> scalar_keys ps -> NoDup (keys ps) ->
    load o reg (Some (Map t ps m)) (TClass c) = Ok v ->
    (forall k main ex ex', In k reg -> Permutation ex ex' ->
       c_init_ok k (main ++ [(extra_name, VDict ex)]) = c_init_ok k (main ++ [(extra_name, VDict ex')])) ->
    exists v', load o reg (Some (Map t ps' m)) (TClass c) = Ok v' /\ (v' = v \/ same_upto_extras v v').
  Proof. unfold load. exact (load_key_order_extra_gen FUEL 198 t ps ps' m c v eq_refl). Qed.
End extras.
