(* C13, unrelated classes, construction: on documents none of whose tags names a class of ext, the whole load is the same. *)
From Coq Require Import NArith ZArith List Bool String Lia.
Import ListNotations.
From Y Require Import Prelude Node Tables NodeOps Types Recognize Loader Spec Conform Conform2 Polymorph RegOrder KeyOrder Unrelated.
Open Scope N_scope.

Local Arguments ueqb : simpl never.
Local Arguments uprefix : simpl never.
Local Arguments class_of_tag : simpl never.
Local Arguments bang : simpl never.

Section tags.
  Variable ext : registry.
  Definition tag_ok (t : ustring) : Prop := class_of_tag ext t = None.
  (* no tag anywhere in the tree names a class of ext *)
  Fixpoint tags_ok (n : node) : Prop :=
    tag_ok (ntag n) /\
    match n with
    | Scalar _ _ _ => True
    | Seq _ l _ => (fix all (l : list node) : Prop := match l with [] => True | x :: r => tags_ok x /\ all r end) l
    | Map _ l _ => (fix all (l : list (node * node)) : Prop :=
                      match l with [] => True | kv :: r => (tags_ok (fst kv) /\ tags_ok (snd kv)) /\ all r end) l
    end.
  Definition pair_ok (kv : node * node) : Prop := tags_ok (fst kv) /\ tags_ok (snd kv).
  Lemma tags_ok_seq t l m : tags_ok (Seq t l m) <-> tag_ok t /\ Forall tags_ok l.
  Proof.
    cbn [tags_ok ntag]. split; intros [H1 H2]; (split; [exact H1|]).
    - induction l as [|x r IH]; constructor; [exact (proj1 H2) | apply IH, (proj2 H2)].
    - induction H2 as [|x r Hx Hr IH]; [exact I | split; assumption].
  Qed.
  Lemma tags_ok_map t l m : tags_ok (Map t l m) <-> tag_ok t /\ Forall pair_ok l.
  Proof.
    cbn [tags_ok ntag]. split; intros [H1 H2]; (split; [exact H1|]).
    - induction l as [|x r IH]; constructor; [exact (proj1 H2) | apply IH, (proj2 H2)].
    - induction H2 as [|x r Hx Hr IH]; [exact I | split; assumption].
  Qed.
  Lemma tags_ok_head n : tags_ok n -> tag_ok (ntag n).
  Proof. destruct n; intros H; exact (proj1 H). Qed.
  Lemma core_ok t : uprefix core_prefix_colon t = true -> tag_ok t.
  Proof. intros H. apply core_not_bang, H. Qed.
  Lemma stripped_ok : forall n, stripped n -> tags_ok n.
  Proof.
    induction n as [t v m|t l m IH|t l m IH] using node_ind2; intros H.
    - split; [apply core_ok, H | exact I].
    - apply stripped_seq in H. destruct H as [-> H]. apply tags_ok_seq. split; [apply core_ok; reflexivity|].
      rewrite Forall_forall in *. intros x Hx. apply IH; [exact Hx | apply H, Hx].
    - apply stripped_map in H. destruct H as [-> H]. apply tags_ok_map. split; [apply core_ok; reflexivity|].
      rewrite Forall_forall in *. intros kv Hkv. destruct (IH kv Hkv) as [I1 I2]. destruct (H kv Hkv) as [S1 S2]. split; auto.
  Qed.
  Lemma set_tag_ok t n : tag_ok t -> tags_ok n -> tags_ok (set_tag t n).
  Proof. intros Ht H. destruct n; cbn [set_tag]; destruct H as [_ H]; split; assumption. Qed.
End tags.

Lemma process_items_ok (proc : node -> result node) (P : node -> Prop) : forall l l',
  (forall x x', In x l -> proc x = Ok x' -> P x') -> process_items proc l = Ok l' -> Forall P l'.
Proof.
  induction l as [|x r IH]; intros l' H E; cbn [process_items] in E.
  - injection E as <-. constructor.
  - apply bind_ok in E. destruct E as (x' & Ex & E). apply bind_ok in E. destruct E as (r' & Er & E).
    injection E as <-. constructor; [eapply H; [left; reflexivity | exact Ex] | apply IH; [|exact Er]].
    intros y y' Hy. apply H. right. exact Hy.
Qed.
Lemma process_pairs_ok (pk pv : node -> result node) (P : node -> Prop) : forall l l',
  (forall k v x', In (k, v) l -> (pk k = Ok x' -> P x') /\ (pv v = Ok x' -> P x')) ->
  process_pairs pk pv l = Ok l' -> Forall (fun kv => P (fst kv) /\ P (snd kv)) l'.
Proof.
  induction l as [|[k v] r IH]; intros l' H E; cbn [process_pairs] in E.
  - injection E as <-. constructor.
  - apply bind_ok in E. destruct E as (k' & Ek & E). apply bind_ok in E. destruct E as (v' & Ev & E).
    apply bind_ok in E. destruct E as (r' & Er & E). injection E as <-.
    constructor; [split; [exact (proj1 (H k v k' (or_introl eq_refl)) Ek) | exact (proj2 (H k v v' (or_introl eq_refl)) Ev)] |].
    apply IH; [|exact Er]. intros a b x' Hin. apply H. right. exact Hin.
Qed.

Section procok.
  Variable o : oracle.
  Variables reg ext : registry.
  Hypothesis U : unrelated reg ext.
  Hypothesis Hpath : find_cls ext (u "Path") = None.

  Lemma bang_ok c k : find_cls reg c = Some k -> tag_ok ext (bang c).
  Proof.
    intros Ek. unfold tag_ok. rewrite class_of_tag_bang. destruct (find_cls_In _ _ _ Ek) as [Hin <-].
    exact (u_fresh' reg ext U k Hin).
  Qed.

  Lemma replace_first_ok a v : forall ps ps', Forall (pair_ok ext) ps -> tags_ok ext v -> replace_first a v ps = Some ps' -> Forall (pair_ok ext) ps'.
  Proof.
    induction ps as [|[k v0] r IH]; intros ps' H Hv E; [discriminate E|]. cbn [replace_first] in E.
    inversion H as [|? ? [Hk H0] Hr]; subst. cbn [fst snd] in *.
    destruct (key_is a k).
    - injection E as <-. constructor; [split; assumption | exact Hr].
    - destruct (replace_first a v r) as [r'|] eqn:Er; [|discriminate E]. injection E as <-.
      constructor; [split; assumption | eapply IH; eauto].
  Qed.
  Lemma set_attr_ok a v ps : Forall (pair_ok ext) ps -> tags_ok ext v -> Forall (pair_ok ext) (set_attr_ps a v ps).
  Proof.
    intros H Hv. unfold set_attr_ps. destruct (replace_first a v ps) as [ps'|] eqn:E; [eapply replace_first_ok; eauto|].
    apply Forall_app. split; [exact H|]. constructor; [|constructor]. split; [|exact Hv].
    split; [apply core_ok; reflexivity | exact I].
  Qed.

  Lemma process_attrs_ok (proc : node -> ty -> result node) :
    (forall sub T sub', tags_ok ext sub -> proc sub T = Ok sub' -> tags_ok ext sub') ->
    forall params n n', tags_ok ext n -> process_attrs proc params n = Ok n' -> tags_ok ext n'.
  Proof.
    intros Hp. induction params as [|p rest IH]; intros n n' Hn E; cbn [process_attrs] in E.
    - injection E as <-. exact Hn.
    - apply bind_ok in E. destruct E as (has & Eh & E). destruct has; [|eapply IH; eauto].
      apply bind_ok in E. destruct E as (sub & Es & E). apply bind_ok in E. destruct E as (sub' & Ep & E).
      apply bind_ok in E. destruct E as (n1 & En & E).
      destruct n as [t [|c0 v] m|t [|x0 l] m|t ps m]; cbn [has_attribute pairs_of bind has_attr_ps existsb] in Eh; try discriminate Eh.
      cbn [get_attribute pairs_of bind] in Es.
      assert (Hsub : tags_ok ext sub).
      { destruct (get_attr_ps (p_name p) ps) as [s|e] eqn:G; [|destruct e; discriminate Es]. injection Es as Es'. subst s.
        unfold get_attr_ps in G. destruct (lookup_all (p_name p) ps) as [|x [|y l]] eqn:El; try discriminate G. injection G as G'. subst x.
        apply tags_ok_map in Hn. destruct Hn as [_ Hps]. rewrite Forall_forall in Hps.
        assert (Hin : In sub (lookup_all (p_name p) ps)) by (rewrite El; left; reflexivity).
        unfold lookup_all in Hin. apply in_map_iff in Hin. destruct Hin as ([k v] & <- & Hf). apply filter_In in Hf.
        exact (proj2 (Hps _ (proj1 Hf))). }
      cbn [set_attribute node_of_arg] in En. injection En as <-.
      eapply IH; [|exact E]. apply tags_ok_map in Hn. destruct Hn as [Ht Hps]. apply tags_ok_map. split; [exact Ht|].
      apply set_attr_ok; [exact Hps | eapply Hp; eauto].
  Qed.

  Lemma retag_ok R n n' : (forall k t, R <> TList k t) -> (forall k kt vt, R <> TDict k kt vt) -> (forall c, R <> TClass c) ->
    tags_ok ext n -> match type_to_tag R with Some tg => Ok (set_tag tg n) | None => Err (EPy PyRuntimeError) end = Ok n' -> tags_ok ext n'.
  Proof.
    intros H1 H2 H3 Hn E. destruct (type_to_tag R) as [tg|] eqn:Ht; [|discriminate E]. injection E as <-.
    apply set_tag_ok; [|exact Hn].
    destruct R; cbn [type_to_tag] in Ht;
      try (destruct (scalar_tag_cases _ _ Ht) as [[_ ->]|[[_ ->]|[[_ ->]|[[_ ->]|[[_ ->]|[[_ ->]|[_ ->]]]]]]]; apply core_ok; reflexivity);
      try discriminate Ht.
    - injection Ht as <-. unfold tag_ok, tag_path. rewrite class_of_tag_bang. exact Hpath.
    - exfalso. eapply H1. reflexivity.
    - exfalso. eapply H2. reflexivity.
    - exfalso. eapply H3. reflexivity.
  Qed.

  Theorem process_ok : forall f n T n', tags_ok ext n -> process o reg f n T = Ok n' -> tags_ok ext n'.
  Proof.
    induction f as [|f IH]; intros n T n' Hn E; [discriminate E|]. cbn [process] in E.
    apply bind_ok in E. destruct E as (res & Er & E).
    destruct (fst res) as [|R [|R2 l]]; try discriminate E.
    destruct R as [ | | | | | | | | |k t|k kt vt|ts|c|c].
    - exact (retag_ok TStr n n' ltac:(intros; discriminate) ltac:(intros; discriminate) ltac:(intros; discriminate) Hn E).
    - exact (retag_ok TInt n n' ltac:(intros; discriminate) ltac:(intros; discriminate) ltac:(intros; discriminate) Hn E).
    - exact (retag_ok TFloat n n' ltac:(intros; discriminate) ltac:(intros; discriminate) ltac:(intros; discriminate) Hn E).
    - exact (retag_ok TBool n n' ltac:(intros; discriminate) ltac:(intros; discriminate) ltac:(intros; discriminate) Hn E).
    - exact (retag_ok TBoolFix n n' ltac:(intros; discriminate) ltac:(intros; discriminate) ltac:(intros; discriminate) Hn E).
    - exact (retag_ok TNone n n' ltac:(intros; discriminate) ltac:(intros; discriminate) ltac:(intros; discriminate) Hn E).
    - exact (retag_ok TDate n n' ltac:(intros; discriminate) ltac:(intros; discriminate) ltac:(intros; discriminate) Hn E).
    - exact (retag_ok TPath n n' ltac:(intros; discriminate) ltac:(intros; discriminate) ltac:(intros; discriminate) Hn E).
    - (* TAny *) injection E as <-. apply stripped_ok, strip_tags_stripped.
    - (* TList *) destruct n as [tg v m|tg items m|tg ps m]; try discriminate E. destruct (ueqb tg tag_seq); [|discriminate E].
      apply bind_ok in E. destruct E as (items' & Ei & E). injection E as <-.
      apply tags_ok_seq in Hn. destruct Hn as [_ Hi]. rewrite Forall_forall in Hi.
      apply tags_ok_seq. split; [apply core_ok; reflexivity|].
      eapply process_items_ok; [|exact Ei]. intros x x' Hx Ex. eapply IH; [apply Hi, Hx | exact Ex].
    - (* TDict *) destruct n as [tg v m|tg items m|tg ps m]; try discriminate E. destruct (ueqb tg tag_map); [|discriminate E].
      apply bind_ok in E. destruct E as (ps' & Ep & E). injection E as <-.
      apply tags_ok_map in Hn. destruct Hn as [_ Hp]. rewrite Forall_forall in Hp.
      apply tags_ok_map. split; [apply core_ok; reflexivity|].
      eapply (process_pairs_ok _ _ (tags_ok ext)); [|exact Ep]. intros a b x' Hin.
      destruct (Hp _ Hin) as [Ha Hb]. cbn [fst snd] in *. split; intros Ex; [exact (IH a kt x' Ha Ex) | exact (IH b vt x' Hb Ex)].
    - exact (retag_ok (TUnion ts) n n' ltac:(intros; discriminate) ltac:(intros; discriminate) ltac:(intros; discriminate) Hn E).
    - (* TClass *) destruct (find_cls reg c) as [k|] eqn:Ek; [|discriminate E].
      apply bind_ok in E. destruct E as (n1 & E1 & E). apply bind_ok in E. destruct E as (n2 & E2 & E). injection E as <-.
      rewrite (savorize_none reg (u_nosav reg ext U)) in E1. injection E1 as <-.
      apply set_tag_ok; [eapply bang_ok, Ek|].
      set (n0 := match c_shape k, n with
                 | ShEnum _, Scalar tg v m => if ueqb tg tag_bool then Scalar tag_str v m else n
                 | _, _ => n end) in *.
      assert (H0 : tags_ok ext n0).
      { unfold n0. destruct (c_shape k); try exact Hn. destruct n; try exact Hn. destruct (ueqb _ _); [|exact Hn].
        split; [apply core_ok; reflexivity | exact I]. }
      destruct (is_objectlike k && is_mapping n0); [|injection E2 as <-; exact H0].
      eapply process_attrs_ok; [|exact H0|exact E2]. intros sub T0 sub' Hs Es. eapply IH; eauto.
    - exact (retag_ok (TUnknown c) n n' ltac:(intros; discriminate) ltac:(intros; discriminate) ltac:(intros; discriminate) Hn E).
  Qed.
End procok.

(* ---- values built from classes of reg only, at the positions the isinstance checks look at ---- *)
Section vals.
  Variable ext : registry.
  Fixpoint vreg (v : value) : Prop :=
    match v with
    | VObj d _ | VEnum d _ | VUStr d _ => find_cls ext d = None
    | VList l => (fix all (l : list value) : Prop := match l with [] => True | x :: r => vreg x /\ all r end) l
    | VDict l => (fix all (l : list (value * value)) : Prop :=
                    match l with [] => True | kv :: r => (vreg (fst kv) /\ vreg (snd kv)) /\ all r end) l
    | _ => True
    end.
  Definition vpair (kv : value * value) : Prop := vreg (fst kv) /\ vreg (snd kv).
  Lemma vreg_list l : vreg (VList l) <-> Forall vreg l.
  Proof.
    cbn [vreg]. split; intros H.
    - induction l as [|x r IH]; constructor; [exact (proj1 H) | apply IH, (proj2 H)].
    - induction H as [|x r Hx Hr IH]; [exact I | split; assumption].
  Qed.
  Lemma vreg_dict l : vreg (VDict l) <-> Forall vpair l.
  Proof.
    cbn [vreg]. split; intros H.
    - induction l as [|x r IH]; constructor; [exact (proj1 H) | apply IH, (proj2 H)].
    - induction H as [|x r Hx Hr IH]; [exact I | split; assumption].
  Qed.
  Lemma builtin_vreg x : builtin_scalar x -> vreg x.
  Proof. destruct x; intros H; try contradiction; exact I. Qed.
End vals.

Lemma forallb_ext_in {A} (f g : A -> bool) l : (forall x, In x l -> f x = g x) -> forallb f l = forallb g l.
Proof.
  induction l as [|x r IH]; intros H; [reflexivity|]. cbn [forallb]. rewrite (H x (or_introl eq_refl)), IH; [reflexivity|].
  intros y Hy. apply H. right. exact Hy.
Qed.
Lemma construct_items_ext (r1 r2 : node -> result value) : forall l, (forall x, In x l -> r1 x = r2 x) -> construct_items r1 l = construct_items r2 l.
Proof.
  induction l as [|x l IH]; intros H; [reflexivity|]. cbn [construct_items]. rewrite (H x (or_introl eq_refl)), IH; [reflexivity|].
  intros y Hy. apply H. right. exact Hy.
Qed.
Lemma construct_pairs_ext (r1 r2 : node -> result value) : forall l acc,
  (forall k v, In (k, v) l -> r1 k = r2 k /\ r1 v = r2 v) -> construct_pairs r1 l acc = construct_pairs r2 l acc.
Proof.
  induction l as [|[k v] l IH]; intros acc H; [reflexivity|]. cbn [construct_pairs]. destruct (H k v (or_introl eq_refl)) as [-> ->].
  destruct (r2 k) as [kv|e]; cbn [bind]; [|reflexivity]. destruct (negb (hashable kv)); [reflexivity|].
  destruct (r2 v) as [vv|e]; cbn [bind]; [|reflexivity]. apply IH. intros a b Hin. apply H. right. exact Hin.
Qed.

Section cons.
  Variable o : oracle.
  Variables reg ext : registry.
  Hypothesis U : unrelated reg ext.
  Hypothesis Ho : oracle_wf o.
  Let reg' := reg ++ ext.

  Lemma cot_same t : tag_ok ext t -> class_of_tag reg' t = class_of_tag reg t.
  Proof.
    unfold tag_ok, class_of_tag. destruct t as [|c0 c]; [reflexivity|]. destruct (N.eqb c0 33); [|reflexivity].
    intros H. apply (F1 reg ext c H).
  Qed.
  Lemma is_instance_same d c : find_cls ext d = None -> is_instance reg' d c = is_instance reg d c.
  Proof. intros H. unfold is_instance. unfold reg'. rewrite (F1 reg ext d H). reflexivity. Qed.

  Lemma tm_same : forall T v, vreg ext v -> type_matches reg' v T = type_matches reg v T.
  Proof.
    induction T as [ | | | | | | | | |k t IH|k kt IHk vt IHv|ts IH|c|c] using ty_ind2; intros v Hv; cbn [type_matches]; try reflexivity.
    - destruct v; try reflexivity. apply vreg_list in Hv. rewrite Forall_forall in Hv.
      apply forallb_ext_in. intros x Hx. apply IH, Hv, Hx.
    - destruct v; try reflexivity. apply vreg_dict in Hv. rewrite Forall_forall in Hv.
      apply forallb_ext_in. intros kv Hkv. destruct (Hv kv Hkv) as [H1 H2]. rewrite (IHv _ H2).
      destruct kt; try reflexivity. destruct (fst kv); try reflexivity. cbn [vreg] in H1. rewrite (is_instance_same _ _ H1). reflexivity.
    - induction IH as [|t r Ht Hr IHr]; [reflexivity|]. rewrite (Ht v Hv), IHr. reflexivity.
    - destruct v; try reflexivity; cbn [vreg] in Hv; apply is_instance_same, Hv.
  Qed.

  Lemma flatten_each_ok (rec : list (node * node) -> result (list (node * node))) :
    (forall l r, Forall (pair_ok ext) l -> rec l = Ok r -> Forall (pair_ok ext) r) ->
    forall xs rs, Forall (tags_ok ext) xs -> flatten_each rec xs = Ok rs -> Forall (Forall (pair_ok ext)) rs.
  Proof.
    intros H. induction xs as [|x xr IH]; intros rs Hx E; cbn [flatten_each] in E.
    - injection E as <-. constructor.
    - inversion Hx as [|? ? H1 Hr]; subst. destruct x as [| |t sub m]; try discriminate E.
      apply bind_ok in E. destruct E as (s & Es & E). apply bind_ok in E. destruct E as (r' & Er & E). injection E as <-.
      apply tags_ok_map in H1. constructor; [eapply H; [exact (proj2 H1)|exact Es] | apply IH; assumption].
  Qed.
  Lemma concat_ok (ls : list (list (node * node))) : Forall (Forall (pair_ok ext)) ls -> Forall (pair_ok ext) (List.concat ls).
  Proof. intros H. induction H as [|l r Hl Hr IH]; [constructor|]. cbn [List.concat]. apply Forall_app. split; assumption. Qed.
  Lemma flatten_go_ok (rec : list (node * node) -> result (list (node * node))) :
    (forall l r, Forall (pair_ok ext) l -> rec l = Ok r -> Forall (pair_ok ext) r) ->
    forall l merge rest r, Forall (pair_ok ext) l -> Forall (pair_ok ext) merge -> Forall (pair_ok ext) rest ->
    flatten_go rec l merge rest = Ok r -> Forall (pair_ok ext) r.
  Proof.
    intros H. induction l as [|[k v] l IH]; intros merge rest r Hl Hm Hr E; cbn [flatten_go] in E.
    - injection E as <-. apply Forall_app. split; assumption.
    - inversion Hl as [|? ? [Hk Hv] Hl']; subst. cbn [fst snd] in *.
      destruct (ueqb (ntag k) tag_merge).
      + destruct v as [|t subs m|t sub m]; try discriminate E.
        * apply bind_ok in E. destruct E as (subs' & Es & E). eapply IH; [exact Hl'| |exact Hr|exact E].
          apply Forall_app. split; [exact Hm|]. apply concat_ok. apply Forall_rev.
          apply tags_ok_seq in Hv. eapply flatten_each_ok; [exact H|exact (proj2 Hv)|exact Es].
        * apply bind_ok in E. destruct E as (sub' & Es & E). eapply IH; [exact Hl'| |exact Hr|exact E].
          apply Forall_app. split; [exact Hm|]. apply tags_ok_map in Hv. eapply H; [exact (proj2 Hv)|exact Es].
      + destruct (ueqb (ntag k) tag_value).
        * eapply IH; [exact Hl'|exact Hm| |exact E]. apply Forall_app. split; [exact Hr|]. constructor; [|constructor].
          split; [apply set_tag_ok; [apply core_ok; reflexivity|exact Hk] | exact Hv].
        * eapply IH; [exact Hl'|exact Hm| |exact E]. apply Forall_app. split; [exact Hr|]. constructor; [split; assumption|constructor].
  Qed.
  Lemma flatten_ok : forall fuel l r, Forall (pair_ok ext) l -> flatten fuel l = Ok r -> Forall (pair_ok ext) r.
  Proof.
    induction fuel as [|f IH]; intros l r Hl E; [discriminate E|]. cbn [flatten] in E.
    eapply flatten_go_ok; [exact IH|exact Hl|constructor|constructor|exact E].
  Qed.

  Lemma construct_pairs_vreg (rec : node -> result value) : (forall x v, rec x = Ok v -> vreg ext v) ->
    forall l acc d, Forall (vpair ext) acc -> construct_pairs rec l acc = Ok d -> Forall (vpair ext) d.
  Proof.
    intros H. induction l as [|[k v] l IH]; intros acc d Ha E; cbn [construct_pairs] in E.
    - injection E as <-. exact Ha.
    - apply bind_ok in E. destruct E as (kv & Ek & E). destruct (negb (hashable kv)); [discriminate E|].
      apply bind_ok in E. destruct E as (vv & Ev & E). eapply IH; [|exact E].
      clear E. induction acc as [|[k0 v0] r IHr]; cbn [dict_set].
      + constructor; [split; [eapply H, Ek | eapply H, Ev]|constructor].
      + inversion Ha as [|? ? [H1 H2] Hr]; subst. destruct (key_eqb kv k0).
        * constructor; [split; [exact H1 | eapply H, Ev] | exact Hr].
        * constructor; [split; assumption | apply IHr, Hr].
  Qed.

  Lemma construct_vreg : forall g n v, construct o reg g n = Ok v -> vreg ext v.
  Proof.
    induction g as [|g IH]; intros n v E; [discriminate E|]. cbn [construct] in E.
    destruct (class_of_tag reg (ntag n)) as [k|] eqn:Ec.
    - pose proof (u_fresh' reg ext U k (class_of_tag_In _ _ _ Ec)) as Hk.
      destruct (c_shape k) as [params extra|ms|].
      + destruct n as [| |t ps m]; try discriminate E. destruct (negb (str_keyed ps)); [discriminate E|].
        apply bind_ok in E. destruct E as (mp & _ & E). unfold build_object in E.
        destruct (init_args reg params extra mp); [|discriminate E]. destruct (c_init_ok k l); [|discriminate E].
        injection E as <-. exact Hk.
      + destruct n as [t x m| |]; try discriminate E. destruct (umem x ms); [|discriminate E]. injection E as <-. exact Hk.
      + destruct n as [t x m| |]; try discriminate E. destruct (c_str_ok k x); [|discriminate E]. injection E as <-. exact Hk.
    - destruct (ueqb (ntag n) tag_path).
      + destruct n; try discriminate E. injection E as <-. exact I.
      + destruct n as [t x m|t items m|t ps m].
        * destruct (ueqb t tag_str); [injection E as <-; exact I|]. destruct (ueqb t tag_null); [injection E as <-; exact I|].
          destruct (olookup o t x) as [y|e] eqn:El.
          -- injection E as <-. apply builtin_vreg. exact (proj1 (Ho t x y El)).
          -- destruct e; try discriminate E. destruct (uprefix core_prefix_colon t); discriminate E.
        * destruct (ueqb t tag_seq); [|discriminate E]. apply bind_ok in E. destruct E as (l & El & E). injection E as <-.
          apply vreg_list. clear Ec. revert l El. induction items as [|x r IHr]; intros l El; cbn [construct_items] in El.
          -- injection El as <-. constructor.
          -- apply bind_ok in El. destruct El as (x' & Ex & El). apply bind_ok in El. destruct El as (r' & Er & El). injection El as <-.
             constructor; [eapply IH, Ex | apply IHr, Er].
        * destruct (ueqb t tag_map); [|discriminate E]. apply bind_ok in E. destruct E as (d & Ed & E). injection E as <-.
          apply vreg_dict. unfold construct_map in Ed. apply bind_ok in Ed. destruct Ed as (ps' & _ & Ed).
          eapply construct_pairs_vreg; [|constructor|exact Ed]. intros x v0 Ex. eapply IH, Ex.
  Qed.
End cons.

Section cons2.
  Variable o : oracle.
  Variables reg ext : registry.
  Hypothesis U : unrelated reg ext.
  Hypothesis Ho : oracle_wf o.
  Hypothesis Hpath : find_cls ext (u "Path") = None.
  Let reg' := reg ++ ext.

  Lemma kwargs_vreg mp a v : Forall (vpair ext) mp -> In (a, v) (kwargs_of mp) -> vreg ext v.
  Proof.
    intros H Hin. unfold kwargs_of in Hin. apply in_flat_map in Hin. destruct Hin as (kv & Hkv & Hin).
    rewrite Forall_forall in H. destruct (H kv Hkv) as [_ H2]. destruct (fst kv); try contradiction.
    destruct Hin as [E|[]]. injection E as _ <-. exact H2.
  Qed.
  Lemma init_args_same params extra mp : Forall (vpair ext) mp -> init_args reg' params extra mp = init_args reg params extra mp.
  Proof.
    intros H. unfold init_args.
    assert (F : forallb (fun p => match uassoc (p_name p) (kwargs_of mp) with
                                  | None => negb (p_required p) | Some v => type_matches reg' v (p_ty p) end) params =
                forallb (fun p => match uassoc (p_name p) (kwargs_of mp) with
                                  | None => negb (p_required p) | Some v => type_matches reg v (p_ty p) end) params).
    { apply forallb_ext_in. intros p _. destruct (uassoc (p_name p) (kwargs_of mp)) as [v|] eqn:E; [|reflexivity].
      apply (tm_same reg ext). eapply kwargs_vreg; [exact H | apply uassoc_Some, E]. }
    rewrite F. reflexivity.
  Qed.

  Lemma construct_map_same g (l : list (node * node)) :
    (forall n, tags_ok ext n -> construct o reg' g n = construct o reg g n) -> Forall (pair_ok ext) l ->
    construct_map (S g) (construct o reg' g) l = construct_map (S g) (construct o reg g) l.
  Proof.
    intros IH Hl. unfold construct_map. destruct (flatten (S g) l) as [l'|e] eqn:Ef; cbn [bind]; [|reflexivity].
    pose proof (flatten_ok ext (S g) l l' Hl Ef) as Hl'. rewrite Forall_forall in Hl'.
    apply construct_pairs_ext. intros k v Hin. destruct (Hl' _ Hin) as [Hk Hv]. split; apply IH; assumption.
  Qed.

  Theorem construct_unrelated : forall g n, tags_ok ext n -> construct o reg' g n = construct o reg g n.
  Proof.
    induction g as [|g IH]; intros n Hn; [reflexivity|]. cbn [construct].
    unfold reg' at 1. rewrite (cot_same reg ext (ntag n) (tags_ok_head ext n Hn)).
    destruct (class_of_tag reg (ntag n)) as [k|] eqn:Ec.
    - destruct (c_shape k) as [params extra|ms|]; try reflexivity.
      destruct n as [| |t ps m]; try reflexivity. destruct (negb (str_keyed ps)); [reflexivity|].
      assert (Hl : Forall (pair_ok ext) (strip_unknown (map p_name params) ps)).
      { apply tags_ok_map in Hn. destruct Hn as [_ Hp]. unfold strip_unknown. apply Forall_map. eapply Forall_impl; [|exact Hp].
        intros kv [H1 H2]. destruct (umem _ _); [split; assumption|]. split; [exact H1|]. cbn [snd]. apply stripped_ok, strip_tags_stripped. }
      rewrite (construct_map_same g _ IH Hl).
      destruct (construct_map (S g) (construct o reg g) (strip_unknown (map p_name params) ps)) as [mp|e] eqn:Em; cbn [bind]; [|reflexivity].
      unfold build_object. unfold reg' at 1. rewrite init_args_same; [reflexivity|].
      unfold construct_map in Em. apply bind_ok in Em. destruct Em as (ps' & _ & Em).
      eapply (construct_pairs_vreg ext); [|constructor|exact Em]. intros x v Ex. eapply (construct_vreg o reg ext U Ho), Ex.
    - destruct (ueqb (ntag n) tag_path); [reflexivity|].
      destruct n as [t x m|t items m|t ps m]; try reflexivity.
      + destruct (ueqb t tag_seq); [|reflexivity]. apply tags_ok_seq in Hn. destruct Hn as [_ Hi]. rewrite Forall_forall in Hi.
        rewrite (construct_items_ext (construct o reg' g) (construct o reg g) items); [reflexivity|]. intros x Hx. apply IH, Hi, Hx.
      + destruct (ueqb t tag_map); [|reflexivity]. apply tags_ok_map in Hn. destruct Hn as [_ Hp].
        rewrite (construct_map_same g ps IH Hp). reflexivity.
  Qed.

  (* the whole load: documents none of whose tags names a class of ext *)
  Theorem load_unrelated n T : avoid ext T -> tags_ok ext n -> load o reg' (Some n) T = load o reg (Some n) T.
  Proof.
    intros HT Hn. unfold load. unfold reg' at 1. rewrite (process_unrelated o reg ext U FUEL n T HT).
    destruct (process o reg FUEL n T) as [n'|e] eqn:Ep; cbn [bind]; [|reflexivity].
    apply construct_unrelated. eapply (process_ok o reg ext U Hpath); eauto.
  Qed.
End cons2.
