(* C18: expansion always terminates with a verdict: it never runs out of fuel (cycles are rejected,
   not looped on), whatever the graph. *)
From Coq Require Import NArith ZArith List Bool String Lia.
Import ListNotations.
From Y Require Import Prelude Node Tables NodeOps Types Recognize Loader Graph Conform.

Lemma bounded_nodup_length (l : list nat) n : NoDup l -> (forall x, In x l -> x < n)%nat -> (List.length l <= n)%nat.
Proof.
  intros Hn Hb. rewrite <- (seq_length n 0). apply NoDup_incl_length; [exact Hn|].
  intros x Hx. apply in_seq. specialize (Hb x Hx). lia.
Qed.

Lemma map_res_not_fuel {A B} (f : A -> result B) (l : list A) :
  (forall x, In x l -> f x <> Err EFuel) -> map_res f l <> Err EFuel.
Proof.
  induction l as [|x r IH]; intros H; cbn [map_res]; [discriminate|].
  destruct (f x) as [x'|e] eqn:E; cbn [bind].
  - destruct (map_res f r) as [r'|e'] eqn:Er; cbn [bind]; [discriminate|].
    intros Heq. injection Heq as ->. apply IH; [|reflexivity]. intros y Hy. apply H. right. exact Hy.
  - intros Heq. injection Heq as ->. apply (H x (or_introl eq_refl)). exact E.
Qed.

Theorem expand_never_out_of_fuel g : forall fuel path l,
  NoDup path -> (forall x, In x path -> x < List.length g)%nat -> (List.length g < fuel + List.length path)%nat ->
  expand fuel g path l <> Err EFuel.
Proof.
  induction fuel as [|f IH]; intros path l Hn Hb Hf.
  - exfalso. pose proof (bounded_nodup_length path (List.length g) Hn Hb). lia.
  - cbn [expand]. destruct (existsb (Nat.eqb l) path) eqn:Ex; [discriminate|].
    destruct (nth_error g l) as [c|] eqn:En; [|discriminate].
    assert (Hl : (l < List.length g)%nat) by (apply nth_error_Some; congruence).
    assert (Hn' : NoDup (l :: path)).
    { constructor; [|exact Hn]. intros Hin. assert (existsb (Nat.eqb l) path = true); [|congruence].
      apply existsb_exists. exists l. split; [exact Hin | apply Nat.eqb_refl]. }
    assert (Hb' : forall x, In x (l :: path) -> (x < List.length g)%nat).
    { intros x [<-|Hx]; auto. }
    assert (Hf' : (List.length g < f + List.length (l :: path))%nat).
    { simpl. rewrite Nat.add_succ_r. exact Hf. }
    destruct c as [t v m|t items m|t ps m]; [discriminate| |].
    + destruct (map_res (expand f g (l :: path)) items) as [items'|e] eqn:Em; cbn [bind]; [discriminate|].
      intros Heq. injection Heq as ->. revert Em. apply map_res_not_fuel. intros x _. apply IH; assumption.
    + destruct (map_res _ ps) as [ps'|e] eqn:Em; cbn [bind]; [discriminate|].
      intros Heq. injection Heq as ->. revert Em. apply map_res_not_fuel. intros [a b] _. cbn [fst snd].
      destruct (expand f g (l :: path) a) as [ka|ea] eqn:Ea; cbn [bind].
      * destruct (expand f g (l :: path) b) as [vb|eb] eqn:Eb; cbn [bind]; [discriminate|].
        intros Heq. injection Heq as ->. revert Eb. apply IH; assumption.
      * intros Heq. injection Heq as ->. revert Ea. apply IH; assumption.
Qed.

Theorem expand_graph_total g root : exists r, expand_graph g root = r /\ r <> Err EFuel.
Proof.
  eexists. split; [reflexivity|]. unfold expand_graph. apply expand_never_out_of_fuel.
  - constructor.
  - intros x [].
  - simpl. lia.
Qed.

(* a location reached again on the current path is rejected with RecognitionError *)
Theorem expand_rejects_cycle f g path l : In l path -> expand (S f) g path l = Err ERecognition.
Proof.
  intros H. cbn [expand]. assert (E : existsb (Nat.eqb l) path = true).
  { apply existsb_exists. exists l. split; [exact H | apply Nat.eqb_refl]. }
  rewrite E. reflexivity.
Qed.

(* a graph without sharing behaves as the tree it is: every scalar expands to itself *)
Theorem expand_scalar g f path l t v m : nth_error g l = Some (CScalar t v m) -> ~ In l path ->
  expand (S f) g path l = Ok (Scalar t v m).
Proof.
  intros H Hn. cbn [expand]. assert (E : existsb (Nat.eqb l) path = false).
  { destruct (existsb (Nat.eqb l) path) eqn:Ex; [|reflexivity]. exfalso. apply existsb_exists in Ex.
    destruct Ex as (x & Hx & Ex). apply Nat.eqb_eq in Ex. subst x. contradiction. }
  rewrite E, H. reflexivity.
Qed.
