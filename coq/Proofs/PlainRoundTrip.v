(* C05, structural half for plain data: what the representers build from a plain value (strings, numbers, booleans,
   null, dates, lists, dicts -- of every size and nesting) is constructed back into exactly that value when loaded
   with no declared type (Any).  With Proofs/RoundTrip.v (text level) this is the full round trip for plain data. *)
From Coq Require Import NArith ZArith List Bool String Lia.
Import ListNotations.
From Y Require Import Prelude Node Re Resolve Tables Images NodeOps Types Recognize Loader Hooks Represent DumpProofs.
Open Scope N_scope.

Local Arguments ueqb : simpl never.
Local Arguments uprefix : simpl never.

(* the values covered: dict keys hashable and pairwise different as Python dict keys (True == 1, False == 0) *)
Fixpoint fresh_keys (seen ks : list value) : bool :=
  match ks with
  | [] => true
  | k :: r => negb (existsb (key_eqb k) seen) && fresh_keys (seen ++ [k]) r
  end.
Fixpoint plain_rt (v : value) : bool :=
  match v with
  | VStr _ | VInt _ | VFloat _ | VBool _ | VNone | VDate _ | VDateTime _ => true
  | VList l => forallb plain_rt l
  | VDict l => forallb (fun '(k, x) => plain_rt k && hashable k && plain_rt x) l && fresh_keys [] (map fst l)
  | _ => false
  end.

Definition core6 (t : ustring) : Prop :=
  t = tag_str \/ t = tag_int \/ t = tag_float \/ t = tag_bool \/ t = tag_null \/ t = tag_timestamp.

Lemma core6_facts t : core6 t ->
  uprefix core_prefix_colon t = true /\ t <> tag_merge /\ t <> tag_value /\ (forall reg, class_of_tag reg t = None) /\ ueqb t tag_path = false.
Proof.
  intros [-> | [-> | [-> | [-> | [-> | ->]]]]]; (split; [reflexivity|]); (split; [intros E; revert E; vm_compute; discriminate|]);
    (split; [intros E; revert E; vm_compute; discriminate|]); (split; [intros reg; reflexivity | reflexivity]).
Qed.
Lemma coll_facts : (forall reg, class_of_tag reg tag_seq = None) /\ (forall reg, class_of_tag reg tag_map = None) /\
  ueqb tag_seq tag_path = false /\ ueqb tag_map tag_path = false /\
  tag_seq <> tag_merge /\ tag_seq <> tag_value /\ tag_map <> tag_merge /\ tag_map <> tag_value.
Proof.
  repeat split; try (intros reg; reflexivity); try reflexivity; intros E; revert E; vm_compute; discriminate.
Qed.

(* merge keys: nothing to flatten when no key is tagged merge / value *)
Lemma flatten_go_plain rec : forall l merge rest,
  Forall (fun kv => ntag (fst kv) <> tag_merge /\ ntag (fst kv) <> tag_value) l ->
  flatten_go rec l merge rest = Ok (merge ++ rest ++ l).
Proof.
  induction l as [|[k v] l IH]; intros merge rest H; cbn [flatten_go].
  - rewrite app_nil_r. reflexivity.
  - inversion H as [|? ? [H1 H2] H3]; subst. cbn [fst] in *.
    destruct (ueqb_spec (ntag k) tag_merge) as [E|_]; [contradiction|].
    destruct (ueqb_spec (ntag k) tag_value) as [E|_]; [contradiction|].
    rewrite (IH merge (rest ++ [(k, v)]) H3), <- app_assoc. reflexivity.
Qed.
Lemma flatten_plain f l : Forall (fun kv => ntag (fst kv) <> tag_merge /\ ntag (fst kv) <> tag_value) l ->
  flatten (S f) l = Ok l.
Proof. intros H. cbn [flatten]. rewrite (flatten_go_plain _ l [] [] H). reflexivity. Qed.

Lemma dict_set_fresh k v : forall acc, existsb (key_eqb k) (map fst acc) = false -> dict_set k v acc = acc ++ [(k, v)].
Proof.
  induction acc as [|[k0 v0] acc IH]; intros H; [reflexivity|]. cbn [dict_set map existsb fst] in *.
  apply orb_false_iff in H. destruct H as [H1 H2]. rewrite H1, (IH H2). reflexivity.
Qed.

Section rt.
  Variable o : oracle.
  Variable reg : registry.

  Definition good (v : value) (n : node) (f : nat) : Prop :=
    construct o reg f n = Ok v /\ strip_tags n = n /\ ntag n <> tag_merge /\ ntag n <> tag_value.

  Lemma scalar_good f t txt v : core6 t ->
    (if ueqb t tag_str then Ok (VStr txt) else if ueqb t tag_null then Ok VNone else olookup o t txt) = Ok v ->
    (ueqb t tag_str = false -> ueqb t tag_null = false -> exists x, olookup o t txt = Ok x) ->
    good v (Scalar t txt genmark) (S f).
  Proof.
    intros Hc E _. destruct (core6_facts t Hc) as (Hp & Hm & Hv & Hcls & Hpath). unfold good. cbn [construct ntag strip_tags].
    rewrite Hcls, Hpath, Hp. split; [|split; [reflexivity | split; assumption]].
    destruct (ueqb t tag_str); [exact E|]. destruct (ueqb t tag_null); [exact E|].
    rewrite E. reflexivity.
  Qed.

  Lemma items_good f : forall l l',
    (forall x n, In x l -> represent o reg f x = Ok n -> good x n f) ->
    represent_items (represent o reg f) l = Ok l' ->
    construct_items (construct o reg f) l' = Ok l /\ map strip_tags l' = l'.
  Proof.
    induction l as [|x l IH]; intros l' H E; cbn [represent_items] in E.
    - injection E as <-. split; reflexivity.
    - destruct (represent o reg f x) as [x'|] eqn:Ex; cbn [bind] in E; [|discriminate E].
      destruct (represent_items (represent o reg f) l) as [r'|] eqn:Er; cbn [bind] in E; [|discriminate E].
      injection E as <-. destruct (H x x' (or_introl eq_refl) Ex) as (C & S & _).
      destruct (IH r' (fun y n Hy => H y n (or_intror Hy)) eq_refl) as (C2 & S2).
      cbn [construct_items map]. rewrite C, S. cbn [bind]. rewrite C2, S2. split; reflexivity.
  Qed.

  Lemma pairs_good f : forall l l' acc,
    (forall k x n, In (k, x) l -> (represent o reg f k = Ok n -> good k n f) /\ (represent o reg f x = Ok n -> good x n f)) ->
    forallb (fun '(k, x) => hashable k) l = true ->
    fresh_keys (map fst acc) (map fst l) = true ->
    represent_pairs (represent o reg f) l = Ok l' ->
    construct_pairs (construct o reg f) l' acc = Ok (acc ++ l) /\
    map (fun kv => (strip_tags (fst kv), strip_tags (snd kv))) l' = l' /\
    Forall (fun kv => ntag (fst kv) <> tag_merge /\ ntag (fst kv) <> tag_value) l'.
  Proof.
    induction l as [|[k x] l IH]; intros l' acc H Hh Hf E; cbn [represent_pairs] in E.
    - injection E as <-. cbn [construct_pairs map]. rewrite app_nil_r. repeat split. constructor.
    - destruct (represent o reg f k) as [k'|] eqn:Ek; cbn [bind] in E; [|discriminate E].
      destruct (represent o reg f x) as [x'|] eqn:Ex; cbn [bind] in E; [|discriminate E].
      destruct (represent_pairs (represent o reg f) l) as [r'|] eqn:Er; cbn [bind] in E; [|discriminate E].
      injection E as <-.
      destruct (proj1 (H k x k' (or_introl eq_refl)) Ek) as (Ck & Sk & Mk & Vk).
      destruct (proj2 (H k x x' (or_introl eq_refl)) Ex) as (Cx & Sx & _).
      cbn [forallb] in Hh. apply andb_true_iff in Hh. destruct Hh as [Hk Hh].
      cbn [map fresh_keys fst] in Hf. apply andb_true_iff in Hf. destruct Hf as [Hfr Hf].
      apply negb_true_iff in Hfr.
      assert (Hf' : fresh_keys (map fst (acc ++ [(k, x)])) (map fst l) = true) by (rewrite map_app; exact Hf).
      destruct (IH r' (acc ++ [(k, x)]) (fun a b n Hy => H a b n (or_intror Hy)) Hh Hf' eq_refl) as (C2 & S2 & F2).
      cbn [construct_pairs map fst snd]. rewrite Ck. cbn [bind]. rewrite Hk. cbn [negb]. rewrite Cx. cbn [bind].
      rewrite (dict_set_fresh k x acc Hfr), C2, <- app_assoc, Sk, Sx, S2. repeat split.
      constructor; [cbn [fst]; split; assumption | exact F2].
  Qed.

  Theorem represent_constructs_back : forall f v n, plain_rt v = true -> leaves_ok o v = true ->
    represent o reg f v = Ok n -> good v n f.
  Proof.
    induction f as [|f IH]; intros v n Hp HL E; [discriminate E|].
    destruct v; try discriminate Hp; cbn [represent] in E; cbn [leaves_ok leaf_ok] in HL.
    - injection E as <-. apply scalar_good; [left; reflexivity | rewrite (proj2 (ueqb_eq tag_str tag_str) eq_refl); reflexivity | intros X; rewrite (proj2 (ueqb_eq tag_str tag_str) eq_refl) in X; discriminate X].
    - injection E as <-. destruct (olookup o tag_int (z_to_dec z)) as [[]|] eqn:El; try discriminate HL.
      apply Z.eqb_eq in HL. subst. apply scalar_good; [right; left; reflexivity | | eauto].
      replace (ueqb tag_int tag_str) with false by reflexivity. replace (ueqb tag_int tag_null) with false by reflexivity. exact El.
    - destruct (olookup o repr_key hex) as [[]|]; try discriminate E. injection E as <-.
      apply andb_true_iff in HL. destruct HL as [_ HL].
      destruct (olookup o tag_float s) as [[]|] eqn:El; try discriminate HL. apply ueqb_eq in HL. subst.
      apply scalar_good; [right; right; left; reflexivity | | eauto].
      replace (ueqb tag_float tag_str) with false by reflexivity. replace (ueqb tag_float tag_null) with false by reflexivity. exact El.
    - injection E as <-.
      destruct (olookup o tag_bool (if b then u "true" else u "false")) as [[]|] eqn:El; try discriminate HL.
      apply eqb_prop in HL. subst. apply scalar_good; [right; right; right; left; reflexivity | | eauto].
      replace (ueqb tag_bool tag_str) with false by reflexivity. replace (ueqb tag_bool tag_null) with false by reflexivity. exact El.
    - injection E as <-. apply scalar_good; [right; right; right; right; left; reflexivity | | intros _ X; rewrite (proj2 (ueqb_eq tag_null tag_null) eq_refl) in X; discriminate X].
      replace (ueqb tag_null tag_str) with false by reflexivity. rewrite (proj2 (ueqb_eq tag_null tag_null) eq_refl). reflexivity.
    - injection E as <-. apply andb_true_iff in HL. destruct HL as [_ HL].
      destruct (olookup o tag_timestamp iso) as [[]|] eqn:El; try discriminate HL. apply ueqb_eq in HL. subst.
      apply scalar_good; [right; right; right; right; right; reflexivity | | eauto].
      replace (ueqb tag_timestamp tag_str) with false by reflexivity. replace (ueqb tag_timestamp tag_null) with false by reflexivity. exact El.
    - injection E as <-. apply andb_true_iff in HL. destruct HL as [_ HL].
      destruct (olookup o tag_timestamp (space_for_T iso)) as [[]|] eqn:El; try discriminate HL. apply ueqb_eq in HL. subst.
      apply scalar_good; [right; right; right; right; right; reflexivity | | eauto].
      replace (ueqb tag_timestamp tag_str) with false by reflexivity. replace (ueqb tag_timestamp tag_null) with false by reflexivity. exact El.
    - (* list *)
      destruct (represent_items (represent o reg f) l) as [l'|] eqn:El; cbn [bind] in E; [|discriminate E].
      injection E as <-. cbn [plain_rt] in Hp.
      destruct (items_good f l l') as (C & S); [|exact El|].
      { intros x n Hin Ex. apply IH; [| |exact Ex]; [rewrite forallb_forall in Hp; apply Hp, Hin | rewrite forallb_forall in HL; apply HL, Hin]. }
      destruct coll_facts as (Cs & _ & Ps & _ & M1 & V1 & _).
      unfold good. cbn [construct ntag strip_tags]. rewrite Cs, Ps, (proj2 (ueqb_eq tag_seq tag_seq) eq_refl), C, S. cbn [bind].
      repeat split; assumption.
    - (* dict *)
      destruct (represent_pairs (represent o reg f) l) as [l'|] eqn:El; cbn [bind] in E; [|discriminate E].
      injection E as <-. cbn [plain_rt] in Hp. apply andb_true_iff in Hp. destruct Hp as [Hp Hfr].
      destruct (pairs_good f l l' []) as (C & S & F); [| | exact Hfr | exact El |].
      { intros k x n Hin. rewrite forallb_forall in Hp, HL. specialize (Hp _ Hin). specialize (HL _ Hin). cbn in Hp, HL.
        apply andb_true_iff in Hp. destruct Hp as [Hp Hx]. apply andb_true_iff in Hp. destruct Hp as [Hk _].
        apply andb_true_iff in HL. destruct HL as [Lk Lx]. split; intros Ex; apply IH; assumption. }
      { apply forallb_forall. intros [k x] Hin. rewrite forallb_forall in Hp. specialize (Hp _ Hin). cbn in Hp.
        apply andb_true_iff in Hp. destruct Hp as [Hp _]. apply andb_true_iff in Hp. exact (proj2 Hp). }
      destruct coll_facts as (_ & Cm & _ & Pm & _ & _ & M1 & V1).
      unfold good. cbn [construct ntag strip_tags]. rewrite Cm, Pm, (proj2 (ueqb_eq tag_map tag_map) eq_refl).
      unfold construct_map. rewrite (flatten_plain f l' F). cbn [bind]. rewrite C, S. cbn [bind app].
      repeat split; assumption.
  Qed.

  (* the whole load with no declared type *)
  Theorem load_any_of_represented v n : plain_rt v = true -> leaves_ok o v = true ->
    represent o reg FUEL v = Ok n -> load o reg (Some n) TAny = Ok v.
  Proof.
    intros Hp HL E. destruct (represent_constructs_back FUEL v n Hp HL E) as (C & St & _).
    unfold load. change FUEL with (Datatypes.S 199%nat) at 1. cbn [process recognize bind fst]. rewrite St. cbn [bind]. exact C.
  Qed.
End rt.
