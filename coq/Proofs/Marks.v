(* C13: a load never consults a mark (source position).  Two node trees that differ only in their marks are
   recognised as the same types at every node, processed into trees that again differ only in marks, and constructed
   into the same value -- for hooks that themselves do not look at marks. *)
From Coq Require Import NArith ZArith List Bool String Lia.
Import ListNotations.
From Y Require Import Prelude Node Tables NodeOps Types Recognize Loader Spec.
Open Scope N_scope.

Local Arguments ueqb : simpl never.
Local Arguments uprefix : simpl never.
Local Arguments class_of_tag : simpl never.

Inductive eqm : node -> node -> Prop :=
| eqm_s t v m m' : eqm (Scalar t v m) (Scalar t v m')
| eqm_q t l l' m m' : Forall2 eqm l l' -> eqm (Seq t l m) (Seq t l' m')
| eqm_m t ps ps' m m' : Forall2 (fun a b => eqm (fst a) (fst b) /\ eqm (snd a) (snd b)) ps ps' -> eqm (Map t ps m) (Map t ps' m').
Definition eqmp (a b : node * node) : Prop := eqm (fst a) (fst b) /\ eqm (snd a) (snd b).

Lemma eqm_refl : forall n, eqm n n.
Proof.
  induction n as [t v m|t l m IH|t ps m IH] using node_ind2; constructor.
  - induction IH; constructor; assumption.
  - induction IH as [|[k v] r [Hk Hv] _ IHr]; constructor; [split; assumption | exact IHr].
Qed.
Lemma eqm_tag x y : eqm x y -> ntag x = ntag y.
Proof. destruct 1; reflexivity. Qed.
Lemma eqm_set_tag t x y : eqm x y -> eqm (set_tag t x) (set_tag t y).
Proof. destruct 1; cbn [set_tag]; constructor; assumption. Qed.
Lemma eqm_is_mapping x y : eqm x y -> is_mapping x = is_mapping y.
Proof. destruct 1; reflexivity. Qed.

(* results *)
Definition eqmR (a b : result node) : Prop :=
  match a, b with Ok u, Ok v => eqm u v | Err e, Err e' => e = e' | _, _ => False end.
Definition sameT (a b : result RecResult) : Prop :=
  match a, b with Ok r, Ok r' => fst r = fst r' | Err e, Err e' => e = e' | _, _ => False end.
Lemma sameT_ok_inv a r : sameT a (Ok r) -> exists r0, a = Ok r0 /\ fst r0 = fst r.
Proof. destruct a as [r0|e]; cbn; [eauto | tauto]. Qed.

(* ---- mapping access ---- *)
Lemma key_is_eqm a x y : eqm x y -> key_is a x = key_is a y.
Proof. destruct 1; reflexivity. Qed.
Lemma has_attr_ps_eqm a ps ps' : Forall2 eqmp ps ps' -> has_attr_ps a ps = has_attr_ps a ps'.
Proof.
  unfold has_attr_ps. induction 1 as [|x y r r' [Hk _] _ IH]; [reflexivity|]. cbn [existsb]. rewrite (key_is_eqm a _ _ Hk), IH. reflexivity.
Qed.
Lemma lookup_all_eqm a ps ps' : Forall2 eqmp ps ps' -> Forall2 eqm (lookup_all a ps) (lookup_all a ps').
Proof.
  unfold lookup_all. induction 1 as [|x y r r' [Hk Hv] _ IH]; [constructor|]. cbn [filter]. rewrite (key_is_eqm a _ _ Hk).
  destruct (key_is a (fst y)); [cbn [map]; constructor; assumption | exact IH].
Qed.
Lemma get_attr_ps_eqm a ps ps' : Forall2 eqmp ps ps' -> eqmR (get_attr_ps a ps) (get_attr_ps a ps').
Proof.
  intros H. unfold get_attr_ps. pose proof (lookup_all_eqm a _ _ H) as L.
  destruct L as [|x y r r' Hx Hr]; [reflexivity|]. destruct Hr; [exact Hx | reflexivity].
Qed.
Lemma pairs_of_eqm x y : eqm x y ->
  match pairs_of x, pairs_of y with Ok ps, Ok ps' => Forall2 eqmp ps ps' | Err e, Err e' => e = e' | _, _ => False end.
Proof.
  destruct 1 as [t v m m'|t l l' m m' H|t ps ps' m m' H]; cbn [pairs_of].
  - destruct v; [constructor | reflexivity].
  - destruct H; [constructor | reflexivity].
  - exact H.
Qed.
Lemma first_key_mark_irrelevant : True. Proof. exact I. Qed.

Lemma replace_first_eqm a v v' : eqm v v' -> forall ps ps', Forall2 eqmp ps ps' ->
  match replace_first a v ps, replace_first a v' ps' with
  | Some r, Some r' => Forall2 eqmp r r' | None, None => True | _, _ => False end.
Proof.
  intros Hv. induction 1 as [|[k x] [k' x'] r r' [Hk Hx] Hr IH]; cbn [replace_first]; [exact I|].
  cbn [fst snd] in *. rewrite (key_is_eqm a _ _ Hk). destruct (key_is a k').
  - constructor; [split; assumption | exact Hr].
  - destruct (replace_first a v r), (replace_first a v' r'); try contradiction; [|exact I].
    constructor; [split; assumption | exact IH].
Qed.
Lemma set_attribute_eqm a v v' x y : eqm v v' -> eqm x y -> eqmR (set_attribute a (PNode v) x) (set_attribute a (PNode v') y).
Proof.
  intros Hv [t s m m'|t l l' m m' H|t ps ps' m m' H]; cbn [set_attribute eqmR]; try reflexivity.
  constructor. unfold set_attr_ps. cbn [node_of_arg].
  pose proof (replace_first_eqm a v v' Hv ps ps' H) as R.
  destruct (replace_first a v ps), (replace_first a v' ps'); try contradiction; [exact R|].
  apply Forall2_app; [exact H|]. constructor; [|constructor]. split; [constructor | exact Hv].
Qed.

(* ---- recognition ---- *)
Lemma rec_scalar_eqm x y T : eqm x y -> fst (rec_scalar x T) = fst (rec_scalar y T).
Proof. destruct 1; unfold rec_scalar; destruct (scalar_tag T); try reflexivity. destruct (ueqb t u); reflexivity. Qed.
Lemma rec_path_eqm x y : eqm x y -> fst (rec_path x) = fst (rec_path y).
Proof. destruct 1; unfold rec_path; try reflexivity. destruct (ueqb t tag_str); reflexivity. Qed.

Definition relN (rec rec' : node -> result RecResult) : Prop := forall x y, eqm x y -> sameT (rec x) (rec' y).

Lemma rec_items_eqm rec rec' k t : forall l l', Forall2 (fun x y => sameT (rec x) (rec' y)) l l' ->
  sameT (rec_items rec k t l) (rec_items rec' k t l').
Proof.
  induction 1 as [|x y r r' Hx _ IH]; cbn [rec_items]; [reflexivity|].
  destruct (rec x) as [res|e], (rec' y) as [res'|e']; cbn [sameT] in Hx; try contradiction; cbn [bind]; [|exact Hx].
  rewrite Hx. destruct (fst res') as [|a [|b l0]]; try reflexivity. exact IH.
Qed.
Lemma rec_pairs_eqm reck reck' recv recv' k kt vt : forall ps ps',
  Forall2 (fun a b => sameT (reck (fst a)) (reck' (fst b)) /\ sameT (recv (snd a)) (recv' (snd b))) ps ps' ->
  sameT (rec_pairs reck recv k kt vt ps) (rec_pairs reck' recv' k kt vt ps').
Proof.
  induction 1 as [|[kn vn] [kn' vn'] r r' [Hk Hv] _ IH]; cbn [rec_pairs]; [reflexivity|]. cbn [fst snd] in *.
  destruct (reck kn) as [kres|e], (reck' kn') as [kres'|e']; cbn [sameT] in Hk; try contradiction; cbn [bind]; [|exact Hk].
  rewrite Hk. destruct (fst kres') as [|a [|b l0]]; try reflexivity.
  destruct (recv vn) as [vres|e], (recv' vn') as [vres'|e']; cbn [sameT] in Hv; try contradiction; cbn [bind]; [|exact Hv].
  rewrite Hv. destruct (fst vres') as [|a' [|b' l1]]; try reflexivity. exact IH.
Qed.
Lemma rec_members_eqm (rec rec' : ty -> result RecResult) : (forall t, sameT (rec t) (rec' t)) ->
  forall ts acc causes causes',
  match rec_members rec ts acc causes, rec_members rec' ts acc causes' with
  | Ok r, Ok r' => fst r = fst r' | Err e, Err e' => e = e' | _, _ => False end.
Proof.
  intros H. induction ts as [|t ts IH]; intros acc causes causes'; cbn [rec_members]; [reflexivity|].
  specialize (H t). destruct (rec t) as [res|e], (rec' t) as [res'|e']; cbn [sameT] in H; try contradiction; cbn [bind]; [|exact H].
  rewrite H. apply IH.
Qed.
Lemma rec_union_eqm (rec rec' : ty -> result RecResult) ts m m' : (forall t, sameT (rec t) (rec' t)) ->
  sameT (rec_union rec ts m) (rec_union rec' ts m').
Proof.
  intros H. unfold rec_union. pose proof (rec_members_eqm rec rec' H ts [] [] []) as R.
  destruct (rec_members rec ts [] []) as [r|e], (rec_members rec' ts [] []) as [r'|e']; try contradiction; cbn [bind]; [|exact R].
  rewrite R. destruct (ty_mem TBool (fst r') && ty_mem TBoolFix (fst r')).
  - destruct (ty_remove TBoolFix (fst r')) as [|a [|b l]]; reflexivity.
  - destruct (fst r') as [|a [|b l]]; reflexivity.
Qed.

Lemma rec_params_eqm rec rec' n n' ps ps' c : Forall2 eqmp ps ps' ->
  (forall x y T, eqm x y -> sameT (rec x T) (rec' y T)) ->
  forall params, sameT (rec_params rec n ps params c) (rec_params rec' n' ps' params c).
Proof.
  intros HP HR. induction params as [|p rest IH]; cbn [rec_params]; [reflexivity|].
  assert (TRY : forall name (kont kont' : result RecResult), sameT kont kont' ->
            sameT (if has_attr_ps name ps then
                     match get_attr_ps name ps with
                     | Err _ => Ok ([], RE [nmark n] [name] [])
                     | Ok sub => res <- rec sub (p_ty p) ;;
                                 if is_nil (fst res) then Ok ([], RE [first_key_mark name ps (nmark n)] [name] [snd res])
                                 else rec_params rec n ps rest c
                     end
                   else kont)
                  (if has_attr_ps name ps' then
                     match get_attr_ps name ps' with
                     | Err _ => Ok ([], RE [nmark n'] [name] [])
                     | Ok sub => res <- rec' sub (p_ty p) ;;
                                 if is_nil (fst res) then Ok ([], RE [first_key_mark name ps' (nmark n')] [name] [snd res])
                                 else rec_params rec' n' ps' rest c
                     end
                   else kont')).
  { intros name kont kont' Hk. rewrite <- (has_attr_ps_eqm name ps ps' HP). destruct (has_attr_ps name ps); [|exact Hk].
    pose proof (get_attr_ps_eqm name ps ps' HP) as G.
    destruct (get_attr_ps name ps) as [sub|e], (get_attr_ps name ps') as [sub'|e']; cbn [eqmR] in G; try contradiction; [|reflexivity].
    specialize (HR sub sub' (p_ty p) G).
    destruct (rec sub (p_ty p)) as [res|e], (rec' sub' (p_ty p)) as [res'|e']; cbn [sameT] in HR; try contradiction; cbn [bind]; [|exact HR].
    rewrite HR. destruct (is_nil (fst res')); [reflexivity | exact IH]. }
  apply TRY. apply TRY. destruct (p_required p); [reflexivity | exact IH].
Qed.

(* custom recognisers must not look at marks either *)
Definition hook_rec_ok (h : (node -> ty -> bool) -> node -> bool) : Prop :=
  forall r1 r2 x y, eqm x y -> (forall a b t, eqm a b -> r1 a t = r2 b t) -> h r1 x = h r2 y.
Definition hook_sav_ok (h : node -> result node) : Prop := forall x y, eqm x y -> eqmR (h x) (h y).
Definition hooks_mark_free (reg : registry) : Prop :=
  forall k, In k reg -> (forall h, c_recognize k = Some h -> hook_rec_ok h) /\ (forall h, c_savorize k = Some h -> hook_sav_ok h).

Lemma rec_class_eqm o rec rec' k x y :
  (forall h, c_recognize k = Some h -> hook_rec_ok h) ->
  (forall a b T, eqm a b -> sameT (rec a T) (rec' b T)) ->
  eqm x y -> sameT (rec_class o rec k x) (rec_class o rec' k y).
Proof.
  intros Hh HR E. unfold rec_class. destruct (c_recognize k) as [h|].
  - rewrite (Hh h eq_refl _ (fun n' t => match rec' n' t with Ok (tys, _) => negb (is_nil tys) | Err _ => false end) x y E).
    + destruct (h _ y); reflexivity.
    + intros a b t Hab. specialize (HR a b t Hab).
      destruct (rec a t) as [[tys e]|e], (rec' b t) as [[tys' e']|e']; cbn [sameT fst] in HR; try contradiction; [subst; reflexivity | reflexivity].
  - destruct (c_shape k) as [params ex|ms|].
    + destruct E as [t v m m'|t l l' m m' H|t ps ps' m m' H]; try reflexivity.
      apply rec_params_eqm; assumption.
    + destruct E as [t v m m'|t l l' m m' H|t ps ps' m m' H]; try reflexivity.
      destruct (ueqb t tag_str || ueqb t tag_bool); reflexivity.
    + destruct E as [t v m m'|t l l' m m' H|t ps ps' m m' H]; try reflexivity.
      destruct (ueqb t tag_str); reflexivity.
Qed.

Lemma rec_subs_eqm (recsub recsub' : ustring -> result RecResult) : (forall d, sameT (recsub d) (recsub' d)) ->
  forall l acc causes causes',
  match rec_subs recsub l acc causes, rec_subs recsub' l acc causes' with
  | Ok r, Ok r' => fst r = fst r' | Err e, Err e' => e = e' | _, _ => False end.
Proof.
  intros H. induction l as [|d l IH]; intros acc causes causes'; cbn [rec_subs]; [reflexivity|].
  specialize (H (c_name d)). destruct (recsub (c_name d)) as [res|e], (recsub' (c_name d)) as [res'|e']; cbn [sameT] in H; try contradiction; cbn [bind]; [|exact H].
  rewrite H. apply IH.
Qed.

From Y Require Import Conform Polymorph InitIrrelevant.

Section marks.
  Variable o : oracle.
  Variable reg : registry.
  Hypothesis Hh : hooks_mark_free reg.

  Theorem recognize_eqm : forall fuel,
    (forall x y T, eqm x y -> sameT (recognize o reg fuel x T) (recognize o reg fuel y T)) /\
    (forall x y c top, eqm x y -> sameT (rec_classes o reg fuel x c top) (rec_classes o reg fuel y c top)).
  Proof.
    induction fuel as [|f [IHr IHc]]; [split; intros; reflexivity|]. split.
    - intros x y T E. cbn [recognize].
      destruct T as [ | | | | | | | | |k t|k kt vt|ts|c|c]; try (cbn [sameT]; apply rec_scalar_eqm, E); try reflexivity.
      + cbn [sameT]. apply rec_path_eqm, E.
      + destruct (is_seq_origin k); [|reflexivity].
        destruct E as [tg v m m'|tg l l' m m' H|tg ps ps' m m' H]; try reflexivity.
        apply rec_items_eqm. induction H as [|a b r r' Hab _ IH]; constructor; [apply IHr, Hab | exact IH].
      + destruct (is_map_origin k); [|reflexivity].
        match goal with |- sameT (if ?c then _ else _) _ => destruct c end; [|reflexivity].
        destruct E as [tg v m m'|tg l l' m m' H|tg ps ps' m m' H]; try reflexivity.
        apply rec_pairs_eqm. induction H as [|a b r r' [Hk Hv] _ IH]; constructor; [split; apply IHr; assumption | exact IH].
      + apply rec_union_eqm. intros t. apply IHr, E.
      + destruct (registered reg c); [|reflexivity]. apply IHc, E.
    - intros x y c top E.
      destruct (find_cls reg c) as [k|] eqn:Ek; [|cbn [rec_classes]; rewrite Ek; reflexivity].
      rewrite !(rec_classes_eq o reg f _ c top k Ek). unfold candidates.
      pose proof (rec_subs_eqm (fun d => rec_classes o reg f x d false) (fun d => rec_classes o reg f y d false)
                               (fun d => IHc x y d false E) (direct_subclasses reg c) [] [] []) as RS.
      destruct (rec_subs _ (direct_subclasses reg c) [] []) as [subs|e] eqn:E1;
        destruct (rec_subs (fun d => rec_classes o reg f y d false) (direct_subclasses reg c) [] []) as [subs'|e'] eqn:E2;
        try contradiction; cbn [bind]; [|exact RS].
      rewrite RS.
      set (A := if is_nil (fst subs') && negb (c_abstract k)
                then res <- rec_class o (recognize o reg f) k x ;;
                     Ok (fst res, if is_nil (fst res) then snd subs ++ [snd res] else snd subs)
                else Ok subs).
      set (B := if is_nil (fst subs') && negb (c_abstract k)
                then res <- rec_class o (recognize o reg f) k y ;;
                     Ok (fst res, if is_nil (fst res) then snd subs' ++ [snd res] else snd subs')
                else Ok subs').
      assert (OWN : match A, B with Ok a, Ok b => fst a = fst b | Err e, Err e' => e = e' | _, _ => False end).
      { unfold A, B. destruct (is_nil (fst subs') && negb (c_abstract k)); [|exact RS].
        pose proof (rec_class_eqm o (recognize o reg f) (recognize o reg f) k x y
                      (fun h Hc => proj1 (Hh k (find_cls_in _ _ _ Ek)) h Hc) IHr E) as RC.
        destruct (rec_class o (recognize o reg f) k x) as [r1|e], (rec_class o (recognize o reg f) k y) as [r2|e'];
          cbn [sameT] in RC; try contradiction; cbn [bind]; [exact RC | exact RC]. }
      destruct A as [own|e], B as [own'|e']; try contradiction; cbn [bind sameT]; [|exact OWN].
      unfold decide. rewrite OWN, (eqm_tag _ _ E).
      destruct (fst own') as [|a [|b l]]; cbn [fst]; try reflexivity.
      + destruct (negb (uprefix core_prefix (ntag y))); [|reflexivity].
        destruct (class_of_tag reg (ntag y)); [|reflexivity]. destruct (ty_mem _ _); reflexivity.
      + destruct (class_of_tag reg (ntag y)); [|reflexivity]. destruct (ty_mem _ _); reflexivity.
  Qed.

  (* ---- processing ---- *)
  Lemma strip_tags_eqm : forall x y, eqm x y -> eqm (strip_tags x) (strip_tags y).
  Proof.
    induction x as [t v m|t l m IH|t ps m IH] using node_ind2; intros y E;
      inversion E as [t0 v0 m0 m'|t0 l0 l' m0 m' HF|t0 ps0 ps' m0 m' HF]; subst; cbn [strip_tags].
    - destruct (uprefix core_prefix_colon t); constructor.
    - constructor. clear E. revert l' HF.
      induction IH as [|a r Ha _ IHr]; intros l' HF; inversion HF; subst; cbn [map]; constructor;
        [apply Ha; assumption | apply IHr; assumption].
    - constructor. clear E. revert ps' HF.
      induction IH as [|[k v] r [Hk Hv] _ IHr]; intros ps' HF; inversion HF as [|? [k' v'] ? ? [Ek Ev] Hr]; subst; cbn [map]; constructor.
      + cbn [fst snd] in *. split; [apply Hk | apply Hv]; assumption.
      + apply IHr, Hr.
  Qed.

  Lemma savorize_eqm fuel c x y : eqm x y -> eqmR (savorize reg fuel c x) (savorize reg fuel c y).
  Proof.
    intros E. unfold savorize.
    assert (G : forall l (a b : result node), eqmR a b -> eqmR (fold_left (apply_hook reg) l a) (fold_left (apply_hook reg) l b)).
    { induction l as [|d l IH]; intros a b H; [exact H|]. cbn [fold_left]. apply IH.
      unfold apply_hook. destruct a as [u|e], b as [v|e']; cbn [eqmR] in H; try contradiction; cbn [bind]; [|exact H].
      destruct (find_cls reg d) as [k|] eqn:Ek; [|exact H].
      destruct (c_savorize k) as [h|] eqn:Es; [|exact H].
      exact (proj2 (Hh k (find_cls_in _ _ _ Ek)) h Es u v H). }
    apply G. exact E.
  Qed.

  Lemma process_items_eqm (proc : node -> result node) : forall l l',
    Forall2 (fun x y => eqmR (proc x) (proc y)) l l' ->
    match process_items proc l, process_items proc l' with
    | Ok r, Ok r' => Forall2 eqm r r' | Err e, Err e' => e = e' | _, _ => False end.
  Proof.
    induction 1 as [|x y r r' Hx _ IH]; cbn [process_items]; [constructor|].
    destruct (proc x) as [x'|e], (proc y) as [y'|e']; cbn [eqmR] in Hx; try contradiction; cbn [bind]; [|exact Hx].
    destruct (process_items proc r) as [r1|e], (process_items proc r') as [r2|e']; try contradiction; cbn [bind]; [|exact IH].
    constructor; assumption.
  Qed.
  Lemma process_pairs_eqm (pk pv : node -> result node) : forall l l',
    Forall2 (fun a b => eqmR (pk (fst a)) (pk (fst b)) /\ eqmR (pv (snd a)) (pv (snd b))) l l' ->
    match process_pairs pk pv l, process_pairs pk pv l' with
    | Ok r, Ok r' => Forall2 eqmp r r' | Err e, Err e' => e = e' | _, _ => False end.
  Proof.
    induction 1 as [|[k v] [k' v'] r r' [Hk Hv] _ IH]; cbn [process_pairs]; [constructor|]. cbn [fst snd] in *.
    destruct (pk k) as [k1|e], (pk k') as [k2|e']; cbn [eqmR] in Hk; try contradiction; cbn [bind]; [|exact Hk].
    destruct (pv v) as [v1|e], (pv v') as [v2|e']; cbn [eqmR] in Hv; try contradiction; cbn [bind]; [|exact Hv].
    destruct (process_pairs pk pv r) as [r1|e], (process_pairs pk pv r') as [r2|e']; try contradiction; cbn [bind]; [|exact IH].
    constructor; [split; assumption | exact IH].
  Qed.
  Lemma process_attrs_eqm (proc : node -> ty -> result node) :
    (forall x y T, eqm x y -> eqmR (proc x T) (proc y T)) ->
    forall params x y, eqm x y -> eqmR (process_attrs proc params x) (process_attrs proc params y).
  Proof.
    intros HP. induction params as [|p rest IH]; intros x y E; cbn [process_attrs]; [exact E|].
    unfold has_attribute, get_attribute. pose proof (pairs_of_eqm x y E) as PO.
    destruct (pairs_of x) as [ps|e], (pairs_of y) as [ps'|e']; try contradiction; cbn [bind]; [|exact PO].
    rewrite <- (has_attr_ps_eqm (p_name p) ps ps' PO). destruct (has_attr_ps (p_name p) ps); [|apply IH, E].
    pose proof (get_attr_ps_eqm (p_name p) ps ps' PO) as G.
    destruct (get_attr_ps (p_name p) ps) as [sub|e], (get_attr_ps (p_name p) ps') as [sub'|e']; cbn [eqmR] in G; try contradiction.
    - cbn [bind]. specialize (HP sub sub' (p_ty p) G).
      destruct (proc sub (p_ty p)) as [s1|e], (proc sub' (p_ty p)) as [s2|e']; cbn [eqmR] in HP; try contradiction; cbn [bind]; [|exact HP].
      pose proof (set_attribute_eqm (p_name p) s1 s2 x y HP E) as SA.
      destruct (set_attribute (p_name p) (PNode s1) x) as [n1|e], (set_attribute (p_name p) (PNode s2) y) as [n2|e'];
        cbn [eqmR] in SA; try contradiction; cbn [bind]; [apply IH, SA | exact SA].
    - subst e'. destruct e; cbn [bind eqmR]; reflexivity.
  Qed.

  Theorem process_eqm : forall fuel x y T, eqm x y -> eqmR (process o reg fuel x T) (process o reg fuel y T).
  Proof.
    induction fuel as [|f IH]; intros x y T E; [reflexivity|]. cbn [process].
    pose proof (proj1 (recognize_eqm (S f)) x y T E) as R.
    destruct (recognize o reg (S f) x T) as [res|e], (recognize o reg (S f) y T) as [res'|e']; cbn [sameT] in R; try contradiction;
      cbn [bind]; [|exact R].
    rewrite R. destruct (fst res') as [|R0 [|R1 l]]; try reflexivity.
    destruct R0 as [ | | | | | | | | |k t|k kt vt|ts|c|c];
      try (destruct (type_to_tag _); [apply eqm_set_tag, E | reflexivity]).
    - (* TAny *) apply strip_tags_eqm, E.
    - (* TList *) destruct E as [tg v m m'|tg l l' m m' H|tg ps ps' m m' H]; try reflexivity.
      destruct (ueqb tg tag_seq); [|reflexivity].
      assert (F : Forall2 (fun a b => eqmR (process o reg f a t) (process o reg f b t)) l l').
      { induction H as [|a b r r' Hab _ IHH]; constructor; [apply IH, Hab | exact IHH]. }
      pose proof (process_items_eqm (fun i => process o reg f i t) l l' F) as PI.
      destruct (process_items _ l) as [r1|e], (process_items _ l') as [r2|e']; try contradiction; cbn [bind eqmR]; [|exact PI].
      constructor. exact PI.
    - (* TDict *) destruct E as [tg v m m'|tg l l' m m' H|tg ps ps' m m' H]; try reflexivity.
      destruct (ueqb tg tag_map); [|reflexivity].
      assert (F : Forall2 (fun a b => eqmR (process o reg f (fst a) kt) (process o reg f (fst b) kt) /\
                                      eqmR (process o reg f (snd a) vt) (process o reg f (snd b) vt)) ps ps').
      { induction H as [|a b r r' [Hk Hv] _ IHH]; constructor; [split; apply IH; assumption | exact IHH]. }
      pose proof (process_pairs_eqm (fun a => process o reg f a kt) (fun a => process o reg f a vt) ps ps' F) as PP.
      destruct (process_pairs _ _ ps) as [r1|e], (process_pairs _ _ ps') as [r2|e']; try contradiction; cbn [bind eqmR]; [|exact PP].
      constructor. exact PP.
    - (* TClass *) destruct (find_cls reg c) as [k|]; [|reflexivity].
      assert (E0 : eqm (match c_shape k, x with
                        | ShEnum _, Scalar tg v m => if ueqb tg tag_bool then Scalar tag_str v m else x | _, _ => x end)
                       (match c_shape k, y with
                        | ShEnum _, Scalar tg v m => if ueqb tg tag_bool then Scalar tag_str v m else y | _, _ => y end)).
      { destruct (c_shape k); try exact E. destruct E; try (constructor; assumption). destruct (ueqb t tag_bool); constructor. }
      pose proof (savorize_eqm FUELK c _ _ E0) as SV.
      match type of SV with eqmR ?A ?B => destruct A as [n1|e], B as [n1'|e'] end; cbn [eqmR] in SV; try contradiction.
      + cbn [bind]. rewrite (eqm_is_mapping _ _ SV).
        destruct (is_objectlike k && is_mapping n1').
        * pose proof (process_attrs_eqm (process o reg f) IH (params_of k) n1 n1' SV) as PA.
          destruct (process_attrs _ _ n1) as [n2|e], (process_attrs _ _ n1') as [n2'|e']; cbn [eqmR] in PA; try contradiction;
            cbn [bind eqmR]; [apply eqm_set_tag, PA | exact PA].
        * cbn [bind eqmR]. apply eqm_set_tag, SV.
      + subst e'. destruct e; cbn [bind eqmR]; reflexivity.
  Qed.
End marks.

(* ---- construction ---- *)
Definition relL (a b : result (list (node * node))) : Prop :=
  match a, b with Ok l, Ok l' => Forall2 eqmp l l' | Err e, Err e' => e = e' | _, _ => False end.

Lemma Forall2_rev' {A B} (R : A -> B -> Prop) l l' : Forall2 R l l' -> Forall2 R (rev l) (rev l').
Proof. induction 1; cbn [rev]; [constructor|]. apply Forall2_app; [assumption | constructor; [assumption | constructor]]. Qed.
Lemma Forall2_concat' {A B} (R : A -> B -> Prop) ll ll' : Forall2 (Forall2 R) ll ll' -> Forall2 R (List.concat ll) (List.concat ll').
Proof. induction 1; cbn [List.concat]; [constructor|]. apply Forall2_app; assumption. Qed.

Lemma flatten_each_eqm (rec : list (node * node) -> result (list (node * node))) :
  (forall l l', Forall2 eqmp l l' -> relL (rec l) (rec l')) ->
  forall xs xs', Forall2 eqm xs xs' ->
  match flatten_each rec xs, flatten_each rec xs' with
  | Ok ll, Ok ll' => Forall2 (Forall2 eqmp) ll ll' | Err e, Err e' => e = e' | _, _ => False end.
Proof.
  intros HR. induction 1 as [|x y r r' Hx _ IH]; cbn [flatten_each]; [constructor|].
  destruct Hx as [t v m m'|t l l' m m' H|t ps ps' m m' H]; try reflexivity.
  specialize (HR ps ps' H). destruct (rec ps) as [s|e], (rec ps') as [s'|e']; cbn [relL] in HR; try contradiction; cbn [bind]; [|exact HR].
  destruct (flatten_each rec r) as [r1|e], (flatten_each rec r') as [r2|e']; try contradiction; cbn [bind]; [|exact IH].
  constructor; assumption.
Qed.
Lemma flatten_go_eqm (rec : list (node * node) -> result (list (node * node))) :
  (forall l l', Forall2 eqmp l l' -> relL (rec l) (rec l')) ->
  forall l l', Forall2 eqmp l l' -> forall merge merge' rest rest', Forall2 eqmp merge merge' -> Forall2 eqmp rest rest' ->
  relL (flatten_go rec l merge rest) (flatten_go rec l' merge' rest').
Proof.
  intros HR. induction 1 as [|[k v] [k' v'] r r' [Hk Hv] _ IH]; intros merge merge' rest rest' HM HRs; cbn [flatten_go relL].
  - apply Forall2_app; assumption.
  - cbn [fst snd] in *. rewrite <- (eqm_tag _ _ Hk). destruct (ueqb (ntag k) tag_merge).
    + destruct Hv as [t s m m'|t l l' m m' H|t ps ps' m m' H]; try reflexivity.
      * pose proof (flatten_each_eqm rec HR l l' H) as FE.
        destruct (flatten_each rec l) as [s1|e], (flatten_each rec l') as [s2|e']; try contradiction; cbn [bind]; [|exact FE].
        apply IH; [|exact HRs]. apply Forall2_app; [exact HM|]. apply Forall2_concat', Forall2_rev', FE.
      * specialize (HR ps ps' H). destruct (rec ps) as [s1|e], (rec ps') as [s2|e']; cbn [relL] in HR; try contradiction; cbn [bind]; [|exact HR].
        apply IH; [|exact HRs]. apply Forall2_app; assumption.
    + destruct (ueqb (ntag k) tag_value).
      * apply IH; [exact HM|]. apply Forall2_app; [exact HRs|]. constructor; [|constructor]. split; [apply eqm_set_tag, Hk | exact Hv].
      * apply IH; [exact HM|]. apply Forall2_app; [exact HRs|]. constructor; [|constructor]. split; assumption.
Qed.
Lemma flatten_eqm : forall fuel ps ps', Forall2 eqmp ps ps' -> relL (flatten fuel ps) (flatten fuel ps').
Proof.
  induction fuel as [|f IH]; intros ps ps' H; [reflexivity|]. cbn [flatten].
  apply flatten_go_eqm; [exact IH | exact H | constructor | constructor].
Qed.

Lemma str_keyed_eqm ps ps' : Forall2 eqmp ps ps' -> str_keyed ps = str_keyed ps'.
Proof.
  unfold str_keyed. induction 1 as [|[k v] [k' v'] r r' [Hk _] _ IH]; [reflexivity|]. cbn [forallb fst]. rewrite IH.
  cbn [fst] in Hk. destruct Hk; reflexivity.
Qed.
Lemma strip_unknown_eqm known ps ps' : Forall2 eqmp ps ps' -> Forall2 eqmp (strip_unknown known ps) (strip_unknown known ps').
Proof.
  unfold strip_unknown. induction 1 as [|[k v] [k' v'] r r' [Hk Hv] _ IH]; cbn [map]; constructor; [|exact IH].
  cbn [fst snd] in *. replace (key_text' k') with (key_text' k) by (destruct Hk; reflexivity).
  destruct (umem (key_text' k) known); split; cbn [fst snd]; try assumption. apply strip_tags_eqm, Hv.
Qed.

Lemma construct_items_eqm (rec : node -> result value) : forall l l', Forall2 (fun x y => rec x = rec y) l l' ->
  construct_items rec l = construct_items rec l'.
Proof. induction 1 as [|x y r r' Hx _ IH]; [reflexivity|]. cbn [construct_items]. rewrite Hx, IH. reflexivity. Qed.
Lemma construct_pairs_eqm (rec : node -> result value) : forall l l',
  Forall2 (fun a b => rec (fst a) = rec (fst b) /\ rec (snd a) = rec (snd b)) l l' ->
  forall acc, construct_pairs rec l acc = construct_pairs rec l' acc.
Proof.
  induction 1 as [|[k v] [k' v'] r r' [Hk Hv] _ IH]; intros acc; [reflexivity|]. cbn [construct_pairs]. cbn [fst snd] in *.
  rewrite Hk, Hv. destruct (rec k') as [kv|]; cbn [bind]; [|reflexivity]. destruct (negb (hashable kv)); [reflexivity|].
  destruct (rec v') as [vv|]; cbn [bind]; [|reflexivity]. apply IH.
Qed.

Section construct.
  Variable o : oracle.
  Variable reg : registry.

  Theorem construct_eqm : forall fuel x y, eqm x y -> construct o reg fuel x = construct o reg fuel y.
  Proof.
    induction fuel as [|f IH]; intros x y E; [reflexivity|]. cbn [construct]. rewrite <- (eqm_tag _ _ E).
    assert (CM : forall ps ps', Forall2 eqmp ps ps' ->
                 construct_map (S f) (construct o reg f) ps = construct_map (S f) (construct o reg f) ps').
    { intros ps ps' H. unfold construct_map. pose proof (flatten_eqm (S f) ps ps' H) as FL.
      destruct (flatten (S f) ps) as [l|e], (flatten (S f) ps') as [l'|e']; cbn [relL] in FL; try contradiction; cbn [bind]; [|subst; reflexivity].
      apply construct_pairs_eqm. induction FL as [|a b r r' [Hk Hv] _ IHF]; constructor; [split; apply IH; assumption | exact IHF]. }
    destruct (class_of_tag reg (ntag x)) as [k|].
    - destruct (c_shape k) as [params extra|ms|].
      + destruct E as [t v m m'|t l l' m m' H|t ps ps' m m' H]; try reflexivity.
        rewrite <- (str_keyed_eqm ps ps' H). destruct (negb (str_keyed ps)); [reflexivity|].
        rewrite (CM _ _ (strip_unknown_eqm (map p_name params) ps ps' H)). reflexivity.
      + destruct E; reflexivity.
      + destruct E; reflexivity.
    - destruct (ueqb (ntag x) tag_path); [destruct E; reflexivity|].
      destruct E as [t v m m'|t l l' m m' H|t ps ps' m m' H]; try reflexivity.
      + destruct (ueqb t tag_seq); [|reflexivity].
        rewrite (construct_items_eqm (construct o reg f) l l'); [reflexivity|].
        induction H as [|a b r r' Hab _ IHH]; constructor; [apply IH, Hab | exact IHH].
      + destruct (ueqb t tag_map); [|reflexivity]. rewrite (CM ps ps' H). reflexivity.
  Qed.

  (* the whole load *)
  Hypothesis Hh : hooks_mark_free reg.
  Theorem load_eqm x y T : eqm x y -> load o reg (Some x) T = load o reg (Some y) T.
  Proof.
    intros E. unfold load. pose proof (process_eqm o reg Hh FUEL x y T E) as P.
    destruct (process o reg FUEL x T) as [n1|e], (process o reg FUEL y T) as [n2|e']; cbn [eqmR] in P; try contradiction; cbn [bind].
    - apply construct_eqm, P.
    - subst. reflexivity.
  Qed.
End construct.

(* ---- which hooks qualify ---- *)
Lemma no_hooks_mark_free reg : (forall k, In k reg -> c_recognize k = None /\ c_savorize k = None) -> hooks_mark_free reg.
Proof. intros H k Hin. destruct (H k Hin) as [A B]. split; intros h E; congruence. Qed.

(* recognisers written with UnknownNode.require_* calls never look at a mark *)
Lemma is_scalar_eqm x y t : eqm x y -> is_scalar x t = is_scalar y t.
Proof. destruct 1; reflexivity. Qed.
Lemma get_value_eqm o x y : eqm x y -> get_value o x = get_value o y.
Proof. destruct 1; reflexivity. Qed.
Lemma sval_eq_node_eqm o v x y : eqm x y -> sval_eq_node o v x = sval_eq_node o v y.
Proof. intros E. unfold sval_eq_node. rewrite (get_value_eqm o x y E). reflexivity. Qed.
Lemma rq_attr_value_eqm o a v : forall ps ps', Forall2 eqmp ps ps' -> forall found, rq_attr_value o a v ps found = rq_attr_value o a v ps' found.
Proof.
  induction 1 as [|[k x] [k' x'] r r' [Hk Hx] _ IH]; intros found; [reflexivity|]. cbn [rq_attr_value]. cbn [fst snd] in *.
  replace (match k' with Scalar t kv _ => ueqb t tag_str && ueqb kv a | _ => false end)
    with (match k with Scalar t kv _ => ueqb t tag_str && ueqb kv a | _ => false end) by (destruct Hk; reflexivity).
  destruct (match k with Scalar t kv _ => ueqb t tag_str && ueqb kv a | _ => false end); [|apply IH].
  rewrite (is_scalar_eqm x x' _ Hx). destruct (is_scalar x' (TyK (kind_of_sval v))) as [b|]; cbn [bind]; [|reflexivity].
  destruct (negb b); [reflexivity|]. rewrite (sval_eq_node_eqm o v x x' Hx).
  destruct (sval_eq_node o v x') as [b0|]; cbn [bind]; [|reflexivity]. destruct b0; [apply IH | reflexivity].
Qed.
Lemma rq_attr_value_not_eqm o a v : forall ps ps', Forall2 eqmp ps ps' -> forall found, rq_attr_value_not o a v ps found = rq_attr_value_not o a v ps' found.
Proof.
  induction 1 as [|[k x] [k' x'] r r' [Hk Hx] _ IH]; intros found; [reflexivity|]. cbn [rq_attr_value_not]. cbn [fst snd] in *.
  replace (match k' with Scalar t kv _ => ueqb t tag_str && ueqb kv a | _ => false end)
    with (match k with Scalar t kv _ => ueqb t tag_str && ueqb kv a | _ => false end) by (destruct Hk; reflexivity).
  destruct (match k with Scalar t kv _ => ueqb t tag_str && ueqb kv a | _ => false end); [|apply IH].
  rewrite (is_scalar_eqm x x' _ Hx). destruct (is_scalar x' (TyK (kind_of_sval v))) as [b|]; cbn [bind]; [|reflexivity].
  destruct (negb b); [reflexivity|]. rewrite (sval_eq_node_eqm o v x x' Hx).
  destruct (sval_eq_node o v x') as [b0|]; cbn [bind]; [|reflexivity]. destruct b0; [reflexivity | apply IH].
Qed.
Lemma require_eqm o r1 r2 x y r : eqm x y -> (forall a b t, eqm a b -> r1 a t = r2 b t) -> require o r1 x r = require o r2 y r.
Proof.
  intros E HR. destruct r as [ts| | |a t|a v|a v]; cbn [require].
  - assert (G : forall l,
               (fix go (l : list styp) : result bool :=
                  match l with [] => Ok false | t :: l' => b <- is_scalar x t ;; if b then Ok true else go l' end) l =
               (fix go (l : list styp) : result bool :=
                  match l with [] => Ok false | t :: l' => b <- is_scalar y t ;; if b then Ok true else go l' end) l).
    { induction l as [|t l IH]; [reflexivity|]. rewrite (is_scalar_eqm x y t E).
      destruct (is_scalar y t) as [b|]; cbn [bind]; [|reflexivity]. destruct b; [reflexivity | exact IH]. }
    destruct ts as [|t0 ts]; [destruct E; reflexivity | apply (G (t0 :: ts))].
  - destruct E; reflexivity.
  - destruct E; reflexivity.
  - destruct E as [t0 s m m'|t0 l l' m m' H|t0 ps ps' m m' H]; try reflexivity.
    pose proof (lookup_all_eqm a ps ps' H) as L. destruct L as [|u w r r' Huw _]; [reflexivity|].
    destruct t as [T|]; [rewrite (HR u w T Huw)|]; reflexivity.
  - destruct E as [t0 s m m'|t0 l l' m m' H|t0 ps ps' m m' H]; try reflexivity. apply rq_attr_value_eqm, H.
  - destruct E as [t0 s m m'|t0 l l' m m' H|t0 ps ps' m m' H]; try reflexivity. apply rq_attr_value_not_eqm, H.
Qed.
Theorem dsl_recogniser_mark_free o prog : hook_rec_ok (fun recog n => run_recognizer o recog prog n).
Proof.
  intros r1 r2 x y E HR. induction prog as [|r rest IH]; [reflexivity|]. cbn [run_recognizer].
  rewrite (require_eqm o r1 r2 x y r E HR), IH. reflexivity.
Qed.
