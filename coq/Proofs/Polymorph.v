(* Polymorphic positions (C03): the candidate set of a class position, how a tag decides among candidates,
   "exactly one or fail", and independence of the order of Union members. *)
From Coq Require Import NArith ZArith List Bool String Lia Permutation.
Import ListNotations.
From Y Require Import Prelude Node Tables NodeOps Types Recognize Loader Spec WellTagged.
Open Scope N_scope.

Local Arguments ueqb : simpl never.
Local Arguments uprefix : simpl never.
Local Arguments class_of_tag : simpl never.

(* ---- the candidate set of a class position and the decision taken on it ---- *)
Section cands.
  Variable o : oracle.
  Variable reg : registry.

  (* candidates: what the registered direct subclasses recognise (recursively: their most-derived matches); only if
     none does, and the class is concrete, the class itself *)
  Definition candidates (f : nat) (n : node) (c : ustring) (k : cls) : result (list ty * list rerr) :=
    subs <- rec_subs (fun d => rec_classes o reg f n d false) (direct_subclasses reg c) [] [] ;;
    if is_nil (fst subs) && negb (c_abstract k) then
      res <- rec_class o (recognize o reg f) k n ;;
      Ok (fst res, if is_nil (fst res) then snd subs ++ [snd res] else snd subs)
    else Ok subs.

  (* the decision: none -> fail; one -> it, unless a non-core tag names something else; several -> only a tag naming one of
     them decides, otherwise all are returned (and process then fails: see process_singleton) *)
  Definition decide (n : node) (top : bool) (own : list ty * list rerr) : RecResult :=
    match fst own with
    | [] => ([], RE (if top || is_nil (snd own) then [nmark n] else []) [] (snd own))
    | [_] =>
        if negb (uprefix core_prefix (ntag n)) then
          match class_of_tag reg (ntag n) with
          | Some kt => if ty_mem (TClass (c_name kt)) (fst own) then (fst own, rec_ok) else ([], RE [nmark n] [] [])
          | None => ([], RE [nmark n] [] [])
          end
        else (fst own, rec_ok)
    | _ =>
        match class_of_tag reg (ntag n) with
        | Some kt => if ty_mem (TClass (c_name kt)) (fst own) then ([TClass (c_name kt)], rec_ok)
                     else (fst own, RE [nmark n] [] [])
        | None => (fst own, RE [nmark n] [] [])
        end
    end.

  Theorem rec_classes_eq f n c top k : find_cls reg c = Some k ->
    rec_classes o reg (S f) n c top = (own <- candidates f n c k ;; Ok (decide n top own)).
  Proof.
    intros Ek.
    change (rec_classes o reg (S f) n c top) with
      (match find_cls reg c with
       | None => Err ERecognition
       | Some k =>
           subs <- rec_subs (fun d => rec_classes o reg f n d false) (direct_subclasses reg c) [] [] ;;
           own <- (if is_nil (fst subs) && negb (c_abstract k) then
                     res <- rec_class o (recognize o reg f) k n ;;
                     Ok (fst res, if is_nil (fst res) then snd subs ++ [snd res] else snd subs)
                   else Ok subs) ;;
           let found := fst own in
           let causes := snd own in
           match found with
           | [] => Ok ([], RE (if top || is_nil causes then [nmark n] else []) [] causes)   (* a leaf always cites the node (fix c13638b) *)
           | [_] =>
               if negb (uprefix core_prefix (ntag n)) then
                 match class_of_tag reg (ntag n) with
                 | Some kt => if ty_mem (TClass (c_name kt)) found then Ok (found, rec_ok)
                              else Ok ([], RE [nmark n] [] [])
                 | None => Ok ([], RE [nmark n] [] [])
                 end
               else Ok (found, rec_ok)
           | _ =>
               match class_of_tag reg (ntag n) with
               | Some kt => if ty_mem (TClass (c_name kt)) found then Ok ([TClass (c_name kt)], rec_ok)
                            else Ok (found, RE [nmark n] [] [])
               | None => Ok (found, RE [nmark n] [] [])
               end
           end
       end).
    rewrite Ek. unfold candidates.
    destruct (rec_subs _ _ _ _) as [subs|e]; cbn [bind]; [|reflexivity].
    destruct (is_nil (fst subs) && negb (c_abstract k)).
    - destruct (rec_class o (recognize o reg f) k n) as [res|e]; cbn [bind]; [|reflexivity].
      unfold decide. cbn [fst snd]. destruct (fst res) as [|x [|y r]]; try reflexivity.
      + destruct (negb (uprefix core_prefix (ntag n))); [|reflexivity].
        destruct (class_of_tag reg (ntag n)); [|reflexivity]. destruct (ty_mem _ _); reflexivity.
      + destruct (class_of_tag reg (ntag n)); [|reflexivity]. destruct (ty_mem _ _); reflexivity.
    - cbn [bind]. unfold decide. destruct (fst subs) as [|x [|y r]]; try reflexivity.
      + destruct (negb (uprefix core_prefix (ntag n))); [|reflexivity].
        destruct (class_of_tag reg (ntag n)); [|reflexivity]. destruct (ty_mem _ _); reflexivity.
      + destruct (class_of_tag reg (ntag n)); [|reflexivity]. destruct (ty_mem _ _); reflexivity.
  Qed.

  (* an abstract class is never a candidate itself; a class whose subclass matched is not considered *)
  Lemma candidates_abstract f n c k own : c_abstract k = true -> candidates f n c k = Ok own ->
    rec_subs (fun d => rec_classes o reg f n d false) (direct_subclasses reg c) [] [] = Ok own.
  Proof.
    intros Ha E. unfold candidates in E. destruct (rec_subs _ _ _ _) as [subs|e]; cbn [bind] in E; [|discriminate E].
    rewrite Ha, andb_false_r in E. exact E.
  Qed.
  Lemma candidates_subclass_wins f n c k own subs : candidates f n c k = Ok own ->
    rec_subs (fun d => rec_classes o reg f n d false) (direct_subclasses reg c) [] [] = Ok subs -> fst subs <> [] ->
    own = subs.
  Proof.
    intros E Es Hne. unfold candidates in E. rewrite Es in E. cbn [bind] in E.
    destruct (fst subs) eqn:Ef; [congruence|]. cbn [is_nil andb] in E. injection E as <-. reflexivity.
  Qed.

  (* tag rules on the decision *)
  Lemma decide_tag_picks n top own kt x y r :
    fst own = x :: y :: r -> class_of_tag reg (ntag n) = Some kt -> In (TClass (c_name kt)) (fst own) ->
    decide n top own = ([TClass (c_name kt)], rec_ok).
  Proof.
    intros Ef Et Hin. unfold decide. rewrite Ef, Et. rewrite <- Ef. rewrite (proj2 (ty_mem_In _ _) Hin). reflexivity.
  Qed.
  Lemma decide_ambiguous n top own x y r :
    fst own = x :: y :: r ->
    (forall kt, class_of_tag reg (ntag n) = Some kt -> ~ In (TClass (c_name kt)) (fst own)) ->
    fst (decide n top own) = fst own.
  Proof.
    intros Ef Hno. unfold decide. rewrite Ef. rewrite <- Ef.
    destruct (class_of_tag reg (ntag n)) as [kt|] eqn:Et; [|reflexivity].
    destruct (ty_mem (TClass (c_name kt)) (fst own)) eqn:Em; [|reflexivity].
    apply ty_mem_In in Em. exfalso. exact (Hno kt eq_refl Em).
  Qed.
  Lemma decide_tag_conflict n top own x :
    fst own = [x] -> uprefix core_prefix (ntag n) = false ->
    (forall kt, class_of_tag reg (ntag n) = Some kt -> TClass (c_name kt) <> x) ->
    fst (decide n top own) = [].
  Proof.
    intros Ef Hp Hno. unfold decide. rewrite Ef, Hp. cbn [negb].
    destruct (class_of_tag reg (ntag n)) as [kt|] eqn:Et; [|reflexivity].
    destruct (ty_mem (TClass (c_name kt)) [x]) eqn:Em; [|reflexivity].
    apply ty_mem_In in Em. destruct Em as [Ex|[]]. exfalso. exact (Hno kt eq_refl (eq_sym Ex)).
  Qed.
  Lemma decide_subset n top own : forall t, In t (fst (decide n top own)) -> In t (fst own).
  Proof.
    intros t. unfold decide. destruct (fst own) as [|x [|y r]] eqn:Ef; cbn [fst]; try tauto.
    - destruct (negb _); [|cbn [fst]; tauto]. destruct (class_of_tag reg (ntag n)); [|cbn [fst In]; tauto].
      destruct (ty_mem _ _); cbn [fst In]; tauto.
    - destruct (class_of_tag reg (ntag n)) as [kt|]; [|cbn [fst]; tauto].
      destruct (ty_mem (TClass (c_name kt)) (x :: y :: r)) eqn:Em; cbn [fst]; [|tauto].
      apply ty_mem_In in Em. intros [<-|[]]. exact Em.
  Qed.

  (* exactly one, or the load fails *)
  Theorem process_singleton f n T n' : process o reg (S f) n T = Ok n' ->
    exists R e, recognize o reg (S f) n T = Ok ([R], e).
  Proof.
    intros E. cbn [process] in E. destruct (recognize o reg (S f) n T) as [[tys e]|x]; cbn [bind fst] in E; [|discriminate E].
    destruct tys as [|R [|R2 r]]; try discriminate E. exists R, e. reflexivity.
  Qed.
  Theorem process_ambiguous_fails f n T tys e : recognize o reg (S f) n T = Ok (tys, e) -> List.length tys <> 1%nat ->
    process o reg (S f) n T = Err ERecognition.
  Proof.
    intros E Hl. cbn [process]. rewrite E. cbn [bind fst]. destruct tys as [|R [|R2 r]]; try reflexivity.
    exfalso. apply Hl. reflexivity.
  Qed.
End cands.

(* ---- order of Union members ---- *)
Lemma ty_add_In t x l : In t (ty_add x l) <-> t = x \/ In t l.
Proof.
  unfold ty_add. destruct (ty_mem x l) eqn:E.
  - apply ty_mem_In in E. split; [tauto|]. intros [->|H]; assumption.
  - rewrite in_app_iff. cbn [In]. intuition congruence.
Qed.
Lemma ty_union_In t a b : In t (ty_union a b) <-> In t a \/ In t b.
Proof.
  unfold ty_union. revert a. induction b as [|x b IH]; intros a; cbn [fold_left].
  - cbn [In]. tauto.
  - rewrite IH, ty_add_In. cbn [In]. intuition congruence.
Qed.
Lemma NoDup_snoc {A} (x : A) l : NoDup l -> ~ In x l -> NoDup (l ++ [x]).
Proof.
  induction l as [|y l IH]; intros H Hn; cbn [app]; [constructor; [intros []|constructor]|].
  inversion H as [|? ? Hy Hl]; subst. constructor.
  - rewrite in_app_iff. cbn [In]. intros [H1|[H1|[]]]; [exact (Hy H1)|]. subst. apply Hn. left. reflexivity.
  - apply IH; [exact Hl|]. intros H1. apply Hn. right. exact H1.
Qed.
Lemma ty_add_NoDup x l : NoDup l -> NoDup (ty_add x l).
Proof.
  intros H. unfold ty_add. destruct (ty_mem x l) eqn:E; [exact H|].
  apply NoDup_snoc; [exact H|]. intros Hin. apply ty_mem_In in Hin. congruence.
Qed.
Lemma ty_union_NoDup a b : NoDup a -> NoDup (ty_union a b).
Proof.
  unfold ty_union. revert a. induction b as [|x b IH]; intros a H; cbn [fold_left]; [exact H|].
  apply IH, ty_add_NoDup, H.
Qed.

Section union.
  Variable rec : ty -> result RecResult.

  Lemma rec_members_spec : forall ts acc causes r, rec_members rec ts acc causes = Ok r ->
    (forall m, In m ts -> exists res, rec m = Ok res) /\
    (forall t, In t (fst r) <-> In t acc \/ exists m res, In m ts /\ rec m = Ok res /\ In t (fst res)) /\
    (NoDup acc -> NoDup (fst r)).
  Proof.
    induction ts as [|m ts IH]; intros acc causes r E; cbn [rec_members] in E.
    - injection E as <-. cbn [fst]. split; [intros m []|]. split; [|tauto].
      intros t. split; [tauto|]. intros [H|(m & res & [] & _)]. exact H.
    - destruct (rec m) as [res|e] eqn:Em; cbn [bind] in E; [|discriminate E].
      destruct (IH _ _ _ E) as (H1 & H2 & H3). split; [|split].
      + intros m' [<-|Hin]; [eauto | apply H1, Hin].
      + intros t. rewrite H2, ty_union_In. split.
        * intros [[H|H]|(m' & res' & Hin & Er & Ht)]; [tauto | right; exists m, res; cbn [In]; tauto |
                                                             right; exists m', res'; cbn [In]; tauto].
        * intros [H|(m' & res' & [<-|Hin] & Er & Ht)]; [tauto | rewrite Em in Er; injection Er as <-; tauto |
                                                             right; exists m', res'; tauto].
      + intros Hnd. apply H3, ty_union_NoDup, Hnd.
  Qed.

  Lemma rec_members_total : forall ts acc causes, (forall m, In m ts -> exists res, rec m = Ok res) ->
    exists r, rec_members rec ts acc causes = Ok r.
  Proof.
    induction ts as [|m ts IH]; intros acc causes H; cbn [rec_members]; [eauto|].
    destruct (H m (or_introl eq_refl)) as (res & Er). rewrite Er. cbn [bind]. apply IH. intros m' Hin. apply H. right. exact Hin.
  Qed.

  (* the members recognised by a Union do not depend on the order in which the members are written: same set, and
     (both lists being duplicate-free) the same number -- in particular "exactly one" is order-independent *)
  Theorem rec_members_perm ts ts' r : Permutation ts ts' -> rec_members rec ts [] [] = Ok r ->
    exists r', rec_members rec ts' [] [] = Ok r' /\ (forall t, In t (fst r) <-> In t (fst r')) /\
               NoDup (fst r) /\ NoDup (fst r') /\ List.length (fst r) = List.length (fst r').
  Proof.
    intros HP E. destruct (rec_members_spec _ _ _ _ E) as (H1 & H2 & H3).
    destruct (rec_members_total ts' [] []) as (r' & E').
    { intros m Hin. apply H1. eapply Permutation_in; [apply Permutation_sym; exact HP | exact Hin]. }
    destruct (rec_members_spec _ _ _ _ E') as (H1' & H2' & H3').
    assert (EQ : forall t, In t (fst r) <-> In t (fst r')).
    { intros t. rewrite H2, H2'. split; intros [[]|(m & res & Hin & Er & Ht)]; right; exists m, res; repeat split; try assumption.
      - eapply Permutation_in; eassumption.
      - eapply Permutation_in; [apply Permutation_sym; exact HP | exact Hin]. }
    exists r'. split; [exact E'|]. split; [exact EQ|]. split; [apply H3; constructor|]. split; [apply H3'; constructor|].
    apply Nat.le_antisymm; apply NoDup_incl_length; try (apply H3; constructor); try (apply H3'; constructor);
      intros t Ht; apply EQ; exact Ht.
  Qed.
End union.

(* the whole Union step: same recognised set under any order of the members, and the same single member when there is one *)
Lemma ty_mem_ext t a b : (forall x, In x a <-> In x b) -> ty_mem t a = ty_mem t b.
Proof.
  intros H. destruct (ty_mem t a) eqn:Ea; destruct (ty_mem t b) eqn:Eb; try reflexivity.
  - apply ty_mem_In, H, ty_mem_In in Ea. congruence.
  - apply ty_mem_In, H, ty_mem_In in Eb. congruence.
Qed.
Lemma same_set_singleton (a b : list ty) t : (forall x, In x a <-> In x b) -> NoDup b -> a = [t] -> b = [t].
Proof.
  intros H Hnd ->. destruct b as [|y [|z r]].
  - exfalso. apply (H t). left. reflexivity.
  - assert (In y [t]) as [<-|[]] by (apply H; left; reflexivity). reflexivity.
  - exfalso. assert (Hy : In y [t]) by (apply H; left; reflexivity). assert (Hz : In z [t]) by (apply H; right; left; reflexivity).
    destruct Hy as [<-|[]]. destruct Hz as [<-|[]]. inversion Hnd as [|? ? Hn _]. apply Hn. left. reflexivity.
Qed.
Definition bfix (l : list ty) : list ty := if ty_mem TBool l && ty_mem TBoolFix l then ty_remove TBoolFix l else l.
Lemma rec_union_eq rec ts m :
  rec_union rec ts m = (r <- rec_members rec ts [] [] ;;
                        match bfix (fst r) with
                        | [] => Ok (bfix (fst r), RE [m] [] (snd r))
                        | [_] => Ok (bfix (fst r), rec_ok)
                        | _ => Ok (bfix (fst r), RE [m] [] [])
                        end).
Proof. reflexivity. Qed.
Theorem rec_union_perm rec ts ts' m tys e : Permutation ts ts' -> rec_union rec ts m = Ok (tys, e) ->
  exists tys' e', rec_union rec ts' m = Ok (tys', e') /\ (forall t, In t tys <-> In t tys') /\
                  (forall t, tys = [t] -> tys' = [t]).
Proof.
  intros HP E. rewrite rec_union_eq in *. destruct (rec_members rec ts [] []) as [r|x] eqn:Er; cbn [bind] in E; [|discriminate E].
  destruct (rec_members_perm rec ts ts' r HP Er) as (r' & Er' & EQ & Hnd & Hnd' & _).
  rewrite Er'. cbn [bind].
  assert (EQF : forall t, In t (bfix (fst r)) <-> In t (bfix (fst r'))).
  { intros t. unfold bfix. rewrite (ty_mem_ext TBool _ _ EQ), (ty_mem_ext TBoolFix _ _ EQ).
    destruct (ty_mem TBool (fst r') && ty_mem TBoolFix (fst r')); [|apply EQ].
    unfold ty_remove. rewrite !filter_In, EQ. tauto. }
  assert (NDF : NoDup (bfix (fst r'))).
  { unfold bfix. destruct (ty_mem TBool (fst r') && ty_mem TBoolFix (fst r')); [apply NoDup_filter|]; exact Hnd'. }
  assert (T : tys = bfix (fst r)).
  { destruct (bfix (fst r)) as [|a [|b l]]; injection E as <- _; reflexivity. }
  subst tys.
  exists (bfix (fst r')).
  assert (S1 : forall t, bfix (fst r) = [t] -> bfix (fst r') = [t]).
  { intros t Ht. eapply same_set_singleton; [exact EQF | exact NDF | exact Ht]. }
  destruct (bfix (fst r')) as [|a [|b l]]; eexists; (split; [reflexivity|]); (split; [exact EQF | exact S1]).
Qed.
