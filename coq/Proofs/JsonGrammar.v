(* C07: the rendered text is RFC 8259 JSON denoting the tree's JSON projection;
   the default rendering is compact and ASCII-only. *)
From Coq Require Import NArith ZArith List Bool String Lia.
Import ListNotations.
From Y Require Import Prelude Node Re JsonEmit Json JsonProofs.
Open Scope N_scope.

(* ---------------------------------------------------------------- strings *)
Lemma str_body_app a s b t : str_body a s -> str_body b t -> str_body (a ++ b) (s ++ t).
Proof.
  induction 1 as [|c r s H1 H2 H3 H IH|e c r s He H IH|n r s Hn H IH|hi lo r s Hh Hl H IH]; intros Hb; cbn [app].
  - exact Hb.
  - apply sb_raw; auto.
  - apply sb_esc; auto.
  - rewrite <- app_assoc. apply sb_u; auto.
  - rewrite <- !app_assoc. apply sb_pair; auto.
Qed.

Lemma escape_char_body ascii c : c < 1114112 -> str_body (json_escape_char ascii c) [c].
Proof.
  intros Hc. unfold json_escape_char.
  destruct (N.eqb_spec c 34) as [->|N34]; [apply (sb_esc 34 34); [left; auto | constructor]|].
  destruct (N.eqb_spec c 92) as [->|N92]; [apply (sb_esc 92 92); [right; left; auto | constructor]|].
  destruct (N.eqb_spec c 10) as [->|N10]; [apply (sb_esc 110 10); [unfold simple_escape; tauto | constructor]|].
  destruct (N.eqb_spec c 13) as [->|N13]; [apply (sb_esc 114 13); [unfold simple_escape; tauto | constructor]|].
  destruct (N.eqb_spec c 9) as [->|N9]; [apply (sb_esc 116 9); [unfold simple_escape; tauto | constructor]|].
  destruct (N.eqb_spec c 8) as [->|N8]; [apply (sb_esc 98 8); [unfold simple_escape; tauto | constructor]|].
  destruct (N.eqb_spec c 12) as [->|N12]; [apply (sb_esc 102 12); [unfold simple_escape; tauto | constructor]|].
  destruct (N.ltb_spec c 32) as [L32|G32].
  - rewrite <- (app_nil_r (uesc c)). apply sb_u; [lia | constructor].
  - destruct (ascii && (126 <? c)) eqn:Ea.
    + destruct (N.ltb_spec c 65536) as [Lb|Gb].
      * rewrite <- (app_nil_r (uesc c)). apply sb_u; [lia | constructor].
      * set (v := c - 65536).
        assert (Hcv : c = 65536 + v) by (unfold v; lia).
        assert (Hv : v < 1048576) by (unfold v; lia).
        clearbody v.
        assert (Hd : N.shiftr v 10 = v / 1024) by (rewrite N.shiftr_div_pow2; reflexivity).
        assert (Hq : v / 1024 < 1024) by (apply N.div_lt_upper_bound; lia).
        assert (Hm : v mod 1024 < 1024) by (apply N.mod_lt; lia).
        assert (Hdm : v = 1024 * (v / 1024) + v mod 1024) by (apply N.div_mod; lia).
        assert (Hsum : c = 65536 + (55296 + N.shiftr v 10 - 55296) * 1024 + (56320 + v mod 1024 - 56320)).
        { rewrite Hd. generalize dependent (v / 1024). generalize dependent (v mod 1024). intros. lia. }
        rewrite Hsum at 1. rewrite <- (app_nil_r (uesc (56320 + v mod 1024))). rewrite app_assoc.
        rewrite <- app_assoc. apply sb_pair; [rewrite Hd; lia | lia | constructor].
    + apply sb_raw; [lia | exact N34 | exact N92 | constructor].
Qed.

Theorem json_string_is_strlit ascii s : valid_str s -> json_strlit (json_string ascii s) s.
Proof.
  intros Hv. unfold json_strlit, json_string. eexists. split; [reflexivity|].
  induction Hv as [|c s Hc Hs IH]; cbn [flat_map]; [constructor|].
  change (c :: s) with ([c] ++ s). apply str_body_app; [apply escape_char_body; exact Hc | exact IH].
Qed.

(* ---------------------------------------------------------------- whitespace *)
Lemma ws_nil : ws []. Proof. constructor. Qed.
Lemma ws_app a b : ws a -> ws b -> ws (a ++ b). Proof. intros; apply Forall_app; split; assumption. Qed.
Lemma ws_endl o n : ws (endl o n).
Proof.
  unfold endl. destruct (jo_indent o); [|constructor]. constructor; [right; left; reflexivity|].
  unfold spaces. induction n; cbn [repeat]; constructor; [left; reflexivity | assumption].
Qed.
Lemma kv_sep_shape o : exists w, kv_sep o = [58] ++ w /\ ws w.
Proof.
  unfold kv_sep. destruct (jo_indent o); [exists [32] | exists []]; split; try reflexivity; repeat constructor.
Qed.

(* ---------------------------------------------------------------- the grammar *)
Lemma tree_ok_seq l : tree_ok (JSeq l) <-> Forall tree_ok l.
Proof.
  cbn [tree_ok]. induction l as [|x r IH].
  - split; intros; [constructor | exact I].
  - split.
    + intros [Hx Hr]. constructor; [exact Hx | apply IH; exact Hr].
    + intros H; inversion H; subst. split; [assumption | apply IH; assumption].
Qed.
Lemma tree_ok_map l : tree_ok (JMap l) <->
  Forall (fun kv => (exists k, fst kv = JScalar tag_str k /\ valid_str k) /\ tree_ok (snd kv)) l.
Proof.
  cbn [tree_ok]. induction l as [|x r IH].
  - split; intros; [constructor | exact I].
  - split.
    + intros [Hx Hr]. constructor; [exact Hx | apply IH; exact Hr].
    + intros H; inversion H; subst. split; [assumption | apply IH; assumption].
Qed.

Lemma scalar_is_json o t v : tree_ok (JScalar t v) -> is_json (scalar_text o t v) (jproj (JScalar t v)).
Proof.
  cbn [tree_ok jproj]. unfold scalar_text.
  destruct (ueqb_spec t tag_str) as [->|N1].
  - cbn [orb]. intros H. apply ij_str. apply json_string_is_strlit. exact H.
  - cbn [orb]. destruct (ueqb_spec t tag_timestamp) as [->|N4].
    + intros H. assert (E1 : ueqb tag_timestamp tag_null = false) by (vm_compute; reflexivity).
      assert (E2 : ueqb tag_timestamp tag_bool = false) by (vm_compute; reflexivity).
      rewrite E1, E2. apply ij_str. apply json_string_is_strlit. exact H.
    + destruct (ueqb_spec t tag_null) as [->|N2]; [intros _; apply ij_null|].
      destruct (ueqb_spec t tag_bool) as [->|N3].
      * intros [H|H].
        -- rewrite H. unfold is_true_text in H. apply ueqb_eq in H. rewrite H. apply ij_true.
        -- assert (Hf : is_true_text v = false).
           { unfold is_true_text, is_false_text in *. apply ueqb_eq in H. rewrite H. vm_compute. reflexivity. }
           rewrite Hf. unfold is_false_text in H. apply ueqb_eq in H. rewrite H. apply ij_false.
      * intros H. apply ij_num. exact H.
Qed.

Lemma elems_join (P : jtree -> ustring) (Q : jtree -> jval) w1 w2 : ws w1 -> ws w2 ->
  forall x l, Forall (fun j => is_json (P j) (Q j)) (x :: l) ->
  is_elems (w1 ++ join (44 :: w1) (map P (x :: l)) ++ w2) (map Q (x :: l)).
Proof.
  intros H1 H2 x l. revert x. induction l as [|y r IH]; intros x H; inversion H as [|? ? Hx Hr]; subst.
  - cbn [map join]. apply ie_one; assumption.
  - change (map P (x :: y :: r)) with (P x :: map P (y :: r)).
    change (join (44 :: w1) (P x :: map P (y :: r))) with (P x ++ (44 :: w1) ++ join (44 :: w1) (map P (y :: r))).
    change (map Q (x :: y :: r)) with (Q x :: map Q (y :: r)).
    replace (w1 ++ (P x ++ (44 :: w1) ++ join (44 :: w1) (map P (y :: r))) ++ w2)
      with (w1 ++ P x ++ [] ++ [44] ++ (w1 ++ join (44 :: w1) (map P (y :: r)) ++ w2))
      by (cbn [app]; repeat (rewrite <- app_assoc || rewrite <- app_comm_cons); cbn [app]; reflexivity).
    apply ie_cons; [exact H1 | exact Hx | apply ws_nil | apply IH; exact Hr].
Qed.

Lemma members_join o ind w1 w2 : ws w1 -> ws w2 ->
  forall x l,
    Forall (fun kv => (exists k, fst kv = JScalar tag_str k /\ valid_str k) /\
                      is_json (render o ind (snd kv)) (jproj (snd kv))) (x :: l) ->
  is_members (w1 ++ join (44 :: w1) (map (pair_text o ind) (x :: l)) ++ w2)
             (map (fun kv => (match fst kv with JScalar _ k => k | _ => [] end, jproj (snd kv))) (x :: l)).
Proof.
  intros H1 H2 x l. destruct (kv_sep_shape o) as (w3 & Hsep & Hw3).
  assert (Hpair : forall kv, (exists k, fst kv = JScalar tag_str k /\ valid_str k) ->
                             exists klit k, fst kv = JScalar tag_str k /\ json_strlit klit k /\
                                            pair_text o ind kv = klit ++ [] ++ [58] ++ w3 ++ render o ind (snd kv)).
  { intros [kj vj] (k & Hk & Hv). cbn [fst snd] in *. subst kj. exists (json_string (jo_ascii o) k), k.
    split; [reflexivity|]. split; [apply json_string_is_strlit; exact Hv|].
    unfold pair_text. cbn [fst snd render]. unfold scalar_text. rewrite ueqb_refl, Hsep. cbn [app]. reflexivity. }
  revert x. induction l as [|y r IH]; intros x H; inversion H as [|? ? [Hkx Hx] Hr]; subst.
  - cbn [map join]. destruct (Hpair x Hkx) as (klit & k & Ek & Hl & Et). rewrite Et, Ek.
    replace (w1 ++ (klit ++ [] ++ [58] ++ w3 ++ render o ind (snd x)) ++ w2)
      with (w1 ++ klit ++ [] ++ [58] ++ w3 ++ render o ind (snd x) ++ w2) by (cbn [app]; repeat (rewrite <- app_assoc || rewrite <- app_comm_cons); cbn [app]; reflexivity).
    apply im_one; auto using ws_nil.
  - change (map (pair_text o ind) (x :: y :: r)) with (pair_text o ind x :: map (pair_text o ind) (y :: r)).
    change (join (44 :: w1) (pair_text o ind x :: map (pair_text o ind) (y :: r)))
      with (pair_text o ind x ++ (44 :: w1) ++ join (44 :: w1) (map (pair_text o ind) (y :: r))).
    cbn [map]. destruct (Hpair x Hkx) as (klit & k & Ek & Hl & Et). rewrite Et, Ek.
    match goal with |- is_members ?t _ =>
      replace t with (w1 ++ klit ++ [] ++ [58] ++ w3 ++ render o ind (snd x) ++ [] ++ [44]
                        ++ (w1 ++ join (44 :: w1) (map (pair_text o ind) (y :: r)) ++ w2))
        by (cbn [app]; repeat (rewrite <- app_assoc || rewrite <- app_comm_cons); cbn [app]; reflexivity) end.
    apply im_cons; auto using ws_nil. apply IH. exact Hr.
Qed.

Theorem render_is_json o : forall j, tree_ok j -> forall ind, is_json (render o ind j) (jproj j).
Proof.
  induction j using jtree_ind2; intros Hok ind.
  - apply scalar_is_json. exact Hok.
  - apply tree_ok_seq in Hok. cbn [render jproj].
    destruct l as [|x l].
    + cbn [map join]. replace ([91] ++ endl o (ind + best_indent o) ++ [] ++ endl o ind ++ [93])
        with ([91] ++ (endl o (ind + best_indent o) ++ endl o ind) ++ [93]) by (cbn [app]; repeat (rewrite <- app_assoc || rewrite <- app_comm_cons); cbn [app]; reflexivity).
      apply ij_arr0. apply ws_app; apply ws_endl.
    + replace ([91] ++ endl o (ind + best_indent o) ++ join (44 :: endl o (ind + best_indent o)) (map (render o (ind + best_indent o)) (x :: l)) ++ endl o ind ++ [93])
        with ([91] ++ (endl o (ind + best_indent o) ++ join (44 :: endl o (ind + best_indent o)) (map (render o (ind + best_indent o)) (x :: l)) ++ endl o ind) ++ [93])
        by (cbn [app]; repeat (rewrite <- app_assoc || rewrite <- app_comm_cons); cbn [app]; reflexivity).
      apply ij_arr. apply (elems_join (render o (ind + best_indent o)) jproj); try apply ws_endl.
      rewrite Forall_forall in *. intros y Hy. apply H; [exact Hy | apply Hok; exact Hy].
  - apply tree_ok_map in Hok. cbn [render jproj].
    destruct l as [|x l].
    + cbn [map join]. replace ([123] ++ endl o (ind + best_indent o) ++ [] ++ endl o ind ++ [125])
        with ([123] ++ (endl o (ind + best_indent o) ++ endl o ind) ++ [125]) by (cbn [app]; repeat (rewrite <- app_assoc || rewrite <- app_comm_cons); cbn [app]; reflexivity).
      apply ij_obj0. apply ws_app; apply ws_endl.
    + match goal with |- is_json ([123] ++ ?a ++ ?b ++ ?c ++ [125]) _ =>
        replace ([123] ++ a ++ b ++ c ++ [125]) with ([123] ++ (a ++ b ++ c) ++ [125]) by (cbn [app]; repeat (rewrite <- app_assoc || rewrite <- app_comm_cons); cbn [app]; reflexivity) end.
      apply ij_obj. apply (members_join o (ind + best_indent o)); try apply ws_endl.
      rewrite Forall_forall in *. intros kv Hkv. destruct (Hok kv Hkv) as [Hk Hv]. split; [exact Hk|].
      apply (proj2 (H kv Hkv)). exact Hv.
Qed.

Theorem dumps_json_is_json o j : tree_ok j ->
  exists text, dumps_json o j = Some text /\ json_text text (jproj j).
Proof.
  intros Hok. exists (render_doc o j). split; [apply emit_is_render|].
  unfold render_doc, json_text. exists [], (render o 0 j), (endl o 0).
  split; [reflexivity|]. split; [apply ws_nil|]. split; [apply render_is_json; exact Hok | apply ws_endl].
Qed.

(* ---------------------------------------------------------------- compact, ASCII-only default *)
Fixpoint crender (ascii : bool) (j : jtree) : ustring :=
  match j with
  | JScalar t v => scalar_text {| jo_indent := None; jo_ascii := ascii |} t v
  | JSeq l => [91] ++ join [44] (map (crender ascii) l) ++ [93]
  | JMap l => [123] ++ join [44] (map (fun kv => crender ascii (fst kv) ++ [58] ++ crender ascii (snd kv)) l) ++ [125]
  end.

Theorem default_render_is_compact ascii : forall j ind,
  render {| jo_indent := None; jo_ascii := ascii |} ind j = crender ascii j.
Proof.
  induction j using jtree_ind2; intros ind; cbn [render crender endl jo_indent kv_sep app].
  - reflexivity.
  - f_equal. f_equal. f_equal. apply map_ext_in. intros x Hx. rewrite Forall_forall in H. apply H. exact Hx.
  - f_equal. f_equal. f_equal. apply map_ext_in. intros kv Hkv. rewrite Forall_forall in H. destruct (H kv Hkv) as [A B].
    rewrite A, B. reflexivity.
Qed.

Definition ascii_only (s : ustring) : Prop := Forall (fun c => c < 128) s.

Lemma hexdigit_ascii d : d < 16 -> hexdigit d < 128.
Proof. intros H. unfold hexdigit. destruct (N.ltb_spec d 10); lia. Qed.
Lemma uesc_ascii n : ascii_only (uesc n).
Proof.
  unfold uesc, hex4, ascii_only. repeat constructor; try lia; apply hexdigit_ascii; apply N.mod_lt; lia.
Qed.
Lemma escape_char_ascii c : ascii_only (json_escape_char true c).
Proof.
  unfold json_escape_char.
  repeat match goal with |- context [if N.eqb c ?k then _ else _] => destruct (N.eqb c k); [repeat constructor; lia|] end.
  destruct (N.ltb c 32); [apply uesc_ascii|]. cbn [andb].
  destruct (N.ltb_spec 126 c).
  - destruct (N.ltb c 65536); [apply uesc_ascii | apply Forall_app; split; apply uesc_ascii].
  - repeat constructor. lia.
Qed.
Theorem json_string_ascii s : ascii_only (json_string true s).
Proof.
  unfold json_string, ascii_only. constructor; [lia|]. apply Forall_app. split; [|repeat constructor; lia].
  induction s as [|c s IH]; cbn [flat_map]; [constructor|]. apply Forall_app. split; [apply escape_char_ascii | exact IH].
Qed.
