(* C02: the constructor's own type check (isinstance-based, on constructed values) never rejects a value that
   conforms to the declared type -- the third verdict of the pipeline agrees with the first two.  (C01 proves that
   what processing + construction produce for an attribute conforms to its declared type.) *)
From Coq Require Import NArith ZArith List Bool String Lia.
Import ListNotations.
From Y Require Import Prelude Node Tables NodeOps Types Recognize Loader Hooks LoadRun Spec.
Open Scope N_scope.

Local Arguments ueqb : simpl never.

Section verdict.
  Variable reg : registry.

  (* Python's view of subclassing (c_ancestors: the MRO) contains the registered-bases chain the recogniser follows *)
  Definition ancestors_ok : Prop :=
    (forall d k, find_cls reg d = Some k -> In d (c_ancestors k)) /\
    (forall d k m km, find_cls reg d = Some k -> In m (c_bases k) -> find_cls reg m = Some km ->
                      incl (c_ancestors km) (c_ancestors k)).
  Hypothesis Hanc : ancestors_ok.

  Lemma rsub_instance d c : rsub reg d c -> is_instance reg d c = true.
  Proof.
    induction 1 as [c Hc|d m c k Fk Hm Hr IH].
    - unfold is_instance. unfold registered in Hc. destruct (find_cls reg c) as [k|] eqn:Fk; [|discriminate Hc].
      apply umem_In. exact (proj1 Hanc c k Fk).
    - unfold is_instance in *. rewrite Fk. destruct (find_cls reg m) as [km|] eqn:Fm; [|discriminate IH].
      apply umem_In. apply (proj2 Hanc d k m km Fk Hm Fm). apply umem_In. exact IH.
  Qed.

  (* dict key types are str (dicts keyed by a string-like class are outside this lemma) *)
  Fixpoint keys_wf (T : ty) : Prop :=
    match T with
    | TList _ t => keys_wf t
    | TDict _ kt vt => kt = TStr /\ keys_wf vt
    | TUnion ts => (fix all (l : list ty) : Prop := match l with [] => True | t :: r => keys_wf t /\ all r end) ts
    | _ => True
    end.

  Theorem conforms_type_matches : forall T v, keys_wf T -> conforms reg v T -> type_matches reg v T = true.
  Proof.
    induction T as [ | | | | | | | | |k t IH|k kt IHk vt IHv|ts IH|c|c] using ty_ind2; intros v HW HC;
      try (inversion HC; subst; reflexivity).
    - (* TList *) inversion HC as [ | | | | | | | | | |k' t' l HF| | | | | ]; subst. cbn [type_matches].
      apply forallb_forall. intros x Hx. apply IH; [exact HW|]. rewrite Forall_forall in HF. apply HF, Hx.
    - (* TDict *) inversion HC as [ | | | | | | | | | | |k' kt' vt' l HF| | | | ]; subst. cbn [type_matches].
      cbn [keys_wf] in HW. destruct HW as [HK HV].
      apply forallb_forall. intros [a b] Hin. rewrite Forall_forall in HF. destruct (HF _ Hin) as [Ca Cb]. cbn [fst snd] in *.
      rewrite (IHv b HV Cb), andb_true_r.
      subst kt. inversion Ca; subst; reflexivity.
    - (* TUnion *) inversion HC as [ | | | | | | | | | | | |ts' t v' Hin Ct| | | ]; subst. cbn [type_matches].
      clear HC. induction IH as [|t0 r Ht _ IHr]; [destruct Hin|].
      cbn [keys_wf] in HW. destruct HW as [W0 Wr]. destruct Hin as [->|Hin].
      + rewrite (Ht v W0 Ct). reflexivity.
      + rewrite (IHr Wr Hin). apply orb_true_r.
    - (* TClass *) inversion HC; subst; cbn [type_matches]; apply rsub_instance; assumption.
  Qed.
End verdict.

(* the hypothesis is decidable; the tie evaluates it on every generated registry *)
Lemma find_cls_In' reg c k : find_cls reg c = Some k -> In k reg /\ c_name k = c.
Proof.
  induction reg as [|k0 r IH]; [discriminate|]. cbn [find_cls].
  destruct (ueqb_spec (c_name k0) c) as [E|_].
  - intros H. injection H as <-. split; [left; reflexivity | exact E].
  - intros H. destruct (IH H). split; [right|]; assumption.
Qed.
Theorem ancestors_okb_sound reg : ancestors_okb reg = true -> ancestors_ok reg.
Proof.
  unfold ancestors_okb. rewrite forallb_forall. intros H. split.
  - intros d k Fk. destruct (find_cls_In' _ _ _ Fk) as [Hin <-]. specialize (H k Hin).
    apply andb_true_iff in H. apply umem_In, (proj1 H).
  - intros d k m km Fk Hm Fm a Ha. destruct (find_cls_In' _ _ _ Fk) as [Hin _]. specialize (H k Hin).
    apply andb_true_iff in H. destruct H as [_ H]. rewrite forallb_forall in H. specialize (H m Hm). rewrite Fm in H.
    rewrite forallb_forall in H. apply umem_In, H, Ha.
Qed.
