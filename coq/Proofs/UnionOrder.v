(* C03/C13: the order of the members of the declared Union does not matter for the whole load. *)
From Coq Require Import NArith ZArith List Bool String Lia Permutation.
Import ListNotations.
From Y Require Import Prelude Node Tables NodeOps Types Recognize Loader Polymorph.
Open Scope N_scope.

Local Arguments ueqb : simpl never.

Section uo.
  Variable o : oracle.
  Variable reg : registry.

  Lemma process_union_perm f n ts ts' n' : Permutation ts ts' ->
    process o reg (S f) n (TUnion ts) = Ok n' -> process o reg (S f) n (TUnion ts') = Ok n'.
  Proof.
    intros HP E. cbn [process] in *.
    destruct (recognize o reg (S f) n (TUnion ts)) as [[tys e]|x] eqn:Er; cbn [bind] in E; [|discriminate E].
    cbn [recognize] in Er |- *.
    destruct (rec_union_perm _ ts ts' (nmark n) tys e HP Er) as (tys' & e' & Er' & _ & S1).
    rewrite Er'. cbn [bind fst] in *.
    destruct tys as [|R [|R2 l]]; try discriminate E.
    rewrite (S1 R eq_refl). exact E.
  Qed.

  Theorem load_union_perm doc ts ts' v : Permutation ts ts' ->
    (load o reg doc (TUnion ts) = Ok v <-> load o reg doc (TUnion ts') = Ok v).
  Proof.
    intros HP.
    assert (G : forall a b, Permutation a b -> load o reg doc (TUnion a) = Ok v -> load o reg doc (TUnion b) = Ok v).
    { intros a b Hab E. unfold load in *. assert (FU : exists g0, FUEL = S g0) by (exists 199%nat; reflexivity).
      destruct FU as (g0 & HF). revert E. generalize (construct o reg FUEL). rewrite HF. intros cons E.
      destruct doc as [n|].
      - destruct (process o reg (S g0) n (TUnion a)) as [n'|x] eqn:Ep; cbn [bind] in E; [|discriminate E].
        rewrite (process_union_perm g0 n a b n' Hab Ep). exact E.
      - destruct (process o reg (S g0) (Scalar tag_null [] nomark) (TUnion a)) as [n'|x] eqn:Ep; cbn [bind] in E; [|discriminate E].
        rewrite (process_union_perm g0 _ a b n' Hab Ep). exact E. }
    split; apply G; [exact HP | apply Permutation_sym, HP].
  Qed.
End uo.

(* ---- C13 at load level: Dict/Mapping/MutableMapping interchanged; bool_union_fix added to the declared Union ---- *)
From Y Require Import Invariance.
Section c13load.
  Variable o : oracle.
  Variable reg : registry.

  Theorem load_dict_origin doc k k' kt vt : is_map_origin k = true -> is_map_origin k' = true ->
    load o reg doc (TDict k kt vt) = load o reg doc (TDict k' kt vt).
  Proof.
    intros Hk Hk'. unfold load, FUEL.
    destruct doc; rewrite (process_dict_origin o reg _ _ k k' kt vt Hk Hk'); reflexivity.
  Qed.

  Lemma recognize_union_unfold f n ts : recognize o reg (S f) n (TUnion ts) = rec_union (recognize o reg f n) ts (nmark n).
  Proof. reflexivity. Qed.

  Lemma process_boolfix f n ts n' : In TBool ts ->
    process o reg (S (S f)) n (TUnion ts) = Ok n' -> process o reg (S (S f)) n (TUnion (ts ++ [TBoolFix])) = Ok n'.
  Proof.
    intros Hb E. remember (S f) as f1 eqn:Hf1. cbn [process] in *. rewrite recognize_union_unfold in *.
    destruct (rec_union (recognize o reg f1 n) ts (nmark n)) as [[tys e]|x] eqn:Er; cbn [bind] in E; [|discriminate E].
    assert (HB : exists res, recognize o reg f1 n TBoolFix = Ok res /\
              (fst res = [] \/ (fst res = [TBoolFix] /\ exists res', recognize o reg f1 n TBool = Ok res' /\ In TBool (fst res'))))
      by (subst f1; apply recognize_boolfix).
    destruct (boolfix_irrelevant (recognize o reg f1 n) HB ts (nmark n) tys e Hb Er) as (tys' & e' & Er' & _ & S1).
    rewrite Er'. cbn [bind fst] in *.
    destruct tys as [|R [|R2 l]]; try discriminate E.
    rewrite (S1 R eq_refl). exact E.
  Qed.

  Theorem load_boolfix doc ts v : In TBool ts ->
    load o reg doc (TUnion ts) = Ok v -> load o reg doc (TUnion (ts ++ [TBoolFix])) = Ok v.
  Proof.
    intros Hb E. unfold load in *. assert (FU : exists g0, FUEL = S (S g0)) by (exists 198%nat; reflexivity).
    destruct FU as (g0 & HF). revert E. generalize (construct o reg FUEL). rewrite HF. intros cons E.
    destruct doc as [n|].
    - destruct (process o reg (S (S g0)) n (TUnion ts)) as [n'|x] eqn:Ep; cbn [bind] in E; [|discriminate E].
      rewrite (process_boolfix g0 n ts n' Hb Ep). exact E.
    - destruct (process o reg (S (S g0)) (Scalar tag_null [] nomark) (TUnion ts)) as [n'|x] eqn:Ep; cbn [bind] in E; [|discriminate E].
      rewrite (process_boolfix g0 _ ts n' Hb Ep). exact E.
  Qed.
End c13load.
