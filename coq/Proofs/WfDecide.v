(* Executable forms of the well-formedness conditions, with soundness, so that
   concrete registries (examples, generated cases) can discharge them by computation. *)
From Coq Require Import NArith ZArith List Bool String Lia.
Import ListNotations.
From Y Require Import Prelude Node Tables NodeOps Types Recognize Loader Spec.
Open Scope N_scope.

Lemma nodupb_sound l : nodupb l = true -> NoDup l.
Proof.
  induction l as [|x r IH]; simpl; intros H; [constructor|].
  apply andb_true_iff in H. destruct H as [H1 H2]. constructor; [|auto].
  intros Hin. apply umem_In in Hin. rewrite Hin in H1. discriminate.
Qed.

Lemma wf_registryb_sound reg : wf_registryb reg = true -> wf_registry reg.
Proof.
  unfold wf_registryb, wf_registry. intros H. apply andb_true_iff in H. destruct H as [H H3].
  apply andb_true_iff in H. destruct H as [H1 H2]. split; [apply nodupb_sound; exact H1|]. split.
  - rewrite forallb_forall in H2. apply Forall_forall. intros k Hk. specialize (H2 k Hk).
    unfold wf_clsb in H2. apply andb_true_iff in H2. destruct H2 as [H2 Hs]. apply andb_true_iff in H2. destruct H2 as [Hn He].
    split; [apply nodupb_sound; exact Hn|]. split; intros Hin; apply umem_In in Hin.
    + rewrite Hin in He. discriminate.
    + rewrite Hin in Hs. discriminate.
  - rewrite forallb_forall in H3. apply Forall_forall. intros k Hk. specialize (H3 k Hk).
    apply negb_true_iff in H3. apply ueqb_neq. exact H3.
Qed.
