(* C11: invariants of the registry state machine, by induction over arbitrary histories. *)
From Coq Require Import NArith Arith List Bool String Lia.
Import ListNotations.
From Y Require Import Prelude World.
Open Scope N_scope.

Local Arguments ueqb : simpl never.

(* PyYAML's own tables never change *)
Lemma step_base w o : base_ctor (step w o) = base_ctor w /\ base_repr (step w o) = base_repr w.
Proof. destruct o; split; reflexivity. Qed.
Theorem run_base : forall ops w, base_ctor (run w ops) = base_ctor w /\ base_repr (run w ops) = base_repr w.
Proof.
  induction ops as [|o ops IH]; intros w; [split; reflexivity|]. cbn [run fold_left].
  destruct (IH (step w o)) as [A B]. destruct (step_base w o) as [C D]. unfold run in *. rewrite A, B, C, D. split; reflexivity.
Qed.

(* functions are only ever appended: a function's class-level state never changes after its creation *)
Lemma step_prefix w o : exists l d, loaders (step w o) = loaders w ++ l /\ dumpers (step w o) = dumpers w ++ d.
Proof.
  destruct o; cbn [step loaders dumpers].
  - eexists. exists []. split; [reflexivity | rewrite app_nil_r; reflexivity].
  - exists []. eexists. split; [rewrite app_nil_r; reflexivity | reflexivity].
  - exists [], []. rewrite !app_nil_r. split; reflexivity.
  - exists [], []. rewrite !app_nil_r. split; reflexivity.
Qed.
Theorem run_prefix : forall ops w, exists l d, loaders (run w ops) = loaders w ++ l /\ dumpers (run w ops) = dumpers w ++ d.
Proof.
  induction ops as [|o ops IH]; intros w.
  - exists [], []. rewrite !app_nil_r. split; reflexivity.
  - cbn [run fold_left]. destruct (IH (step w o)) as (l & d & A & B). destruct (step_prefix w o) as (l0 & d0 & C & D).
    exists (l0 ++ l), (d0 ++ d). unfold run in *. rewrite A, B, C, D, <- !app_assoc. split; reflexivity.
Qed.
Corollary function_state_is_stable ops w i f : nth_error (loaders w) i = Some f -> nth_error (loaders (run w ops)) i = Some f.
Proof.
  intros H. destruct (run_prefix ops w) as (l & d & A & _). rewrite A. rewrite nth_error_app1; [exact H|].
  apply nth_error_Some. congruence.
Qed.
Corollary dumper_state_is_stable ops w i f : nth_error (dumpers w) i = Some f -> nth_error (dumpers (run w ops)) i = Some f.
Proof.
  intros H. destruct (run_prefix ops w) as (l & d & _ & A). rewrite A. rewrite nth_error_app1; [exact H|].
  apply nth_error_Some. congruence.
Qed.
(* calls change nothing at all *)
Theorem calls_are_pure w i : step w (CallLoad i) = w /\ step w (CallDump i) = w.
Proof. split; reflexivity. Qed.

(* ---- isolation: a function's table holds PyYAML's entries and its OWN classes only ---- *)
Definition owners_in (t : tbl) (P : N -> Prop) : Prop := forall k o, tlookup t k = Some o -> P o.

Lemma tlookup_tset t k v k' : tlookup (tset t k v) k' = if ueqb k' k then Some v else tlookup t k'.
Proof.
  induction t as [|[k0 v0] t IH]; cbn [tset tlookup].
  - destruct (ueqb k' k); reflexivity.
  - destruct (ueqb k k0) eqn:E; cbn [tlookup].
    + apply ueqb_eq in E. subst k0. destruct (ueqb k' k); reflexivity.
    + rewrite IH. destruct (ueqb k' k0) eqn:E2; [|reflexivity].
      apply ueqb_eq in E2. subst k0. destruct (ueqb k' k) eqn:E3; [|reflexivity].
      apply ueqb_eq in E3. subst k'. rewrite (proj2 (ueqb_eq k k) eq_refl) in E. discriminate E.
Qed.

Lemma register_owners base owner P f c : owners_in base P -> P owner -> owners_in (view base f) P ->
  owners_in (view base (register base owner f c)) P.
Proof.
  intros Hb Ho Hf k o. unfold register, view at 1. cbn [f_table]. rewrite tlookup_tset.
  destruct (ueqb k c); [intros E; injection E as <-; exact Ho|]. apply Hf.
Qed.
Lemma new_fn_owners base owner P cs : owners_in base P -> P owner -> owners_in (view base (new_fn base owner cs)) P.
Proof.
  intros Hb Ho. unfold new_fn.
  assert (G : forall f, owners_in (view base f) P -> owners_in (view base (fold_left (register base owner) cs f)) P).
  { induction cs as [|c cs IH]; intros f Hf; cbn [fold_left]; [exact Hf|]. apply IH, register_owners; assumption. }
  apply G. exact Hb.
Qed.

(* a registered class is visible in the function's own view with the function's own identity *)
Lemma register_sees base owner f c : tlookup (view base (register base owner f c)) c = Some owner.
Proof. unfold register, view. cbn [f_table]. rewrite tlookup_tset, (proj2 (ueqb_eq c c) eq_refl). reflexivity. Qed.
Lemma register_keeps base owner f c c' : tlookup (view base f) c' = Some owner ->
  tlookup (view base (register base owner f c)) c' = Some owner.
Proof. intros H. unfold register, view at 1. cbn [f_table]. rewrite tlookup_tset. destruct (ueqb c' c); [reflexivity | exact H]. Qed.
Lemma new_fn_sees base owner cs c : In c cs -> tlookup (view base (new_fn base owner cs)) c = Some owner.
Proof.
  unfold new_fn.
  assert (G : forall cs f, (In c cs \/ tlookup (view base f) c = Some owner) ->
                           tlookup (view base (fold_left (register base owner) cs f)) c = Some owner).
  { clear cs. induction cs as [|c0 cs IH]; intros f H; cbn [fold_left].
    - destruct H as [[]|H]. exact H.
    - apply IH. destruct H as [[<-|H]|H]; [right; apply register_sees | left; exact H | right; apply register_keeps, H]. }
  intros H. apply G. left. exact H.
Qed.

Definition init (bc br : tbl) : world := {| base_ctor := bc; base_repr := br; loaders := []; dumpers := [] |}.

Definition isolated (w : world) : Prop :=
  (forall i f, nth_error (loaders w) i = Some f -> owners_in (view (base_ctor w) f) (fun o => o = 0 \/ o = N.of_nat (S i))) /\
  (forall i f, nth_error (dumpers w) i = Some f -> owners_in (view (base_repr w) f) (fun o => o = 0 \/ o = N.of_nat (S i))).

Lemma nth_error_snoc {A} (l : list A) x i y : nth_error (l ++ [x]) i = Some y ->
  nth_error l i = Some y \/ (i = List.length l /\ y = x).
Proof.
  intros H. destruct (Nat.lt_ge_cases i (List.length l)) as [Hl|Hl]; unfold ge in *.
  - rewrite nth_error_app1 in H by exact Hl. left. exact H.
  - rewrite nth_error_app2 in H by exact Hl. destruct (i - List.length l)%nat as [|k] eqn:E.
    + cbn in H. injection H as <-. right. split; [lia | reflexivity].
    + cbn in H. destruct k; discriminate H.
Qed.

Lemma step_isolated w o : owners_in (base_ctor w) (fun x => x = 0) -> owners_in (base_repr w) (fun x => x = 0) ->
  isolated w -> isolated (step w o).
Proof.
  intros Hc Hr [Hl Hd]. destruct o as [cs|json cs|i|i]; try (split; assumption).
  - split; [|exact Hd]. cbn [step loaders base_ctor]. intros i f H. apply nth_error_snoc in H. destruct H as [H|[-> ->]].
    + apply Hl, H.
    + apply new_fn_owners; [|right; reflexivity]. intros k o' E. left. exact (Hc k o' E).
  - split; [exact Hl|]. cbn [step dumpers base_repr]. intros i f H. apply nth_error_snoc in H. destruct H as [H|[-> ->]].
    + apply Hd, H.
    + apply new_fn_owners; [|right; reflexivity]. intros k o' E. left. exact (Hr k o' E).
Qed.

Theorem reachable_isolated bc br : owners_in bc (fun x => x = 0) -> owners_in br (fun x => x = 0) ->
  forall ops, isolated (run (init bc br) ops).
Proof.
  intros Hc Hr ops.
  assert (G : forall ops w, base_ctor w = bc -> base_repr w = br -> isolated w -> isolated (run w ops)).
  { clear ops. induction ops as [|o ops IH]; intros w Ec Er Hi; [exact Hi|]. cbn [run fold_left]. apply IH.
    - rewrite (proj1 (step_base w o)). exact Ec.
    - rewrite (proj2 (step_base w o)). exact Er.
    - apply step_isolated; [rewrite Ec; exact Hc | rewrite Er; exact Hr | exact Hi]. }
  apply G; try reflexivity. split; intros i f H; destruct i; discriminate H.
Qed.

(* ---- history independence: what a newly created function sees depends on its classes only (and on its identity) ---- *)
Theorem new_loader_view_history_free bc br ops1 ops2 cs :
  let w1 := run (init bc br) ops1 in let w2 := run (init bc br) ops2 in
  forall owner, new_fn (base_ctor w1) owner cs = new_fn (base_ctor w2) owner cs.
Proof.
  intros w1 w2 owner. unfold w1, w2. rewrite (proj1 (run_base ops1 _)), (proj1 (run_base ops2 _)). reflexivity.
Qed.
