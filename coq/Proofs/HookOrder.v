(* C10: which savorize hooks run for a node loaded as class c, and in which order. *)
From Coq Require Import NArith ZArith List Bool String Lia Sorted.
Import ListNotations.
From Y Require Import Prelude Node Tables NodeOps Types Recognize Loader Spec Conform.
Open Scope N_scope.

Section order.
  Variable reg : registry.

  Definition defines_savorize (c : ustring) : bool :=
    match find_cls reg c with Some k => match c_savorize k with Some _ => true | None => false end | None => false end.

  (* single inheritance among registered classes (unregistered mix-ins are simply not registered bases) *)
  Definition single_inh : Prop := forall k, In k reg -> (List.length (registered_bases reg k) <= 1)%nat.

  (* the registered ancestor chain of c, root first, c last *)
  Fixpoint chain (fuel : nat) (c : ustring) : list ustring :=
    match fuel with
    | O => []
    | S f => match find_cls reg c with
             | None => []
             | Some k => match registered_bases reg k with
                         | b :: _ => chain f b ++ [c]
                         | [] => [c]
                         end
             end
    end.

  Theorem savorize_order_chain : single_inh -> forall fuel c,
    savorize_order reg fuel c = filter defines_savorize (chain fuel c).
  Proof.
    intros Hs. induction fuel as [|f IH]; intros c; [reflexivity|].
    cbn [savorize_order chain]. unfold defines_savorize at 1.
    destruct (find_cls reg c) as [k|] eqn:Fk; [|reflexivity].
    assert (Hown : (match c_savorize k with Some _ => [c] | None => [] end) = filter defines_savorize [c]).
    { cbn [filter]. unfold defines_savorize. rewrite Fk. destruct (c_savorize k); reflexivity. }
    pose proof (Hs k (find_cls_in _ _ _ Fk)) as Hl.
    destruct (registered_bases reg k) as [|b [|b2 r]] eqn:Eb.
    - cbn [flat_map app]. exact Hown.
    - cbn [flat_map]. rewrite app_nil_r, filter_app, IH, Hown. reflexivity.
    - cbn [List.length] in Hl. lia.
  Qed.

  (* with an acyclic hierarchy every class occurs once in the chain, ancestors before descendants *)
  Variable rank : ustring -> nat.
  Hypothesis Hrank : forall c k b, find_cls reg c = Some k -> In b (registered_bases reg k) -> (rank b < rank c)%nat.

  Lemma chain_rank : forall fuel c x, In x (chain fuel c) -> (rank x <= rank c)%nat.
  Proof.
    induction fuel as [|f IH]; intros c x H; [destruct H|]. cbn [chain] in H.
    destruct (find_cls reg c) as [k|] eqn:Fk; [|destruct H].
    destruct (registered_bases reg k) as [|b r] eqn:Eb.
    - destruct H as [<-|[]]. lia.
    - apply in_app_or in H. destruct H as [H|[<-|[]]]; [|lia].
      specialize (IH b x H). assert (rank b < rank c)%nat by (eapply Hrank; [exact Fk | rewrite Eb; left; reflexivity]). lia.
  Qed.
  Theorem chain_nodup : forall fuel c, NoDup (chain fuel c).
  Proof.
    induction fuel as [|f IH]; intros c; [constructor|]. cbn [chain].
    destruct (find_cls reg c) as [k|] eqn:Fk; [|constructor].
    destruct (registered_bases reg k) as [|b r] eqn:Eb; [constructor; [intros []|constructor]|].
    assert (Hb : (rank b < rank c)%nat) by (eapply Hrank; [exact Fk | rewrite Eb; left; reflexivity]).
    assert (Hn : ~ In c (chain f b)) by (intros Hi; apply chain_rank in Hi; lia).
    clear -IH Hn. specialize (IH b). induction (chain f b) as [|x l IHl]; cbn [app]; [constructor; [intros []|constructor]|].
    inversion IH; subst. constructor.
    - intros Hi. apply in_app_or in Hi. destruct Hi as [Hi|[Hi|[]]]; [auto | subst; apply Hn; left; reflexivity].
    - apply IHl; [assumption | intros Hi; apply Hn; right; exact Hi].
  Qed.
  Theorem chain_ends_with_class : forall f c k, find_cls reg c = Some k -> exists l, chain (S f) c = l ++ [c].
  Proof.
    intros f c k Fk. cbn [chain]. rewrite Fk. destruct (registered_bases reg k) as [|b r]; [exists []; reflexivity | eexists; reflexivity].
  Qed.
  (* ancestors come first: the chain is strictly increasing in rank *)
  Lemma sorted_snoc (R : ustring -> ustring -> Prop) l y : StronglySorted R l -> (forall x, In x l -> R x y) ->
    StronglySorted R (l ++ [y]).
  Proof.
    induction 1 as [|a l Hs IHs Ha]; intros H; cbn [app]; [constructor; constructor|].
    constructor; [apply IHs; intros x Hx; apply H; right; exact Hx|].
    apply Forall_app. split; [exact Ha | constructor; [apply H; left; reflexivity | constructor]].
  Qed.
  Theorem chain_sorted : forall fuel c, StronglySorted (fun a b => (rank a < rank b)%nat) (chain fuel c).
  Proof.
    induction fuel as [|f IH]; intros c; [constructor|]. cbn [chain].
    destruct (find_cls reg c) as [k|] eqn:Fk; [|constructor].
    destruct (registered_bases reg k) as [|b r] eqn:Eb; [constructor; constructor|].
    assert (Hb : (rank b < rank c)%nat) by (eapply Hrank; [exact Fk | rewrite Eb; left; reflexivity]).
    apply sorted_snoc; [apply IH|]. intros x Hx. apply chain_rank in Hx. lia.
  Qed.
End order.

(* a SeasoningError raised while savourising surfaces as RecognitionError, and savorize happens after
   recognition and before the attributes are processed *)
Theorem seasoning_error_is_recognition_error o reg f n T c k e :
  recognize o reg (S f) n T = Ok ([TClass c], e) -> find_cls reg c = Some k ->
  savorize reg FUELK c (match c_shape k, n with
                        | ShEnum _, Scalar tg v m => if ueqb tg tag_bool then Scalar tag_str v m else n
                        | _, _ => n end) = Err ESeasoning ->
  process o reg (S f) n T = Err ERecognition.
Proof.
  intros Hr Fk Hs. cbn [process]. rewrite Hr. cbn [bind fst]. rewrite Fk, Hs. reflexivity.
Qed.

Theorem process_class_stages o reg f n T c k e :
  recognize o reg (S f) n T = Ok ([TClass c], e) -> find_cls reg c = Some k ->
  process o reg (S f) n T =
    (let n0 := match c_shape k, n with
               | ShEnum _, Scalar tg v m => if ueqb tg tag_bool then Scalar tag_str v m else n
               | _, _ => n end in
     n1 <- match savorize reg FUELK c n0 with Err ESeasoning => Err ERecognition | r => r end ;;
     n2 <- (if is_objectlike k && is_mapping n1 then process_attrs (process o reg f) (params_of k) n1 else Ok n1) ;;
     Ok (set_tag (bang c) n2)).
Proof. intros Hr Fk. cbn [process]. rewrite Hr. cbn [bind fst]. rewrite Fk. reflexivity. Qed.

(* savorize applies exactly the hooks listed by savorize_order, in that order *)
Theorem savorize_is_fold reg fuel c n :
  savorize reg fuel c n = fold_left (apply_hook reg) (savorize_order reg fuel c) (Ok n).
Proof. reflexivity. Qed.
