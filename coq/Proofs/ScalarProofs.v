(* C14: scalar laws of yatiml.Node -- classification, set_value/get_value,
   remove_attributes_with_default_values. *)
From Coq Require Import NArith ZArith List Bool String Lia.
Import ListNotations.
From Y Require Import Prelude Node Tables NodeOps OpsRun.
Open Scope N_scope.

(* facts about the GENERATED scalar_type_to_tag table (re-checked on every run) *)
Lemma tag_of_kind_table :
  tag_of_kind KStr = Some tag_str /\ tag_of_kind KInt = Some tag_int /\ tag_of_kind KFloat = Some tag_float /\
  tag_of_kind KBool = Some tag_bool /\ tag_of_kind KBoolFix = Some tag_bool /\
  tag_of_kind KNone = Some tag_null /\ tag_of_kind KNoneType = Some tag_null /\
  tag_of_kind KDate = Some tag_timestamp.
Proof. vm_compute. repeat split; reflexivity. Qed.

Definition expected_tag (v : sval) : ustring :=
  match v with SvStr _ => tag_str | SvBool _ => tag_bool | SvInt _ => tag_int | SvFloat _ _ => tag_float | SvNone => tag_null end.
Lemma tag_of_sval v : tag_of_kind (kind_of_sval v) = Some (expected_tag v).
Proof. destruct tag_of_kind_table as (A&B&C&D&E&F&G&H). destruct v; simpl; assumption. Qed.

Lemma classify n :
  (is_scalar_node n = true /\ is_mapping n = false /\ is_sequence n = false) \/
  (is_scalar_node n = false /\ is_mapping n = true /\ is_sequence n = false) \/
  (is_scalar_node n = false /\ is_mapping n = false /\ is_sequence n = true).
Proof. destruct n; simpl; tauto. Qed.

(* what the oracle (PyYAML's SafeConstructor) must satisfy for v to round-trip: parsing str(v) gives v back *)
Definition oracle_reads (o : oracle) (v : sval) : Prop :=
  match v with
  | SvInt z => olookup o tag_int (z_to_dec z) = Ok (VInt z)
  | SvFloat t h => olookup o tag_float t = Ok (VFloat h)
  | _ => True
  end.

Lemma tags_distinct :
  ueqb tag_int tag_str = false /\ ueqb tag_float tag_str = false /\ ueqb tag_float tag_int = false /\
  ueqb tag_bool tag_str = false /\ ueqb tag_bool tag_int = false /\ ueqb tag_bool tag_float = false /\
  ueqb tag_null tag_str = false /\ ueqb tag_null tag_int = false /\ ueqb tag_null tag_float = false /\
  ueqb tag_null tag_bool = false.
Proof. vm_compute. repeat split; reflexivity. Qed.

Theorem set_then_get o v n : uprefix core_prefix_colon (ntag n) = true -> oracle_reads o v ->
  exists n', set_value v n = Ok n' /\ is_scalar_node n' = true /\
             is_scalar n' (TyK (kind_of_sval v)) = Ok true /\
             get_value o n' = Ok (value_of_sval v).
Proof.
  intros Hc Ho. unfold set_value. rewrite Hc, (tag_of_sval v).
  eexists. split; [reflexivity|]. split; [reflexivity|].
  destruct tags_distinct as (T1&T2&T3&T4&T5&T6&T7&T8&T9&T10).
  split.
  - unfold is_scalar. rewrite (tag_of_sval v), ueqb_refl. reflexivity.
  - unfold get_value. destruct v as [s|b|z|t h|].
    + change (expected_tag (SvStr s)) with tag_str. rewrite ueqb_refl. reflexivity.
    + change (expected_tag (SvBool b)) with tag_bool. rewrite T4, T5, T6, ueqb_refl.
      destruct b; vm_compute; reflexivity.
    + change (expected_tag (SvInt z)) with tag_int. rewrite T1, ueqb_refl. exact Ho.
    + change (expected_tag (SvFloat t h)) with tag_float. rewrite T2, T3, ueqb_refl. exact Ho.
    + change (expected_tag SvNone) with tag_null. rewrite T7, T8, T9, T10, ueqb_refl. reflexivity.
Qed.

(* the full statement (any node) is false as coded: set_value keeps a non-core tag on purpose *)
Theorem set_then_get_refuted : exists o v n n',
  set_value v n = Ok n' /\ get_value o n' = Err (EPy PyRuntimeError) /\ is_scalar n' (TyK (kind_of_sval v)) = Ok false.
Proof.
  exists [], (SvStr []), (Scalar (bang (u "Foo")) (u "old") nomark). eexists.
  split; [vm_compute; reflexivity|]. split; vm_compute; reflexivity.
Qed.

(* remove_attributes_with_default_values: total on mappings with scalar keys, keeps order, removes exactly
   the defaulted attributes whose value node matches the default *)
Definition removed_by (o : oracle) (defaults : list (ustring * value)) (kv : node * node) : bool :=
  match fst kv with
  | Scalar _ k _ => match uassoc k defaults with Some d => default_matches o (snd kv) d | None => false end
  | _ => false
  end.

Theorem remove_defaults_total o defaults t ps m : all_scalar_keys ps = true ->
  remove_defaults o defaults (Map t ps m) = Ok (Map t (filter (fun kv => negb (removed_by o defaults kv)) ps) m).
Proof.
  intros H. unfold remove_defaults. rewrite H. do 2 f_equal.
  apply filter_ext. intros [k v]. unfold removed_by. simpl.
  destruct k; try reflexivity. destruct (uassoc v0 defaults); reflexivity.
Qed.

Theorem remove_defaults_exact o defaults t ps m kv : all_scalar_keys ps = true ->
  forall n', remove_defaults o defaults (Map t ps m) = Ok n' ->
  (In kv (match n' with Map _ ps' _ => ps' | _ => [] end) <-> In kv ps /\ removed_by o defaults kv = false).
Proof.
  intros H n' E. rewrite (remove_defaults_total _ _ _ _ _ H) in E. injection E as <-.
  rewrite filter_In, negb_true_iff. tauto.
Qed.

(* a matching value node denotes the default: same type, equal value (never a coercion) *)
Theorem default_matches_sound o t v m d : default_matches o (Scalar t v m) d = true ->
  (t = tag_null /\ d = VNone) \/
  (t = tag_int /\ exists z, d = VInt z /\ olookup o tag_int v = Ok (VInt z)) \/
  (t = tag_float /\ exists h h', d = VFloat h /\ olookup o tag_float v = Ok (VFloat h') /\ float_eqb h' h = true) \/
  (t = tag_bool /\ exists b, d = VBool b) \/
  (t = tag_str /\ d = VStr v).
Proof.
  unfold default_matches.
  destruct (ueqb_spec t tag_null) as [->|N1].
  { destruct d; try discriminate. auto. }
  destruct (ueqb_spec t tag_int) as [->|N2].
  { destruct d; try discriminate. destruct (olookup o tag_int v) as [[]|] eqn:E; try discriminate.
    intros H. apply Z.eqb_eq in H. subst. right; left. eauto. }
  destruct (ueqb_spec t tag_float) as [->|N3].
  { destruct d; try discriminate. destruct (olookup o tag_float v) as [[]|] eqn:E; try discriminate.
    intros H. right; right; left. eauto 8. }
  destruct (ueqb_spec t tag_bool) as [->|N4].
  { destruct d; try discriminate. intros _. right; right; right; left. eauto. }
  destruct (ueqb_spec t tag_str) as [->|N5]; [|discriminate].
  destruct d; try discriminate. intros H. apply ueqb_eq in H. subst. right; right; right; right. auto.
Qed.
