(* C04: a user constructor runs only with keyword arguments that already conform
   to its signature.  Stated without an event log: the outcome of constructing a
   well-tagged node does not depend on how the constructors behave on
   non-conforming arguments -- so they are never called with such. *)
From Coq Require Import NArith ZArith List Bool String Lia.
Import ListNotations.
From Y Require Import Prelude Node Tables NodeOps Types Recognize Loader Spec ScalarProofs Conform Conform2.
Open Scope N_scope.
Local Arguments uprefix : simpl never.
Local Arguments ueqb : simpl never.
Local Arguments umem : simpl never.
Local Arguments class_of_tag : simpl never.

Definition set_init (init : cls -> list (ustring * value) -> bool) (k : cls) : cls :=
  {| c_name := c_name k; c_bases := c_bases k; c_ancestors := c_ancestors k; c_abstract := c_abstract k;
     c_shape := c_shape k; c_recognize := c_recognize k; c_savorize := c_savorize k; c_sweeten := c_sweeten k;
     c_init_ok := init k; c_str_ok := c_str_ok k |}.
Definition with_init (init : cls -> list (ustring * value) -> bool) (reg : registry) : registry := map (set_init init) reg.

Lemma find_cls_map_init init reg c : find_cls (with_init init reg) c = option_map (set_init init) (find_cls reg c).
Proof.
  unfold with_init. induction reg as [|k r IH]; [reflexivity|]. cbn [map find_cls set_init c_name].
  destruct (ueqb (c_name k) c); [reflexivity | exact IH].
Qed.

Lemma forallb_ext {A} (f g : A -> bool) l : (forall x, f x = g x) -> forallb f l = forallb g l.
Proof. intros H. induction l as [|x r IH]; simpl; [reflexivity | rewrite H, IH; reflexivity]. Qed.

Section irrelevant.
  Variable init : cls -> list (ustring * value) -> bool.
  Variable o : oracle.
  Variable reg : registry.
  Hypothesis Ho : oracle_wf o.
  Hypothesis Hreg : wf_registry reg.
  Let reg' := with_init init reg.

  Lemma find_cls_init c : find_cls reg' c = option_map (set_init init) (find_cls reg c).
  Proof. apply find_cls_map_init. Qed.
  Lemma class_of_tag_init t : class_of_tag reg' t = option_map (set_init init) (class_of_tag reg t).
  Proof. unfold class_of_tag. destruct t as [|c t]; [reflexivity|]. destruct (N.eqb c 33); [apply find_cls_init | reflexivity]. Qed.
  Lemma is_instance_init d c : is_instance reg' d c = is_instance reg d c.
  Proof. unfold is_instance. rewrite find_cls_init. destruct (find_cls reg d); reflexivity. Qed.
  Lemma type_matches_init T : forall v, type_matches reg' v T = type_matches reg v T.
  Proof.
    induction T using ty_ind2; intros v; cbn [type_matches]; try reflexivity.
    - destruct v; try reflexivity. apply forallb_ext. intros x. apply IHT.
    - destruct v; try reflexivity. apply forallb_ext. intros [a b]. cbn [fst snd]. rewrite IHT2.
      destruct T1; try reflexivity. destruct a; try reflexivity. rewrite is_instance_init. reflexivity.
    - induction H as [|t ts Ht _ IH]; [reflexivity|]. rewrite Ht, IH. reflexivity.
    - destruct v; try reflexivity; apply is_instance_init.
  Qed.
  Lemma init_args_init params extra mapping : init_args reg' params extra mapping = init_args reg params extra mapping.
  Proof.
    unfold init_args. replace (forallb _ params) with
      (forallb (fun p => match uassoc (p_name p) (kwargs_of mapping) with
                         | Some v => type_matches reg v (p_ty p) | None => negb (p_required p) end) params); [reflexivity|].
    apply forallb_ext. intros p. destruct (uassoc (p_name p) (kwargs_of mapping)); [symmetry; apply type_matches_init | reflexivity].
  Qed.

  (* the constructors agree with the real ones on every argument list that conforms to the class's own signature *)
  Hypothesis Hagree : forall k args, In k reg ->
    conforms reg (VObj (c_name k) args) (TClass (c_name k)) -> init k args = c_init_ok k args.

  Lemma construct_items_ext (r1 r2 : node -> result value) l : (forall x, In x l -> r1 x = r2 x) ->
    construct_items r1 l = construct_items r2 l.
  Proof.
    induction l as [|x r IH]; intros H; [reflexivity|]. cbn [construct_items].
    rewrite (H x (or_introl eq_refl)), IH; [reflexivity|]. intros y Hy. apply H. right. exact Hy.
  Qed.
  Lemma construct_pairs_ext (r1 r2 : node -> result value) l : forall acc,
    (forall kv, In kv l -> r1 (fst kv) = r2 (fst kv) /\ r1 (snd kv) = r2 (snd kv)) ->
    construct_pairs r1 l acc = construct_pairs r2 l acc.
  Proof.
    induction l as [|[k v] r IH]; intros acc H; [reflexivity|]. cbn [construct_pairs].
    destruct (H (k, v) (or_introl eq_refl)) as [Hk Hv]. cbn [fst snd] in *. rewrite Hk, Hv.
    destruct (r2 k) as [kv|]; cbn [bind]; [|reflexivity]. destruct (negb (hashable kv)); [reflexivity|].
    destruct (r2 v) as [vv|]; cbn [bind]; [|reflexivity]. apply IH. intros kv' Hin. apply H. right. exact Hin.
  Qed.

  (* stripped nodes carry no class tags: no constructor is involved at all *)
  Lemma construct_stripped_init : forall fuel n, stripped n -> construct o reg' fuel n = construct o reg fuel n.
  Proof.
    induction fuel as [|f IH]; intros n Hs; [reflexivity|].
    destruct n as [t sv m|t items m|t ps m].
    - cbn [stripped] in Hs. cbn [construct ntag]. rewrite !(core_not_bang _ Hs). reflexivity.
    - apply stripped_seq in Hs. destruct Hs as [-> Hs]. destruct core_tags as (_&_&_&_&_&_&Cs&_).
      cbn [construct ntag]. rewrite !(core_not_bang _ Cs), (core_not_path _ Cs), ueqb_refl.
      rewrite (construct_items_ext (construct o reg' f) (construct o reg f)); [reflexivity|].
      intros x Hx. apply IH. rewrite Forall_forall in Hs. apply Hs. exact Hx.
    - apply stripped_map in Hs. destruct Hs as [-> Hs]. destruct core_tags as (_&_&_&_&_&_&_&Cm).
      cbn [construct ntag]. rewrite !(core_not_bang _ Cm), (core_not_path _ Cm), ueqb_refl.
      unfold construct_map. destruct (flatten (S f) ps) as [ps'|] eqn:F; cbn [bind]; [|reflexivity].
      pose proof (flatten_stripped _ _ _ Hs F) as Hs'.
      rewrite (construct_pairs_ext (construct o reg' f) (construct o reg f)); [reflexivity|].
      intros kv Hin. rewrite Forall_forall in Hs'. destruct (Hs' kv Hin) as [A B]. split; apply IH; assumption.
  Qed.

  Theorem construct_init_irrelevant : forall fuel n T,
    well_tagged reg n T -> construct o reg' fuel n = construct o reg fuel n.
  Proof.
    induction fuel as [|f IHf]; [reflexivity|].
    intros n T. revert n. induction T using ty_ind2; intros n Hw;
      try (inversion Hw as [T0 t sv m Hst | | | | | | ]; subst;
           destruct (scalar_tag_cases _ _ Hst) as [[HT Ht]|[[HT Ht]|[[HT Ht]|[[HT Ht]|[[HT Ht]|[[HT Ht]|[HT Ht]]]]]]];
           try discriminate HT; subst t;
           destruct core_tags as (Cstr&Cint&Cfloat&Cbool&Cnull&Cts&_&_);
           cbn [construct ntag];
           first [rewrite !(core_not_bang _ Cstr) | rewrite !(core_not_bang _ Cint) | rewrite !(core_not_bang _ Cfloat)
                 | rewrite !(core_not_bang _ Cbool) | rewrite !(core_not_bang _ Cnull) | rewrite !(core_not_bang _ Cts)];
           reflexivity).
    - (* TPath *) inversion Hw as [T0 t sv m Hst | sv m | | | | | ]; subst; [discriminate Hst|].
      cbn [construct ntag]. rewrite class_of_tag_init.
      assert (Hp : class_of_tag reg tag_path = None).
      { change tag_path with (bang (u "Path")). rewrite class_of_tag_bang. destruct (find_cls reg (u "Path")) as [k|] eqn:F; [|reflexivity].
        exfalso. destruct Hreg as (_ & _ & Hnp). rewrite Forall_forall in Hnp.
        apply (Hnp k (find_cls_in _ _ _ F)). eapply find_cls_name; eauto. }
      rewrite Hp. reflexivity.
    - (* TAny *) inversion Hw as [T0 t sv m Hst | | n0 Hs | | | | ]; subst; [discriminate Hst|].
      apply construct_stripped_init. exact Hs.
    - (* TList *) inversion Hw as [T0 t0 sv m Hst | | | k0 t0 items m Hit | | | ]; subst; [discriminate Hst|].
      destruct core_tags as (_&_&_&_&_&_&Cs&_). cbn [construct ntag].
      rewrite !(core_not_bang _ Cs), (core_not_path _ Cs), ueqb_refl.
      rewrite (construct_items_ext (construct o reg' f) (construct o reg f)); [reflexivity|].
      intros x Hx. rewrite Forall_forall in Hit. eapply IHf. apply Hit. exact Hx.
    - (* TDict *) inversion Hw as [T0 t0 sv m Hst | | | | k0 kt0 vt0 ps m Hps Hnm | | ]; subst; [discriminate Hst|].
      destruct core_tags as (_&_&_&_&_&_&_&Cm). cbn [construct ntag].
      rewrite !(core_not_bang _ Cm), (core_not_path _ Cm), ueqb_refl.
      unfold construct_map. rewrite (flatten_id _ _ Hnm). cbn [bind].
      rewrite (construct_pairs_ext (construct o reg' f) (construct o reg f)); [reflexivity|].
      intros kv Hin. rewrite Forall_forall in Hps. destruct (Hps kv Hin) as [A B]. split; eapply IHf; eassumption.
    - (* TUnion *) inversion Hw as [T0 t0 sv m Hst | | | | | ts0 t0 n0 Hin Hwt | ]; subst; [discriminate Hst|].
      rewrite Forall_forall in H. eapply H; eauto.
    - (* TClass *) inversion Hw as [T0 t0 sv m Hst | | | | | | c0 d k n0 Hsub Hf Habs Htag Hattrs]; subst; [discriminate Hst|].
      cbn [construct]. rewrite Htag, class_of_tag_init, class_of_tag_bang, Hf. cbn [option_map set_init c_shape c_name c_str_ok].
      destruct (c_shape k) as [params extra|members|] eqn:Hsh; [|reflexivity|reflexivity].
      destruct n as [| |tg ps m]; try reflexivity.
      destruct (negb (str_keyed ps)) eqn:Hk; [reflexivity|]. apply negb_false_iff in Hk.
      set (known := map p_name params). set (ps1 := strip_unknown known ps).
      assert (Hk1 : str_keyed ps1 = true) by (unfold ps1; rewrite str_keyed_strip; exact Hk).
      assert (Hattrs' : forall p, In p params ->
                (List.length (lookup_all (p_name p) ps) <= 1)%nat /\
                forall sub, lookup_all (p_name p) ps = [sub] -> well_tagged reg sub (p_ty p)).
      { intros p Hp. apply (Hattrs tg ps m p eq_refl). unfold params_of. rewrite Hsh. exact Hp. }
      assert (Hmap : construct_map (S f) (construct o reg' f) ps1 = construct_map (S f) (construct o reg f) ps1).
      { unfold construct_map. rewrite (flatten_id _ _ (str_keyed_no_merge _ Hk1)). cbn [bind].
        apply construct_pairs_ext. intros [kk vv] Hin. cbn [fst snd]. split.
        - (* keys are str scalars *)
          unfold str_keyed in Hk1. rewrite forallb_forall in Hk1. specialize (Hk1 _ Hin). cbn [fst] in Hk1.
          destruct kk as [t0 kv0 m0| |]; try discriminate. apply ueqb_eq in Hk1. subst t0.
          apply construct_stripped_init. cbn [stripped]. destruct core_tags as (Cs&_). exact Cs.
        - unfold ps1, strip_unknown in Hin. apply in_map_iff in Hin. destruct Hin as ([k0 v0] & E & Hin0).
          cbn [fst snd] in E. destruct (umem (key_text' k0) known) eqn:Ek.
          + injection E as E1 E2. subst k0 v0.
            (* a parameter's value: the unique, well-tagged one *)
            apply umem_In in Ek. unfold known in Ek. apply in_map_iff in Ek. destruct Ek as (p & Ep & Hp).
            destruct (Hattrs' p Hp) as [Hlen Hwt].
            assert (Hkey : key_is (p_name p) kk = true).
            { unfold str_keyed in Hk. rewrite forallb_forall in Hk. specialize (Hk _ Hin0). cbn [fst] in Hk.
              destruct kk as [t0 kv0 m0| |]; try discriminate. cbn [key_is key_text'] in *. rewrite Ep. apply ueqb_refl. }
            assert (Hl : In vv (lookup_all (p_name p) ps)).
            { unfold lookup_all. apply in_map_iff. exists (kk, vv). split; [reflexivity|]. apply filter_In. split; [exact Hin0 | exact Hkey]. }
            destruct (lookup_all (p_name p) ps) as [|s0 [|s1 l]] eqn:El; [destruct Hl | | cbn in Hlen; lia].
            destruct Hl as [<-|[]]. eapply IHf. apply Hwt. reflexivity.
          + injection E as E1 E2. subst kk vv. apply construct_stripped_init. apply strip_tags_stripped. }
      fold known. fold ps1. rewrite Hmap.
      destruct (construct_map (S f) (construct o reg f) ps1) as [mapping|] eqn:Em; cbn [bind]; [|reflexivity].
      unfold build_object. rewrite init_args_init. cbn [set_init c_init_ok c_name].
      destruct (init_args reg params extra mapping) as [args|] eqn:Ea; [|reflexivity].
      rewrite Hagree; [reflexivity | eapply find_cls_in; eauto |].
      rewrite (find_cls_name _ _ _ Hf).
      eapply (init_args_conform o reg Ho Hreg k d d params extra ps f mapping args); eauto.
      + apply rsub_refl. unfold registered. rewrite Hf. reflexivity.
      + intros n0 T0 x Hw0 Ex. eapply construct_conforms; eauto.
  Qed.
End irrelevant.

(* positions typed Any hold plain data *)
Lemma conforms_any_plain reg v : conforms reg v TAny -> plain v.
Proof. intros H. inversion H; subst. assumption. Qed.
