(* The logging construction is the construction: its result component equals construct. *)
From Coq Require Import NArith ZArith List Bool String Lia.
Import ListNotations.
From Y Require Import Prelude Node Tables NodeOps Types Recognize Loader.
Open Scope N_scope.

Lemma snd_lbind {A B} (m : logged A) (f : A -> logged B) :
  snd (lbind m f) = bind (snd m) (fun a => snd (f a)).
Proof. unfold lbind. destruct (snd m); reflexivity. Qed.

Lemma items_snd (recL : node -> logged value) (rec : node -> result value) l :
  (forall x, snd (recL x) = rec x) -> snd (constructL_items recL l) = construct_items rec l.
Proof.
  intros H. induction l as [|x r IH]; [reflexivity|]. cbn [constructL_items construct_items].
  rewrite snd_lbind, H. destruct (rec x); cbn [bind]; [|reflexivity].
  rewrite snd_lbind, IH. destruct (construct_items rec r); reflexivity.
Qed.
Lemma pairs_snd (recL : node -> logged value) (rec : node -> result value) l :
  (forall x, snd (recL x) = rec x) -> forall acc, snd (constructL_pairs recL l acc) = construct_pairs rec l acc.
Proof.
  intros H. induction l as [|[k v] r IH]; intros acc; [reflexivity|]. cbn [constructL_pairs construct_pairs].
  rewrite snd_lbind, H. destruct (rec k) as [kv|]; cbn [bind]; [|reflexivity].
  destruct (negb (hashable kv)); [reflexivity|].
  rewrite snd_lbind, H. destruct (rec v); cbn [bind]; [apply IH | reflexivity].
Qed.
Lemma map_snd fuel (recL : node -> logged value) (rec : node -> result value) ps :
  (forall x, snd (recL x) = rec x) -> snd (constructL_map fuel recL ps) = construct_map fuel rec ps.
Proof.
  intros H. unfold constructL_map, construct_map. destruct (flatten fuel ps); cbn [bind]; [apply pairs_snd; exact H | reflexivity].
Qed.

Theorem constructL_is_construct o reg : forall fuel n, snd (constructL o reg fuel n) = construct o reg fuel n.
Proof.
  induction fuel as [|f IH]; intros n; [reflexivity|]. cbn [constructL construct].
  destruct (class_of_tag reg (ntag n)) as [k|].
  - destruct (c_shape k) as [params extra|ms|].
    + destruct n as [| |t ps m]; try reflexivity.
      destruct (negb (str_keyed ps)); [reflexivity|].
      rewrite snd_lbind, (map_snd (S f) _ (construct o reg f)) by exact IH.
      destruct (construct_map (S f) (construct o reg f) _) as [mapping|]; cbn [bind]; [|reflexivity].
      unfold build_object. destruct (init_args reg params extra mapping); reflexivity.
    + destruct n; reflexivity.
    + destruct n; reflexivity.
  - destruct (ueqb (ntag n) tag_path); [destruct n; reflexivity|].
    destruct n as [t v m|t items m|t ps m]; cbn [snd lret].
    + reflexivity.
    + destruct (ueqb t tag_seq); [|reflexivity].
      rewrite snd_lbind, (items_snd _ (construct o reg f)) by exact IH. destruct (construct_items _ items); reflexivity.
    + destruct (ueqb t tag_map); [|reflexivity].
      rewrite snd_lbind, (map_snd (S f) _ (construct o reg f)) by exact IH. destruct (construct_map _ _ ps); reflexivity.
Qed.
