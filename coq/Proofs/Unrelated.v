(* C13: registering additional, unrelated classes does not change how any node is recognised or processed.
   reg' = reg ++ ext where the classes of ext have fresh names, are not derived from classes of reg nor bases of them, and
   are mentioned by no type of reg; reg has no custom recognisers / savorize hooks (ext may have any).  Then recognition and
   processing at every type that does not mention ext are LITERALLY the same functions of the node -- whatever tags the
   document carries, including tags that name classes of ext. *)
From Coq Require Import NArith ZArith List Bool String Lia.
Import ListNotations.
From Y Require Import Prelude Node Tables NodeOps Types Recognize Loader Conform Polymorph RegOrder KeyOrder.
Open Scope N_scope.

Local Arguments ueqb : simpl never.
Local Arguments uprefix : simpl never.
Local Arguments class_of_tag : simpl never.
Local Arguments bang : simpl never.

(* ---- pointwise extensionality of the loops ---- *)
Lemma rec_items_ext (r1 r2 : node -> result RecResult) k t : forall items,
  (forall i, In i items -> r1 i = r2 i) -> rec_items r1 k t items = rec_items r2 k t items.
Proof.
  induction items as [|i l IH]; intros H; [reflexivity|]. cbn [rec_items]. rewrite (H i (or_introl eq_refl)).
  destruct (r2 i) as [res|e]; cbn [bind]; [|reflexivity]. destruct (fst res) as [|a [|b l']]; try reflexivity.
  apply IH. intros j Hj. apply H. right. exact Hj.
Qed.
Lemma rec_pairs_ext (k1 k2 v1 v2 : node -> result RecResult) k kt vt : forall ps,
  (forall kn vn, In (kn, vn) ps -> k1 kn = k2 kn /\ v1 vn = v2 vn) -> rec_pairs k1 v1 k kt vt ps = rec_pairs k2 v2 k kt vt ps.
Proof.
  induction ps as [|[kn vn] l IH]; intros H; [reflexivity|]. cbn [rec_pairs].
  destruct (H kn vn (or_introl eq_refl)) as [-> ->].
  destruct (k2 kn) as [kres|e]; cbn [bind]; [|reflexivity]. destruct (fst kres) as [|a [|b l']]; try reflexivity.
  destruct (v2 vn) as [vres|e]; cbn [bind]; [|reflexivity]. destruct (fst vres) as [|a' [|b' l'']]; try reflexivity.
  apply IH. intros x y Hin. apply H. right. exact Hin.
Qed.
Lemma rec_members_ext (r1 r2 : ty -> result RecResult) : forall ts acc causes,
  (forall t, In t ts -> r1 t = r2 t) -> rec_members r1 ts acc causes = rec_members r2 ts acc causes.
Proof.
  induction ts as [|t l IH]; intros acc causes H; [reflexivity|]. cbn [rec_members]. rewrite (H t (or_introl eq_refl)).
  destruct (r2 t) as [res|e]; cbn [bind]; [|reflexivity]. apply IH. intros x Hx. apply H. right. exact Hx.
Qed.
Lemma rec_union_ext (r1 r2 : ty -> result RecResult) ts m : (forall t, In t ts -> r1 t = r2 t) -> rec_union r1 ts m = rec_union r2 ts m.
Proof. intros H. unfold rec_union. rewrite (rec_members_ext r1 r2 ts [] [] H). reflexivity. Qed.
Lemma rec_params_ext (r1 r2 : node -> ty -> result RecResult) n ps c : forall params,
  (forall p sub, In p params -> r1 sub (p_ty p) = r2 sub (p_ty p)) -> rec_params r1 n ps params c = rec_params r2 n ps params c.
Proof.
  induction params as [|p rest IH]; intros H; [reflexivity|]. cbn [rec_params].
  assert (IH' : rec_params r1 n ps rest c = rec_params r2 n ps rest c) by (apply IH; intros q sub Hq; apply H; right; exact Hq).
  rewrite IH'.
  assert (E : forall sub, r1 sub (p_ty p) = r2 sub (p_ty p)) by (intros sub; apply H; left; reflexivity).
  destruct (has_attr_ps (p_name p) ps).
  - destruct (get_attr_ps (p_name p) ps) as [sub|e]; [rewrite E|]; reflexivity.
  - destruct (has_attr_ps (dashed (p_name p)) ps); [|reflexivity].
    destruct (get_attr_ps (dashed (p_name p)) ps) as [sub|e]; [rewrite E|]; reflexivity.
Qed.
Lemma process_items_ext (p1 p2 : node -> result node) : forall l, (forall x, In x l -> p1 x = p2 x) -> process_items p1 l = process_items p2 l.
Proof.
  induction l as [|x l IH]; intros H; [reflexivity|]. cbn [process_items]. rewrite (H x (or_introl eq_refl)), IH; [reflexivity|].
  intros y Hy. apply H. right. exact Hy.
Qed.
Lemma process_pairs_ext (k1 k2 v1 v2 : node -> result node) : forall l,
  (forall k v, In (k, v) l -> k1 k = k2 k /\ v1 v = v2 v) -> process_pairs k1 v1 l = process_pairs k2 v2 l.
Proof.
  induction l as [|[k v] l IH]; intros H; [reflexivity|]. cbn [process_pairs]. destruct (H k v (or_introl eq_refl)) as [-> ->].
  rewrite IH; [reflexivity|]. intros x y Hin. apply H. right. exact Hin.
Qed.
Lemma process_attrs_ext (p1 p2 : node -> ty -> result node) : forall params n,
  (forall p sub, In p params -> p1 sub (p_ty p) = p2 sub (p_ty p)) -> process_attrs p1 params n = process_attrs p2 params n.
Proof.
  induction params as [|p rest IH]; intros n H; [reflexivity|]. cbn [process_attrs].
  destruct (has_attribute (p_name p) n) as [[|]|e]; cbn [bind]; try reflexivity.
  - destruct (match get_attribute (p_name p) n with Err ESeasoning => Err ERecognition | r => r end) as [sub|e]; cbn [bind]; [|reflexivity].
    rewrite (H p sub (or_introl eq_refl)). destruct (p2 sub (p_ty p)) as [sub'|e]; cbn [bind]; [|reflexivity].
    destruct (set_attribute (p_name p) (PNode sub') n) as [n'|e]; cbn [bind]; [|reflexivity].
    apply IH. intros q s Hq. apply H. right. exact Hq.
  - apply IH. intros q s Hq. apply H. right. exact Hq.
Qed.

(* ---- registries ---- *)
Lemma find_cls_app r1 r2 c : find_cls (r1 ++ r2) c = match find_cls r1 c with Some k => Some k | None => find_cls r2 c end.
Proof. induction r1 as [|k r IH]; [reflexivity|]. cbn [app find_cls]. destruct (ueqb (c_name k) c); [reflexivity|exact IH]. Qed.

Section ext.
  Variable ext : registry.
  (* T mentions no class of ext *)
  Fixpoint avoid (T : ty) : Prop :=
    match T with
    | TClass c => find_cls ext c = None
    | TList _ t => avoid t
    | TDict _ kt vt => avoid kt /\ avoid vt
    | TUnion ts => (fix go (l : list ty) : Prop := match l with [] => True | t :: r => avoid t /\ go r end) ts
    | _ => True
    end.
  Lemma avoid_union ts : avoid (TUnion ts) <-> Forall avoid ts.
  Proof.
    cbn [avoid]. induction ts as [|t r IH]; [split; constructor|]. split.
    - intros [H1 H2]. constructor; [exact H1 | apply IH, H2].
    - intros H. inversion H; subst. split; [assumption | apply IH; assumption].
  Qed.
  Definition avoids (l : list ty) : Prop := Forall avoid l.
  Lemma avoids_union a b : avoids a -> avoids b -> avoids (ty_union a b).
  Proof. unfold avoids. rewrite !Forall_forall. intros Ha Hb x Hx. apply ty_union_In in Hx. destruct Hx; auto. Qed.
End ext.

Record unrelated (reg ext : registry) : Prop := {
  u_fresh : forall k, In k ext -> find_cls reg (c_name k) = None;
  u_fresh' : forall k, In k reg -> find_cls ext (c_name k) = None;
  u_nosub : forall k b, In k ext -> In b (c_bases k) -> find_cls reg b = None;      (* no class of ext derives from a class of reg *)
  u_nobase : forall k b, In k reg -> In b (c_bases k) -> find_cls ext b = None;     (* nor the other way round *)
  u_norec : no_recognisers reg;
  u_nosav : no_savorizers reg;
  u_types : forall k p, In k reg -> In p (params_of k) -> avoid ext (p_ty p) }.

Lemma find_cls_mem reg k : In k reg -> find_cls reg (c_name k) <> None.
Proof.
  induction reg as [|k0 r IH]; intros H; [contradiction|]. cbn [find_cls].
  destruct (ueqb_spec (c_name k0) (c_name k)) as [E|N]; [discriminate|]. destruct H as [->|H]; [contradiction N; reflexivity | apply IH, H].
Qed.

Section unrel.
  Variable o : oracle.
  Variables reg ext : registry.
  Hypothesis U : unrelated reg ext.
  Let reg' := reg ++ ext.

  Lemma F1 c : find_cls ext c = None -> find_cls reg' c = find_cls reg c.
  Proof. intros H. unfold reg'. rewrite find_cls_app, H. destruct (find_cls reg c); reflexivity. Qed.
  Lemma F2 c k : find_cls reg c = Some k -> find_cls reg' c = Some k.
  Proof. intros H. unfold reg'. rewrite find_cls_app, H. reflexivity. Qed.
  Lemma F4 c k : find_cls reg c = Some k -> direct_subclasses reg' c = direct_subclasses reg c.
  Proof.
    intros Ek. unfold direct_subclasses, reg'. rewrite filter_app.
    assert (E : filter (fun k0 => umem c (c_bases k0)) ext = []).
    { assert (G : forall l, (forall k0, In k0 l -> In k0 ext) -> filter (fun k0 => umem c (c_bases k0)) l = []).
      { induction l as [|k0 l IH]; intros Hl; [reflexivity|]. cbn [filter].
        destruct (umem c (c_bases k0)) eqn:Hm.
        - apply umem_In in Hm. rewrite (u_nosub reg ext U k0 c (Hl k0 (or_introl eq_refl)) Hm) in Ek. discriminate Ek.
        - apply IH. intros k1 H1. apply Hl. right. exact H1. }
      apply G. auto. }
    rewrite E, app_nil_r. reflexivity.
  Qed.

  Definition inreg (l : list ty) : Prop := Forall (fun R => exists k, In k reg /\ R = TClass (c_name k)) l.
  Lemma inreg_union a b : inreg a -> inreg b -> inreg (ty_union a b).
  Proof. unfold inreg. rewrite !Forall_forall. intros Ha Hb x Hx. apply ty_union_In in Hx. destruct Hx; auto. Qed.
  Lemma inreg_avoids l : inreg l -> avoids ext l.
  Proof.
    unfold inreg, avoids. intros H. eapply Forall_impl; [|exact H]. intros R (k & Hk & ->). cbn [avoid]. apply (u_fresh' reg ext U k Hk).
  Qed.

  Lemma rec_params_res rec n ps c : forall params r, rec_params rec n ps params c = Ok r -> fst r = [] \/ fst r = [TClass c].
  Proof.
    induction params as [|p rest IH]; intros r E; cbn [rec_params] in E.
    - injection E as <-. right. reflexivity.
    - assert (TRY : forall name (kont : result RecResult), (forall r', kont = Ok r' -> fst r' = [] \/ fst r' = [TClass c]) ->
               forall r', (if has_attr_ps name ps then
                             match get_attr_ps name ps with
                             | Err _ => Ok ([], RE [nmark n] [name] [])
                             | Ok sub => res <- rec sub (p_ty p) ;;
                                         if is_nil (fst res) then Ok ([], RE [first_key_mark name ps (nmark n)] [name] [snd res])
                                         else rec_params rec n ps rest c
                             end
                           else kont) = Ok r' -> fst r' = [] \/ fst r' = [TClass c]).
      { intros name kont Hk r' E'. destruct (has_attr_ps name ps); [|apply Hk, E'].
        destruct (get_attr_ps name ps) as [sub|e].
        - destruct (rec sub (p_ty p)) as [res|e]; cbn [bind] in E'; [|discriminate E'].
          destruct (is_nil (fst res)); [injection E' as <-; left; reflexivity | apply IH, E'].
        - injection E' as <-. left. reflexivity. }
      eapply TRY; [|exact E]. intros r1 E1. eapply TRY; [|exact E1]. intros r2 E2.
      destruct (p_required p); [injection E2 as <-; left; reflexivity | apply IH, E2].
  Qed.
  Lemma rec_class_res rec k n r : c_recognize k = None -> rec_class o rec k n = Ok r -> fst r = [] \/ fst r = [TClass (c_name k)].
  Proof.
    intros Hr E. unfold rec_class in E. rewrite Hr in E.
    destruct (c_shape k); destruct n; try (injection E as <-; left; reflexivity);
      try (eapply rec_params_res; exact E);
      match type of E with context [if ?b then _ else _] => destruct b end; injection E as <-; auto.
  Qed.
  Lemma rec_subs_inreg recsub : (forall d r, recsub d = Ok r -> inreg (fst r)) ->
    forall l acc causes r, inreg acc -> rec_subs recsub l acc causes = Ok r -> inreg (fst r).
  Proof.
    intros H. induction l as [|d l IH]; intros acc causes r Ha E; cbn [rec_subs] in E.
    - injection E as <-. exact Ha.
    - destruct (recsub (c_name d)) as [res|e] eqn:Er; cbn [bind] in E; [|discriminate E].
      eapply IH; [|exact E]. apply inreg_union; [exact Ha | eapply H, Er].
  Qed.
  Lemma candidates_inreg f n c k own : (forall n c top r, rec_classes o reg f n c top = Ok r -> inreg (fst r)) ->
    find_cls reg c = Some k -> candidates o reg f n c k = Ok own -> inreg (fst own).
  Proof.
    intros IH Ek E. unfold candidates in E.
    destruct (rec_subs _ _ _ _) as [subs|e] eqn:Es; cbn [bind] in E; [|discriminate E].
    assert (Hs : inreg (fst subs)).
    { eapply rec_subs_inreg; [| |exact Es]; [intros d r0 E0; eapply IH, E0 | constructor]. }
    destruct (is_nil (fst subs) && negb (c_abstract k)).
    - destruct (rec_class o (recognize o reg f) k n) as [r1|e] eqn:E1; cbn [bind] in E; [|discriminate E].
      injection E as <-. cbn [fst].
      destruct (rec_class_res _ k n r1 (u_norec reg ext U k (proj1 (find_cls_In _ _ _ Ek))) E1) as [->| ->]; [constructor|].
      constructor; [|constructor]. exists k. split; [exact (proj1 (find_cls_In _ _ _ Ek)) | reflexivity].
    - injection E as <-. exact Hs.
  Qed.
  Lemma class_of_tag_In r t kt : class_of_tag r t = Some kt -> In kt r.
  Proof.
    unfold class_of_tag. destruct t as [|c0 c]; [discriminate|]. destruct (N.eqb c0 33); [|discriminate].
    intros H. exact (proj1 (find_cls_In _ _ _ H)).
  Qed.
  Lemma decide_inreg n top own : inreg (fst own) -> inreg (fst (decide reg n top own)).
  Proof.
    intros H. unfold decide. destruct (fst own) as [|x [|y l]] eqn:Ef; cbn [fst].
    - constructor.
    - destruct (negb (uprefix core_prefix (ntag n))); [|exact H].
      destruct (class_of_tag reg (ntag n)); [|constructor]. destruct (ty_mem _ _); [exact H|constructor].
    - destruct (class_of_tag reg (ntag n)) as [kt|] eqn:Ec; [|exact H]. destruct (ty_mem _ _); [|exact H].
      constructor; [|constructor]. exists kt. split; [eapply class_of_tag_In, Ec | reflexivity].
  Qed.
  Lemma rec_classes_inreg : forall f n c top r, rec_classes o reg f n c top = Ok r -> inreg (fst r).
  Proof.
    induction f as [|f IH]; intros n c top r E; [discriminate E|].
    destruct (find_cls reg c) as [k|] eqn:Ek; [|cbn [rec_classes] in E; rewrite Ek in E; discriminate E].
    rewrite (rec_classes_eq o reg f n c top k Ek) in E.
    destruct (candidates o reg f n c k) as [own|e] eqn:Ec; cbn [bind] in E; [|discriminate E].
    injection E as <-. apply decide_inreg. eapply candidates_inreg; eauto.
  Qed.

  (* the decision does not see ext: a tag naming a class of ext names none of the candidates *)
  Lemma decide_same n top own : inreg (fst own) -> decide reg' n top own = decide reg n top own.
  Proof.
    intros H. unfold decide.
    assert (CT : class_of_tag reg' (ntag n) = class_of_tag reg (ntag n) \/
                 (class_of_tag reg (ntag n) = None /\ exists kt, class_of_tag reg' (ntag n) = Some kt /\ ty_mem (TClass (c_name kt)) (fst own) = false)).
    { unfold class_of_tag. destruct (ntag n) as [|c0 c]; [left; reflexivity|]. destruct (N.eqb c0 33); [|left; reflexivity].
      unfold reg'. rewrite find_cls_app. destruct (find_cls reg c) as [k|] eqn:Ek; [left; reflexivity|].
      destruct (find_cls ext c) as [kt|] eqn:Ee; [|left; reflexivity]. right. split; [reflexivity|]. exists kt. split; [reflexivity|].
      destruct (ty_mem (TClass (c_name kt)) (fst own)) eqn:Hm; [|reflexivity]. exfalso.
      apply ty_mem_In in Hm. unfold inreg in H. rewrite Forall_forall in H. destruct (H _ Hm) as (k & Hk & E). injection E as E.
      apply (find_cls_mem reg k Hk). rewrite <- E. apply (u_fresh reg ext U kt (proj1 (find_cls_In _ _ _ Ee))). }
    destruct CT as [->|(E0 & kt & E1 & Hm)]; [reflexivity|]. rewrite E0, E1, Hm.
    destruct (fst own) as [|x [|y l]]; reflexivity.
  Qed.
End unrel.

Section unrel2.
  Variable o : oracle.
  Variables reg ext : registry.
  Hypothesis U : unrelated reg ext.
  Let reg' := reg ++ ext.

  Lemma avoids_map (f : ty -> ty) l : avoids ext l -> (forall y, avoid ext y -> avoid ext (f y)) -> avoids ext (map f l).
  Proof. unfold avoids. intros H Hf. apply Forall_map. eapply Forall_impl; [|exact H]. exact Hf. Qed.

  (* what is recognised at a type that avoids ext avoids ext *)
  Lemma rec_items_avoids rec k t : avoid ext t -> forall items, (forall i r, rec i = Ok r -> avoids ext (fst r)) ->
    forall r, rec_items rec k t items = Ok r -> avoids ext (fst r).
  Proof.
    intros Ht. induction items as [|i l IH]; intros H r E; cbn [rec_items] in E.
    - injection E as <-. constructor; [exact Ht|constructor].
    - destruct (rec i) as [res|e] eqn:Er; cbn [bind] in E; [|discriminate E].
      pose proof (H i res Er) as Hi. destruct (fst res) as [|a [|b l']] eqn:Ef.
      + injection E as <-. constructor.
      + apply IH; assumption.
      + injection E as <-. apply (avoids_map (TList 0) (a :: b :: l') Hi). intros y Hy. exact Hy.
  Qed.
  Lemma rec_pairs_avoids reck recv k kt vt : avoid ext kt -> avoid ext vt -> forall ps,
    (forall x r, reck x = Ok r -> avoids ext (fst r)) -> (forall x r, recv x = Ok r -> avoids ext (fst r)) ->
    forall r, rec_pairs reck recv k kt vt ps = Ok r -> avoids ext (fst r).
  Proof.
    intros Hk Hv. induction ps as [|[kn vn] l IH]; intros H1 H2 r E; cbn [rec_pairs] in E.
    - injection E as <-. constructor; [split; assumption|constructor].
    - destruct (reck kn) as [kres|e] eqn:Ek; cbn [bind] in E; [|discriminate E].
      pose proof (H1 kn kres Ek) as Hkr. destruct (fst kres) as [|a [|b l']] eqn:Efk.
      + injection E as <-. constructor.
      + destruct (recv vn) as [vres|e] eqn:Ev; cbn [bind] in E; [|discriminate E].
        pose proof (H2 vn vres Ev) as Hvr. destruct (fst vres) as [|a' [|b' l'']] eqn:Efv.
        * injection E as <-. constructor.
        * apply IH; assumption.
        * injection E as <-. apply (avoids_map (fun t => TDict 3 kt t) (a' :: b' :: l'') Hvr). intros y Hy. split; assumption.
      + injection E as <-. apply (avoids_map (fun t => TDict 3 t vt) (a :: b :: l') Hkr). intros y Hy. split; assumption.
  Qed.
  Lemma rec_members_avoids rec : forall ts acc causes r, (forall t res, In t ts -> rec t = Ok res -> avoids ext (fst res)) ->
    avoids ext acc -> rec_members rec ts acc causes = Ok r -> avoids ext (fst r).
  Proof.
    induction ts as [|t l IH]; intros acc causes r H Ha E; cbn [rec_members] in E.
    - injection E as <-. exact Ha.
    - destruct (rec t) as [res|e] eqn:Er; cbn [bind] in E; [|discriminate E].
      eapply IH; [| |exact E]; [intros x res' Hx; apply H; right; exact Hx|].
      apply avoids_union; [exact Ha | eapply H; [left; reflexivity | exact Er]].
  Qed.
  Lemma rec_union_avoids rec ts m r : (forall t res, In t ts -> rec t = Ok res -> avoids ext (fst res)) ->
    rec_union rec ts m = Ok r -> avoids ext (fst r).
  Proof.
    intros H E. rewrite rec_union_eq in E. destruct (rec_members rec ts [] []) as [x|e] eqn:Em; cbn [bind] in E; [|discriminate E].
    pose proof (rec_members_avoids rec ts [] [] x H (Forall_nil _) Em) as Hx.
    assert (Hb : avoids ext (bfix (fst x))).
    { unfold bfix. destruct (ty_mem TBool (fst x) && ty_mem TBoolFix (fst x)); [|exact Hx].
      unfold ty_remove, avoids in *. rewrite Forall_forall in *. intros y Hy. apply filter_In in Hy. apply Hx, Hy. }
    destruct (bfix (fst x)) as [|a [|b l]]; injection E as <-; exact Hb.
  Qed.

  Lemma recognize_avoids : forall f n T r, avoid ext T -> recognize o reg f n T = Ok r -> avoids ext (fst r).
  Proof.
    induction f as [|f IH]; intros n T r HT E; [discriminate E|]. cbn [recognize] in E.
    assert (SC : forall T0, avoid ext T0 -> avoids ext (fst (rec_scalar n T0))).
    { intros T0 H0. unfold rec_scalar. destruct n; destruct (scalar_tag T0); try constructor.
      destruct (ueqb _ _); constructor; [exact H0|constructor]. }
    destruct T as [ | | | | | | | | |k t|k kt vt|ts|c|c]; try (injection E as <-; apply SC; exact I).
    - injection E as <-. unfold rec_path. destruct n; try constructor. destruct (ueqb _ _); constructor; [exact I|constructor].
    - injection E as <-. constructor; [exact I|constructor].
    - destruct (is_seq_origin k); [|discriminate E]. destruct n as [tg v m|tg items m|tg ps m]; try (injection E as <-; constructor).
      apply (rec_items_avoids (fun i => recognize o reg f i t) k t HT items); [|exact E].
      intros i r0 E0. exact (IH i t r0 HT E0).
    - destruct (is_map_origin k); [|discriminate E].
      match type of E with (if ?c then _ else _) = _ => destruct c end; [|discriminate E].
      destruct n as [tg v m|tg items m|tg ps m]; try (injection E as <-; constructor). destruct HT as [Hk Hv].
      apply (rec_pairs_avoids (fun x => recognize o reg f x kt) (fun x => recognize o reg f x vt) k kt vt Hk Hv ps); [| |exact E];
        intros x r0 E0; [exact (IH x kt r0 Hk E0) | exact (IH x vt r0 Hv E0)].
    - eapply rec_union_avoids; [|exact E]. intros t res Ht Er. eapply IH; [|exact Er].
      apply avoid_union in HT. rewrite Forall_forall in HT. apply HT, Ht.
    - destruct (registered reg c); [|discriminate E]. apply (inreg_avoids reg ext U). exact (rec_classes_inreg o reg ext U f n c true r E).
    - discriminate E.
  Qed.

  (* recognition *)
  Theorem recognize_unrelated : forall f,
    (forall n T, avoid ext T -> recognize o reg' f n T = recognize o reg f n T) /\
    (forall n c top k, find_cls reg c = Some k -> rec_classes o reg' f n c top = rec_classes o reg f n c top).
  Proof.
    induction f as [|f [IHr IHc]]; [split; reflexivity|]. split.
    - intros n T HT. cbn [recognize].
      destruct T as [ | | | | | | | | |k t|k kt vt|ts|c|c]; try reflexivity.
      + destruct (is_seq_origin k); [|reflexivity]. destruct n; try reflexivity.
        apply rec_items_ext. intros i _. apply IHr, HT.
      + destruct (is_map_origin k); [|reflexivity]. destruct HT as [Hk Hv].
        assert (KT : match kt with
                     | TStr => true
                     | TClass c => match find_cls reg' c with Some kc => match c_shape kc with ShStr => true | _ => false end | None => false end
                     | _ => false end =
                     match kt with
                     | TStr => true
                     | TClass c => match find_cls reg c with Some kc => match c_shape kc with ShStr => true | _ => false end | None => false end
                     | _ => false end).
        { destruct kt; try reflexivity. cbn [avoid] in Hk. unfold reg'. rewrite (F1 reg ext c Hk). reflexivity. }
        rewrite KT. match goal with |- (if ?c then _ else _) = _ => destruct c end; [|reflexivity].
        destruct n; try reflexivity. apply rec_pairs_ext. intros kn vn _. split; apply IHr; assumption.
      + apply rec_union_ext. intros t Ht. apply IHr. apply avoid_union in HT. rewrite Forall_forall in HT. apply HT, Ht.
      + cbn [avoid] in HT. unfold registered. unfold reg' at 1. rewrite (F1 reg ext c HT).
        destruct (find_cls reg c) as [k|] eqn:Ek; [|reflexivity]. eapply IHc, Ek.
    - intros n c top k Ek.
      rewrite (rec_classes_eq o reg' f n c top k (F2 reg ext c k Ek)), (rec_classes_eq o reg f n c top k Ek).
      assert (CE : candidates o reg' f n c k = candidates o reg f n c k).
      { unfold candidates. unfold reg' at 2. rewrite (F4 reg ext U c k Ek).
        rewrite (rec_subs_ext (fun d => rec_classes o reg' f n d false) (fun d => rec_classes o reg f n d false) (direct_subclasses reg c) [] []).
        - assert (RC : rec_class o (recognize o reg' f) k n = rec_class o (recognize o reg f) k n).
          { unfold rec_class. rewrite (u_norec reg ext U k (proj1 (find_cls_In _ _ _ Ek))).
            destruct (c_shape k) as [params ex| |] eqn:Es; try reflexivity. destruct n; try reflexivity.
            apply rec_params_ext. intros p sub Hp. apply IHr. apply (u_types reg ext U k p (proj1 (find_cls_In _ _ _ Ek))).
            unfold params_of. rewrite Es. exact Hp. }
          rewrite RC. reflexivity.
        - intros d Hd. unfold direct_subclasses in Hd. apply filter_In in Hd. destruct Hd as [Hd _].
          destruct (find_cls reg (c_name d)) as [kd|] eqn:Ed; [eapply IHc, Ed | exfalso; exact (find_cls_mem reg d Hd Ed)]. }
      rewrite CE. destruct (candidates o reg f n c k) as [own|e] eqn:Ec; cbn [bind]; [|reflexivity].
      unfold reg'. rewrite (decide_same reg ext U n top own); [reflexivity|].
      eapply candidates_inreg; [exact U | intros; eapply rec_classes_inreg; eauto | exact Ek | exact Ec].
  Qed.
End unrel2.

Section unrel3.
  Variable o : oracle.
  Variables reg ext : registry.
  Hypothesis U : unrelated reg ext.
  Let reg' := reg ++ ext.

  Lemma savorize_order_unrelated : forall fuel c, find_cls ext c = None -> savorize_order reg' fuel c = [].
  Proof.
    induction fuel as [|fuel IH]; intros c Hc; [reflexivity|]. cbn [savorize_order]. unfold reg' at 1. rewrite (F1 reg ext c Hc).
    destruct (find_cls reg c) as [k|] eqn:Ek; [|reflexivity].
    pose proof (proj1 (find_cls_In _ _ _ Ek)) as Hk.
    rewrite (u_nosav reg ext U k Hk), app_nil_r.
    assert (G : forall l, (forall b, In b l -> In b (c_bases k)) -> flat_map (savorize_order reg' fuel) (filter (registered reg') l) = []).
    { induction l as [|b l IHl]; intros Hl; [reflexivity|]. cbn [filter]. destruct (registered reg' b); [cbn [flat_map]|];
        rewrite ?IH, ?IHl; try reflexivity; try (intros b' Hb'; apply Hl; right; exact Hb').
      apply (u_nobase reg ext U k b Hk). apply Hl. left. reflexivity. }
    unfold registered_bases. apply G. auto.
  Qed.

  Theorem process_unrelated : forall f n T, avoid ext T -> process o reg' f n T = process o reg f n T.
  Proof.
    induction f as [|f IH]; intros n T HT; [reflexivity|]. cbn [process].
    unfold reg' at 1. rewrite (proj1 (recognize_unrelated o reg ext U (S f)) n T HT).
    destruct (recognize o reg (S f) n T) as [res|e] eqn:Er; cbn [bind]; [|reflexivity].
    pose proof (recognize_avoids o reg ext U (S f) n T res HT Er) as Ha.
    destruct (fst res) as [|R [|R2 l]]; try reflexivity.
    inversion Ha as [|? ? HR _]; subst.
    destruct R as [ | | | | | | | | |k t|k kt vt|ts|c|c]; try reflexivity.
    - destruct n as [tg v m|tg items m|tg ps m]; try reflexivity. destruct (ueqb tg tag_seq); [|reflexivity].
      rewrite (process_items_ext (fun i => process o reg' f i t) (fun i => process o reg f i t) items); [reflexivity|].
      intros i _. apply IH. exact HR.
    - destruct n as [tg v m|tg items m|tg ps m]; try reflexivity. destruct (ueqb tg tag_map); [|reflexivity]. destruct HR as [Hk Hv].
      rewrite (process_pairs_ext (fun x => process o reg' f x kt) (fun x => process o reg f x kt)
                                 (fun x => process o reg' f x vt) (fun x => process o reg f x vt) ps); [reflexivity|].
      intros x y _. split; apply IH; assumption.
    - cbn [avoid] in HR. unfold reg' at 1. rewrite (F1 reg ext c HR).
      destruct (find_cls reg c) as [k|] eqn:Ek; [|reflexivity].
      unfold savorize. rewrite (savorize_order_unrelated FUELK c HR).
      rewrite (savorize_order_none reg (u_nosav reg ext U)). cbn [fold_left bind].
      match goal with |- (n2 <- (if ?b then _ else _) ;; _) = _ => destruct b end; [|reflexivity].
      rewrite (process_attrs_ext (process o reg' f) (process o reg f) (params_of k)); [reflexivity|].
      intros p sub Hp. apply IH. exact (u_types reg ext U k p (proj1 (find_cls_In _ _ _ Ek)) Hp).
  Qed.
End unrel3.
