(* The dumping side: what the representers build is free of explicit tags (for values of every size and
   shape), and a plain YAML parser reads it as the object's projection, order included. *)
From Coq Require Import NArith ZArith List Bool String Lia.
Import ListNotations.
From Y Require Import Prelude Node Re ReSound ReSem Resolve Decide Images Tables NodeOps Types Recognize Loader Hooks Represent.
Open Scope N_scope.

(* ---- certificates over the GENERATED dumper table: every text the representers write for a non-string scalar
        resolves to the tag it is given, so the serializer writes no tag (strings of every length) ---- *)
Lemma cert_int : image_check dumper_tbl tag_int int_image = true.
Proof. vm_compute. reflexivity. Qed.
Lemma cert_float : image_check dumper_tbl tag_float float_image = true.
Proof. vm_compute. reflexivity. Qed.
Lemma cert_date : image_check dumper_tbl tag_timestamp date_image = true.
Proof. vm_compute. reflexivity. Qed.
Lemma cert_datetime : image_check dumper_tbl tag_timestamp datetime_image = true.
Proof. vm_compute. reflexivity. Qed.
Lemma int_resolves s : matches int_image s = true -> resolve dumper_tbl s = tag_int.
Proof. intros H. exact (proj2 (image_check_sound dumper_tbl tag_int int_image cert_int s H)). Qed.
Lemma float_resolves s : matches float_image s = true -> resolve dumper_tbl s = tag_float.
Proof. intros H. exact (proj2 (image_check_sound dumper_tbl tag_float float_image cert_float s H)). Qed.
Lemma date_resolves s : matches date_image s = true -> resolve dumper_tbl s = tag_timestamp.
Proof. intros H. exact (proj2 (image_check_sound dumper_tbl tag_timestamp date_image cert_date s H)). Qed.
Lemma datetime_resolves s : matches datetime_image s = true -> resolve dumper_tbl s = tag_timestamp.
Proof. intros H. exact (proj2 (image_check_sound dumper_tbl tag_timestamp datetime_image cert_datetime s H)). Qed.
Lemma cert_words :
  resolve dumper_tbl (u "true") = tag_bool /\ resolve dumper_tbl (u "false") = tag_bool /\ resolve dumper_tbl (u "null") = tag_null.
Proof. vm_compute. repeat split; reflexivity. Qed.
Local Arguments ueqb : simpl never.
Local Arguments resolve : simpl never.
Local Arguments matches : simpl never.

Lemma implicit_of_resolve t v : resolve dumper_tbl v = t -> implicit_scalar t v = true.
Proof. intros <-. unfold implicit_scalar. rewrite (proj2 (ueqb_eq _ _) eq_refl). reflexivity. Qed.

Lemma implicit_str v : implicit_scalar tag_str v = true.
Proof. unfold implicit_scalar. rewrite (proj2 (ueqb_eq tag_str tag_str) eq_refl). apply orb_true_r. Qed.

Section dump.
  Variable o : oracle.
  Variable reg : registry.

  Definition sweeten_keeps (P : node -> Prop) : Prop :=
    forall c k h x y, find_cls reg c = Some k -> c_sweeten k = Some h -> P x -> h x = Ok y -> P y.

  Lemma sweeten_chain_keeps (P : node -> Prop) : sweeten_keeps P ->
    forall cs x y, P x -> fold_left (apply_sweeten reg) cs (Ok x) = Ok y -> P y.
  Proof.
    intros HK cs. induction cs as [|c cs IH]; intros x y Hx H; cbn [fold_left] in H.
    - injection H as <-. exact Hx.
    - unfold apply_sweeten at 2 in H. cbn [bind] in H.
      destruct (find_cls reg c) as [k|] eqn:Ek; [|eapply IH; eauto].
      destruct (c_sweeten k) as [h|] eqn:Eh; [|eapply IH; eauto].
      destruct (h x) as [x'|e] eqn:Ex.
      + eapply IH; [|exact H]. eapply HK; eauto.
      + exfalso. clear -H. induction cs as [|c' cs IH]; cbn [fold_left] in H; [discriminate|]. apply IH. exact H.
  Qed.

  Lemma items_inv (P : value -> Prop) (Q : node -> Prop) rec l :
    (forall x n, In x l -> rec x = Ok n -> Q n) ->
    forall l', represent_items rec l = Ok l' -> Forall Q l'.
  Proof.
    induction l as [|x r IH]; intros H l' E; cbn [represent_items] in E.
    - injection E as <-. constructor.
    - destruct (rec x) as [x'|] eqn:Ex; cbn [bind] in E; [|discriminate].
      destruct (represent_items rec r) as [r'|] eqn:Er; cbn [bind] in E; [|discriminate].
      injection E as <-. constructor; [eapply H; [left; reflexivity | exact Ex]|].
      apply IH; [|reflexivity]. intros y n Hy. apply H. right. exact Hy.
  Qed.
  Lemma pairs_inv (Q : node -> Prop) rec l :
    (forall k x n, In (k, x) l -> (rec k = Ok n -> Q n) /\ (rec x = Ok n -> Q n)) ->
    forall l', represent_pairs rec l = Ok l' -> Forall (fun kv => Q (fst kv) /\ Q (snd kv)) l'.
  Proof.
    induction l as [|[k x] r IH]; intros H l' E; cbn [represent_pairs] in E.
    - injection E as <-. constructor.
    - destruct (rec k) as [k'|] eqn:Ek; cbn [bind] in E; [|discriminate].
      destruct (rec x) as [x'|] eqn:Ex; cbn [bind] in E; [|discriminate].
      destruct (represent_pairs rec r) as [r'|] eqn:Er; cbn [bind] in E; [|discriminate].
      injection E as <-. constructor.
      + cbn [fst snd]. split; [eapply (proj1 (H k x k' (or_introl eq_refl))) | eapply (proj2 (H k x x' (or_introl eq_refl)))]; assumption.
      + apply IH; [|reflexivity]. intros k0 x0 n Hy. apply H. right. exact Hy.
  Qed.
  Lemma attrs_inv (Q : node -> Prop) rec l :
    (forall a x, In (a, x) l -> Q (Scalar tag_str a genmark)) ->
    (forall a x n, In (a, x) l -> ueqb a extra_name = false -> rec x = Ok n -> Q n) ->
    (forall a items k x n, In (a, VDict items) l -> In (k, x) items -> (rec k = Ok n -> Q n) /\ (rec x = Ok n -> Q n)) ->
    forall l', represent_attrs rec l = Ok l' -> Forall (fun kv => Q (fst kv) /\ Q (snd kv)) l'.
  Proof.
    induction l as [|[a x] r IH]; intros HS H1 H2 l' E; cbn [represent_attrs] in E.
    - injection E as <-. constructor.
    - destruct (ueqb a extra_name) eqn:Ea.
      + destruct x; try discriminate E.
        destruct (represent_pairs rec l) as [items'|] eqn:Ei; cbn [bind] in E; [|discriminate E].
        destruct (represent_attrs rec r) as [r'|] eqn:Er; cbn [bind] in E; [|discriminate E].
        injection E as <-. apply Forall_app. split.
        * eapply pairs_inv; [|exact Ei]. intros k x n Hin. eapply H2; [left; reflexivity | exact Hin].
        * apply IH; [| | |reflexivity].
          -- intros a0 x0 Hin. eapply HS. right. exact Hin.
          -- intros a0 x0 n Hin. apply H1. right. exact Hin.
          -- intros a0 items k x n Hin. eapply H2. right. exact Hin.
      + destruct (rec x) as [x'|] eqn:Ex; cbn [bind] in E; [|discriminate E].
        destruct (represent_attrs rec r) as [r'|] eqn:Er; cbn [bind] in E; [|discriminate E].
        injection E as <-. constructor.
        * cbn [fst snd]. split; [eapply HS; left; reflexivity|]. eapply H1; [left; reflexivity | exact Ea | exact Ex].
        * apply IH; [| | |reflexivity].
          -- intros a0 x0 Hin. eapply HS. right. exact Hin.
          -- intros a0 x0 n Hin. apply H1. right. exact Hin.
          -- intros a0 items k x0 n Hin. eapply H2. right. exact Hin.
  Qed.

  Lemma forallb_Forall {A} (f : A -> bool) l : Forall (fun x => f x = true) l -> forallb f l = true.
  Proof. induction 1 as [|x r Hx _ IH]; [reflexivity|]. cbn [forallb]. rewrite Hx, IH. reflexivity. Qed.

  (* ---- every scalar the representers write satisfies p, collections carry their default tags ---- *)
  Section generic.
    Variable p : ustring -> ustring -> bool.
    Hypothesis Pstr : forall s, valid s = true -> p tag_str s = true.
    Hypothesis Pint : forall z, p tag_int (z_to_dec z) = true.
    Hypothesis Pfloat : forall s, matches float_image s = true -> p tag_float s = true.
    Hypothesis Pdate : forall s, matches date_image s = true -> p tag_timestamp s = true.
    Hypothesis Pdatetime : forall s, matches datetime_image s = true -> p tag_timestamp s = true.
    Hypothesis Pwords : p tag_bool (u "true") = true /\ p tag_bool (u "false") = true /\ p tag_null (u "null") = true.
    Hypothesis HK : sweeten_keeps (fun n => shape_ok p n = true).

    Theorem represent_shape :
      forall fuel v n, leaves_ok o v = true -> represent o reg fuel v = Ok n -> shape_ok p n = true.
    Proof.
      induction fuel as [|f IH]; intros v n HL E; [discriminate E|].
      destruct v; cbn [represent] in E; cbn [leaves_ok leaf_ok] in HL.
      - injection E as <-. apply Pstr, HL.
      - injection E as <-. apply Pint.
      - destruct (olookup o repr_key hex) as [[]|]; try discriminate E.
        apply andb_true_iff in HL. destruct HL as [Hm _]. injection E as <-. apply Pfloat, Hm.
      - injection E as <-. cbn [shape_ok]. destruct b; [exact (proj1 Pwords) | exact (proj1 (proj2 Pwords))].
      - injection E as <-. exact (proj2 (proj2 Pwords)).
      - apply andb_true_iff in HL. destruct HL as [Hm _]. injection E as <-. apply Pdate, Hm.
      - apply andb_true_iff in HL. destruct HL as [Hm _]. injection E as <-. apply Pdatetime, Hm.
      - discriminate HL.
      - injection E as <-. apply Pstr, HL.
      - destruct (represent_items (represent o reg f) l) as [l'|] eqn:El; cbn [bind] in E; [|discriminate E].
        injection E as <-. cbn [shape_ok]. rewrite (proj2 (ueqb_eq _ _) eq_refl). cbn [andb].
        apply forallb_Forall. eapply (items_inv (fun _ => True) (fun n => shape_ok p n = true)); [|exact El].
        intros x n Hin Ex. apply (IH x n); [|exact Ex]. rewrite forallb_forall in HL. apply HL, Hin.
      - destruct (represent_pairs (represent o reg f) l) as [l'|] eqn:El; cbn [bind] in E; [|discriminate E].
        injection E as <-. cbn [shape_ok]. rewrite (proj2 (ueqb_eq _ _) eq_refl). cbn [andb].
        apply forallb_Forall.
        assert (F : Forall (fun kv => shape_ok p (fst kv) = true /\ shape_ok p (snd kv) = true) l').
        { eapply (pairs_inv (fun n => shape_ok p n = true)); [|exact El]. intros k x n Hin.
          rewrite forallb_forall in HL. specialize (HL _ Hin). cbn in HL. apply andb_true_iff in HL. destruct HL as [Hk Hx].
          split; intros Ex; [apply (IH k n Hk Ex) | apply (IH x n Hx Ex)]. }
        eapply Forall_impl; [|exact F]. intros kv [A B]. rewrite A, B. reflexivity.
      - destruct (registered reg c); [|discriminate E].
        destruct (represent_attrs (represent o reg f) kw) as [ps|] eqn:Ep; cbn [bind] in E; [|discriminate E].
        unfold sweeten in E. eapply (sweeten_chain_keeps _ HK); [|exact E].
        cbn [shape_ok]. rewrite (proj2 (ueqb_eq _ _) eq_refl). cbn [andb]. apply forallb_Forall.
        assert (F : Forall (fun kv => shape_ok p (fst kv) = true /\ shape_ok p (snd kv) = true) ps).
        { eapply (attrs_inv (fun n => shape_ok p n = true)); [| | |exact Ep].
          - intros a x Hin. rewrite forallb_forall in HL. specialize (HL _ Hin). cbn in HL.
            apply andb_true_iff in HL. apply Pstr, (proj1 HL).
          - intros a x n' Hin _ Ex. rewrite forallb_forall in HL. specialize (HL _ Hin). cbn in HL.
            apply andb_true_iff in HL. apply (IH x n' (proj2 HL) Ex).
          - intros a items k x n' Hin Hin2. rewrite forallb_forall in HL. specialize (HL _ Hin). cbn in HL.
            apply andb_true_iff in HL. destruct HL as [_ HL].
            rewrite forallb_forall in HL. specialize (HL _ Hin2). cbn in HL. apply andb_true_iff in HL. destruct HL as [Hk Hx].
            split; intros Ex; [apply (IH k n' Hk Ex) | apply (IH x n' Hx Ex)]. }
        eapply Forall_impl; [|exact F]. intros kv [A B]. rewrite A, B. reflexivity.
      - destruct (registered reg c); [|discriminate E]. injection E as <-. apply Pstr, HL.
      - destruct (registered reg c); [|discriminate E]. injection E as <-. apply Pstr, HL.
    Qed.
  End generic.

  (* ---- no explicit tags ---- *)
  Theorem represent_tag_free : sweeten_keeps (fun n => tag_free n = true) ->
    forall fuel v n, leaves_ok o v = true -> represent o reg fuel v = Ok n -> tag_free n = true.
  Proof.
    intros HK. apply represent_shape; try exact HK.
    - intros s _. apply implicit_str.
    - intros z. apply implicit_of_resolve, int_resolves, z_to_dec_image.
    - intros s H. apply implicit_of_resolve, float_resolves, H.
    - intros s H. apply implicit_of_resolve, date_resolves, H.
    - intros s H. apply implicit_of_resolve, datetime_resolves, H.
    - destruct cert_words as (A & B & C). repeat split; apply implicit_of_resolve; assumption.
  Qed.
End dump.

(* ---- a reader with resolver table rd: whatever the dumper may write without quotes, rd resolves to the tag the
        representer gave it.  The five certificates are the hypotheses; they are discharged by vm_compute for
        PyYAML's SafeLoader (C06) and for yatiml's loader (C05) over the GENERATED tables. ---- *)
Section reader.
  Variable rd : table.
  Hypothesis Cstr : cross_check dumper_tbl rd tag_str [tag_str] = true.
  Hypothesis Cint : image_check rd tag_int int_image = true.
  Hypothesis Cfloat : image_check rd tag_float float_image = true.
  Hypothesis Cdate : image_check rd tag_timestamp date_image = true.
  Hypothesis Cdatetime : image_check rd tag_timestamp datetime_image = true.
  Hypothesis Cwords : resolve rd (u "true") = tag_bool /\ resolve rd (u "false") = tag_bool /\ resolve rd (u "null") = tag_null.

  Lemma str_stays_str s : valid s = true -> resolve dumper_tbl s = tag_str -> resolve rd s = tag_str.
  Proof.
    intros Hv H. pose proof (cross_check_sound dumper_tbl rd tag_str [tag_str] Cstr s Hv H) as [E|[]].
    symmetry. exact E.
  Qed.
  Lemma rt_of_reader t v : resolve rd v = t -> rt_scalar rd t v = true.
  Proof. intros <-. unfold rt_scalar. rewrite (proj2 (ueqb_eq _ _) eq_refl). apply orb_true_r. Qed.
  Lemma rt_str s : valid s = true -> rt_scalar rd tag_str s = true.
  Proof.
    intros Hv. unfold rt_scalar. destruct (ueqb (resolve dumper_tbl s) tag_str) eqn:E; [|reflexivity].
    apply ueqb_eq in E. rewrite (str_stays_str s Hv E), (proj2 (ueqb_eq _ _) eq_refl). reflexivity.
  Qed.

  Theorem represent_rt_stable o reg : sweeten_keeps reg (fun n => rt_stable rd n = true) ->
    forall fuel v n, leaves_ok o v = true -> represent o reg fuel v = Ok n -> rt_stable rd n = true.
  Proof.
    intros HK. apply represent_shape; try exact HK.
    - exact rt_str.
    - intros z. apply rt_of_reader. exact (proj2 (image_check_sound rd tag_int int_image Cint _ (z_to_dec_image z))).
    - intros s H. apply rt_of_reader. exact (proj2 (image_check_sound rd tag_float float_image Cfloat s H)).
    - intros s H. apply rt_of_reader. exact (proj2 (image_check_sound rd tag_timestamp date_image Cdate s H)).
    - intros s H. apply rt_of_reader. exact (proj2 (image_check_sound rd tag_timestamp datetime_image Cdatetime s H)).
    - destruct Cwords as (A & B & C). repeat split; apply rt_of_reader; assumption.
  Qed.

  Lemma reparse_stable plain_ok : forall n, rt_stable rd n = true -> reparse rd plain_ok n = n.
  Proof.
    unfold rt_stable.
    induction n as [t v m|t l m IH|t l m IH] using node_ind2; intros H; cbn [reparse shape_ok] in *.
    - unfold rt_scalar in H. destruct (ueqb (resolve dumper_tbl v) t) eqn:E1; cbn [andb orb negb] in *.
      + apply ueqb_eq in H. destruct (plain_ok v); [rewrite H; reflexivity|].
        destruct (ueqb t tag_str) eqn:E2; [apply ueqb_eq in E2; rewrite E2|]; reflexivity.
      + destruct (ueqb t tag_str) eqn:E2; [apply ueqb_eq in E2; rewrite E2|]; reflexivity.
    - apply andb_true_iff in H. destruct H as [_ H]. f_equal.
      induction IH as [|x r Hx _ IHr]; [reflexivity|]. cbn [forallb map] in *. apply andb_true_iff in H. destruct H as [A B].
      rewrite (Hx A), (IHr B). reflexivity.
    - apply andb_true_iff in H. destruct H as [_ H]. f_equal.
      induction IH as [|[k x] r [Hk Hx] _ IHr]; [reflexivity|]. cbn [forallb map fst snd] in *.
      apply andb_true_iff in H. destruct H as [A B]. apply andb_true_iff in A. destruct A as [A1 A2].
      rewrite (Hk A1), (Hx A2), (IHr B). reflexivity.
  Qed.
End reader.

(* the reference plain parser: PyYAML's SafeLoader table *)
Lemma cert_s_str : cross_check dumper_tbl std_tbl tag_str [tag_str] = true.
Proof. vm_compute. reflexivity. Qed.
Lemma cert_s_int : image_check std_tbl tag_int int_image = true.
Proof. vm_compute. reflexivity. Qed.
Lemma cert_s_float : image_check std_tbl tag_float float_image = true.
Proof. vm_compute. reflexivity. Qed.
Lemma cert_s_date : image_check std_tbl tag_timestamp date_image = true.
Proof. vm_compute. reflexivity. Qed.
Lemma cert_s_datetime : image_check std_tbl tag_timestamp datetime_image = true.
Proof. vm_compute. reflexivity. Qed.
Lemma cert_s_words :
  resolve std_tbl (u "true") = tag_bool /\ resolve std_tbl (u "false") = tag_bool /\ resolve std_tbl (u "null") = tag_null.
Proof. vm_compute. repeat split; reflexivity. Qed.

(* ---- a plain parser reads the projection, order included ---- *)
Definition no_sweeten (reg : registry) : Prop := forall c k, find_cls reg c = Some k -> c_sweeten k = None.

Lemma sweeten_order_nil reg : no_sweeten reg -> forall fuel c, sweeten_order reg fuel c = [].
Proof.
  intros HN. induction fuel as [|f IH]; intros c; cbn [sweeten_order]; [reflexivity|].
  destruct (find_cls reg c) as [k|] eqn:Ek; [|reflexivity].
  rewrite (HN _ _ Ek), app_nil_r.
  induction (registered_bases reg k) as [|b r IHr]; [reflexivity|]. cbn [flat_map]. rewrite IH, IHr. reflexivity.
Qed.

Lemma mapR_cons {A B} (f : A -> result B) x r :
  mapR f (x :: r) = (x' <- f x ;; r' <- mapR f r ;; Ok (x' :: r')).
Proof. reflexivity. Qed.

Lemma tags_not_str :
  ueqb tag_int tag_str = false /\ ueqb tag_float tag_str = false /\ ueqb tag_bool tag_str = false /\
  ueqb tag_null tag_str = false /\ ueqb tag_timestamp tag_str = false.
Proof. vm_compute. repeat split; reflexivity. Qed.

Section read.
  Variable o : oracle.
  Variable reg : registry.
  Hypothesis HN : no_sweeten reg.

  Let pread := fun kv : node * node => k' <- plain_read o (fst kv) ;; v' <- plain_read o (snd kv) ;; Ok (k', v').
  Let pproj := fun '((k, y) : value * value) => (projection k, projection y).

  Lemma read_items rec l :
    (forall x n, In x l -> rec x = Ok n -> plain_read o n = Ok (projection x)) ->
    forall l', represent_items rec l = Ok l' -> mapR (plain_read o) l' = Ok (map projection l).
  Proof.
    induction l as [|x r IH]; intros H l' E; cbn [represent_items] in E.
    - injection E as <-. reflexivity.
    - destruct (rec x) as [x'|] eqn:Ex; cbn [bind] in E; [|discriminate E].
      destruct (represent_items rec r) as [r'|] eqn:Er; cbn [bind] in E; [|discriminate E].
      injection E as <-. rewrite mapR_cons, (H x x' (or_introl eq_refl) Ex). cbn [bind].
      rewrite (IH (fun y n Hy => H y n (or_intror Hy)) r' eq_refl). reflexivity.
  Qed.
  Lemma read_pairs rec l :
    (forall k x n, In (k, x) l -> (rec k = Ok n -> plain_read o n = Ok (projection k)) /\
                                  (rec x = Ok n -> plain_read o n = Ok (projection x))) ->
    forall l', represent_pairs rec l = Ok l' -> mapR pread l' = Ok (map pproj l).
  Proof.
    induction l as [|[k x] r IH]; intros H l' E; cbn [represent_pairs] in E.
    - injection E as <-. reflexivity.
    - destruct (rec k) as [k'|] eqn:Ek; cbn [bind] in E; [|discriminate E].
      destruct (rec x) as [x'|] eqn:Ex; cbn [bind] in E; [|discriminate E].
      destruct (represent_pairs rec r) as [r'|] eqn:Er; cbn [bind] in E; [|discriminate E].
      injection E as <-. rewrite mapR_cons. unfold pread at 1. cbn [fst snd].
      rewrite (proj1 (H k x k' (or_introl eq_refl)) Ek), (proj2 (H k x x' (or_introl eq_refl)) Ex). cbn [bind].
      rewrite (IH (fun k0 x0 n Hy => H k0 x0 n (or_intror Hy)) r' eq_refl). reflexivity.
  Qed.
  Lemma mapR_app {A B} (f : A -> result B) l1 l2 r1 r2 :
    mapR f l1 = Ok r1 -> mapR f l2 = Ok r2 -> mapR f (l1 ++ l2) = Ok (r1 ++ r2).
  Proof.
    revert r1. induction l1 as [|x l1 IH]; intros r1 H1 H2.
    - injection H1 as <-. exact H2.
    - cbn [app]. rewrite mapR_cons in *. destruct (f x) as [x'|]; cbn [bind] in *; [|discriminate H1].
      destruct (mapR f l1) as [r'|]; cbn [bind] in *; [|discriminate H1].
      injection H1 as <-. rewrite (IH r' eq_refl H2). reflexivity.
  Qed.

  Fixpoint proj_attrs (l : list (ustring * value)) : list (value * value) :=
    match l with
    | [] => []
    | (a, x) :: r =>
        if ueqb a extra_name then
          match x with
          | VDict items => map pproj items ++ proj_attrs r
          | _ => proj_attrs r
          end
        else (VStr a, projection x) :: proj_attrs r
    end.
  Lemma projection_obj c attrs : projection (VObj c attrs) = VDict (proj_attrs attrs).
  Proof. reflexivity. Qed.

  Lemma read_attrs rec l :
    (forall a x n, In (a, x) l -> rec x = Ok n -> plain_read o n = Ok (projection x)) ->
    (forall a items k x n, In (a, VDict items) l -> In (k, x) items ->
        (rec k = Ok n -> plain_read o n = Ok (projection k)) /\ (rec x = Ok n -> plain_read o n = Ok (projection x))) ->
    forall l', represent_attrs rec l = Ok l' -> mapR pread l' = Ok (proj_attrs l).
  Proof.
    induction l as [|[a x] r IH]; intros H1 H2 l' E; cbn [represent_attrs] in E.
    - injection E as <-. reflexivity.
    - cbn [proj_attrs]. destruct (ueqb a extra_name) eqn:Ea.
      + destruct x; try discriminate E.
        destruct (represent_pairs rec l) as [items'|] eqn:Ei; cbn [bind] in E; [|discriminate E].
        destruct (represent_attrs rec r) as [r'|] eqn:Er; cbn [bind] in E; [|discriminate E].
        injection E as <-. apply mapR_app.
        * eapply read_pairs; [|exact Ei]. intros k x n Hin. eapply H2; [left; reflexivity | exact Hin].
        * apply IH; [| |reflexivity].
          -- intros a0 x0 n Hin. eapply H1. right. exact Hin.
          -- intros a0 items k x n Hin. eapply H2. right. exact Hin.
      + destruct (rec x) as [x'|] eqn:Ex; cbn [bind] in E; [|discriminate E].
        destruct (represent_attrs rec r) as [r'|] eqn:Er; cbn [bind] in E; [|discriminate E].
        injection E as <-. rewrite mapR_cons. unfold pread at 1. cbn [fst snd plain_read].
        rewrite (proj2 (ueqb_eq tag_str tag_str) eq_refl). cbn [bind].
        rewrite (H1 a x x' (or_introl eq_refl) Ex). cbn [bind].
        rewrite (IH (fun a0 x0 n Hin => H1 a0 x0 n (or_intror Hin))
                    (fun a0 items k x0 n Hin => H2 a0 items k x0 n (or_intror Hin)) r' eq_refl).
        reflexivity.
  Qed.

  Theorem represent_reads_projection :
    forall fuel v n, leaves_ok o v = true -> represent o reg fuel v = Ok n -> plain_read o n = Ok (projection v).
  Proof.
    destruct tags_not_str as (Ti & Tf & Tb & Tn & Tt).
    induction fuel as [|f IH]; intros v n HL E; [discriminate E|].
    destruct v; cbn [represent] in E; cbn [leaves_ok leaf_ok] in HL.
    - injection E as <-. cbn [plain_read]. rewrite (proj2 (ueqb_eq tag_str tag_str) eq_refl). reflexivity.
    - injection E as <-. cbn [plain_read projection]. rewrite Ti.
      destruct (olookup o tag_int (z_to_dec z)) as [[]|]; try discriminate HL. apply Z.eqb_eq in HL. subst. reflexivity.
    - destruct (olookup o repr_key hex) as [[]|]; try discriminate E. injection E as <-.
      apply andb_true_iff in HL. destruct HL as [_ HL]. cbn [plain_read projection]. rewrite Tf.
      destruct (olookup o tag_float s) as [[]|]; try discriminate HL. apply ueqb_eq in HL. subst. reflexivity.
    - injection E as <-. cbn [plain_read projection]. rewrite Tb.
      destruct (olookup o tag_bool (if b then u "true" else u "false")) as [[]|]; try discriminate HL.
      apply eqb_prop in HL. subst. reflexivity.
    - injection E as <-. cbn [plain_read projection]. rewrite Tn.
      destruct (olookup o tag_null (u "null")) as [[]|]; try discriminate HL. reflexivity.
    - injection E as <-. apply andb_true_iff in HL. destruct HL as [_ HL]. cbn [plain_read projection]. rewrite Tt.
      destruct (olookup o tag_timestamp iso) as [[]|]; try discriminate HL. apply ueqb_eq in HL. subst. reflexivity.
    - injection E as <-. apply andb_true_iff in HL. destruct HL as [_ HL]. cbn [plain_read projection]. rewrite Tt.
      destruct (olookup o tag_timestamp (space_for_T iso)) as [[]|]; try discriminate HL. apply ueqb_eq in HL. subst. reflexivity.
    - discriminate HL.
    - injection E as <-. cbn [plain_read]. rewrite (proj2 (ueqb_eq tag_str tag_str) eq_refl). reflexivity.
    - destruct (represent_items (represent o reg f) l) as [l'|] eqn:El; cbn [bind] in E; [|discriminate E].
      injection E as <-. cbn [plain_read projection].
      rewrite (read_items _ l (fun x n Hin Ex => IH x n (proj1 (forallb_forall _ _) HL x Hin) Ex) l' El). reflexivity.
    - destruct (represent_pairs (represent o reg f) l) as [l'|] eqn:El; cbn [bind] in E; [|discriminate E].
      injection E as <-. cbn [plain_read projection]. fold pread.
      erewrite read_pairs; [reflexivity| |exact El].
      intros k x n' Hin. rewrite forallb_forall in HL. specialize (HL _ Hin). cbn in HL.
      apply andb_true_iff in HL. destruct HL as [Hk Hx]. split; intros Ex; [apply (IH k n' Hk Ex) | apply (IH x n' Hx Ex)].
    - destruct (registered reg c); [|discriminate E].
      destruct (represent_attrs (represent o reg f) kw) as [ps|] eqn:Ep; cbn [bind] in E; [|discriminate E].
      unfold sweeten in E. rewrite (sweeten_order_nil reg HN) in E. cbn [fold_left] in E. injection E as <-.
      rewrite projection_obj. cbn [plain_read]. fold pread.
      erewrite read_attrs; [reflexivity| | |exact Ep].
      + intros a x n' Hin Ex. rewrite forallb_forall in HL. specialize (HL _ Hin). cbn in HL.
        apply andb_true_iff in HL. apply (IH x n' (proj2 HL) Ex).
      + intros a items k x n' Hin Hin2. rewrite forallb_forall in HL. specialize (HL _ Hin). cbn in HL.
        apply andb_true_iff in HL. destruct HL as [_ HL].
        rewrite forallb_forall in HL. specialize (HL _ Hin2). cbn in HL. apply andb_true_iff in HL. destruct HL as [Hk Hx].
        split; intros Ex; [apply (IH k n' Hk Ex) | apply (IH x n' Hx Ex)].
    - destruct (registered reg c); [|discriminate E]. injection E as <-. cbn [plain_read].
      rewrite (proj2 (ueqb_eq tag_str tag_str) eq_refl). reflexivity.
    - destruct (registered reg c); [|discriminate E]. injection E as <-. cbn [plain_read].
      rewrite (proj2 (ueqb_eq tag_str tag_str) eq_refl). reflexivity.
  Qed.
End read.
