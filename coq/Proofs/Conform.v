(* C01/C04 core: constructing a well-tagged node yields a conforming value;
   constructing a stripped node yields plain data.  For arbitrary registries
   (hooks are arbitrary functions) and every oracle satisfying oracle_wf. *)
From Coq Require Import NArith ZArith List Bool String Lia.
Import ListNotations.
From Y Require Import Prelude Node Tables NodeOps Types Recognize Loader Spec ScalarProofs.
Open Scope N_scope.
Local Arguments uprefix : simpl never.
Local Arguments ueqb : simpl never.
Local Arguments umem : simpl never.
Local Arguments class_of_tag : simpl never.

(* ---------------------------------------------------------------- basics *)
Lemma bind_ok {A B} (r : result A) (f : A -> result B) b :
  bind r f = Ok b -> exists a, r = Ok a /\ f a = Ok b.
Proof. destruct r; simpl; [eauto | discriminate]. Qed.

Lemma find_cls_name reg c k : find_cls reg c = Some k -> c_name k = c.
Proof.
  induction reg as [|x reg IH]; simpl; [discriminate|].
  destruct (ueqb_spec (c_name x) c) as [E|E]; [intros H; injection H as <-; exact E | exact IH].
Qed.
Lemma find_cls_in reg c k : find_cls reg c = Some k -> In k reg.
Proof.
  induction reg as [|x reg IH]; simpl; [discriminate|].
  destruct (ueqb (c_name x) c); [intros H; injection H as <-; left; reflexivity | intros H; right; auto].
Qed.
Lemma find_cls_self reg k : NoDup (map c_name reg) -> In k reg -> find_cls reg (c_name k) = Some k.
Proof.
  induction reg as [|x reg IH]; simpl; intros Hn Hin; [tauto|].
  inversion Hn as [|? ? Hx Hr]; subst.
  destruct Hin as [->|Hin]; [rewrite ueqb_refl; reflexivity|].
  destruct (ueqb_spec (c_name x) (c_name k)) as [E|E]; [|auto].
  exfalso. apply Hx. rewrite E. apply in_map. exact Hin.
Qed.

Lemma class_of_tag_bang reg c : class_of_tag reg (bang c) = find_cls reg c.
Proof. reflexivity. Qed.

Lemma core_not_bang t : uprefix core_prefix_colon t = true -> forall reg, class_of_tag reg t = None.
Proof.
  intros H reg. destruct t as [|c t]; [reflexivity|].
  unfold core_prefix_colon in H. cbn in H. apply andb_true_iff in H. destruct H as [H _].
  apply N.eqb_eq in H. subst c. reflexivity.
Qed.
Lemma core_not_path t : uprefix core_prefix_colon t = true -> ueqb t tag_path = false.
Proof.
  intros H. destruct t as [|c t]; [reflexivity|].
  unfold core_prefix_colon in H. cbn in H. apply andb_true_iff in H. destruct H as [H _].
  apply N.eqb_eq in H. subst c. reflexivity.
Qed.

Lemma core_tags :
  uprefix core_prefix_colon tag_str = true /\ uprefix core_prefix_colon tag_int = true /\
  uprefix core_prefix_colon tag_float = true /\ uprefix core_prefix_colon tag_bool = true /\
  uprefix core_prefix_colon tag_null = true /\ uprefix core_prefix_colon tag_timestamp = true /\
  uprefix core_prefix_colon tag_seq = true /\ uprefix core_prefix_colon tag_map = true.
Proof. vm_compute. repeat split; reflexivity. Qed.

Lemma oracle_wfb_sound o : oracle_wfb o = true -> oracle_wf o.
Proof.
  unfold oracle_wfb, oracle_wf. intros H t v x Hl. rewrite forallb_forall in H.
  assert (Hs : scalar_ok t x = true).
  { induction o as [|[[t' v'] r] o IH]; simpl in Hl; [discriminate|].
    destruct (ueqb t t' && ueqb v v') eqn:E.
    - apply andb_true_iff in E. destruct E as [E1 E2]. apply ueqb_eq in E1. subst t'.
      specialize (H ((t, v'), r) (or_introl eq_refl)). simpl in H. subst r. exact H.
    - apply IH; [|exact Hl]. intros e He. apply H. right. exact He. }
  clear -Hs. unfold scalar_ok in Hs.
  assert (Tb : forall l, umem t l = false -> forall y, In y l -> t <> y).
  { intros l Hm y Hy E. subst y. apply umem_In in Hy. congruence. }
  destruct x; try discriminate; apply negb_true_iff in Hs; pose proof (Tb _ Hs) as Hd;
    (split; [exact I|]);
    repeat split; intros E; subst t;
      try (exfalso; eapply Hd; [|reflexivity]; simpl; tauto); eauto.
Qed.

(* ---------------------------------------------------------------- generic loop lemmas *)
Lemma construct_items_inv (rec : node -> result value) (P : node -> Prop) (Q : value -> Prop) :
  (forall x v, P x -> rec x = Ok v -> Q v) ->
  forall items l, Forall P items -> construct_items rec items = Ok l -> Forall Q l.
Proof.
  intros H. induction items as [|x r IH]; simpl; intros l HP E.
  - injection E as <-. constructor.
  - inversion HP; subst. apply bind_ok in E. destruct E as (x' & E1 & E).
    apply bind_ok in E. destruct E as (r' & E2 & E). injection E as <-.
    constructor; [eapply H; eauto | eapply IH; eauto].
Qed.

Lemma dict_set_forall (Q : value * value -> Prop) k v d :
  Q (k, v) -> (forall k0 v0, Q (k0, v0) -> Q (k0, v)) -> Forall Q d -> Forall Q (dict_set k v d).
Proof.
  intros Hq Hrepl. induction d as [|[k0 v0] d IH]; simpl; intros Hd.
  - constructor; [exact Hq | constructor].
  - inversion Hd; subst. destruct (key_eqb k k0).
    + constructor; [eapply Hrepl; eassumption | assumption].
    + constructor; [assumption | apply IH; assumption].
Qed.

Lemma construct_pairs_inv (rec : node -> result value) (Pk Pv : node -> Prop) (Qk Qv : value -> Prop) :
  (forall x v, Pk x -> rec x = Ok v -> Qk v) -> (forall x v, Pv x -> rec x = Ok v -> Qv v) ->
  forall ps acc d, Forall (fun kv => Pk (fst kv) /\ Pv (snd kv)) ps ->
    Forall (fun kv => Qk (fst kv) /\ Qv (snd kv)) acc ->
    construct_pairs rec ps acc = Ok d -> Forall (fun kv => Qk (fst kv) /\ Qv (snd kv)) d.
Proof.
  intros Hk Hv. induction ps as [|[k v] r IH]; simpl; intros acc d HP Hacc E.
  - injection E as <-. exact Hacc.
  - inversion HP as [|? ? [Hpk Hpv] Hr]; subst. simpl in *.
    apply bind_ok in E. destruct E as (kv & E1 & E).
    destruct (negb (hashable kv)); [discriminate|].
    apply bind_ok in E. destruct E as (vv & E2 & E).
    eapply IH; [exact Hr | | exact E].
    apply dict_set_forall; simpl.
    + split; [eapply Hk; eauto | eapply Hv; eauto].
    + intros k0 v0 [A _]. split; [exact A | eapply Hv; eauto].
    + exact Hacc.
Qed.

(* flatten is the identity when no key is a merge or value key *)
Lemma flatten_go_id rec : forall l merge rest,
  Forall (fun kv => ntag (fst kv) <> tag_merge /\ ntag (fst kv) <> tag_value) l ->
  flatten_go rec l merge rest = Ok (merge ++ rest ++ l).
Proof.
  induction l as [|[k v] r IH]; simpl; intros merge rest H.
  - rewrite app_nil_r. reflexivity.
  - inversion H as [|? ? [H1 H2] Hr]; subst. simpl in *.
    destruct (ueqb_spec (ntag k) tag_merge); [contradiction|].
    destruct (ueqb_spec (ntag k) tag_value); [contradiction|].
    rewrite (IH merge (rest ++ [(k, v)]) Hr). rewrite <- app_assoc. reflexivity.
Qed.
Lemma flatten_id f l :
  Forall (fun kv => ntag (fst kv) <> tag_merge /\ ntag (fst kv) <> tag_value) l -> flatten (S f) l = Ok l.
Proof. intros H. simpl. rewrite (flatten_go_id _ l [] [] H). reflexivity. Qed.

(* ---------------------------------------------------------------- stripped nodes construct to plain data *)
Definition stripped_pair (kv : node * node) : Prop := stripped (fst kv) /\ stripped (snd kv).
Lemma stripped_seq t l m : stripped (Seq t l m) <-> t = tag_seq /\ Forall stripped l.
Proof.
  simpl. split; intros [H1 H2]; (split; [exact H1|]).
  - induction l as [|x r IH]; [constructor|]. destruct H2 as [Hx Hr]. constructor; auto.
  - induction H2 as [|x r Hx Hr IH]; [exact I | split; auto].
Qed.
Lemma stripped_map t l m : stripped (Map t l m) <-> t = tag_map /\ Forall stripped_pair l.
Proof.
  simpl. split; intros [H1 H2]; (split; [exact H1|]).
  - induction l as [|x r IH]; [constructor|]. destruct H2 as [Hx Hr]. constructor; auto.
  - induction H2 as [|x r Hx Hr IH]; [exact I | split; auto].
Qed.

Lemma strip_tags_stripped n : stripped (strip_tags n).
Proof.
  induction n using node_ind2.
  - cbn [strip_tags]. destruct (uprefix core_prefix_colon t) eqn:E; [exact E|]. cbn [stripped].
    (* resolve returns a tag of the table or tag_str: core by the generated table (checked by computation) *)
    unfold Resolve.resolve, Resolve.first_tag.
    assert (Hcore : forall lst s, Forall (fun e : Resolve.entry => uprefix core_prefix_colon (fst e) = true) lst ->
                                  uprefix core_prefix_colon (match Resolve.first_hit lst s with Some t => t | None => tag_str end) = true).
    { intros lst s Hl. induction Hl as [|[t0 r0] lst Ht _ IH]; simpl; [vm_compute; reflexivity|].
      destruct (Resolve.pymatch r0 s); [exact Ht | exact IH]. }
    apply Hcore. unfold Resolve.bucket.
    assert (Hall : forallb (fun kl : Resolve.key * list Resolve.entry =>
                              forallb (fun e : Resolve.entry => uprefix core_prefix_colon (fst e)) (snd kl))
                           (Resolve.buckets loader_tbl) = true
                   /\ forallb (fun e : Resolve.entry => uprefix core_prefix_colon (fst e)) (Resolve.wild loader_tbl) = true)
      by (vm_compute; split; reflexivity).
    destruct Hall as [Hb Hw]. apply Forall_app. split.
    + destruct (Resolve.kassoc (Resolve.key_of v) (Resolve.buckets loader_tbl)) as [l|] eqn:K; [|constructor].
      rewrite forallb_forall in Hb.
      assert (Hin : exists k, In (k, l) (Resolve.buckets loader_tbl)).
      { clear -K. induction (Resolve.buckets loader_tbl) as [|[k' v'] bs IH]; simpl in K; [discriminate|].
        destruct (Resolve.key_eqb (Resolve.key_of v) k'); [injection K as <-; exists k'; left; reflexivity|].
        destruct (IH K) as [k Hk]. exists k. right. exact Hk. }
      destruct Hin as [k Hk]. specialize (Hb _ Hk). simpl in Hb. rewrite forallb_forall in Hb.
      apply Forall_forall. exact Hb.
    + rewrite forallb_forall in Hw. apply Forall_forall. exact Hw.
  - apply stripped_seq. split; [reflexivity|]. rewrite Forall_map. exact H.
  - apply stripped_map. split; [reflexivity|]. rewrite Forall_map.
    eapply Forall_impl; [|exact H]. intros [k v] [Hk Hv]. split; assumption.
Qed.

Lemma stripped_key_scalar k : stripped k -> ntag k = tag_value -> exists v m, k = Scalar tag_value v m.
Proof.
  destruct k; simpl.
  - intros _ ->. eauto.
  - intros [-> _] E. exfalso. revert E. vm_compute. discriminate.
  - intros [-> _] E. exfalso. revert E. vm_compute. discriminate.
Qed.

Lemma flatten_stripped : forall fuel ps ps', Forall stripped_pair ps -> flatten fuel ps = Ok ps' -> Forall stripped_pair ps'.
Proof.
  induction fuel as [|f IH]; intros ps ps' H E; [discriminate|]. simpl in E.
  assert (G : forall l merge rest out, Forall stripped_pair l -> Forall stripped_pair merge -> Forall stripped_pair rest ->
                flatten_go (flatten f) l merge rest = Ok out -> Forall stripped_pair out).
  { induction l as [|[k v] r IHl]; simpl; intros merge rest out Hl Hm Hr E'.
    - injection E' as <-. apply Forall_app; auto.
    - inversion Hl as [|? ? [Hk Hv] Hl']; subst. simpl in *.
      destruct (ueqb_spec (ntag k) tag_merge).
      + destruct v as [| tq subs mq | tm sub mm]; try discriminate.
        * apply bind_ok in E'. destruct E' as (subs' & E1 & E').
          eapply IHl; [exact Hl' | | exact Hr | exact E'].
          apply Forall_app. split; [exact Hm|].
          apply stripped_seq in Hv. destruct Hv as [_ Hsubs].
          assert (Hall : Forall (Forall stripped_pair) subs').
          { clear -IH E1 Hsubs. revert subs' E1. induction subs as [|x xr IHx]; simpl; intros subs' E1.
            - injection E1 as <-. constructor.
            - inversion Hsubs; subst. destruct x as [| |tx sx mx]; try discriminate.
              apply bind_ok in E1. destruct E1 as (s & Es & E1). apply bind_ok in E1. destruct E1 as (r' & Er & E1).
              injection E1 as <-. constructor; [|auto].
              eapply IH; [|exact Es]. match goal with H : stripped (Map _ _ _) |- _ => apply stripped_map in H; apply H end. }
          clear -Hall. apply Forall_forall. intros x Hx. apply in_concat in Hx. destruct Hx as (l & Hl & Hx).
          apply in_rev in Hl. rewrite Forall_forall in Hall. specialize (Hall l Hl). rewrite Forall_forall in Hall. auto.
        * apply bind_ok in E'. destruct E' as (sub' & E1 & E').
          eapply IHl; [exact Hl' | | exact Hr | exact E'].
          apply Forall_app. split; [exact Hm|]. eapply IH; [|exact E1]. apply stripped_map in Hv. apply Hv.
      + destruct (ueqb_spec (ntag k) tag_value) as [Ev|Ev].
        * eapply IHl; [exact Hl' | exact Hm | | exact E']. apply Forall_app. split; [exact Hr|].
          constructor; [|constructor]. split; [|exact Hv]. simpl.
          destruct (stripped_key_scalar k Hk Ev) as (vv & mm & ->). simpl. vm_compute. reflexivity.
        * eapply IHl; [exact Hl' | exact Hm | | exact E']. apply Forall_app. split; [exact Hr|].
          constructor; [split; assumption | constructor]. }
  eapply G; [exact H | constructor | constructor | exact E].
Qed.

Theorem stripped_plain o reg : oracle_wf o ->
  forall fuel n v, stripped n -> construct o reg fuel n = Ok v -> plain v.
Proof.
  intros Ho. induction fuel as [|f IH]; intros n v Hs E; [discriminate|].
  destruct n as [t sv m | t items m | t ps m].
  - simpl in Hs. cbn [construct ntag] in E. rewrite (core_not_bang _ Hs), (core_not_path _ Hs) in E.
    destruct (ueqb t tag_str); [injection E as <-; apply pl_scalar; exact I|].
    destruct (ueqb t tag_null); [injection E as <-; apply pl_scalar; exact I|].
    destruct (olookup o t sv) as [x|e] eqn:L.
    + injection E as <-. apply pl_scalar. apply (Ho _ _ _ L).
    + destruct e; try discriminate. rewrite Hs in E. discriminate.
  - apply stripped_seq in Hs. destruct Hs as [-> Hs]. cbn [construct ntag] in E.
    destruct core_tags as (_&_&_&_&_&_&Cs&_).
    rewrite (core_not_bang _ Cs), (core_not_path _ Cs), ueqb_refl in E.
    apply bind_ok in E. destruct E as (l & E1 & E). injection E as <-.
    apply pl_list. eapply construct_items_inv; [|exact Hs|exact E1]. intros x v' Hx Ex. eapply IH; eauto.
  - apply stripped_map in Hs. destruct Hs as [-> Hs]. cbn [construct ntag] in E.
    destruct core_tags as (_&_&_&_&_&_&_&Cm).
    rewrite (core_not_bang _ Cm), (core_not_path _ Cm), ueqb_refl in E.
    apply bind_ok in E. destruct E as (d & E1 & E). injection E as <-.
    unfold construct_map in E1. apply bind_ok in E1. destruct E1 as (ps' & F & E1).
    pose proof (flatten_stripped _ _ _ Hs F) as Hs'.
    apply pl_dict.
    eapply (construct_pairs_inv _ stripped stripped plain plain); [| | exact Hs' | constructor | exact E1];
      intros x v' Hx Ex; eapply IH; eauto.
Qed.
