(* C05, structural half for class-typed values, on the fragment where "unambiguous" is syntactic: registries without
   hooks, without subclass relations and without _yatiml_extra ("flat"), types built from built-ins, lists, str-keyed
   dicts, classes and Optional.  What the representers build from a well-typed value is recognised, processed and
   constructed back into exactly that value. *)
From Coq Require Import NArith ZArith List Bool String Lia.
Import ListNotations.
From Y Require Import Prelude Node Re Resolve Tables Images NodeOps Types Recognize Loader Hooks Represent Spec
                      Conform Conform2 Polymorph DumpProofs PlainRoundTrip Pipeline InitIrrelevant.
Open Scope N_scope.

Local Arguments ueqb : simpl never.
Local Arguments uprefix : simpl never.
Local Arguments class_of_tag : simpl never.

(* ---- flat registries ---- *)
Definition flat_cls (reg : registry) (k : cls) : Prop :=
  c_recognize k = None /\ c_savorize k = None /\ c_sweeten k = None /\ c_abstract k = false /\
  direct_subclasses reg (c_name k) = [] /\ registered_bases reg k = [] /\
  match c_shape k with ShObj ps extra => extra = false /\ NoDup (map p_name ps) /\
                                         ~ In extra_name (map p_name ps) /\ ~ In self_name (map p_name ps)
                    | _ => True end.
Definition flat (reg : registry) : Prop := forall c k, find_cls reg c = Some k -> flat_cls reg k /\ c_name k = c.

Section flat.
  Variable o : oracle.
  Variable reg : registry.
  Hypothesis Hflat : flat reg.

  Lemma rec_classes_flat f n c top k e : find_cls reg c = Some k -> uprefix core_prefix (ntag n) = true ->
    rec_class o (recognize o reg f) k n = Ok ([TClass c], e) ->
    rec_classes o reg (S f) n c top = Ok ([TClass c], rec_ok).
  Proof.
    intros Ek Hp Er. rewrite (rec_classes_eq o reg f n c top k Ek). unfold candidates.
    destruct (Hflat c k Ek) as ((_ & _ & _ & Ha & Hs & _) & Hn). rewrite <- Hn at 1. rewrite Hs. cbn [rec_subs bind fst snd is_nil].
    rewrite Ha. cbn [negb andb]. rewrite Er. cbn [bind fst snd is_nil]. unfold decide. cbn [fst]. rewrite Hp. reflexivity.
  Qed.

  Lemma savorize_flat fuel c k n : find_cls reg c = Some k -> savorize reg fuel c n = Ok n.
  Proof.
    intros Ek. unfold savorize. destruct fuel as [|f]; [reflexivity|]. cbn [savorize_order]. rewrite Ek.
    destruct (Hflat c k Ek) as ((_ & Hs & _ & _ & _ & Hb & _) & _). rewrite Hb, Hs. reflexivity.
  Qed.
End flat.

(* ---- the type fragment and dump-side typing of values ---- *)
Fixpoint simple (T : ty) : bool :=
  match T with
  | TStr | TInt | TFloat | TBool | TDate | TPath => true
  | TList k t => is_seq_origin k && simple t
  | TDict k TStr t => is_map_origin k && simple t
  | TClass _ => true
  | _ => false
  end.
Definition ftype (T : ty) : bool :=
  match T with
  | TUnion [t; TNone] => simple t
  | _ => simple T
  end.

(* ---- attribute mappings as built by the representer: keys are the str scalars of distinct names ---- *)
Definition keyn (a : ustring) : node := Scalar tag_str a genmark.
Definition names_of (ps : list (node * node)) : list ustring := map (fun kv => key_text' (fst kv)) ps.

Lemma key_is_keyn a b : key_is a (keyn b) = ueqb b a.
Proof. reflexivity. Qed.

Lemma has_attr_mid a done v todo : has_attr_ps a (done ++ (keyn a, v) :: todo) = true.
Proof.
  unfold has_attr_ps. rewrite existsb_app. cbn [existsb fst]. rewrite key_is_keyn, (proj2 (ueqb_eq a a) eq_refl).
  rewrite orb_true_r. reflexivity.
Qed.
Definition all_keyn (ps : list (node * node)) : Prop := Forall (fun kv => exists b, fst kv = keyn b) ps.
Lemma lookup_notin a ps : all_keyn ps -> ~ In a (names_of ps) -> lookup_all a ps = [].
Proof.
  unfold lookup_all. induction 1 as [|[k v] r (b & Hb) _ IH]; intros Hn; [reflexivity|]. cbn [fst] in Hb. subst k.
  cbn [filter fst]. rewrite key_is_keyn. cbn [names_of map fst key_text' keyn] in Hn.
  destruct (ueqb_spec b a) as [->|_]; [exfalso; apply Hn; left; reflexivity|]. apply IH. intros H. apply Hn. right. exact H.
Qed.
Lemma lookup_mid a done v todo : all_keyn done -> all_keyn todo -> ~ In a (names_of done) -> ~ In a (names_of todo) ->
  lookup_all a (done ++ (keyn a, v) :: todo) = [v].
Proof.
  intros Hd Ht Nd Nt. unfold lookup_all. rewrite filter_app, map_app. fold (lookup_all a done). rewrite (lookup_notin a done Hd Nd).
  cbn [filter fst app]. rewrite key_is_keyn, (proj2 (ueqb_eq a a) eq_refl). cbn [map snd]. fold (lookup_all a todo).
  rewrite (lookup_notin a todo Ht Nt). reflexivity.
Qed.
Lemma replace_mid a v v' done todo : all_keyn done -> ~ In a (names_of done) ->
  replace_first a v' (done ++ (keyn a, v) :: todo) = Some (done ++ (keyn a, v') :: todo).
Proof.
  induction 1 as [|[k x] r (b & Hb) _ IH]; intros Hn; cbn [app replace_first].
  - rewrite key_is_keyn, (proj2 (ueqb_eq a a) eq_refl). reflexivity.
  - cbn [fst] in Hb. subst k. rewrite key_is_keyn. cbn [names_of map fst key_text' keyn] in Hn.
    destruct (ueqb_spec b a) as [->|_]; [exfalso; apply Hn; left; reflexivity|].
    rewrite IH; [reflexivity|]. intros H. apply Hn. right. exact H.
Qed.
Lemma set_attr_mid a v v' done todo t m : all_keyn done -> ~ In a (names_of done) ->
  set_attribute a (PNode v') (Map t (done ++ (keyn a, v) :: todo) m) = Ok (Map t (done ++ (keyn a, v') :: todo) m).
Proof. intros Hd Hn. cbn [set_attribute node_of_arg]. unfold set_attr_ps. rewrite (replace_mid a v v' done todo Hd Hn). reflexivity. Qed.

(* the per-attribute loop of __process_node walks the mapping in declaration order.  A triple is (parameter, value node
   before, value node after processing). *)
Definition tr := (param * node * node)%type.
Definition tr_p (x : tr) : param := fst (fst x).
Definition cur (l : list tr) : list (node * node) := map (fun x => (keyn (p_name (tr_p x)), snd (fst x))) l.
Definition fin (l : list tr) : list (node * node) := map (fun x => (keyn (p_name (tr_p x)), snd x)) l.
Lemma all_keyn_cur l : all_keyn (cur l).
Proof. unfold cur. apply Forall_forall. intros kv H. apply in_map_iff in H. destruct H as (x & <- & _). eexists. reflexivity. Qed.
Lemma all_keyn_fin l : all_keyn (fin l).
Proof. unfold fin. apply Forall_forall. intros kv H. apply in_map_iff in H. destruct H as (x & <- & _). eexists. reflexivity. Qed.
Lemma names_cur l : names_of (cur l) = map (fun x => p_name (tr_p x)) l.
Proof. unfold names_of, cur. rewrite map_map. reflexivity. Qed.
Lemma names_fin l : names_of (fin l) = map (fun x => p_name (tr_p x)) l.
Proof. unfold names_of, fin. rewrite map_map. reflexivity. Qed.

Lemma process_attrs_walk (proc : node -> ty -> result node) t m : forall trs done,
  all_keyn done -> NoDup (names_of done ++ map (fun x => p_name (tr_p x)) trs) ->
  (forall x, In x trs -> proc (snd (fst x)) (p_ty (tr_p x)) = Ok (snd x)) ->
  process_attrs proc (map tr_p trs) (Map t (done ++ cur trs) m) = Ok (Map t (done ++ fin trs) m).
Proof.
  induction trs as [|[[p vn] vn'] trs IH]; intros done Hd Hnd Hp; cbn [map process_attrs cur fin].
  - reflexivity.
  - cbn [tr_p fst snd]. fold (cur trs). fold (fin trs).
    cbn [map tr_p fst] in Hnd.
    assert (N1 : ~ In (p_name p) (names_of done)).
    { intros H. apply (NoDup_remove_2 _ _ _ Hnd). apply in_app_iff. left. exact H. }
    assert (N2 : ~ In (p_name p) (names_of (cur trs))).
    { rewrite names_cur. intros H. apply (NoDup_remove_2 _ _ _ Hnd). apply in_app_iff. right. exact H. }
    unfold has_attribute, get_attribute. cbn [pairs_of bind]. rewrite has_attr_mid.
    unfold get_attr_ps. rewrite (lookup_mid (p_name p) done vn (cur trs) Hd (all_keyn_cur trs) N1 N2).
    cbn [bind]. pose proof (Hp (p, vn, vn') (or_introl eq_refl)) as Hpp. cbn [fst snd tr_p] in Hpp. rewrite Hpp. cbn [bind].
    rewrite (set_attr_mid (p_name p) vn vn' done (cur trs) t m Hd N1). cbn [bind].
    replace (done ++ (keyn (p_name p), vn') :: cur trs) with ((done ++ [(keyn (p_name p), vn')]) ++ cur trs) by (rewrite <- app_assoc; reflexivity).
    replace (done ++ (keyn (p_name p), vn') :: fin trs) with ((done ++ [(keyn (p_name p), vn')]) ++ fin trs) by (rewrite <- app_assoc; reflexivity).
    apply IH.
    + apply Forall_app. split; [exact Hd|]. constructor; [eexists; reflexivity | constructor].
    + unfold names_of in *. rewrite map_app, <- app_assoc. cbn [map fst key_text' keyn app]. exact Hnd.
    + intros x Hx. apply Hp. right. exact Hx.
Qed.

(* recognition of the mapping as the class: every parameter present once with a recognised value *)
Lemma rec_params_walk (rec : node -> ty -> result RecResult) n c : forall trs done,
  all_keyn done -> NoDup (names_of done ++ map (fun x => p_name (tr_p x)) trs) ->
  (forall x, In x trs -> exists ty e, rec (snd (fst x)) (p_ty (tr_p x)) = Ok ([ty], e)) ->
  rec_params rec n (done ++ cur trs) (map tr_p trs) c = Ok ([TClass c], rec_ok).
Proof.
  induction trs as [|[[p vn] vn'] trs IH]; intros done Hd Hnd Hr; cbn [map rec_params cur].
  - reflexivity.
  - cbn [tr_p fst snd]. fold (cur trs). cbn [map tr_p fst] in Hnd.
    assert (N1 : ~ In (p_name p) (names_of done)).
    { intros H. apply (NoDup_remove_2 _ _ _ Hnd). apply in_app_iff. left. exact H. }
    assert (N2 : ~ In (p_name p) (names_of (cur trs))).
    { rewrite names_cur. intros H. apply (NoDup_remove_2 _ _ _ Hnd). apply in_app_iff. right. exact H. }
    rewrite has_attr_mid. unfold get_attr_ps.
    rewrite (lookup_mid (p_name p) done vn (cur trs) Hd (all_keyn_cur trs) N1 N2).
    destruct (Hr (p, vn, vn') (or_introl eq_refl)) as (ty & e & Er). cbn [fst snd tr_p] in Er. rewrite Er. cbn [bind fst is_nil].
    replace (done ++ (keyn (p_name p), vn) :: cur trs) with ((done ++ [(keyn (p_name p), vn)]) ++ cur trs) by (rewrite <- app_assoc; reflexivity).
    apply IH.
    + apply Forall_app. split; [exact Hd|]. constructor; [eexists; reflexivity | constructor].
    + unfold names_of in *. rewrite map_app, <- app_assoc. cbn [map fst key_text' keyn app]. exact Hnd.
    + intros x Hx. apply Hr. right. exact Hx.
Qed.

(* ---- the constructor's side ---- *)
Definition q := (tr * value)%type.
Definition q_name (x : q) : ustring := p_name (tr_p (fst x)).
Definition kvs (l : list q) : list (value * value) := map (fun x => (VStr (q_name x), snd x)) l.
Definition kws (l : list q) : list (ustring * value) := map (fun x => (q_name x, snd x)) l.

Lemma kwargs_kvs l : kwargs_of (kvs l) = kws l.
Proof. unfold kwargs_of, kvs, kws. induction l as [|x l IH]; [reflexivity|]. cbn [map flat_map fst snd app]. rewrite IH. reflexivity. Qed.

Lemma key_eqb_str a b : key_eqb (VStr a) (VStr b) = ueqb a b.
Proof. reflexivity. Qed.

Lemma construct_pairs_walk (rec : node -> result value) :
  forall (l : list q) acc,
  (forall x, In x l -> rec (keyn (q_name x)) = Ok (VStr (q_name x))) ->
  (forall x, In x l -> rec (snd (fst x)) = Ok (snd x)) ->
  NoDup (map q_name acc ++ map q_name l) ->
  construct_pairs rec (fin (map fst l)) (kvs acc) = Ok (kvs (acc ++ l)).
Proof.
  induction l as [|x l IH]; intros acc Hk Hr Hnd; cbn [map fin construct_pairs].
  - rewrite app_nil_r. reflexivity.
  - fold (fin (map fst l)). pose proof (Hk x (or_introl eq_refl)) as Hkx. unfold q_name in Hkx. rewrite Hkx. cbn [bind hashable negb fst snd].
    rewrite (Hr x (or_introl eq_refl)). cbn [bind].
    rewrite dict_set_fresh.
    + replace (kvs acc ++ [(VStr (p_name (tr_p (fst x))), snd x)]) with (kvs (acc ++ [x])) by (unfold kvs; rewrite map_app; reflexivity).
      replace (acc ++ x :: l) with ((acc ++ [x]) ++ l) by (rewrite <- app_assoc; reflexivity).
      apply IH; [intros y Hy; apply Hk; right; exact Hy | intros y Hy; apply Hr; right; exact Hy|].
      rewrite map_app, <- app_assoc. exact Hnd.
    + cbn [map] in Hnd. pose proof (NoDup_remove_2 _ _ _ Hnd) as Hn.
      unfold kvs. rewrite map_map. cbn [fst].
      destruct (existsb (key_eqb (VStr (p_name (tr_p (fst x))))) (map (fun y => VStr (q_name y)) acc)) eqn:E; [|reflexivity].
      exfalso. apply existsb_exists in E. destruct E as (kv & Hin & Hk2). apply in_map_iff in Hin. destruct Hin as (y & <- & Hy).
      rewrite key_eqb_str in Hk2. apply ueqb_eq in Hk2. apply Hn. apply in_app_iff. left. apply in_map_iff. exists y.
      split; [symmetry; exact Hk2 | exact Hy].
Qed.

Lemma main_args_all (l : list q) : NoDup (map q_name l) ->
  main_args (map (fun x => tr_p (fst x)) l) (kws l) = kws l.
Proof.
  intros Hnd. unfold main_args.
  assert (G : forall l', incl l' l -> flat_map (fun p => match uassoc (p_name p) (kws l) with Some v => [(p_name p, v)] | None => [] end)
                                       (map (fun x => tr_p (fst x)) l') = kws l').
  { induction l' as [|x l' IH]; intros Hi; [reflexivity|]. cbn [map flat_map kws].
    rewrite (nodup_assoc (kws l) (p_name (tr_p (fst x))) (snd x)).
    - cbn [app]. fold (kws l'). unfold q_name at 1. rewrite IH; [reflexivity|]. intros y Hy. apply Hi. right. exact Hy.
    - unfold kws. rewrite map_map. exact Hnd.
    - unfold kws. apply in_map_iff. exists x. split; [reflexivity | apply Hi; left; reflexivity]. }
  apply G. intros y Hy. exact Hy.
Qed.

Lemma represent_obj o reg f c attrs : represent o reg (S f) (VObj c attrs) =
  if registered reg c then ps <- represent_attrs (represent o reg f) attrs ;; sweeten reg FUELK c (Map tag_map ps genmark) else Err EYaml.
Proof. reflexivity. Qed.
Lemma represent_list o reg f l : represent o reg (S f) (VList l) = (l' <- represent_items (represent o reg f) l ;; Ok (Seq tag_seq l' genmark)).
Proof. reflexivity. Qed.
Lemma represent_dict o reg f l : represent o reg (S f) (VDict l) = (l' <- represent_pairs (represent o reg f) l ;; Ok (Map tag_map l' genmark)).
Proof. reflexivity. Qed.

Lemma recognize_class_unfold o reg r n c :
  recognize o reg (S r) n (TClass c) = if registered reg c then rec_classes o reg r n c true else Err ERecognition.
Proof. reflexivity. Qed.

Section rt.
  Variable o : oracle.
  Variable reg : registry.
  Hypothesis Hflat : flat reg.
  Hypothesis Hself : forall c k, find_cls reg c = Some k -> In c (c_ancestors k).

  (* types of the fragment: class types must be registered *)
  Fixpoint simple_r (T : ty) : bool :=
    match T with
    | TStr | TInt | TFloat | TBool | TDate | TPath => true
    | TList k t => is_seq_origin k && simple_r t
    | TDict k TStr t => is_map_origin k && simple_r t
    | TClass c => registered reg c
    | _ => false
    end.
  Definition ftype_r (T : ty) : bool :=
    match T with
    | TUnion [t; TNone] => simple_r t
    | _ => simple_r T
    end.

  (* dump-side typing of values: objects list ALL their parameters, in declaration order *)
  Fixpoint vt (h : nat) (v : value) (T : ty) {struct h} : bool :=
    match h with
    | O => false
    | S h' =>
        match T with
        | TStr => match v with VStr _ => true | _ => false end
        | TInt => match v with VInt _ => true | _ => false end
        | TFloat => match v with VFloat _ => true | _ => false end
        | TBool => match v with VBool _ => true | _ => false end
        | TDate => match v with VDate _ | VDateTime _ => true | _ => false end
        | TPath => match v with VPath s => ueqb (path_of o s) s | _ => false end
        | TList _ t => match v with VList l => forallb (fun x => vt h' x t) l | _ => false end
        | TDict _ TStr t =>
            match v with
            | VDict l => forallb (fun kx => match fst kx with VStr _ => true | _ => false end && vt h' (snd kx) t) l
                         && fresh_keys [] (map fst l)
            | _ => false end
        | TClass c =>
            match find_cls reg c with
            | Some k =>
                match c_shape k, v with
                | ShEnum ms, VEnum d m => ueqb d c && umem m ms
                | ShStr, VUStr d s => ueqb d c && c_str_ok k s
                | ShObj ps _, VObj d attrs =>
                    ueqb d c && c_init_ok k attrs &&
                    (fix go (ps : list param) (attrs : list (ustring * value)) : bool :=
                       match ps, attrs with
                       | [], [] => true
                       | p :: pr, (a, x) :: ar => ueqb a (p_name p) && ftype_r (p_ty p) && vt h' x (p_ty p) && go pr ar
                       | _, _ => false
                       end) ps attrs
                | _, _ => false
                end
            | None => false
            end
        | TUnion [t; TNone] => match v with VNone => true | _ => vt h' v t end
        | _ => false
        end
    end.

  (* a null node is recognised by no type of the fragment *)
  Lemma null_unrecognised t txt m : simple_r t = true -> forall r, (2 <= r)%nat ->
    exists e, recognize o reg r (Scalar tag_null txt m) t = Ok ([], e).
  Proof.
    intros Hs r Hr. destruct r as [|[|f]]; try lia.
    destruct t as [ | | | | | | | | |k t|k kt vt0|ts|c|c]; try discriminate Hs;
      try (cbn [recognize]; unfold rec_scalar; cbn [scalar_tag]; eexists; reflexivity).
    - cbn [recognize]. cbn [simple_r] in Hs. apply andb_true_iff in Hs. rewrite (proj1 Hs). eexists. reflexivity.
    - cbn [recognize]. cbn [simple_r] in Hs. destruct kt; try discriminate Hs. apply andb_true_iff in Hs. rewrite (proj1 Hs). eexists. reflexivity.
    - rewrite recognize_class_unfold. cbn [simple_r] in Hs. rewrite Hs. unfold registered in Hs.
      destruct (find_cls reg c) as [k|] eqn:Ek; [|discriminate Hs].
      rewrite (rec_classes_eq o reg f _ c true k Ek). unfold candidates.
      destruct (Hflat c k Ek) as ((Hr0 & _ & _ & Ha & Hsub & _) & Hn).
      assert (Hsub' : direct_subclasses reg c = []) by (rewrite <- Hn; exact Hsub). rewrite Hsub'.
      cbn [rec_subs bind fst snd is_nil]. rewrite Ha. cbn [negb andb]. unfold rec_class. rewrite Hr0.
      destruct (c_shape k); cbn [bind fst snd is_nil]; unfold decide; cbn [fst]; eexists; reflexivity.
  Qed.

  (* the constructor's isinstance-based check accepts well-typed values *)
  Lemma vt_type_matches : forall h v T, vt h v T = true -> type_matches reg v T = true.
  Proof.
    induction h as [|h IH]; intros v T H; [discriminate H|]. cbn [vt] in H.
    destruct T as [ | | | | | | | | |k t|k kt vt0|ts|c|c]; try discriminate H; cbn [type_matches].
    - destruct v; try discriminate H. reflexivity.
    - destruct v; try discriminate H. reflexivity.
    - destruct v; try discriminate H. reflexivity.
    - destruct v; try discriminate H. reflexivity.
    - destruct v; try discriminate H; reflexivity.
    - destruct v; try discriminate H. reflexivity.
    - destruct v; try discriminate H. apply forallb_forall. intros x Hx. apply IH. rewrite forallb_forall in H. apply H, Hx.
    - destruct kt; try discriminate H. destruct v; try discriminate H. apply andb_true_iff in H. destruct H as [H _].
      apply forallb_forall. intros [a b] Hin. rewrite forallb_forall in H. specialize (H _ Hin). cbn [fst snd] in *.
      apply andb_true_iff in H. destruct H as [Ha Hb]. rewrite (IH _ _ Hb), andb_true_r. destruct a; try discriminate Ha. reflexivity.
    - destruct ts as [|t [|t2 r]]; try discriminate H. destruct t2; try discriminate H. destruct r; try discriminate H.
      destruct v; try (rewrite (IH _ _ H); reflexivity). rewrite orb_true_r. reflexivity.
    - destruct (find_cls reg c) as [k|] eqn:Ek; [|discriminate H].
      assert (I : is_instance reg c c = true) by (unfold is_instance; rewrite Ek; apply umem_In, (Hself c k Ek)).
      destruct (c_shape k); destruct v; try discriminate H.
      + apply andb_true_iff in H. destruct H as [H _]. apply andb_true_iff in H. destruct H as [H _]. apply ueqb_eq in H. subst. exact I.
      + apply andb_true_iff in H. destruct H as [H _]. apply ueqb_eq in H. subst. exact I.
      + apply andb_true_iff in H. destruct H as [H _]. apply ueqb_eq in H. subst. exact I.
  Qed.

  Lemma sweeten_flat fuel c k n : find_cls reg c = Some k -> sweeten reg fuel c n = Ok n.
  Proof.
    intros Ek. unfold sweeten. destruct fuel as [|f]; [reflexivity|]. cbn [sweeten_order]. rewrite Ek.
    destruct (Hflat c k Ek) as ((_ & _ & Hs & _ & _ & Hb & _) & _). rewrite Hb, Hs. reflexivity.
  Qed.

  (* every leaf value is represented independently of the fuel *)
  Definition leafv (v : value) : bool :=
    match v with VStr _ | VInt _ | VFloat _ | VBool _ | VNone | VDate _ | VDateTime _ => true | _ => false end.
  Lemma leaf_any_fuel v f g : leafv v = true -> represent o reg (S f) v = represent o reg (S g) v.
  Proof. destruct v; try discriminate; reflexivity. Qed.
  Lemma leaf_plain v : leafv v = true -> plain_rt v = true.
  Proof. destruct v; try discriminate; reflexivity. Qed.
  Lemma leaf_constructs v n g : leafv v = true -> leaves_ok o v = true -> represent o reg (S g) v = Ok n ->
    forall c, (1 <= c)%nat -> construct o reg c n = Ok v.
  Proof.
    intros Hl HL E c Hc. destruct c as [|c]; [lia|].
    rewrite <- (leaf_any_fuel v c g Hl) in E.
    exact (proj1 (represent_constructs_back o reg (S c) v n (leaf_plain v Hl) HL E)).
  Qed.

  Hypothesis Hpath : find_cls reg (u "Path") = None.

  Definition good (g : nat) (v : value) (n : node) (T : ty) : Prop :=
    uprefix core_prefix (ntag n) = true /\ ntag n <> tag_null /\
    (forall r, (3 * g + 1 <= r)%nat -> exists e, recognize o reg r n T = Ok ([T], e)) /\
    (forall p, (3 * g + 1 <= p)%nat -> exists n1, process o reg p n T = Ok n1 /\
                                                  forall c, (g <= c)%nat -> construct o reg c n1 = Ok v).

  (* ---- scalars ---- *)
  Definition scalar_ty (T : ty) : bool := match T with TStr | TInt | TFloat | TBool | TDate => true | _ => false end.
  Lemma scalar_rec T t txt m r : scalar_ty T = true -> scalar_tag T = Some t ->
    recognize o reg (S r) (Scalar t txt m) T = Ok ([T], rec_ok).
  Proof.
    intros Hs Ht. destruct T; try discriminate Hs; cbn [recognize]; unfold rec_scalar; rewrite Ht, ueqb_refl; reflexivity.
  Qed.
  Lemma scalar_proc T t txt m p : scalar_ty T = true -> scalar_tag T = Some t ->
    process o reg (S p) (Scalar t txt m) T = Ok (Scalar t txt m).
  Proof.
    intros Hs Ht. cbn [process]. rewrite (scalar_rec T t txt m p Hs Ht). cbn [bind fst].
    destruct T; try discriminate Hs; cbn [type_to_tag]; rewrite Ht; reflexivity.
  Qed.
  Lemma good_leaf g v n T t txt : scalar_ty T = true -> scalar_tag T = Some t -> t <> tag_null ->
    uprefix core_prefix t = true -> leafv v = true -> leaves_ok o v = true ->
    represent o reg (S g) v = Ok n -> n = Scalar t txt genmark -> good (S g) v n T.
  Proof.
    intros Hs Ht Hn Hp Hl HL E ->. split; [exact Hp|]. split; [exact Hn|]. split.
    - intros r Hr. destruct r as [|r]; [lia|]. exists rec_ok. apply scalar_rec; assumption.
    - intros p Hr. destruct p as [|p]; [lia|]. eexists. split; [apply scalar_proc; assumption|].
      intros c Hc. apply (leaf_constructs v _ g Hl HL E). lia.
  Qed.

  (* ---- lists ---- *)
  Lemma rec_items_single (rec : node -> result RecResult) k t : forall items,
    (forall i, In i items -> exists e, rec i = Ok ([t], e)) -> rec_items rec k t items = Ok ([TList k t], rec_ok).
  Proof.
    induction items as [|i items IH]; intros H; cbn [rec_items]; [reflexivity|].
    destruct (H i (or_introl eq_refl)) as (e & Er). rewrite Er. cbn [bind fst]. apply IH. intros j Hj. apply H. right. exact Hj.
  Qed.
  Lemma items_lift g t : forall l l',
    (forall x x', In x l -> represent o reg g x = Ok x' -> good g x x' t) ->
    represent_items (represent o reg g) l = Ok l' ->
    (forall r, (3 * g + 1 <= r)%nat -> forall i, In i l' -> exists e, recognize o reg r i t = Ok ([t], e)) /\
    (forall p, (3 * g + 1 <= p)%nat -> exists l'', process_items (fun i => process o reg p i t) l' = Ok l'' /\
                                                   forall c, (g <= c)%nat -> construct_items (construct o reg c) l'' = Ok l).
  Proof.
    induction l as [|x l IH]; intros l' H E; cbn [represent_items] in E.
    - injection E as <-. split; [intros r _ i []|]. intros p _. exists []. split; [reflexivity | intros; reflexivity].
    - destruct (represent o reg g x) as [x'|] eqn:Ex; cbn [bind] in E; [|discriminate E].
      destruct (represent_items (represent o reg g) l) as [r'|] eqn:Er; cbn [bind] in E; [|discriminate E].
      injection E as <-. destruct (H x x' (or_introl eq_refl) Ex) as (_ & _ & R & P).
      destruct (IH r' (fun y y' Hy => H y y' (or_intror Hy)) eq_refl) as (R2 & P2). split.
      + intros r Hr i [<-|Hi]; [apply R, Hr | apply (R2 r Hr), Hi].
      + intros p Hp. destruct (P p Hp) as (n1 & P1 & C1). destruct (P2 p Hp) as (l'' & P3 & C3).
        exists (n1 :: l''). split; [cbn [process_items]; rewrite P1; cbn [bind]; rewrite P3; reflexivity|].
        intros c Hc. cbn [construct_items]. rewrite (C1 c Hc). cbn [bind]. rewrite (C3 c Hc). reflexivity.
  Qed.

  (* ---- str-keyed dicts ---- *)
  Lemma rec_pairs_single (reck recv : node -> result RecResult) k kt vt0 : forall ps,
    (forall kn vn, In (kn, vn) ps -> (exists e, reck kn = Ok ([kt], e)) /\ (exists e, recv vn = Ok ([vt0], e))) ->
    rec_pairs reck recv k kt vt0 ps = Ok ([TDict k kt vt0], rec_ok).
  Proof.
    induction ps as [|[kn vn] ps IH]; intros H; cbn [rec_pairs]; [reflexivity|].
    destruct (H kn vn (or_introl eq_refl)) as ((e1 & E1) & (e2 & E2)). rewrite E1. cbn [bind fst]. rewrite E2. cbn [bind fst].
    apply IH. intros a b Hab. apply H. right. exact Hab.
  Qed.

  Lemma str_key_good g s : leaves_ok o (VStr s) = true -> good (S g) (VStr s) (Scalar tag_str s genmark) TStr.
  Proof.
    intros HL. apply (good_leaf g (VStr s) _ TStr tag_str s); try reflexivity; try exact HL.
    intros E. revert E. vm_compute. discriminate.
  Qed.

  Lemma pairs_lift g t : forall l ps acc,
    forallb (fun kx => match fst kx with VStr _ => true | _ => false end) l = true ->
    (forall k x, In (k, x) l -> leaves_ok o k = true) ->
    (forall k x x', In (k, x) l -> represent o reg (S g) x = Ok x' -> good (S g) x x' t) ->
    represent_pairs (represent o reg (S g)) l = Ok ps ->
    (forall r, (3 * S g + 1 <= r)%nat -> forall kn vn, In (kn, vn) ps ->
               (exists e, recognize o reg r kn TStr = Ok ([TStr], e)) /\ (exists e, recognize o reg r vn t = Ok ([t], e))) /\
    (forall p, (3 * S g + 1 <= p)%nat -> exists ps'',
        process_pairs (fun a => process o reg p a TStr) (fun a => process o reg p a t) ps = Ok ps'' /\
        Forall (fun kv => ntag (fst kv) <> tag_merge /\ ntag (fst kv) <> tag_value) ps'' /\
        forall c, (S g <= c)%nat -> fresh_keys (map fst acc) (map fst l) = true ->
                  construct_pairs (construct o reg c) ps'' acc = Ok (acc ++ l)).
  Proof.
    induction l as [|[k x] l IH]; intros ps acc HK HLk H E; cbn [represent_pairs] in E.
    - injection E as <-. split; [intros r _ kn vn []|]. intros p _. exists []. split; [reflexivity|]. split; [constructor|].
      intros c _ _. cbn [construct_pairs]. rewrite app_nil_r. reflexivity.
    - cbn [forallb fst] in HK. apply andb_true_iff in HK. destruct HK as [Hk HK]. destruct k as [s| | | | | | | | | | | | |]; try discriminate Hk.
      change (represent o reg (S g) (VStr s)) with (Ok (Scalar tag_str s genmark) : result node) in E. cbn [bind] in E.
      destruct (represent o reg (S g) x) as [x'|] eqn:Ex; cbn [bind] in E; [|discriminate E].
      destruct (represent_pairs (represent o reg (S g)) l) as [r'|] eqn:Er; cbn [bind] in E; [|discriminate E].
      injection E as <-.
      destruct (str_key_good g s (HLk (VStr s) x (or_introl eq_refl))) as (_ & _ & RK & PK).
      destruct (H (VStr s) x x' (or_introl eq_refl) Ex) as (_ & _ & RX & PX). split.
      + intros r Hr kn vn [Ein|Hin].
        * injection Ein as <- <-. split; [apply RK, Hr | apply RX, Hr].
        * destruct (IH r' acc HK (fun a b Hab => HLk a b (or_intror Hab)) (fun a b b' Hab => H a b b' (or_intror Hab)) eq_refl) as (R2 & _). apply (R2 r Hr), Hin.
      + intros p Hp. destruct (PK p Hp) as (k1 & PK1 & CK1). destruct (PX p Hp) as (x1 & PX1 & CX1).
        destruct (IH r' (acc ++ [(VStr s, x)]) HK (fun a b Hab => HLk a b (or_intror Hab)) (fun a b b' Hab => H a b b' (or_intror Hab)) eq_refl) as (_ & P2).
        destruct (P2 p Hp) as (ps'' & PP & NM & CP).
        assert (K1 : k1 = Scalar tag_str s genmark).
        { destruct p as [|p0]; [lia|]. rewrite (scalar_proc TStr tag_str s genmark p0 eq_refl eq_refl) in PK1. injection PK1 as <-. reflexivity. }
        exists ((k1, x1) :: ps''). split; [cbn [process_pairs]; rewrite PK1; cbn [bind]; rewrite PX1; cbn [bind]; rewrite PP; reflexivity|].
        split.
        * constructor; [|exact NM]. cbn [fst]. subst k1. cbn [ntag]. split; intros E0; revert E0; vm_compute; discriminate.
        * intros c Hc Hf. cbn [construct_pairs]. rewrite (CK1 c Hc). cbn [bind hashable negb]. rewrite (CX1 c Hc). cbn [bind].
          cbn [map fst fresh_keys] in Hf. apply andb_true_iff in Hf. destruct Hf as [Hf1 Hf2]. apply negb_true_iff in Hf1.
          rewrite (dict_set_fresh (VStr s) x acc Hf1).
          replace (acc ++ (VStr s, x) :: l) with ((acc ++ [(VStr s, x)]) ++ l) by (rewrite <- app_assoc; reflexivity).
          apply CP; [exact Hc|]. rewrite map_app. exact Hf2.
  Qed.

  (* ---- Optional ---- *)
  Definition goodO (g : nat) (v : value) (n : node) (T : ty) : Prop :=
    (forall r, (3 * g + 2 <= r)%nat -> exists ty e, recognize o reg r n T = Ok ([ty], e)) /\
    (forall p, (3 * g + 2 <= p)%nat -> exists n1, process o reg p n T = Ok n1 /\
                                                  forall c, (g <= c)%nat -> (1 <= c)%nat -> construct o reg c n1 = Ok v).
  Lemma good_goodO g v n T : good g v n T -> goodO g v n T.
  Proof.
    intros (_ & _ & R & P). split.
    - intros r Hr. destruct (R r) as (e & E); [lia|]. eauto.
    - intros p Hp. destruct (P p) as (n1 & E & C); [lia|]. exists n1. split; [exact E|]. intros c Hc _. apply C, Hc.
  Qed.

  Lemma process_by_type p n T R e1 e2 : recognize o reg (S p) n T = Ok ([R], e1) -> recognize o reg (S p) n R = Ok ([R], e2) ->
    process o reg (S p) n T = process o reg (S p) n R.
  Proof. intros E1 E2. cbn [process]. rewrite E1, E2. reflexivity. Qed.

  Lemma bfix_single t : simple_r t = true -> bfix [t] = [t].
  Proof. intros H. destruct t; try discriminate H; reflexivity. Qed.
  Lemma union_single (rec : ty -> result RecResult) t m e1 e2 : simple_r t = true ->
    rec t = Ok ([t], e1) -> rec TNone = Ok ([], e2) -> rec_union rec [t; TNone] m = Ok ([t], rec_ok).
  Proof.
    intros Hs E1 E2. rewrite rec_union_eq. cbn [rec_members]. rewrite E1. cbn [bind fst snd is_nil]. rewrite E2. cbn [bind fst snd is_nil].
    replace (ty_union (ty_union [] [t]) []) with [t] by reflexivity. rewrite (bfix_single t Hs). reflexivity.
  Qed.
  Lemma union_none (rec : ty -> result RecResult) t m e1 e2 :
    rec t = Ok ([], e1) -> rec TNone = Ok ([TNone], e2) -> rec_union rec [t; TNone] m = Ok ([TNone], rec_ok).
  Proof.
    intros E1 E2. rewrite rec_union_eq. cbn [rec_members]. rewrite E1. cbn [bind fst snd is_nil]. rewrite E2. cbn [bind fst snd is_nil].
    reflexivity.
  Qed.

  Lemma opt_some g v n t : simple_r t = true -> good g v n t -> goodO g v n (TUnion [t; TNone]).
  Proof.
    intros Hs (Hp & Hn & R & P).
    assert (RN : forall r, (1 <= r)%nat -> exists e, recognize o reg r n TNone = Ok ([], e)).
    { intros r Hr. destruct r as [|r]; [lia|]. cbn [recognize]. unfold rec_scalar.
      replace (scalar_tag TNone) with (Some tag_null) by reflexivity.
      destruct n as [t0 v0 m0| |]; try (eexists; reflexivity). cbn [ntag] in Hn.
      destruct (ueqb_spec t0 tag_null) as [->|_]; [contradiction | eexists; reflexivity]. }
    assert (RU : forall r, (3 * g + 2 <= r)%nat -> recognize o reg r n (TUnion [t; TNone]) = Ok ([t], rec_ok)).
    { intros r Hr. destruct r as [|r]; [lia|]. cbn [recognize].
      destruct (R r) as (e1 & E1); [lia|]. destruct (RN r) as (e2 & E2); [lia|].
      exact (union_single (recognize o reg r n) t (nmark n) e1 e2 Hs E1 E2). }
    split.
    - intros r Hr. exists t, rec_ok. apply RU, Hr.
    - intros p Hp'. destruct p as [|p]; [lia|]. destruct (R (S p)) as (e1 & E1); [lia|].
      rewrite (process_by_type p n _ t rec_ok e1 (RU (S p) Hp') E1).
      destruct (P (S p)) as (n1 & E & C); [lia|]. exists n1. split; [exact E|]. intros c Hc _. apply C, Hc.
  Qed.

  Lemma opt_none g t : simple_r t = true -> leaves_ok o VNone = true ->
    goodO (S g) VNone (Scalar tag_null (u "null") genmark) (TUnion [t; TNone]).
  Proof.
    intros Hs HL.
    assert (RU : forall r, (3 <= r)%nat -> recognize o reg r (Scalar tag_null (u "null") genmark) (TUnion [t; TNone]) = Ok ([TNone], rec_ok)).
    { intros r Hr. destruct r as [|r]; [lia|]. cbn [recognize].
      destruct (null_unrecognised t (u "null") genmark Hs r) as (e1 & E1); [lia|].
      assert (E2 : recognize o reg r (Scalar tag_null (u "null") genmark) TNone = Ok ([TNone], rec_ok)) by (destruct r; [lia | reflexivity]).
      exact (union_none (recognize o reg r _) t _ e1 rec_ok E1 E2). }
    split.
    - intros r Hr. exists TNone, rec_ok. apply RU. lia.
    - intros p Hp. destruct p as [|p]; [lia|]. exists (Scalar tag_null (u "null") genmark). split.
      + cbn [process]. rewrite (RU (S p)); [|lia]. reflexivity.
      + intros c _ Hc. apply (leaf_constructs VNone _ 0 eq_refl HL eq_refl c Hc).
  Qed.

  Lemma tag_map_facts : uprefix core_prefix tag_map = true /\ tag_map <> tag_null /\ uprefix core_prefix tag_str = true /\ tag_str <> tag_null.
  Proof. repeat split; try reflexivity; intros E; revert E; vm_compute; discriminate. Qed.

  (* ---- objects ---- *)
  Fixpoint attrs_ok (f : value -> ty -> bool) (ps : list param) (attrs : list (ustring * value)) : bool :=
    match ps, attrs with
    | [], [] => true
    | p :: pr, (a, x) :: ar => ueqb a (p_name p) && ftype_r (p_ty p) && f x (p_ty p) && attrs_ok f pr ar
    | _, _ => false
    end.

  Section step.
    Variable g : nat.
    Hypothesis IHg : forall h v n T, simple_r T = true -> vt h v T = true -> leaves_ok o v = true ->
                                     represent o reg (g) v = Ok n -> good (g) v n T.

    Lemma attr_goodO h x vn T : ftype_r T = true -> vt h x T = true -> leaves_ok o x = true ->
      represent o reg (g) x = Ok vn -> goodO (g) x vn T.
    Proof.
      intros HF HV HL E.
      destruct T as [ | | | | | | | | |k t|k kt vt0|ts|c|c]; try discriminate HF;
        try (apply good_goodO; apply (IHg h); assumption).
      destruct ts as [|t [|t2 r]]; try discriminate HF. destruct t2; try discriminate HF. destruct r; try discriminate HF.
      cbn [ftype_r] in HF. destruct h as [|h']; [discriminate HV|]. cbn [vt] in HV.
      destruct x; try (apply opt_some; [exact HF | apply (IHg h'); assumption]).
      destruct g as [|g0]; [discriminate E|]. injection E as <-. apply opt_none; assumption.
    Qed.

    Lemma attrs_lift h p0 : (3 * g + 2 <= p0)%nat -> forall ps attrs pairs,
      attrs_ok (vt h) ps attrs = true -> ~ In extra_name (map p_name ps) ->
      forallb (fun ax => valid (fst ax) && leaves_ok o (snd ax)) attrs = true ->
      represent_attrs (represent o reg (g)) attrs = Ok pairs ->
      exists l : list q,
        map (fun x => tr_p (fst x)) l = ps /\ cur (map fst l) = pairs /\ kws l = attrs /\
        forall x, In x l ->
          (forall r, (3 * g + 2 <= r)%nat -> exists ty e, recognize o reg r (snd (fst (fst x))) (p_ty (tr_p (fst x))) = Ok ([ty], e)) /\
          process o reg p0 (snd (fst (fst x))) (p_ty (tr_p (fst x))) = Ok (snd (fst x)) /\
          (forall c, (g <= c)%nat -> construct o reg c (snd (fst x)) = Ok (snd x)) /\
          type_matches reg (snd x) (p_ty (tr_p (fst x))) = true /\ (1 <= g)%nat.
    Proof.
      intros Hp0. induction ps as [|p ps IH]; intros attrs pairs HA HE HL E.
      - destruct attrs; [|discriminate HA]. injection E as <-. exists []. split; [reflexivity|]. split; [reflexivity|]. split; [reflexivity|]. intros y [].
      - destruct attrs as [|[a x] attrs]; [discriminate HA|]. cbn [attrs_ok] in HA.
        apply andb_true_iff in HA. destruct HA as [HA HA4]. apply andb_true_iff in HA. destruct HA as [HA HA3].
        apply andb_true_iff in HA. destruct HA as [HA1 HA2]. apply ueqb_eq in HA1. subst a.
        cbn [forallb fst snd] in HL. apply andb_true_iff in HL. destruct HL as [HL1 HL2]. apply andb_true_iff in HL1. destruct HL1 as [_ HLx].
        cbn [represent_attrs] in E.
        assert (NE : ueqb (p_name p) extra_name = false).
        { destruct (ueqb_spec (p_name p) extra_name) as [Eq|]; [|reflexivity]. exfalso. apply HE. left. exact Eq. }
        rewrite NE in E.
        destruct (represent o reg (g) x) as [vn|] eqn:Ex; cbn [bind] in E; [|discriminate E].
        destruct (represent_attrs (represent o reg (g)) attrs) as [r'|] eqn:Er; cbn [bind] in E; [|discriminate E].
        injection E as <-.
        destruct (IH attrs r' HA4 (fun H => HE (or_intror H)) HL2 Er) as (l & L1 & L2 & L3 & L4).
        destruct (attr_goodO h x vn (p_ty p) HA2 HA3 HLx Ex) as (R & P).
        destruct (P p0 Hp0) as (vn' & PE & CE).
        exists ((p, vn, vn', x) :: l). cbn [map cur kws tr_p fst snd q_name]. fold (cur (map fst l)). fold (kws l).
        rewrite L1, L2, L3. split; [reflexivity|]. split; [reflexivity|]. split; [reflexivity|].
        intros y [<-|Hy]; [|apply L4, Hy]. cbn [fst snd tr_p]. split; [exact R|]. split; [exact PE|]. split.
        + assert (G1 : (1 <= g)%nat) by (destruct g; [discriminate Ex | lia]). intros c Hc. apply CE; lia.
        + split; [apply (vt_type_matches h), HA3 | destruct g; [discriminate Ex | lia]].
    Qed.


    Lemma obj_good h c k ps extra attrs n : find_cls reg c = Some k -> c_shape k = ShObj ps extra ->
      attrs_ok (vt h) ps attrs = true -> c_init_ok k attrs = true -> leaves_ok o (VObj c attrs) = true ->
      represent o reg (S g) (VObj c attrs) = Ok n -> good (S g) (VObj c attrs) n (TClass c).
    Proof.
      intros Ek Esh HA HI HL E.
      destruct (Hflat c k Ek) as ((Hr0 & Hsav & Hswe & Habs & Hsub & Hbases & Hshape) & Hname).
      rewrite Esh in Hshape. destruct Hshape as (-> & Hnd & Hne & Hns).
      assert (Hreg : registered reg c = true) by (unfold registered; rewrite Ek; reflexivity).
      rewrite represent_obj in E. rewrite Hreg in E. cbn [leaves_ok] in HL.
      assert (HL' : forallb (fun ax => valid (fst ax) && leaves_ok o (snd ax)) attrs = true)
        by (rewrite <- HL; apply forallb_ext; intros [a x]; reflexivity).
      clear HL. rename HL' into HL.
      destruct (represent_attrs (represent o reg (g)) attrs) as [pairs|] eqn:Ep; cbn [bind] in E; [|discriminate E].
      rewrite (sweeten_flat FUELK c k _ Ek) in E. injection E as <-.
      destruct tag_map_facts as (T1 & T2 & _ & _).
      split; [exact T1|]. split; [exact T2|]. split.
      - (* recognition *)
        intros r Hr. destruct r as [|[|f]]; try lia.
        destruct (attrs_lift h (3 * g + 2) (le_n _) ps attrs pairs HA Hne HL Ep) as (l & L1 & L2 & L3 & L4).
        exists rec_ok. rewrite recognize_class_unfold, Hreg.
        apply (rec_classes_flat o reg Hflat f (Map tag_map pairs genmark) c true k rec_ok Ek T1).
        unfold rec_class. rewrite Hr0, Esh, Hname. rewrite <- L2, <- L1.
        replace (map (fun x : tr * value => tr_p (fst x)) l) with (map tr_p (map fst l)) by (rewrite map_map; reflexivity).
        apply (rec_params_walk (recognize o reg f) _ c (map fst l) []).
        + constructor.
        + cbn [names_of map app]. rewrite map_map. rewrite <- L1 in Hnd. rewrite map_map in Hnd. exact Hnd.
        + intros x Hx. apply in_map_iff in Hx. destruct Hx as (y & <- & Hy). destruct (L4 y Hy) as (R & _). apply R. lia.
      - (* processing, then construction *)
        intros p Hp. destruct p as [|p]; [lia|].
        destruct (attrs_lift h p ltac:(lia) ps attrs pairs HA Hne HL Ep) as (l & L1 & L2 & L3 & L4).
        assert (Rec : recognize o reg (S p) (Map tag_map pairs genmark) (TClass c) = Ok ([TClass c], rec_ok)).
        { destruct p as [|f]; [lia|]. rewrite recognize_class_unfold, Hreg.
          apply (rec_classes_flat o reg Hflat f (Map tag_map pairs genmark) c true k rec_ok Ek T1).
          unfold rec_class. rewrite Hr0, Esh, Hname. rewrite <- L2, <- L1.
          replace (map (fun x : tr * value => tr_p (fst x)) l) with (map tr_p (map fst l)) by (rewrite map_map; reflexivity).
          apply (rec_params_walk (recognize o reg f) _ c (map fst l) []).
          - constructor.
          - cbn [names_of map app]. rewrite map_map. rewrite <- L1 in Hnd. rewrite map_map in Hnd. exact Hnd.
          - intros x Hx. apply in_map_iff in Hx. destruct Hx as (y & <- & Hy). destruct (L4 y Hy) as (R & _). apply R. lia. }
        exists (Map (bang c) (fin (map fst l)) genmark). split.
        + cbn [process]. rewrite Rec. cbn [bind fst]. rewrite Ek, Esh. rewrite (savorize_flat reg Hflat FUELK c k _ Ek). cbn [bind].
          unfold is_objectlike. rewrite Esh. cbn [is_mapping andb]. unfold params_of. rewrite Esh.
          rewrite <- L2, <- L1.
          replace (map (fun x : tr * value => tr_p (fst x)) l) with (map tr_p (map fst l)) by (rewrite map_map; reflexivity).
          assert (W : process_attrs (process o reg p) (map tr_p (map fst l)) (Map tag_map ([] ++ cur (map fst l)) genmark) =
                      Ok (Map tag_map ([] ++ fin (map fst l)) genmark)).
          { apply (process_attrs_walk (process o reg p) tag_map genmark (map fst l) []).
            - constructor.
            - cbn [names_of map app]. rewrite map_map. rewrite <- L1 in Hnd. rewrite map_map in Hnd. exact Hnd.
            - intros x Hx. apply in_map_iff in Hx. destruct Hx as (y & <- & Hy). destruct (L4 y Hy) as (_ & P & _). exact P. }
          cbn [app] in W. rewrite W. reflexivity.
        + intros c0 Hc. destruct c0 as [|c0]; [lia|]. cbn [construct ntag]. rewrite class_of_tag_bang, Ek, Esh.
          assert (SK : str_keyed (fin (map fst l)) = true).
          { unfold str_keyed, fin. rewrite forallb_forall. intros kv Hin. apply in_map_iff in Hin. destruct Hin as (x & <- & _). reflexivity. }
          rewrite SK. cbn [negb].
          assert (SU : strip_unknown (map p_name ps) (fin (map fst l)) = fin (map fst l)).
          { unfold strip_unknown, fin. rewrite map_map. apply map_ext_in. intros x Hx. cbn [fst snd key_text' keyn].
            replace (umem (p_name (tr_p x)) (map p_name ps)) with true; [reflexivity|]. symmetry. apply umem_In.
            rewrite <- L1. apply in_map_iff in Hx. destruct Hx as (y & <- & Hy). apply in_map_iff. exists (tr_p (fst y)). split; [reflexivity|].
            apply in_map_iff. exists y. split; [reflexivity | exact Hy]. }
          rewrite SU. unfold construct_map.
          rewrite (flatten_plain c0 (fin (map fst l))).
          2:{ apply Forall_forall. intros kv Hin. unfold fin in Hin. apply in_map_iff in Hin. destruct Hin as (x & <- & _). cbn [fst keyn ntag].
              split; intros E0; revert E0; vm_compute; discriminate. }
          cbn [bind].
          assert (CPW : construct_pairs (construct o reg c0) (fin (map fst l)) (kvs []) = Ok (kvs ([] ++ l))).
          { apply (construct_pairs_walk (construct o reg c0)).
            - intros x Hx. destruct (L4 x Hx) as (_ & _ & _ & _ & G1). destruct c0; [lia | reflexivity].
            - intros x Hx. destruct (L4 x Hx) as (_ & _ & C & _ & G1). apply C. lia.
            - cbn [map app]. unfold q_name. rewrite <- L1 in Hnd. rewrite map_map in Hnd. exact Hnd. }
          cbn [kvs map app] in CPW. fold (kvs l) in CPW. rewrite CPW.
          cbn [app bind]. unfold build_object. rewrite (Pipeline.init_args_rule reg ps false (kvs l)). cbv zeta. rewrite kwargs_kvs.
          assert (C1 : Pipeline.no_missing_and_typed reg ps (kws l) = true).
          { unfold Pipeline.no_missing_and_typed. rewrite <- L1. rewrite forallb_forall. intros p1 Hp1. apply in_map_iff in Hp1.
            destruct Hp1 as (y & <- & Hy).
            rewrite (nodup_assoc (kws l) (p_name (tr_p (fst y))) (snd y)).
            - destruct (L4 y Hy) as (_ & _ & _ & TM & _). exact TM.
            - unfold kws. rewrite map_map. cbn [fst]. rewrite <- L1 in Hnd. rewrite map_map in Hnd. exact Hnd.
            - unfold kws. apply in_map_iff. exists y. split; [reflexivity | exact Hy]. }
          assert (C2 : Pipeline.no_unknown ps (kws l) = true).
          { unfold Pipeline.no_unknown. rewrite forallb_forall. intros kv Hin. unfold kws in Hin. apply in_map_iff in Hin.
            destruct Hin as (y & <- & Hy). cbn [fst]. apply umem_In. rewrite <- L1. apply in_map_iff. exists (tr_p (fst y)).
            split; [reflexivity|]. apply in_map_iff. exists y. split; [reflexivity | exact Hy]. }
          assert (C3 : Pipeline.no_reserved (kws l) = true).
          { unfold Pipeline.no_reserved. apply negb_true_iff. destruct (existsb _ (kws l)) eqn:X; [|reflexivity]. exfalso.
            apply existsb_exists in X. destruct X as (kv & Hin & Hk). unfold kws in Hin. apply in_map_iff in Hin.
            destruct Hin as (y & <- & Hy). cbn [fst] in Hk.
            assert (Hm : In (q_name y) (map p_name ps)).
            { rewrite <- L1. apply in_map_iff. exists (tr_p (fst y)). split; [reflexivity|]. apply in_map_iff. exists y. split; [reflexivity | exact Hy]. }
            apply orb_true_iff in Hk. destruct Hk as [Hk|Hk]; apply ueqb_eq in Hk; rewrite Hk in Hm; contradiction. }
          rewrite C1, C2, C3. cbn [andb orb].
          assert (MA : main_args ps (kws l) = kws l).
          { rewrite <- L1. apply main_args_all. unfold q_name. rewrite <- L1 in Hnd. rewrite map_map in Hnd. exact Hnd. }
          rewrite MA, L3, HI, Hname. reflexivity.
    Qed.
  End step.

  (* ---- enums and string-likes ---- *)
  Lemma enum_good g c k ms m n : find_cls reg c = Some k -> c_shape k = ShEnum ms -> umem m ms = true ->
    represent o reg (S g) (VEnum c m) = Ok n -> good (S g) (VEnum c m) n (TClass c).
  Proof.
    intros Ek Esh Hm E.
    destruct (Hflat c k Ek) as ((Hr0 & Hsav & Hswe & Habs & Hsub & Hbases & _) & Hname).
    assert (Hreg : registered reg c = true) by (unfold registered; rewrite Ek; reflexivity).
    cbn [represent] in E. rewrite Hreg in E. injection E as <-.
    destruct tag_map_facts as (_ & _ & T1 & T2).
    assert (Rec : forall r, (2 <= r)%nat -> recognize o reg r (Scalar tag_str m genmark) (TClass c) = Ok ([TClass c], rec_ok)).
    { intros r Hr. destruct r as [|[|f]]; try lia. rewrite recognize_class_unfold, Hreg.
      apply (rec_classes_flat o reg Hflat f (Scalar tag_str m genmark) c true k rec_ok Ek T1).
      unfold rec_class. rewrite Hr0, Esh, Hname. rewrite ueqb_refl. reflexivity. }
    split; [exact T1|]. split; [exact T2|]. split.
    - intros r Hr. exists rec_ok. apply Rec. lia.
    - intros p Hp. destruct p as [|p]; [lia|]. exists (Scalar (bang c) m genmark). split.
      + cbn [process]. rewrite Rec; [|lia]. cbn [bind fst]. rewrite Ek, Esh.
        replace (ueqb tag_str tag_bool) with false by reflexivity.
        rewrite (savorize_flat reg Hflat FUELK c k _ Ek). cbn [bind]. unfold is_objectlike. rewrite Esh. reflexivity.
      + intros c0 Hc. destruct c0 as [|c0]; [lia|]. cbn [construct ntag]. rewrite class_of_tag_bang, Ek, Esh, Hm, Hname. reflexivity.
  Qed.
  Lemma ustr_good g c k s n : find_cls reg c = Some k -> c_shape k = ShStr -> c_str_ok k s = true ->
    represent o reg (S g) (VUStr c s) = Ok n -> good (S g) (VUStr c s) n (TClass c).
  Proof.
    intros Ek Esh Hm E.
    destruct (Hflat c k Ek) as ((Hr0 & Hsav & Hswe & Habs & Hsub & Hbases & _) & Hname).
    assert (Hreg : registered reg c = true) by (unfold registered; rewrite Ek; reflexivity).
    cbn [represent] in E. rewrite Hreg in E. injection E as <-.
    destruct tag_map_facts as (_ & _ & T1 & T2).
    assert (Rec : forall r, (2 <= r)%nat -> recognize o reg r (Scalar tag_str s genmark) (TClass c) = Ok ([TClass c], rec_ok)).
    { intros r Hr. destruct r as [|[|f]]; try lia. rewrite recognize_class_unfold, Hreg.
      apply (rec_classes_flat o reg Hflat f (Scalar tag_str s genmark) c true k rec_ok Ek T1).
      unfold rec_class. rewrite Hr0, Esh, Hname. rewrite ueqb_refl. reflexivity. }
    split; [exact T1|]. split; [exact T2|]. split.
    - intros r Hr. exists rec_ok. apply Rec. lia.
    - intros p Hp. destruct p as [|p]; [lia|]. exists (Scalar (bang c) s genmark). split.
      + cbn [process]. rewrite Rec; [|lia]. cbn [bind fst]. rewrite Ek, Esh.
        rewrite (savorize_flat reg Hflat FUELK c k _ Ek). cbn [bind]. unfold is_objectlike. rewrite Esh. reflexivity.
      + intros c0 Hc. destruct c0 as [|c0]; [lia|]. cbn [construct ntag]. rewrite class_of_tag_bang, Ek, Esh, Hm, Hname. reflexivity.
  Qed.

  Lemma attrs_ok_eq h : forall ps attrs,
    (fix go (ps : list param) (attrs : list (ustring * value)) : bool :=
       match ps, attrs with
       | [], [] => true
       | p :: pr, (a, x) :: ar => ueqb a (p_name p) && ftype_r (p_ty p) && vt h x (p_ty p) && go pr ar
       | _, _ => false
       end) ps attrs = attrs_ok (vt h) ps attrs.
  Proof.
    induction ps as [|p ps IHps]; intros attrs; destruct attrs as [|[a x] ar]; try reflexivity.
    cbn [attrs_ok]. rewrite <- IHps. reflexivity.
  Qed.

  (* ---- the induction ---- *)
  Theorem simple_rt : forall g h v n T, simple_r T = true -> vt h v T = true -> leaves_ok o v = true ->
    represent o reg g v = Ok n -> good g v n T.
  Proof.
    induction g as [|g IH]; intros h v n T HS HV HL E; [discriminate E|].
    destruct h as [|h]; [discriminate HV|]. cbn [vt] in HV.
    destruct T as [ | | | | | | | | |k t|k kt vt0|ts|c|c]; try discriminate HS.
    - (* TStr *) destruct v; try discriminate HV. apply (good_leaf g (VStr s) n TStr tag_str s); try reflexivity; try assumption.
      + intros E0; revert E0; vm_compute; discriminate.
      + injection E as <-. reflexivity.
    - (* TInt *) destruct v; try discriminate HV. apply (good_leaf g (VInt z) n TInt tag_int (z_to_dec z)); try reflexivity; try assumption.
      + intros E0; revert E0; vm_compute; discriminate.
      + injection E as <-. reflexivity.
    - (* TFloat *) destruct v; try discriminate HV. cbn [represent] in E.
      destruct (olookup o repr_key hex) as [[]|] eqn:El; try discriminate E. injection E as <-.
      apply (good_leaf g (VFloat hex) _ TFloat tag_float s); try reflexivity; try assumption.
      + intros E0; revert E0; vm_compute; discriminate.
      + cbn [represent]. rewrite El. reflexivity.
    - (* TBool *) destruct v; try discriminate HV.
      apply (good_leaf g (VBool b) n TBool tag_bool (if b then u "true" else u "false")); try reflexivity; try assumption.
      + intros E0; revert E0; vm_compute; discriminate.
      + injection E as <-. reflexivity.
    - (* TDate *) destruct v; try discriminate HV.
      + apply (good_leaf g (VDate iso) n TDate tag_timestamp iso); try reflexivity; try assumption.
        * intros E0; revert E0; vm_compute; discriminate.
        * injection E as <-. reflexivity.
      + apply (good_leaf g (VDateTime iso) n TDate tag_timestamp (space_for_T iso)); try reflexivity; try assumption.
        * intros E0; revert E0; vm_compute; discriminate.
        * injection E as <-. reflexivity.
    - (* TPath *) destruct v; try discriminate HV. injection E as <-. apply ueqb_eq in HV.
      destruct tag_map_facts as (_ & _ & T1 & T2). split; [exact T1|]. split; [exact T2|]. split.
      + intros r Hr. destruct r as [|r]; [lia|]. exists rec_ok. cbn [recognize]. unfold rec_path. rewrite ueqb_refl. reflexivity.
      + intros p Hp. destruct p as [|p]; [lia|]. exists (Scalar tag_path s genmark). split.
        * cbn [process]. cbn [recognize]. unfold rec_path. rewrite ueqb_refl. reflexivity.
        * intros c0 Hc. destruct c0 as [|c0]; [lia|]. cbn [construct ntag].
          change tag_path with (bang (u "Path")). rewrite class_of_tag_bang, Hpath, ueqb_refl. change (bang (u "Path")) with tag_path.
          rewrite HV. reflexivity.
    - (* TList *) cbn [simple_r] in HS. apply andb_true_iff in HS. destruct HS as [Hk Hs]. destruct v; try discriminate HV.
      rewrite represent_list in E. destruct (represent_items (represent o reg g) l) as [l'|] eqn:El; cbn [bind] in E; [|discriminate E].
      injection E as <-. cbn [leaves_ok] in HL.
      destruct (items_lift g t l l') as (R & P); [|exact El|].
      { intros x x' Hin Ex. apply (IH h); [exact Hs | | | exact Ex]; [rewrite forallb_forall in HV; apply HV, Hin | rewrite forallb_forall in HL; apply HL, Hin]. }
      destruct coll_facts as (Cs & _ & Ps & _).
      split; [reflexivity|]. split; [intros E0; revert E0; vm_compute; discriminate|]. split.
      + intros r Hr. destruct r as [|r]; [lia|]. exists rec_ok. cbn [recognize]. rewrite Hk.
        apply rec_items_single. intros i Hi. apply (R r); [lia | exact Hi].
      + intros p Hp. destruct p as [|p]; [lia|]. destruct (P p) as (l'' & PI & CI); [lia|].
        exists (Seq tag_seq l'' genmark). split.
        * cbn [process]. cbn [recognize]. rewrite Hk.
          rewrite (rec_items_single (fun i => recognize o reg p i t) k t l'); [|intros i Hi; apply (R p); [lia | exact Hi]].
          cbn [bind fst]. rewrite ueqb_refl, PI. reflexivity.
        * intros c0 Hc. destruct c0 as [|c0]; [lia|]. cbn [construct ntag]. rewrite Cs, Ps, ueqb_refl, (CI c0); [reflexivity | lia].
    - (* TDict *) cbn [simple_r] in HS. destruct kt; try discriminate HS. apply andb_true_iff in HS. destruct HS as [Hk Hs].
      destruct v; try discriminate HV. apply andb_true_iff in HV. destruct HV as [HV HF].
      rewrite represent_dict in E. destruct (represent_pairs (represent o reg g) l) as [ps|] eqn:El; cbn [bind] in E; [|discriminate E].
      injection E as <-. cbn [leaves_ok] in HL.
      destruct coll_facts as (_ & Cm & _ & Pm & _).
      destruct l as [|kx1 l1].
      { (* the empty dict *)
        injection El as <-.
        split; [reflexivity|]. split; [intros E0; revert E0; vm_compute; discriminate|]. split.
        - intros r Hr. destruct r as [|r]; [lia|]. exists rec_ok. cbn [recognize]. rewrite Hk. reflexivity.
        - intros p Hp. destruct p as [|p]; [lia|]. exists (Map tag_map [] genmark). split.
          + cbn [process]. cbn [recognize]. rewrite Hk. cbn [rec_pairs bind fst]. rewrite ueqb_refl. reflexivity.
          + intros c0 Hc. destruct c0 as [|c0]; [lia|]. cbn [construct ntag]. rewrite Cm, Pm, ueqb_refl. reflexivity. }
      destruct g as [|g0]; [destruct kx1; discriminate El|].
      destruct (pairs_lift g0 vt0 (kx1 :: l1) ps []) as (R & P); [| | | exact El |].
      { apply forallb_forall. intros kx Hin. rewrite forallb_forall in HV. specialize (HV _ Hin). apply andb_true_iff in HV. exact (proj1 HV). }
      { intros k1 x Hin. rewrite forallb_forall in HL. specialize (HL _ Hin). cbn in HL. apply andb_true_iff in HL. exact (proj1 HL). }
      { intros k1 x x' Hin Ex. rewrite forallb_forall in HV, HL. specialize (HV _ Hin). specialize (HL _ Hin). cbn in HV, HL.
        apply andb_true_iff in HV. apply andb_true_iff in HL. apply (IH h); [exact Hs | exact (proj2 HV) | exact (proj2 HL) | exact Ex]. }
      split; [reflexivity|]. split; [intros E0; revert E0; vm_compute; discriminate|]. split.
      + intros r Hr. destruct r as [|r]; [lia|]. exists rec_ok. cbn [recognize]. rewrite Hk.
        apply rec_pairs_single. intros kn vn Hin. apply (R r); [lia | exact Hin].
      + intros p Hp. destruct p as [|p]; [lia|]. destruct (P p) as (ps'' & PP & NM & CP); [lia|].
        exists (Map tag_map ps'' genmark). split.
        * cbn [process]. cbn [recognize]. rewrite Hk.
          rewrite (rec_pairs_single (fun x => recognize o reg p x TStr) (fun x => recognize o reg p x vt0) k TStr vt0 ps);
            [|intros kn vn Hin; apply (R p); [lia | exact Hin]].
          cbn [bind fst]. rewrite ueqb_refl, PP. reflexivity.
        * intros c0 Hc. destruct c0 as [|c0]; [lia|]. cbn [construct ntag]. rewrite Cm, Pm, ueqb_refl. unfold construct_map.
          rewrite (flatten_plain c0 ps'' NM). cbn [bind]. rewrite (CP c0); [reflexivity | lia | exact HF].
    - (* TClass *) cbn [simple_r] in HS. destruct (find_cls reg c) as [k|] eqn:Ek; [|discriminate HV].
      destruct (c_shape k) as [ps extra|ms|] eqn:Esh; destruct v; try discriminate HV.
      + apply andb_true_iff in HV. destruct HV as [HV HA]. apply andb_true_iff in HV. destruct HV as [Hd HI]. apply ueqb_eq in Hd. subst c0.
        rewrite attrs_ok_eq in HA. apply (obj_good g (IH) h c k ps extra kw n Ek Esh); assumption.
      + apply andb_true_iff in HV. destruct HV as [Hd Hm]. apply ueqb_eq in Hd. subst c0. apply (enum_good g c k ms m n Ek Esh Hm E).
      + apply andb_true_iff in HV. destruct HV as [Hd Hm]. apply ueqb_eq in Hd. subst c0. apply (ustr_good g c k s n Ek Esh Hm E).
  Qed.

  (* ---- the whole load ---- *)
  Theorem class_roundtrip : forall g h v n T, ftype_r T = true -> vt h v T = true -> leaves_ok o v = true ->
    represent o reg g v = Ok n -> (3 * g + 2 <= FUEL)%nat -> load o reg (Some n) T = Ok v.
  Proof.
    intros g h v n T HF HV HL E Hg.
    destruct (attr_goodO g (simple_rt g) h v n T HF HV HL E) as (_ & P).
    destruct (P FUEL Hg) as (n1 & PE & CE). unfold load. rewrite PE. cbn [bind]. apply CE; [lia|]. unfold FUEL. lia.
  Qed.
End rt.

(* ---- the premises are decidable; the tie evaluates them on the generated cases to measure how many fall under the
        theorem, and re-checks the conclusion there by evaluation ---- *)
From Y Require Import WfDecide RegOrder.

Definition is_none {A} (x : option A) : bool := match x with None => true | Some _ => false end.
Definition flat_clsb (reg : registry) (k : cls) : bool :=
  is_none (c_recognize k) && is_none (c_savorize k) && is_none (c_sweeten k) && negb (c_abstract k) &&
  is_nil (direct_subclasses reg (c_name k)) && is_nil (registered_bases reg k) &&
  match c_shape k with
  | ShObj ps extra => negb extra && nodupb (map p_name ps) && negb (umem extra_name (map p_name ps)) && negb (umem self_name (map p_name ps))
  | _ => true
  end.
Definition flatb (reg : registry) : bool :=
  forallb (flat_clsb reg) reg && forallb (fun k => umem (c_name k) (c_ancestors k)) reg &&
  is_none (find_cls reg (u "Path")).

Lemma is_nil_eq {A} (l : list A) : is_nil l = true -> l = [].
Proof. destruct l; [reflexivity | discriminate]. Qed.
Lemma is_none_eq {A} (x : option A) : is_none x = true -> x = None.
Proof. destruct x; [discriminate | reflexivity]. Qed.

Theorem flatb_sound reg : flatb reg = true ->
  flat reg /\ (forall c k, find_cls reg c = Some k -> In c (c_ancestors k)) /\ find_cls reg (u "Path") = None.
Proof.
  unfold flatb. intros H. apply andb_true_iff in H. destruct H as [H H3]. apply andb_true_iff in H. destruct H as [H1 H2].
  rewrite forallb_forall in H1, H2. split; [|split].
  - intros c k Ek. destruct (find_cls_In reg c k Ek) as [Hin Hn]. split; [|exact Hn].
    specialize (H1 k Hin). unfold flat_clsb in H1.
    repeat match type of H1 with (_ && _) = true => apply andb_true_iff in H1; let A := fresh "A" in destruct H1 as [H1 A] end.
    unfold flat_cls. repeat split; try (apply is_none_eq; assumption); try (apply is_nil_eq; assumption);
      try (apply negb_true_iff; assumption).
    destruct (c_shape k) as [ps extra| |]; try exact I.
    repeat match goal with A : (_ && _) = true |- _ => apply andb_true_iff in A; destruct A end.
    repeat match goal with A : negb _ = true |- _ => apply negb_true_iff in A end.
    repeat split.
    + destruct extra; [discriminate | reflexivity].
    + apply nodupb_sound. assumption.
    + intros X. apply umem_In in X. congruence.
    + intros X. apply umem_In in X. congruence.
  - intros c k Ek. destruct (find_cls_In reg c k Ek) as [Hin Hn]. rewrite <- Hn. apply umem_In, H2, Hin.
  - apply is_none_eq, H3.
Qed.

(* one correspondence case: 0 = outside the fragment, 1 = inside and the model's load gives the value back,
   2 = inside and it does not (which would contradict C05_roundtrip_classes) *)
Record rtcase := { rt_oracle : oracle; rt_specs : list Hooks.cls_spec; rt_value : value; rt_type : ty }.
Definition rt_class (c : rtcase) : N :=
  let o := rt_oracle c in let reg := Hooks.interp_reg o (rt_specs c) in
  if flatb reg && ftype_r reg (rt_type c) && vt o reg 60 (rt_value c) (rt_type c) && leaves_ok o (rt_value c) then
    match represent o reg 60 (rt_value c) with
    | Ok n => match load o reg (Some n) (rt_type c) with
              | Ok v => if value_eqb v (rt_value c) then 1 else 2
              | Err _ => 2 end
    | Err _ => 2
    end
  else 0.
Definition rt_classes (l : list rtcase) : list N := map rt_class l.
(* indices of the cases inside the fragment (i) and of those among them where evaluation contradicts the theorem (1000000 + i) *)
Fixpoint rt_report_from (i : N) (l : list rtcase) : list N :=
  match l with
  | [] => []
  | c :: r => match rt_class c with
              | 0 => rt_report_from (i + 1) r
              | 1 => i :: rt_report_from (i + 1) r
              | _ => (1000000 + i) :: rt_report_from (i + 1) r
              end
  end.
Definition rt_report (l : list rtcase) : list N := rt_report_from 0 l.
