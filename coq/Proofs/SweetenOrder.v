(* C10, dumping side: which sweeten hooks run for an object of class c, and in which order -- the mirror image of
   Proofs/HookOrder.v (the chain and its once-and-ordered theorems are shared). *)
From Coq Require Import NArith ZArith List Bool String Lia Sorted.
Import ListNotations.
From Y Require Import Prelude Node Tables NodeOps Types Recognize Loader Hooks Represent Spec Conform HookOrder.
Open Scope N_scope.

Section order.
  Variable reg : registry.

  Definition defines_sweeten (c : ustring) : bool :=
    match find_cls reg c with Some k => match c_sweeten k with Some _ => true | None => false end | None => false end.

  Theorem sweeten_is_fold fuel c n :
    sweeten reg fuel c n = fold_left (apply_sweeten reg) (sweeten_order reg fuel c) (Ok n).
  Proof. reflexivity. Qed.

  Theorem sweeten_order_chain : single_inh reg -> forall fuel c,
    sweeten_order reg fuel c = filter defines_sweeten (chain reg fuel c).
  Proof.
    intros Hs. induction fuel as [|f IH]; intros c; [reflexivity|].
    cbn [sweeten_order chain]. unfold defines_sweeten at 1.
    destruct (find_cls reg c) as [k|] eqn:Fk; [|reflexivity].
    assert (Hown : (match c_sweeten k with Some _ => [c] | None => [] end) = filter defines_sweeten [c]).
    { cbn [filter]. unfold defines_sweeten. rewrite Fk. destruct (c_sweeten k); reflexivity. }
    pose proof (Hs k (find_cls_in _ _ _ Fk)) as Hl.
    destruct (registered_bases reg k) as [|b [|b2 r]] eqn:Eb.
    - cbn [flat_map app]. exact Hown.
    - cbn [flat_map]. rewrite app_nil_r, filter_app, IH, Hown. reflexivity.
    - cbn [List.length] in Hl. lia.
  Qed.

  (* a class that defines no hook of its own contributes nothing: an inherited hook is run for the class that
     defines it, once *)
  Corollary no_own_hook_no_run : single_inh reg -> forall fuel c, defines_sweeten c = false ->
    ~ In c (sweeten_order reg fuel c).
  Proof.
    intros Hs fuel c Hd Hin. rewrite (sweeten_order_chain Hs) in Hin.
    apply filter_In in Hin. destruct Hin as [_ H]. congruence.
  Qed.
End order.
