(* C03: the outcome of a load does not depend on the order in which the classes were registered.
   Two registries that are permutations of each other (distinct class names) recognise the same SET of types at
   every node (lists differ at most in order), hence the same single type whenever there is exactly one; processing
   then yields the same node and construction the same value. *)
From Coq Require Import NArith ZArith List Bool String Lia Permutation.
Import ListNotations.
From Y Require Import Prelude Node Tables NodeOps Types Recognize Loader Hooks Spec Polymorph InitIrrelevant.
Open Scope N_scope.

Local Arguments ueqb : simpl never.
Local Arguments uprefix : simpl never.
Local Arguments class_of_tag : simpl never.

(* ---- registries ---- *)
Lemma find_cls_In reg c k : find_cls reg c = Some k -> In k reg /\ c_name k = c.
Proof.
  induction reg as [|k0 r IH]; [discriminate|]. cbn [find_cls].
  destruct (ueqb_spec (c_name k0) c) as [E|_].
  - intros H. injection H as <-. split; [left; reflexivity | exact E].
  - intros H. destruct (IH H). split; [right|]; assumption.
Qed.
Lemma find_cls_unique reg k : NoDup (map c_name reg) -> In k reg -> find_cls reg (c_name k) = Some k.
Proof.
  induction reg as [|k0 r IH]; intros Hnd Hin; [destruct Hin|]. cbn [find_cls map] in *.
  inversion Hnd as [|? ? Hn Hr]; subst. destruct Hin as [->|Hin].
  - rewrite (proj2 (ueqb_eq _ _) eq_refl). reflexivity.
  - destruct (ueqb_spec (c_name k0) (c_name k)) as [E|_]; [|apply IH; assumption].
    exfalso. apply Hn. rewrite E. apply in_map, Hin.
Qed.
Lemma find_cls_perm reg reg' c : NoDup (map c_name reg) -> Permutation reg reg' -> find_cls reg c = find_cls reg' c.
Proof.
  intros Hnd HP.
  assert (Hnd' : NoDup (map c_name reg')) by (eapply Permutation_NoDup; [apply Permutation_map; exact HP | exact Hnd]).
  destruct (find_cls reg c) as [k|] eqn:E.
  - destruct (find_cls_In _ _ _ E) as [Hin <-]. symmetry. apply find_cls_unique; [exact Hnd'|].
    eapply Permutation_in; eassumption.
  - destruct (find_cls reg' c) as [k|] eqn:E'; [|reflexivity].
    destruct (find_cls_In _ _ _ E') as [Hin <-].
    rewrite (find_cls_unique reg k Hnd) in E; [discriminate E|].
    eapply Permutation_in; [apply Permutation_sym; exact HP | exact Hin].
Qed.

(* ---- results as sets ---- *)
Definition req (r r' : RecResult) : Prop :=
  (forall t, In t (fst r) <-> In t (fst r')) /\ NoDup (fst r) /\ NoDup (fst r').
Lemma req_refl1 t e e' : req ([t], e) ([t], e').
Proof. split; [tauto|]. split; constructor; try (intros []); constructor. Qed.
Lemma req_nil e e' : req ([], e) ([], e').
Proof. split; [tauto|]. split; constructor. Qed.
Lemma req_len r r' : req r r' -> List.length (fst r) = List.length (fst r').
Proof.
  intros (H & N1 & N2). apply Nat.le_antisymm; apply NoDup_incl_length; try assumption; intros t Ht; apply H; exact Ht.
Qed.
Lemma req_cases r r' : req r r' ->
  (fst r = [] /\ fst r' = []) \/ (exists t, fst r = [t] /\ fst r' = [t]) \/
  (exists a b l a' b' l', fst r = a :: b :: l /\ fst r' = a' :: b' :: l').
Proof.
  intros H. pose proof (req_len _ _ H) as HL. destruct H as (H & N1 & N2).
  destruct (fst r) as [|a [|b l]] eqn:E; destruct (fst r') as [|a' [|b' l']] eqn:E'; try discriminate HL.
  - left. split; reflexivity.
  - right. left. exists a. split; [reflexivity|]. f_equal. destruct (proj1 (H a) (or_introl eq_refl)) as [->|[]]. reflexivity.
  - right. right. exists a, b, l, a', b', l'. split; reflexivity.
Qed.
Lemma req_is_nil r r' : req r r' -> is_nil (fst r) = is_nil (fst r').
Proof. intros H. destruct (req_cases _ _ H) as [[E1 E2]|[(t & E1 & E2)|(a & b & l & a' & b' & l' & E1 & E2)]]; rewrite E1, E2; reflexivity. Qed.
Lemma req_map (f : ty -> ty) r r' e e' : (forall x y, f x = f y -> x = y) -> req r r' ->
  req (map f (fst r), e) (map f (fst r'), e').
Proof.
  intros Hinj (H & N1 & N2). split; [|split].
  - intros t. cbn [fst]. rewrite !in_map_iff. split; intros (x & <- & Hx); exists x; (split; [reflexivity | apply H, Hx]).
  - cbn [fst]. apply FinFun.Injective_map_NoDup; [intros x y; apply Hinj | exact N1].
  - cbn [fst]. apply FinFun.Injective_map_NoDup; [intros x y; apply Hinj | exact N2].
Qed.

Lemma req_self r : NoDup (fst r) -> req r r.
Proof. intros H. split; [tauto | split; exact H]. Qed.
Lemma rec_scalar_nodup n T : NoDup (fst (rec_scalar n T)).
Proof.
  unfold rec_scalar. destruct n as [t v m|t l m|t ps m]; destruct (scalar_tag T) as [t'|]; try constructor.
  destruct (ueqb t t'); cbn [fst]; constructor; try (intros []); constructor.
Qed.
Lemma rec_path_nodup n : NoDup (fst (rec_path n)).
Proof.
  unfold rec_path. destruct n as [t v m|t l m|t ps m]; try constructor.
  destruct (ueqb t tag_str); cbn [fst]; constructor; try (intros []); constructor.
Qed.

Definition relR {A} (rec rec' : A -> result RecResult) : Prop :=
  forall x res, rec x = Ok res -> exists res', rec' x = Ok res' /\ req res res'.

(* ---- lists ---- *)
Lemma rec_items_rel rec rec' k t : relR rec rec' -> forall items r, rec_items rec k t items = Ok r ->
  exists r', rec_items rec' k t items = Ok r' /\ req r r'.
Proof.
  intros HR. induction items as [|i items IH]; intros r E; cbn [rec_items] in *.
  - injection E as <-. eexists. split; [reflexivity | apply req_refl1].
  - destruct (rec i) as [res|e] eqn:Er; cbn [bind] in E; [|discriminate E].
    destruct (HR i res Er) as (res' & Er' & Q). rewrite Er'. cbn [bind].
    destruct (req_cases _ _ Q) as [[E1 E2]|[(x & E1 & E2)|(a & b & l & a' & b' & l' & E1 & E2)]]; rewrite E1 in E; rewrite E2.
    + injection E as <-. eexists. split; [reflexivity | apply req_nil].
    + apply IH, E.
    + injection E as <-. eexists. split; [reflexivity|].
      change (req (map (TList 0) (a :: b :: l), snd res) (map (TList 0) (a' :: b' :: l'), snd res')). rewrite <- E1, <- E2.
      apply req_map; [intros x y H; injection H; tauto | exact Q].
Qed.

Lemma rec_pairs_rel reck reck' recv recv' k kt vt : relR reck reck' -> relR recv recv' ->
  forall ps r, rec_pairs reck recv k kt vt ps = Ok r -> exists r', rec_pairs reck' recv' k kt vt ps = Ok r' /\ req r r'.
Proof.
  intros HK HV. induction ps as [|[kn vn] ps IH]; intros r E; cbn [rec_pairs] in *.
  - injection E as <-. eexists. split; [reflexivity | apply req_refl1].
  - destruct (reck kn) as [kres|e] eqn:Ek; cbn [bind] in E; [|discriminate E].
    destruct (HK kn kres Ek) as (kres' & Ek' & QK). rewrite Ek'. cbn [bind].
    destruct (req_cases _ _ QK) as [[E1 E2]|[(x & E1 & E2)|(a & b & l & a' & b' & l' & E1 & E2)]]; rewrite E1 in E; rewrite E2.
    + injection E as <-. eexists. split; [reflexivity | apply req_nil].
    + destruct (recv vn) as [vres|e] eqn:Ev; cbn [bind] in E; [|discriminate E].
      destruct (HV vn vres Ev) as (vres' & Ev' & QV). rewrite Ev'. cbn [bind].
      destruct (req_cases _ _ QV) as [[F1 F2]|[(y & F1 & F2)|(c & d & m & c' & d' & m' & F1 & F2)]]; rewrite F1 in E; rewrite F2.
      * injection E as <-. eexists. split; [reflexivity | apply req_nil].
      * apply IH, E.
      * injection E as <-. eexists. split; [reflexivity|].
        change (req (map (fun t => TDict 3 kt t) (c :: d :: m), snd vres) (map (fun t => TDict 3 kt t) (c' :: d' :: m'), snd vres')).
        rewrite <- F1, <- F2. apply (req_map (fun t => TDict 3 kt t)); [intros p q H; injection H; tauto | exact QV].
    + injection E as <-. eexists. split; [reflexivity|].
      change (req (map (fun t => TDict 3 t vt) (a :: b :: l), snd kres) (map (fun t => TDict 3 t vt) (a' :: b' :: l'), snd kres')).
      rewrite <- E1, <- E2. apply (req_map (fun t => TDict 3 t vt)); [intros p q H; injection H; tauto | exact QK].
Qed.

(* ---- unions and subclass descent: accumulation of duplicate-free unions ---- *)
Definition seteq (a b : list ty) : Prop := (forall t, In t a <-> In t b) /\ NoDup a /\ NoDup b.
Lemma ty_union_seteq a a' b b' : seteq a a' -> (forall t, In t b <-> In t b') -> seteq (ty_union a b) (ty_union a' b').
Proof.
  intros (H & N1 & N2) Hb. split; [|split; apply ty_union_NoDup; assumption].
  intros t. rewrite !ty_union_In, H, Hb. tauto.
Qed.

Lemma rec_members_rel rec rec' : relR rec rec' -> forall ts acc acc' causes causes' r,
  seteq acc acc' -> rec_members rec ts acc causes = Ok r ->
  exists r', rec_members rec' ts acc' causes' = Ok r' /\ seteq (fst r) (fst r').
Proof.
  intros HR. induction ts as [|t ts IH]; intros acc acc' causes causes' r HS E; cbn [rec_members] in *.
  - injection E as <-. eexists. split; [reflexivity | exact HS].
  - destruct (rec t) as [res|e] eqn:Er; cbn [bind] in E; [|discriminate E].
    destruct (HR t res Er) as (res' & Er' & Q). rewrite Er'. cbn [bind].
    eapply IH; [|exact E]. apply ty_union_seteq; [exact HS | exact (proj1 Q)].
Qed.

Lemma bfix_seteq a b : seteq a b -> seteq (bfix a) (bfix b).
Proof.
  intros (H & N1 & N2). unfold bfix. rewrite (ty_mem_ext TBool _ _ H), (ty_mem_ext TBoolFix _ _ H).
  destruct (ty_mem TBool b && ty_mem TBoolFix b); [|split; [exact H | split; assumption]].
  unfold ty_remove. split; [|split; apply NoDup_filter; assumption].
  intros t. rewrite !filter_In, H. tauto.
Qed.

Lemma rec_union_rel rec rec' ts m : relR rec rec' -> forall r, rec_union rec ts m = Ok r ->
  exists r', rec_union rec' ts m = Ok r' /\ req r r'.
Proof.
  intros HR r E. rewrite rec_union_eq in *.
  destruct (rec_members rec ts [] []) as [x|e] eqn:Em; cbn [bind] in E; [|discriminate E].
  destruct (rec_members_rel rec rec' HR ts [] [] [] [] x) as (x' & Em' & HS); [split; [tauto | split; constructor] | exact Em |].
  rewrite Em'. cbn [bind]. pose proof (bfix_seteq _ _ HS) as HB.
  assert (Q : forall e1 e2, req (bfix (fst x), e1) (bfix (fst x'), e2)) by (intros; exact HB).
  destruct (req_cases _ _ (Q rec_ok rec_ok)) as [[E1 E2]|[(y & E1 & E2)|(a & b & l & a' & b' & l' & E1 & E2)]]; cbn [fst] in E1, E2.
  - rewrite E1 in E. rewrite E2. injection E as <-. eexists. split; [reflexivity | apply req_nil].
  - rewrite E1 in E. rewrite E2. injection E as <-. eexists. split; [reflexivity | apply req_refl1].
  - specialize (Q (RE [m] [] (snd x)) (RE [m] [] (snd x'))). rewrite E1 in E, Q. rewrite E2 in Q |- *.
    injection E as <-. eexists. split; [reflexivity | exact Q].
Qed.

(* rec_subs over two orders of the same subclasses *)
Lemma rec_subs_spec (recsub : ustring -> result RecResult) : forall l acc causes r, rec_subs recsub l acc causes = Ok r ->
  (forall d, In d l -> exists res, recsub (c_name d) = Ok res) /\
  (forall t, In t (fst r) <-> In t acc \/ exists d res, In d l /\ recsub (c_name d) = Ok res /\ In t (fst res)) /\
  (NoDup acc -> NoDup (fst r)).
Proof.
  induction l as [|d l IH]; intros acc causes r E; cbn [rec_subs] in E.
  - injection E as <-. cbn [fst]. split; [intros d []|]. split; [|tauto].
    intros t. split; [tauto|]. intros [H|(d & res & [] & _)]. exact H.
  - destruct (recsub (c_name d)) as [res|e] eqn:Em; cbn [bind] in E; [|discriminate E].
    destruct (IH _ _ _ E) as (H1 & H2 & H3). split; [|split].
    + intros d' [<-|Hin]; [eauto | apply H1, Hin].
    + intros t. rewrite H2, ty_union_In. split.
      * intros [[H|H]|(d' & res' & Hin & Er & Ht)]; [tauto | right; exists d, res; cbn [In]; tauto |
                                                           right; exists d', res'; cbn [In]; tauto].
      * intros [H|(d' & res' & [<-|Hin] & Er & Ht)]; [tauto | rewrite Em in Er; injection Er as <-; tauto |
                                                           right; exists d', res'; tauto].
    + intros Hnd. apply H3, ty_union_NoDup, Hnd.
Qed.
Lemma rec_subs_total (recsub : ustring -> result RecResult) : forall l acc causes,
  (forall d, In d l -> exists res, recsub (c_name d) = Ok res) -> exists r, rec_subs recsub l acc causes = Ok r.
Proof.
  induction l as [|d l IH]; intros acc causes H; cbn [rec_subs]; [eauto|].
  destruct (H d (or_introl eq_refl)) as (res & Er). rewrite Er. cbn [bind]. apply IH. intros d' Hin. apply H. right. exact Hin.
Qed.
Lemma rec_subs_rel (recsub recsub' : ustring -> result RecResult) l l' r : relR recsub recsub' -> Permutation l l' ->
  rec_subs recsub l [] [] = Ok r -> exists r', rec_subs recsub' l' [] [] = Ok r' /\ seteq (fst r) (fst r').
Proof.
  intros HR HP E. destruct (rec_subs_spec recsub _ _ _ _ E) as (H1 & H2 & H3).
  destruct (rec_subs_total recsub' l' [] []) as (r' & E').
  { intros d Hin. destruct (H1 d) as (res & Er); [eapply Permutation_in; [apply Permutation_sym; exact HP | exact Hin]|].
    destruct (HR _ _ Er) as (res' & Er' & _). eauto. }
  destruct (rec_subs_spec recsub' _ _ _ _ E') as (H1' & H2' & H3').
  exists r'. split; [exact E'|]. split; [|split; [apply H3 | apply H3']; constructor].
  intros t. rewrite H2, H2'. split.
  - intros [[]|(d & res & Hin & Er & Ht)]. right. destruct (HR _ _ Er) as (res' & Er' & Q).
    exists d, res'. split; [eapply Permutation_in; eassumption|]. split; [exact Er' | apply (proj1 Q), Ht].
  - intros [[]|(d & res' & Hin & Er' & Ht)]. right.
    destruct (H1 d) as (res & Er); [eapply Permutation_in; [apply Permutation_sym; exact HP | exact Hin]|].
    destruct (HR _ _ Er) as (res2 & Er2 & Q). rewrite Er' in Er2. injection Er2 as <-.
    exists d, res. split; [eapply Permutation_in; [apply Permutation_sym; exact HP | exact Hin]|]. split; [exact Er | apply (proj1 Q), Ht].
Qed.

(* ---- classes ---- *)
Definition relR2 (rec rec' : node -> ty -> result RecResult) : Prop :=
  forall x T res, rec x T = Ok res -> exists res', rec' x T = Ok res' /\ req res res'.

Lemma rec_params_rel rec rec' n ps c : relR2 rec rec' -> forall params r, rec_params rec n ps params c = Ok r ->
  exists r', rec_params rec' n ps params c = Ok r' /\ req r r'.
Proof.
  intros HR. induction params as [|p rest IH]; intros r E; cbn [rec_params] in *.
  - injection E as <-. eexists. split; [reflexivity | apply req_refl1].
  - assert (TRY : forall name (kont kont' : result RecResult),
               (forall r0, kont = Ok r0 -> exists r0', kont' = Ok r0' /\ req r0 r0') ->
               forall r0,
                 (if has_attr_ps name ps then
                    match get_attr_ps name ps with
                    | Err _ => Ok ([], RE [nmark n] [name] [])
                    | Ok sub => res <- rec sub (p_ty p) ;;
                                if is_nil (fst res) then Ok ([], RE [first_key_mark name ps (nmark n)] [name] [snd res])
                                else rec_params rec n ps rest c
                    end
                  else kont) = Ok r0 ->
                 exists r0',
                   (if has_attr_ps name ps then
                      match get_attr_ps name ps with
                      | Err _ => Ok ([], RE [nmark n] [name] [])
                      | Ok sub => res <- rec' sub (p_ty p) ;;
                                  if is_nil (fst res) then Ok ([], RE [first_key_mark name ps (nmark n)] [name] [snd res])
                                  else rec_params rec' n ps rest c
                      end
                    else kont') = Ok r0' /\ req r0 r0').
    { intros name kont kont' Hk r0 E0. destruct (has_attr_ps name ps); [|apply Hk, E0].
      destruct (get_attr_ps name ps) as [sub|e].
      - destruct (rec sub (p_ty p)) as [res|e] eqn:Er; cbn [bind] in E0; [|discriminate E0].
        destruct (HR _ _ _ Er) as (res' & Er' & Q). rewrite Er'. cbn [bind]. rewrite <- (req_is_nil _ _ Q).
        destruct (is_nil (fst res)); [|apply IH, E0]. injection E0 as <-. eexists. split; [reflexivity | apply req_nil].
      - injection E0 as <-. eexists. split; [reflexivity | apply req_nil]. }
    eapply TRY; [|exact E]. intros r1 E1. eapply TRY; [|exact E1]. intros r2 E2.
    destruct (p_required p); [injection E2 as <-; eexists; split; [reflexivity | apply req_nil] | apply IH, E2].
Qed.

(* a custom recogniser is a function of what its `recognised?` argument answers *)
Definition hext (h : (node -> ty -> bool) -> node -> bool) : Prop :=
  forall r1 r2 n, (forall x t, r1 x t = r2 x t) -> h r1 n = h r2 n.

Lemma rec_class_rel o rec rec' k n : relR2 rec rec' -> relR2 rec' rec ->
  (forall h, c_recognize k = Some h -> hext h) ->
  forall r, rec_class o rec k n = Ok r -> exists r', rec_class o rec' k n = Ok r' /\ req r r'.
Proof.
  intros HR HR' Hx r E. unfold rec_class in *. destruct (c_recognize k) as [h|].
  - assert (EQ : h (fun n' t => match rec n' t with Ok (tys, _) => negb (is_nil tys) | Err _ => false end) n =
                 h (fun n' t => match rec' n' t with Ok (tys, _) => negb (is_nil tys) | Err _ => false end) n).
    { apply (Hx h eq_refl). intros x t. destruct (rec x t) as [[tys e]|e] eqn:E1.
      - destruct (HR _ _ _ E1) as ([tys' e'] & E2 & Q). rewrite E2. f_equal. exact (req_is_nil _ _ Q).
      - destruct (rec' x t) as [[tys' e']|e'] eqn:E2; [|reflexivity].
        destruct (HR' _ _ _ E2) as (res & E3 & _). rewrite E1 in E3. discriminate E3. }
    rewrite <- EQ. destruct (h _ n); injection E as <-; eexists; (split; [reflexivity|]); [apply req_refl1 | apply req_nil].
  - destruct (c_shape k) as [params ex|ms|].
    + destruct n as [t v m|t l m|t ps m]; try (injection E as <-; eexists; split; [reflexivity | apply req_nil]).
      eapply rec_params_rel; eassumption.
    + exists r. split; [exact E|]. destruct n as [t v m|t l m|t ps m]; try (injection E as <-; apply req_nil).
      destruct (ueqb t tag_str || ueqb t tag_bool); injection E as <-; [apply req_refl1 | apply req_nil].
    + exists r. split; [exact E|]. destruct n as [t v m|t l m|t ps m]; try (injection E as <-; apply req_nil).
      destruct (ueqb t tag_str); injection E as <-; [apply req_refl1 | apply req_nil].
Qed.

Lemma Permutation_filter' {A} (f : A -> bool) l l' : Permutation l l' -> Permutation (filter f l) (filter f l').
Proof.
  induction 1 as [|x l l' _ IH|x y l|l l' l'' _ IH1 _ IH2]; cbn [filter].
  - constructor.
  - destruct (f x); [constructor|]; exact IH.
  - destruct (f x), (f y); try apply Permutation_refl; try constructor; apply Permutation_refl.
  - eapply Permutation_trans; eassumption.
Qed.

Definition ext_hooks (reg : registry) : Prop := forall k h, In k reg -> c_recognize k = Some h -> hext h.

Section order.
  Variable o : oracle.

  Definition relC (reg reg' : registry) (fuel : nat) : Prop :=
    forall n c top res, rec_classes o reg fuel n c top = Ok res -> exists res', rec_classes o reg' fuel n c top = Ok res' /\ req res res'.

  Theorem recognize_order : forall fuel reg reg', Permutation reg reg' -> NoDup (map c_name reg) -> ext_hooks reg ->
    relR2 (recognize o reg fuel) (recognize o reg' fuel) /\ relC reg reg' fuel.
  Proof.
    induction fuel as [|f IH]; intros reg reg' HP Hnd Hext; [split; [intros x T res E | intros n c top res E]; discriminate E|].
    assert (HP' : Permutation reg' reg) by (apply Permutation_sym; exact HP).
    assert (Hnd' : NoDup (map c_name reg')) by (eapply Permutation_NoDup; [apply Permutation_map; exact HP | exact Hnd]).
    assert (Hext' : ext_hooks reg') by (intros k h Hin; apply Hext; eapply Permutation_in; eassumption).
    destruct (IH reg reg' HP Hnd Hext) as [IHr IHc]. destruct (IH reg' reg HP' Hnd' Hext') as [IHr' IHc'].
    assert (FC : forall c, find_cls reg c = find_cls reg' c) by (intros c; apply find_cls_perm; assumption).
    split.
    - intros n T res E. cbn [recognize] in *.
      destruct T as [ | | | | | | | | |k t|k kt vt|ts|c|c];
        try (eexists; split; [exact E|]; injection E as <-; apply req_self, rec_scalar_nodup).
      + (* TPath *) eexists. split; [exact E|]. injection E as <-. apply req_self, rec_path_nodup.
      + (* TAny *) eexists. split; [exact E|]. injection E as <-. apply req_refl1.
      + (* TList *) destruct (is_seq_origin k); [|discriminate E].
        destruct n as [tg v m|tg items m|tg ps m]; try (eexists; split; [exact E|]; injection E as <-; apply req_nil).
        eapply rec_items_rel; [|exact E]. intros i r0 E0. eapply IHr, E0.
      + (* TDict *) destruct (is_map_origin k); [|discriminate E].
        assert (KT : match kt with
                     | TStr => true
                     | TClass c => match find_cls reg c with Some kc => match c_shape kc with ShStr => true | _ => false end | None => false end
                     | _ => false end =
                     match kt with
                     | TStr => true
                     | TClass c => match find_cls reg' c with Some kc => match c_shape kc with ShStr => true | _ => false end | None => false end
                     | _ => false end) by (destruct kt; try reflexivity; rewrite FC; reflexivity).
        rewrite <- KT. match type of E with (if ?c then _ else _) = _ => destruct c end; [|discriminate E].
        destruct n as [tg v m|tg items m|tg ps m]; try (eexists; split; [exact E|]; injection E as <-; apply req_nil).
        eapply rec_pairs_rel; [| |exact E]; intros x r0 E0; eapply IHr, E0.
      + (* TUnion *) eapply rec_union_rel; [|exact E]. intros t r0 E0. eapply IHr, E0.
      + (* TClass *) unfold registered in *. rewrite <- FC. destruct (find_cls reg c); [|discriminate E]. eapply IHc, E.
      + discriminate E.
    - intros n c top res E.
      destruct (find_cls reg c) as [k|] eqn:Ek; [|cbn [rec_classes] in E; rewrite Ek in E; discriminate E].
      assert (Ek' : find_cls reg' c = Some k) by (rewrite <- FC; exact Ek).
      rewrite (rec_classes_eq o reg f n c top k Ek) in E. rewrite (rec_classes_eq o reg' f n c top k Ek').
      unfold candidates in *.
      destruct (rec_subs (fun d => rec_classes o reg f n d false) (direct_subclasses reg c) [] []) as [subs|e] eqn:Es;
        cbn [bind] in E; [|discriminate E].
      destruct (rec_subs_rel (fun d => rec_classes o reg f n d false) (fun d => rec_classes o reg' f n d false)
                             (direct_subclasses reg c) (direct_subclasses reg' c) subs) as (subs' & Es' & QS).
      { intros d r0 E0. eapply IHc, E0. }
      { apply Permutation_filter', HP. }
      { exact Es. }
      rewrite Es'. cbn [bind].
      assert (NIL : is_nil (fst subs) = is_nil (fst subs')).
      { apply (req_is_nil (fst subs, rec_ok) (fst subs', rec_ok)). exact QS. }
      rewrite <- NIL.
      assert (OWN : forall own, (if is_nil (fst subs) && negb (c_abstract k)
                                 then res0 <- rec_class o (recognize o reg f) k n ;;
                                      Ok (fst res0, if is_nil (fst res0) then snd subs ++ [snd res0] else snd subs)
                                 else Ok subs) = Ok own ->
                    exists own', (if is_nil (fst subs) && negb (c_abstract k)
                                  then res0 <- rec_class o (recognize o reg' f) k n ;;
                                       Ok (fst res0, if is_nil (fst res0) then snd subs' ++ [snd res0] else snd subs')
                                  else Ok subs') = Ok own' /\ seteq (fst own) (fst own')).
      { intros own Eo. destruct (is_nil (fst subs) && negb (c_abstract k)).
        - destruct (rec_class o (recognize o reg f) k n) as [r1|e] eqn:E1; cbn [bind] in Eo; [|discriminate Eo].
          destruct (rec_class_rel o _ (recognize o reg' f) k n IHr IHr') with (r := r1) as (r1' & E1' & Q1).
          + intros h Hh. eapply Hext; [|exact Hh]. exact (proj1 (find_cls_In _ _ _ Ek)).
          + exact E1.
          + rewrite E1'. cbn [bind]. injection Eo as <-. eexists. split; [reflexivity | exact Q1].
        - injection Eo as <-. exists subs'. split; [reflexivity | exact QS]. }
      match type of E with (bind ?X _) = _ => destruct X as [own|e] eqn:Eo end; cbn [bind] in E; [|discriminate E].
      destruct (OWN own eq_refl) as (own' & Eo' & QO). rewrite Eo'. cbn [bind].
      injection E as <-. eexists. split; [reflexivity|].
      (* the decision on set-equal candidate lists *)
      assert (Q : forall e1 e2, req (fst own, e1) (fst own', e2)) by (intros; exact QO).
      assert (CT : class_of_tag reg (ntag n) = class_of_tag reg' (ntag n)).
      { unfold class_of_tag. destruct (ntag n) as [|c0 r0]; [reflexivity|]. destruct (N.eqb c0 33); [apply FC | reflexivity]. }
      unfold decide. rewrite <- CT.
      destruct (req_cases _ _ (Q rec_ok rec_ok)) as [[E1 E2]|[(y & E1 & E2)|(a & b & l & a' & b' & l' & E1 & E2)]]; cbn [fst] in E1, E2.
      + rewrite E1, E2. apply req_nil.
      + rewrite E1, E2.
        destruct (negb (uprefix core_prefix (ntag n))).
        * destruct (class_of_tag reg (ntag n)) as [kt|]; [|apply req_nil].
          destruct (ty_mem (TClass (c_name kt)) [y]); [apply req_refl1 | apply req_nil].
        * apply req_refl1.
      + assert (TM : forall x, ty_mem x (fst own) = ty_mem x (fst own')) by (intros x; apply ty_mem_ext, (proj1 QO)).
        specialize (Q (RE [nmark n] [] (snd own)) (RE [nmark n] [] (snd own'))).
        destruct (class_of_tag reg (ntag n)) as [kt|].
        * rewrite (TM (TClass (c_name kt))). rewrite E1. rewrite E2.
          rewrite E2 in TM. destruct (ty_mem (TClass (c_name kt)) (a' :: b' :: l')); [apply req_refl1|].
          rewrite E1, E2 in Q. exact Q.
        * rewrite E1, E2. rewrite E1, E2 in Q. exact Q.
  Qed.
End order.

(* ---- processing and construction ---- *)
Lemma process_items_mono (proc proc' : node -> result node) : (forall x y, proc x = Ok y -> proc' x = Ok y) ->
  forall l l', process_items proc l = Ok l' -> process_items proc' l = Ok l'.
Proof.
  intros H. induction l as [|x l IH]; intros l' E; cbn [process_items] in *; [exact E|].
  destruct (proc x) as [x'|] eqn:Ex; cbn [bind] in E; [|discriminate E]. rewrite (H _ _ Ex). cbn [bind].
  destruct (process_items proc l) as [r'|] eqn:Er; cbn [bind] in E; [|discriminate E]. rewrite (IH _ eq_refl). exact E.
Qed.
Lemma process_pairs_mono (pk pk' pv pv' : node -> result node) :
  (forall x y, pk x = Ok y -> pk' x = Ok y) -> (forall x y, pv x = Ok y -> pv' x = Ok y) ->
  forall l l', process_pairs pk pv l = Ok l' -> process_pairs pk' pv' l = Ok l'.
Proof.
  intros HK HV. induction l as [|[k v] l IH]; intros l' E; cbn [process_pairs] in *; [exact E|].
  destruct (pk k) as [k'|] eqn:Ek; cbn [bind] in E; [|discriminate E]. rewrite (HK _ _ Ek). cbn [bind].
  destruct (pv v) as [v'|] eqn:Ev; cbn [bind] in E; [|discriminate E]. rewrite (HV _ _ Ev). cbn [bind].
  destruct (process_pairs pk pv l) as [r'|] eqn:Er; cbn [bind] in E; [|discriminate E]. rewrite (IH _ eq_refl). exact E.
Qed.
Lemma process_attrs_mono (proc proc' : node -> ty -> result node) : (forall x T y, proc x T = Ok y -> proc' x T = Ok y) ->
  forall params n n', process_attrs proc params n = Ok n' -> process_attrs proc' params n = Ok n'.
Proof.
  intros H. induction params as [|p rest IH]; intros n n' E; cbn [process_attrs] in *; [exact E|].
  destruct (has_attribute (p_name p) n) as [b|] eqn:Eh; cbn [bind] in *; [|discriminate E].
  destruct b; [|apply IH, E].
  match type of E with (bind ?X _) = _ => destruct X as [sub|] eqn:Es end; cbn [bind] in *; [|discriminate E].
  destruct (proc sub (p_ty p)) as [sub'|] eqn:Ep; cbn [bind] in E; [|discriminate E]. rewrite (H _ _ _ Ep). cbn [bind].
  destruct (set_attribute (p_name p) (PNode sub') n) as [n1|]; cbn [bind] in *; [|discriminate E]. apply IH, E.
Qed.

Section order2.
  Variable o : oracle.
  Variables reg reg' : registry.
  Hypothesis HP : Permutation reg reg'.
  Hypothesis Hnd : NoDup (map c_name reg).
  Hypothesis Hext : ext_hooks reg.

  Lemma FC c : find_cls reg c = find_cls reg' c.
  Proof. apply find_cls_perm; assumption. Qed.
  Lemma RB k : registered_bases reg k = registered_bases reg' k.
  Proof. unfold registered_bases. apply filter_ext. intros c. unfold registered. rewrite FC. reflexivity. Qed.
  Lemma SO : forall fuel c, savorize_order reg fuel c = savorize_order reg' fuel c.
  Proof.
    induction fuel as [|f IH]; intros c; [reflexivity|]. cbn [savorize_order]. rewrite <- FC.
    destruct (find_cls reg c) as [k|]; [|reflexivity]. rewrite <- RB. f_equal.
    induction (registered_bases reg k) as [|b r IHr]; [reflexivity|]. cbn [flat_map]. rewrite IH, IHr. reflexivity.
  Qed.
  Lemma SV fuel c n : savorize reg fuel c n = savorize reg' fuel c n.
  Proof.
    unfold savorize. rewrite <- SO. generalize (Ok n : result node). induction (savorize_order reg fuel c) as [|d r IH]; intros x; [reflexivity|].
    cbn [fold_left]. replace (apply_hook reg' x d) with (apply_hook reg x d); [apply IH|].
    unfold apply_hook. rewrite <- FC. reflexivity.
  Qed.
  Lemma CT t : class_of_tag reg t = class_of_tag reg' t.
  Proof. unfold class_of_tag. destruct t as [|c0 r0]; [reflexivity|]. destruct (N.eqb c0 33); [apply FC | reflexivity]. Qed.

  Theorem process_order : forall fuel n T n1, process o reg fuel n T = Ok n1 -> process o reg' fuel n T = Ok n1.
  Proof.
    induction fuel as [|f IH]; intros n T n1 E; [discriminate E|]. cbn [process] in *.
    destruct (recognize o reg (S f) n T) as [res|e] eqn:Er; cbn [bind] in E; [|discriminate E].
    destruct (proj1 (recognize_order o (S f) reg reg' HP Hnd Hext) n T res Er) as (res' & Er' & Q).
    rewrite Er'. cbn [bind].
    destruct (req_cases _ _ Q) as [[E1 E2]|[(R & E1 & E2)|(a & b & l & a' & b' & l' & E1 & E2)]]; rewrite E1 in E; rewrite E2;
      try discriminate E.
    destruct R as [ | | | | | | | | |k t|k kt vt|ts|c|c]; try exact E.
    - (* TList *) destruct n as [tg v m|tg items m|tg ps m]; try discriminate E.
      destruct (ueqb tg tag_seq); [|discriminate E].
      destruct (process_items (fun i => process o reg f i t) items) as [items'|] eqn:Ei; cbn [bind] in E; [|discriminate E].
      rewrite (process_items_mono _ (fun i => process o reg' f i t) (fun x y => IH x t y) _ _ Ei). exact E.
    - (* TDict *) destruct n as [tg v m|tg items m|tg ps m]; try discriminate E.
      destruct (ueqb tg tag_map); [|discriminate E].
      destruct (process_pairs _ _ ps) as [ps'|] eqn:Ei; cbn [bind] in E; [|discriminate E].
      rewrite (process_pairs_mono _ (fun x => process o reg' f x kt) _ (fun x => process o reg' f x vt)
                                  (fun x y => IH x kt y) (fun x y => IH x vt y) _ _ Ei). exact E.
    - (* TClass *) rewrite <- FC. destruct (find_cls reg c) as [k|]; [|discriminate E]. rewrite <- SV.
      match type of E with (bind ?X _) = _ => destruct X as [n1'|] end; cbn [bind] in *; [|discriminate E].
      destruct (is_objectlike k && is_mapping n1'); [|exact E].
      destruct (process_attrs (process o reg f) (params_of k) n1') as [n2|] eqn:Ea; cbn [bind] in E; [|discriminate E].
      rewrite (process_attrs_mono _ (process o reg' f) IH _ _ _ Ea). exact E.
  Qed.

  Lemma is_instance_eq d c : is_instance reg d c = is_instance reg' d c.
  Proof. unfold is_instance. rewrite FC. reflexivity. Qed.
  Lemma type_matches_eq T : forall v, type_matches reg v T = type_matches reg' v T.
  Proof.
    induction T using ty_ind2; intros v; cbn [type_matches]; try reflexivity.
    - destruct v; try reflexivity. apply forallb_ext. intros x. apply IHT.
    - destruct v; try reflexivity. apply forallb_ext. intros [a b]. cbn [fst snd]. rewrite IHT2.
      destruct T1; try reflexivity. destruct a; try reflexivity. rewrite is_instance_eq. reflexivity.
    - induction H as [|t ts Ht _ IH]; [reflexivity|]. rewrite Ht, IH. reflexivity.
    - destruct v; try reflexivity; apply is_instance_eq.
  Qed.
  Lemma init_args_eq params extra mapping : init_args reg params extra mapping = init_args reg' params extra mapping.
  Proof.
    unfold init_args. replace (forallb _ params) with
      (forallb (fun p => match uassoc (p_name p) (kwargs_of mapping) with
                         | Some v => type_matches reg' v (p_ty p) | None => negb (p_required p) end) params); [reflexivity|].
    apply forallb_ext. intros p. destruct (uassoc (p_name p) (kwargs_of mapping)); [symmetry; apply type_matches_eq | reflexivity].
  Qed.

  Theorem construct_order : forall fuel n, construct o reg fuel n = construct o reg' fuel n.
  Proof.
    induction fuel as [|f IH]; intros n; [reflexivity|]. cbn [construct]. rewrite <- CT.
    destruct (class_of_tag reg (ntag n)) as [k|].
    - destruct (c_shape k) as [params extra|ms|]; try reflexivity.
      destruct n as [t v m|t l m|t ps m]; try reflexivity.
      destruct (negb (str_keyed ps)); [reflexivity|]. unfold construct_map.
      destruct (flatten (S f) _) as [ps'|]; cbn [bind]; [|reflexivity].
      rewrite (construct_pairs_ext (construct o reg f) (construct o reg' f)); [|intros kv _; split; apply IH].
      destruct (construct_pairs _ ps' []) as [mapping|]; cbn [bind]; [|reflexivity].
      unfold build_object. rewrite init_args_eq. reflexivity.
    - destruct (ueqb (ntag n) tag_path); [reflexivity|].
      destruct n as [t v m|t l m|t ps m]; try reflexivity.
      + destruct (ueqb t tag_seq); [|reflexivity].
        rewrite (construct_items_ext (construct o reg f) (construct o reg' f)); [reflexivity | intros x _; apply IH].
      + destruct (ueqb t tag_map); [|reflexivity]. unfold construct_map.
        destruct (flatten (S f) ps) as [ps'|]; cbn [bind]; [|reflexivity].
        rewrite (construct_pairs_ext (construct o reg f) (construct o reg' f)); [reflexivity | intros kv _; split; apply IH].
  Qed.

  (* the registration order is irrelevant for every successful load ... *)
  Theorem load_order doc T v : load o reg doc T = Ok v -> load o reg' doc T = Ok v.
  Proof.
    unfold load. destruct doc as [n|].
    - destruct (process o reg FUEL n T) as [n1|] eqn:Ep; cbn [bind]; [|discriminate].
      rewrite (process_order _ _ _ _ Ep). cbn [bind]. rewrite construct_order. exact (fun H => H).
    - destruct (process o reg FUEL _ T) as [n1|] eqn:Ep; cbn [bind]; [|discriminate].
      rewrite (process_order _ _ _ _ Ep). cbn [bind]. rewrite construct_order. exact (fun H => H).
  Qed.
End order2.

(* ... and, the permutation being symmetric, for every failing one: a load succeeds under one order iff under the other *)
Theorem load_order_iff o reg reg' : Permutation reg reg' -> NoDup (map c_name reg) -> ext_hooks reg ->
  forall doc T v, load o reg doc T = Ok v <-> load o reg' doc T = Ok v.
Proof.
  intros HP Hnd Hext doc T v. split; [apply load_order; assumption|].
  apply load_order.
  - apply Permutation_sym, HP.
  - eapply Permutation_NoDup; [apply Permutation_map; exact HP | exact Hnd].
  - intros k h Hin. apply Hext. eapply Permutation_in; [apply Permutation_sym; exact HP | exact Hin].
Qed.

(* the recognisers of the hook DSL (UnknownNode.require_* calls) are functions of what `recognised?` answers *)
Lemma require_ext o r1 r2 n r : (forall x t, r1 x t = r2 x t) -> require o r1 n r = require o r2 n r.
Proof.
  intros H. destruct r; try reflexivity. cbn [require]. destruct n as [t0 v m|t0 l m|t0 ps m]; try reflexivity.
  destruct (lookup_all a ps) as [|v l]; [reflexivity|]. destruct t as [T|]; [rewrite H|]; reflexivity.
Qed.
Lemma run_recognizer_ext o prog : hext (fun recog n => run_recognizer o recog prog n).
Proof.
  intros r1 r2 n H. induction prog as [|r rest IH]; [reflexivity|]. cbn [run_recognizer].
  rewrite (require_ext o r1 r2 n r H), IH. reflexivity.
Qed.
Theorem interp_reg_ext_hooks o specs : ext_hooks (Hooks.interp_reg o specs).
Proof.
  intros k h Hin Eh. unfold Hooks.interp_reg in Hin. apply in_map_iff in Hin. destruct Hin as (s & <- & _).
  cbn [Hooks.interp_cls c_recognize] in Eh. destruct (Hooks.s_recognize s) as [p|]; [|discriminate Eh].
  injection Eh as <-. apply run_recognizer_ext.
Qed.
