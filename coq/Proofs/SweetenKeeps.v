(* C05/C06: the sweeteners yatiml itself offers for dumping -- remove_attributes_with_default_values and
   remove_attribute -- only DELETE attributes, so whatever holds of every scalar of the represented tree (no explicit
   tag needed; stable under reparsing) still holds afterwards.  This discharges the hypothesis `sweeten_keeps` of
   C05_reparse_identity / C06_tag_free for registries whose sweeten hooks are built from these operations. *)
From Coq Require Import NArith ZArith List Bool String Lia.
Import ListNotations.
From Y Require Import Prelude Node Tables NodeOps OpsRun Types Recognize Loader Hooks Represent DumpProofs.
Open Scope N_scope.

Local Arguments ueqb : simpl never.

Section keeps.
  Variable p : ustring -> ustring -> bool.
  Let okp := fun kv : node * node => shape_ok p (fst kv) && shape_ok p (snd kv).

  Lemma remove_first_keeps a ps : forallb okp ps = true -> forallb okp (remove_first a ps) = true.
  Proof.
    induction ps as [|[k v] r IH]; intros H; [reflexivity|]. cbn [remove_first forallb] in *.
    apply andb_true_iff in H. destruct H as [H1 H2]. destruct (key_is a k); [exact H2|].
    cbn [forallb]. rewrite H1, (IH H2). reflexivity.
  Qed.
  Lemma filter_keeps (f : node * node -> bool) ps : forallb okp ps = true -> forallb okp (filter f ps) = true.
  Proof.
    induction ps as [|kv r IH]; intros H; [reflexivity|]. cbn [filter forallb] in *.
    apply andb_true_iff in H. destruct H as [H1 H2]. destruct (f kv); [cbn [forallb]; rewrite H1|]; apply IH, H2.
  Qed.

  Theorem remove_attribute_keeps a n n' : shape_ok p n = true -> remove_attribute a n = Ok n' -> shape_ok p n' = true.
  Proof.
    intros H E. destruct n as [t [|c0 v] m|t [|x0 l] m|t ps m]; try discriminate E; injection E as <-; try exact H.
    cbn [shape_ok] in *. apply andb_true_iff in H. destruct H as [H1 H2]. rewrite H1. apply remove_first_keeps, H2.
  Qed.
  Theorem remove_defaults_keeps o defs n n' : shape_ok p n = true -> remove_defaults o defs n = Ok n' -> shape_ok p n' = true.
  Proof.
    intros H E. destruct n as [t v m|t l m|t ps m]; try discriminate E. cbn [remove_defaults] in E.
    destruct (all_scalar_keys ps); [|discriminate E]. injection E as <-.
    cbn [shape_ok] in *. apply andb_true_iff in H. destruct H as [H1 H2]. rewrite H1. apply filter_keeps, H2.
  Qed.

  (* hooks made of deleting operations only *)
  Definition deleting (op : nop) : bool :=
    match op with OpRemove _ | OpRemoveDefaults _ _ | OpHas _ | OpIsMapping | OpIsSequence | OpIsEmpty => true | _ => false end.
  Lemma step_keeps o n op : deleting op = true -> shape_ok p n = true -> shape_ok p (fst (step o n op)) = true.
  Proof.
    intros Hd H. destruct op; try discriminate Hd; cbn [step].
    - unfold ret_of_bool. destruct (has_attribute a n); exact H.
    - unfold ret_of_node. destruct (remove_attribute a n) as [n'|e] eqn:E; cbn [fst]; [eapply remove_attribute_keeps; eassumption | exact H].
    - exact H.
    - exact H.
    - exact H.
    - unfold ret_of_node. destruct (remove_defaults o _ n) as [n'|e] eqn:E; cbn [fst]; [eapply remove_defaults_keeps; eassumption | exact H].
  Qed.
  Lemma run_strict_keeps o : forall ops n n', forallb deleting ops = true -> shape_ok p n = true ->
    run_strict o n ops = Ok n' -> shape_ok p n' = true.
  Proof.
    induction ops as [|op r IH]; intros n n' Hd H E; cbn [run_strict] in E.
    - injection E as <-. exact H.
    - cbn [forallb] in Hd. apply andb_true_iff in Hd. destruct Hd as [H1 H2].
      pose proof (step_keeps o n op H1 H) as Hs. destruct (step o n op) as [n1 ret]. cbn [fst] in Hs.
      destruct ret; try (eapply IH; eassumption). discriminate E.
  Qed.
  Definition deleting_prog (pr : sprog) : bool :=
    match pr with
    | SOp op => deleting op
    | SIf c th el => deleting c && forallb deleting th && forallb deleting el
    | SRaise => true
    | _ => false
    end.
  Theorem run_hook_keeps o : forall prog n n', forallb deleting_prog prog = true -> shape_ok p n = true ->
    run_hook o prog n = Ok n' -> shape_ok p n' = true.
  Proof.
    induction prog as [|pr r IH]; intros n n' Hd H E; cbn [run_hook] in E.
    - injection E as <-. exact H.
    - cbn [forallb] in Hd. apply andb_true_iff in Hd. destruct Hd as [H1 H2].
      destruct (run_sprog o n pr) as [n1|e] eqn:E1; cbn [bind] in E; [|discriminate E].
      eapply IH; [exact H2| |exact E]. clear E IH H2.
      destruct pr; try discriminate H1; cbn [run_sprog deleting_prog] in *.
      + eapply run_strict_keeps; [|exact H|exact E1]. cbn [forallb]. rewrite H1. reflexivity.
      + apply andb_true_iff in H1. destruct H1 as [H1 H3]. apply andb_true_iff in H1. destruct H1 as [H1 H2].
        pose proof (step_keeps o n cond H1 H) as Hs. destruct (step o n cond) as [n0 ret]. cbn [fst] in Hs.
        destruct ret as [|b|x|x|e0]; try (eapply run_strict_keeps; [exact H3|exact Hs|exact E1]).
        * destruct b; eapply run_strict_keeps; try exact E1; assumption.
        * discriminate E1.
      + discriminate E1.
  Qed.
End keeps.

(* hence: a registry interpreted from class specifications whose sweeten programs only delete satisfies sweeten_keeps,
   for every scalar predicate (in particular tag_free and rt_stable) *)
Theorem deleting_registry_keeps o specs p :
  Forall (fun s => match s_sweeten s with Some prog => forallb deleting_prog prog = true | None => True end) specs ->
  sweeten_keeps (interp_reg o specs) (fun n => shape_ok p n = true).
Proof.
  intros HF c k h x y Ek Eh Hx Ey.
  assert (Hin : exists s, In s specs /\ k = interp_cls o s).
  { clear -Ek. unfold interp_reg in Ek. induction specs as [|s r IH]; [discriminate Ek|]. cbn [map find_cls] in Ek.
    destruct (ueqb (c_name (interp_cls o s)) c).
    - injection Ek as <-. exists s. split; [left; reflexivity | reflexivity].
    - destruct (IH Ek) as (s' & Hs & E). exists s'. split; [right; exact Hs | exact E]. }
  destruct Hin as (s & Hs & ->). rewrite Forall_forall in HF. specialize (HF s Hs).
  cbn [interp_cls c_sweeten] in Eh. destruct (s_sweeten s) as [prog|]; [|discriminate Eh]. injection Eh as <-.
  eapply run_hook_keeps; eassumption.
Qed.
