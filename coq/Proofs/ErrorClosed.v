(* C08: the only errors a load produces are RecognitionError and YAML errors
   (plus the model's own "out of fuel" / "scalar missing from the oracle table",
   excluded by the tie) -- given that user hooks follow the documented protocol. *)
From Coq Require Import NArith ZArith List Bool String Lia.
Import ListNotations.
From Y Require Import Prelude Node Tables NodeOps Types Recognize Loader Spec ScalarProofs Conform WellTagged.
Open Scope N_scope.
Local Arguments uprefix : simpl never.
Local Arguments ueqb : simpl never.
Local Arguments umem : simpl never.
Local Arguments class_of_tag : simpl never.

Definition ok_exn (e : exn) : Prop := match e with EPy _ | ESeasoning => False | _ => True end.
Definition good {A} (r : result A) : Prop := match r with Err e => ok_exn e | Ok _ => True end.

Lemma good_bind {A B} (r : result A) (f : A -> result B) : good r -> (forall a, r = Ok a -> good (f a)) -> good (bind r f).
Proof. destruct r; simpl; auto. Qed.

(* ---- hypotheses ---- *)
(* the types yatiml supports: dict keys are str or string-like classes *)
Inductive supported (reg : registry) : ty -> Prop :=
| sup_simple T : (match T with TStr | TInt | TFloat | TBool | TBoolFix | TNone | TDate | TPath | TAny | TClass _ | TUnknown _ => True | _ => False end) -> supported reg T
| sup_list k t : supported reg t -> supported reg (TList k t)
| sup_dict k kt vt : (kt = TStr \/ exists c kc, kt = TClass c /\ find_cls reg c = Some kc /\ c_shape kc = ShStr) ->
                     supported reg vt -> supported reg (TDict k kt vt)
| sup_union ts : Forall (supported reg) ts -> supported reg (TUnion ts).
Definition supported_reg (reg : registry) : Prop :=
  forall k p, In k reg -> In p (params_of k) -> supported reg (p_ty p).

(* savorize hooks raise nothing but SeasoningError / RecognitionError (the documented ways to refuse) *)
Definition protocol (reg : registry) : Prop :=
  forall k h n e, In k reg -> c_savorize k = Some h -> h n = Err e -> ok_exn e \/ e = ESeasoning.

(* PyYAML: a scalar it cannot construct gives a YAML error, or -- for scalars with a core tag -- a conversion
   error (which Loader.construct_object turns into RecognitionError) *)
Definition oracle_errors_ok (o : oracle) : Prop :=
  forall t v e, olookup o t v = Err e -> e = EYaml \/ e = EOracle \/ (exists p, e = EPy p /\ uprefix core_prefix_colon t = true).
Definition oracle_errors_okb (o : oracle) : bool :=
  forallb (fun ent => match snd ent with
                      | Err EYaml | Err EOracle | Ok _ => true
                      | Err (EPy _) => uprefix core_prefix_colon (fst (fst ent))
                      | Err _ => false end) o.
Lemma oracle_errors_okb_sound o : oracle_errors_okb o = true -> oracle_errors_ok o.
Proof.
  unfold oracle_errors_okb, oracle_errors_ok. intros H t v e. rewrite forallb_forall in H.
  induction o as [|[[t' v'] r] o IH]; simpl; [intros E; injection E as <-; auto|].
  destruct (ueqb t t' && ueqb v v') eqn:Eq.
  - intros ->. apply andb_true_iff in Eq. destruct Eq as [E1 _]. apply ueqb_eq in E1. subst t'.
    specialize (H ((t, v'), Err e) (or_introl eq_refl)). simpl in H. destruct e; try discriminate; eauto.
  - apply IH. intros x Hx. apply H. right. exact Hx.
Qed.

(* ---- recognition never crashes on supported types ---- *)
Lemma good_rec_items (rec : node -> result RecResult) k t : forall items,
  (forall i, In i items -> good (rec i)) -> good (rec_items rec k t items).
Proof.
  induction items as [|i r IH]; intros H; cbn [rec_items]; [exact I|].
  apply good_bind; [apply H; left; reflexivity|]. intros res _.
  destruct (fst res) as [|x [|y l]]; try exact I. apply IH. intros j Hj. apply H. right. exact Hj.
Qed.
Lemma good_rec_pairs (reck recv : node -> result RecResult) k kt vt : forall ps,
  (forall x, good (reck x)) -> (forall x, good (recv x)) -> good (rec_pairs reck recv k kt vt ps).
Proof.
  induction ps as [|[kn vn] r IH]; intros Hk Hv; cbn [rec_pairs]; [exact I|].
  apply good_bind; [apply Hk|]. intros kres _. destruct (fst kres) as [|x [|y l]]; try exact I.
  apply good_bind; [apply Hv|]. intros vres _. destruct (fst vres) as [|x' [|y' l']]; try exact I. apply IH; assumption.
Qed.
Lemma good_rec_members (rec : ty -> result RecResult) : forall ts acc causes,
  (forall t, In t ts -> good (rec t)) -> good (rec_members rec ts acc causes).
Proof.
  induction ts as [|t r IH]; intros acc causes H; cbn [rec_members]; [exact I|].
  apply good_bind; [apply H; left; reflexivity|]. intros res _. apply IH. intros t' Ht'. apply H. right. exact Ht'.
Qed.
Lemma good_rec_union (rec : ty -> result RecResult) ts m : (forall t, In t ts -> good (rec t)) -> good (rec_union rec ts m).
Proof.
  intros H. unfold rec_union. apply good_bind; [apply good_rec_members; exact H|]. intros r _.
  destruct (if ty_mem TBool (fst r) && ty_mem TBoolFix (fst r) then ty_remove TBoolFix (fst r) else fst r) as [|x [|y l]]; exact I.
Qed.
Lemma good_rec_subs (recsub : ustring -> result RecResult) : forall l acc causes,
  (forall d, In d l -> good (recsub (c_name d))) -> good (rec_subs recsub l acc causes).
Proof.
  induction l as [|d r IH]; intros acc causes H; cbn [rec_subs]; [exact I|].
  apply good_bind; [apply H; left; reflexivity|]. intros res _. apply IH. intros d' Hd'. apply H. right. exact Hd'.
Qed.
Lemma good_rec_params (rec : node -> ty -> result RecResult) n ps c : forall params,
  (forall p sub, In p params -> good (rec sub (p_ty p))) -> good (rec_params rec n ps params c).
Proof.
  induction params as [|p rest IH]; intros H; cbn [rec_params]; [exact I|].
  assert (Hrest : good (rec_params rec n ps rest c)) by (apply IH; intros q sub Hq; apply H; right; exact Hq).
  assert (Htry : forall name k, good k -> good (if has_attr_ps name ps then
             match get_attr_ps name ps with
             | Err _ => Ok ([], RE [nmark n] [name] [])
             | Ok sub => res <- rec sub (p_ty p) ;;
                         if is_nil (fst res) then Ok ([], RE [first_key_mark name ps (nmark n)] [name] [snd res])
                         else rec_params rec n ps rest c
             end else k)).
  { intros name k Hk. destruct (has_attr_ps name ps); [|exact Hk].
    destruct (get_attr_ps name ps) as [sub|]; [|exact I].
    apply good_bind; [apply H; left; reflexivity|]. intros res _. destruct (is_nil (fst res)); [exact I | exact Hrest]. }
  apply Htry. apply Htry. destruct (p_required p); [exact I | exact Hrest].
Qed.

Section closed.
  Variable o : oracle.
  Variable reg : registry.
  Hypothesis Hreg : wf_registry reg.
  Hypothesis Hsup : supported_reg reg.

  Theorem good_recognize : forall fuel,
    (forall n T, supported reg T -> good (recognize o reg fuel n T)) /\
    (forall n c top, good (rec_classes o reg fuel n c top)).
  Proof.
    induction fuel as [|f [IHr IHc]]; [split; intros; exact I|]. split.
    - intros n T HT. cbn [recognize]. destruct T as [ | | | | | | | | |k t|k kt vt|ts|c|c]; try exact I.
      + inversion HT as [T0 Hs | k0 t0 Ht | | ]; subst; [destruct Hs|].
        destruct (is_seq_origin k); [|exact I]. destruct n as [|tg items m|]; try exact I.
        apply good_rec_items. intros i _. apply IHr. exact Ht.
      + inversion HT as [T0 Hs | | k0 kt0 vt0 Hk Hv | ]; subst; [destruct Hs|].
        destruct (is_map_origin k); [|exact I].
        assert (Hkt : (match kt with
                       | TStr => true
                       | TClass c => match find_cls reg c with
                                     | Some kc => match c_shape kc with ShStr => true | _ => false end
                                     | None => false end
                       | _ => false end) = true).
        { destruct Hk as [->|(c & kc & -> & Fc & Sc)]; [reflexivity|]. rewrite Fc, Sc. reflexivity. }
        rewrite Hkt. destruct n as [| |tg ps m]; try exact I.
        apply good_rec_pairs; intros x; apply IHr; [|exact Hv].
        destruct Hk as [->|(c & kc & -> & _)]; apply sup_simple; exact I.
      + inversion HT as [T0 Hs | | | ts0 Hts]; subst; [destruct Hs|].
        apply good_rec_union. intros t Ht. apply IHr. rewrite Forall_forall in Hts. apply Hts. exact Ht.
      + destruct (registered reg c); [apply IHc | exact I].
    - intros n c top. cbn [rec_classes]. destruct (find_cls reg c) as [k|] eqn:Fk; [|exact I].
      apply good_bind; [apply good_rec_subs; intros d _; apply IHc|]. intros subs _.
      apply good_bind.
      + destruct (is_nil (fst subs) && negb (c_abstract k)); [|exact I].
        apply good_bind; [|intros; exact I].
        unfold rec_class. destruct (c_recognize k) as [h|].
        * destruct (h _ n); exact I.
        * destruct (c_shape k) as [params extra|ms|] eqn:Sk.
          -- destruct n as [| |tg ps m]; try exact I. apply good_rec_params. intros p sub Hp. apply IHr.
             apply (Hsup k p (find_cls_in _ _ _ Fk)). unfold params_of. rewrite Sk. exact Hp.
          -- destruct n as [tg v m| |]; try exact I. destruct (ueqb tg tag_str || ueqb tg tag_bool); exact I.
          -- destruct n as [tg v m| |]; try exact I. destruct (ueqb tg tag_str); exact I.
      + intros own _. destruct (fst own) as [|x [|y l]]; try exact I.
        * destruct (negb (uprefix core_prefix (ntag n))); [|exact I].
          destruct (class_of_tag reg (ntag n)) as [kt|]; [|exact I]. destruct (ty_mem _ [x]); exact I.
        * destruct (class_of_tag reg (ntag n)) as [kt|]; [|exact I]. destruct (ty_mem _ (x :: y :: l)); exact I.
  Qed.

  (* ---- processing ---- *)
  Hypothesis Hprot : protocol reg.
  (* a registered subclass of a string-like class is string-like (Python: issubclass) *)
  Hypothesis Hinh : forall d c kd kc, rsub reg d c -> find_cls reg d = Some kd -> find_cls reg c = Some kc ->
                                      c_shape kc = ShStr -> c_shape kd = ShStr.

  Lemma supported_refines T R : refines reg T R -> supported reg T -> supported reg R.
  Proof.
    induction 1 as [T Hs | k t | k t t' Hr IH | k kt vt Hk | k kt vt kt' Hk Hr IH | k kt vt vt' Hk Hr IH
                    | ts t R Hin Hr IH | c d kk Hs Hf Ha]; intros HT; try exact HT.
    - inversion HT as [T0 Hs | k0 t0 Ht | | ]; subst; [destruct Hs|]. apply sup_list. apply IH. exact Ht.
    - inversion HT as [T0 Hs | | k0 kt0 vt0 Hkk Hv | ]; subst; [destruct Hs|]. apply sup_dict; [|exact Hv].
      destruct Hkk as [->|(c & kc & -> & Fc & Sc)].
      + inversion Hr; subst; try contradiction. left. reflexivity.
      + inversion Hr as [T0 Hs0 | | | | | | | c0 d kd Hsub Fd Had]; subst; [contradiction|].
        right. exists d, kd. split; [reflexivity|]. split; [exact Fd|]. eapply Hinh; eauto.
    - inversion HT as [T0 Hs | | k0 kt0 vt0 Hkk Hv | ]; subst; [destruct Hs|]. apply sup_dict; [exact Hkk | apply IH; exact Hv].
    - inversion HT as [T0 Hs | | | ts0 Hts]; subst; [destruct Hs|]. apply IH. rewrite Forall_forall in Hts. apply Hts. exact Hin.
    - apply sup_simple. exact I.
  Qed.
  Lemma supported_refined_list T k t : supported reg T -> refines reg T (TList k t) -> supported reg t.
  Proof. intros HT Hr. pose proof (supported_refines _ _ Hr HT) as H. inversion H as [T0 Hs | k0 t0 Ht | | ]; subst; [destruct Hs | exact Ht]. Qed.
  Lemma supported_refined_dict T k kt vt : supported reg T -> refines reg T (TDict k kt vt) -> supported reg kt /\ supported reg vt.
  Proof.
    intros HT Hr. pose proof (supported_refines _ _ Hr HT) as H. inversion H as [T0 Hs | | k0 kt0 vt0 Hk Hv | ]; subst; [destruct Hs|].
    split; [|exact Hv]. destruct Hk as [->|(c & kc & -> & _)]; apply sup_simple; exact I.
  Qed.

  Lemma savorize_errors c n e : savorize reg FUELK c n = Err e -> ok_exn e \/ e = ESeasoning.
  Proof.
    unfold savorize. generalize (savorize_order reg FUELK c). intros l. revert n.
    assert (G : forall l r, fold_left (apply_hook reg) l r = Err e ->
                           (exists e0, r = Err e0 /\ e0 = e) \/ ok_exn e \/ e = ESeasoning).
    { induction l0 as [|x l0 IH]; intros r H; cbn [fold_left] in H; [left; eauto|].
      destruct (IH _ H) as [(e0 & Ha & <-)|Hd]; [|right; exact Hd].
      unfold apply_hook in Ha. destruct r as [y|er]; cbn [bind] in Ha; [|injection Ha as <-; left; eauto].
      destruct (find_cls reg x) as [k|] eqn:Fk; [|discriminate].
      destruct (c_savorize k) as [h|] eqn:Hk; [|discriminate].
      right. eapply Hprot; [eapply find_cls_in; eauto | exact Hk | exact Ha]. }
    intros n H. destruct (G l (Ok n) H) as [(e0 & Hd & _)|Hd]; [discriminate | exact Hd].
  Qed.

  Lemma good_process_items (proc : node -> result node) : forall l, (forall x, good (proc x)) -> good (process_items proc l).
  Proof.
    induction l as [|x r IH]; intros H; cbn [process_items]; [exact I|].
    apply good_bind; [apply H|]. intros x' _. apply good_bind; [apply IH; exact H|]. intros; exact I.
  Qed.
  Lemma good_process_pairs (pk pv : node -> result node) : forall l,
    (forall x, good (pk x)) -> (forall x, good (pv x)) -> good (process_pairs pk pv l).
  Proof.
    induction l as [|[k v] r IH]; intros Hk Hv; cbn [process_pairs]; [exact I|].
    apply good_bind; [apply Hk|]. intros k' _. apply good_bind; [apply Hv|]. intros v' _.
    apply good_bind; [apply IH; assumption|]. intros; exact I.
  Qed.
  Lemma good_process_attrs (proc : node -> ty -> result node) : forall params t ps m,
    (forall p sub, In p params -> good (proc sub (p_ty p))) -> good (process_attrs proc params (Map t ps m)).
  Proof.
    induction params as [|p rest IH]; intros t ps m H; cbn [process_attrs]; [exact I|].
    unfold has_attribute. cbn [pairs_of bind].
    assert (Hrest : forall ps', good (process_attrs proc rest (Map t ps' m))).
    { intros ps'. apply IH. intros q sub Hq. apply H. right. exact Hq. }
    destruct (has_attr_ps (p_name p) ps); [|apply Hrest].
    unfold get_attribute. cbn [pairs_of bind].
    destruct (get_attr_ps (p_name p) ps) as [sub|e] eqn:G.
    - cbn [bind]. apply good_bind; [apply H; left; reflexivity|]. intros sub' _. cbn [set_attribute bind]. apply Hrest.
    - assert (e = ESeasoning).
      { unfold get_attr_ps in G. destruct (lookup_all (p_name p) ps) as [|y [|z l]]; try discriminate; injection G as <-; reflexivity. }
      subst e. exact I.
  Qed.

  Lemma refines_tag T R : refines reg T R -> R = TAny \/ type_to_tag R <> None.
  Proof.
    destruct tag_of_kind_table as (A&B&C&D&E&F&G&H).
    induction 1 as [T Hs | | | | | | ts t R Hin Hr IH | c d k Hs Hf Ha]; try (right; discriminate); try exact IH.
    destruct T; try contradiction; try (left; reflexivity); right; unfold type_to_tag, scalar_tag; cbn [kind_of_ty];
      first [rewrite A | rewrite B | rewrite C | rewrite D | rewrite E | rewrite G | rewrite H | idtac]; discriminate.
  Qed.

  Theorem good_process : forall fuel n T, supported reg T -> good (process o reg fuel n T).
  Proof.
    induction fuel as [|f IH]; intros n T HT; [exact I|]. cbn [process].
    destruct (good_recognize (S f)) as [Hgr _]. specialize (Hgr n T HT).
    destruct (recognize o reg (S f) n T) as [res|e] eqn:Er; [|exact Hgr]. cbn [bind].
    destruct (recognize_sound o reg Hreg (S f)) as [Hsound _]. pose proof (Hsound _ _ _ Er) as Hs.
    destruct (fst res) as [|R [|R2 l]]; try exact I.
    inversion Hs as [|? ? [Href Hfit] _]; subst.
    assert (Hscalar : forall R0, R0 = R -> R0 <> TAny -> (forall k t, R0 <> TList k t) -> (forall k a b, R0 <> TDict k a b) ->
                                  (forall c, R0 <> TClass c) ->
                                  good (match type_to_tag R0 with Some tg => Ok (set_tag tg n) | None => Err (EPy PyRuntimeError) end)).
    { intros R0 -> Hna _ _ _. destruct (refines_tag _ _ Href) as [Hx|Hx]; [contradiction|].
      destruct (type_to_tag R); [exact I | contradiction]. }
    destruct R as [ | | | | | | | | |k t|k kt vt|ts|c|c].
    - apply (Hscalar TStr); try discriminate; reflexivity.
    - apply (Hscalar TInt); try discriminate; reflexivity.
    - apply (Hscalar TFloat); try discriminate; reflexivity.
    - apply (Hscalar TBool); try discriminate; reflexivity.
    - apply (Hscalar TBoolFix); try discriminate; reflexivity.
    - apply (Hscalar TNone); try discriminate; reflexivity.
    - apply (Hscalar TDate); try discriminate; reflexivity.
    - apply (Hscalar TPath); try discriminate; reflexivity.
    - exact I.
    - destruct n as [|tg items m|]; try exact I. destruct (ueqb tg tag_seq); [|exact I].
      apply good_bind; [|intros; exact I]. apply good_process_items. intros x. apply IH.
      eapply supported_refined_list; eauto.
    - destruct n as [| |tg ps m]; try exact I. destruct (ueqb tg tag_map); [|exact I].
      apply good_bind; [|intros; exact I].
      destruct (supported_refined_dict _ _ _ _ HT Href) as [Hk Hv].
      apply good_process_pairs; intros x; apply IH; assumption.
    - apply (Hscalar (TUnion ts)); try discriminate; reflexivity.
    - destruct (find_cls reg c) as [k|] eqn:Fk; [|exact I].
      apply good_bind.
      + destruct (savorize reg FUELK c _) as [n1|e] eqn:Es; [exact I|].
        destruct (savorize_errors _ _ _ Es) as [Hok | ->]; [destruct e; try exact Hok; exact I | exact I].
      + intros n1 _. apply good_bind; [|intros; exact I].
        destruct (is_objectlike k && is_mapping n1) eqn:Ho; [|exact I].
        apply andb_true_iff in Ho. destruct Ho as [_ Hm]. destruct n1 as [| |t1 ps1 m1]; try discriminate.
        apply good_process_attrs. intros p sub Hp. apply IH. apply (Hsup k p (find_cls_in _ _ _ Fk) Hp).
    - apply (Hscalar (TUnknown c)); try discriminate; reflexivity.
  Qed.
End closed.

(* ---- construction ---- *)
Lemma good_flatten : forall fuel ps, good (flatten fuel ps).
Proof.
  induction fuel as [|f IH]; intros ps; [exact I|]. cbn [flatten].
  assert (Heach : forall xs, good (flatten_each (flatten f) xs)).
  { induction xs as [|x xr IHx]; cbn [flatten_each]; [exact I|]. destruct x as [| |t sub m]; try exact I.
    apply good_bind; [apply IH|]. intros s _. apply good_bind; [exact IHx|]. intros; exact I. }
  assert (G : forall l merge rest, good (flatten_go (flatten f) l merge rest)).
  { induction l as [|[k v] r IHl]; intros merge rest; cbn [flatten_go]; [exact I|].
    destruct (ueqb (ntag k) tag_merge).
    - destruct v as [| tq subs mq | tm sub mm]; try exact I.
      + apply good_bind; [apply Heach|]. intros; apply IHl.
      + apply good_bind; [apply IH|]. intros; apply IHl.
    - destruct (ueqb (ntag k) tag_value); apply IHl. }
  apply G.
Qed.

Lemma good_construct_items (rec : node -> result value) : forall l, (forall x, good (rec x)) -> good (construct_items rec l).
Proof.
  induction l as [|x r IH]; intros H; cbn [construct_items]; [exact I|].
  apply good_bind; [apply H|]. intros x' _. apply good_bind; [apply IH; exact H|]. intros; exact I.
Qed.
Lemma good_construct_pairs (rec : node -> result value) : forall l acc, (forall x, good (rec x)) -> good (construct_pairs rec l acc).
Proof.
  induction l as [|[k v] r IH]; intros acc H; cbn [construct_pairs]; [exact I|].
  apply good_bind; [apply H|]. intros kv _. destruct (negb (hashable kv)); [exact I|].
  apply good_bind; [apply H|]. intros vv _. apply IH. exact H.
Qed.

Theorem good_construct o reg : oracle_errors_ok o -> forall fuel n, good (construct o reg fuel n).
Proof.
  intros Ho. induction fuel as [|f IH]; intros n; [exact I|]. cbn [construct].
  assert (Hmap : forall ps, good (construct_map (S f) (construct o reg f) ps)).
  { intros ps. unfold construct_map. apply good_bind; [apply good_flatten|]. intros ps' _. apply good_construct_pairs. exact IH. }
  destruct (class_of_tag reg (ntag n)) as [k|].
  - destruct (c_shape k) as [params extra|ms|].
    + destruct n as [| |t ps m]; try exact I. destruct (negb (str_keyed ps)); [exact I|].
      apply good_bind; [apply Hmap|]. intros mapping _. unfold build_object.
      destruct (init_args reg params extra mapping) as [args|]; [|exact I]. destruct (c_init_ok k args); exact I.
    + destruct n as [t v m| |]; try exact I. destruct (umem v ms); exact I.
    + destruct n as [t v m| |]; try exact I. destruct (c_str_ok k v); exact I.
  - destruct (ueqb (ntag n) tag_path); [destruct n; exact I|].
    destruct n as [t v m|t items m|t ps m].
    + destruct (ueqb t tag_str); [exact I|]. destruct (ueqb t tag_null); [exact I|].
      destruct (olookup o t v) as [x|e] eqn:L; [exact I|].
      destruct (Ho _ _ _ L) as [->|[->|(p & -> & Hc)]]; [exact I | exact I | rewrite Hc; exact I].
    + destruct (ueqb t tag_seq); [|exact I]. apply good_bind; [apply good_construct_items; exact IH|]. intros; exact I.
    + destruct (ueqb t tag_map); [|exact I]. apply good_bind; [apply Hmap|]. intros; exact I.
Qed.

(* ---- the load ---- *)
Theorem good_load o reg : wf_registry reg -> supported_reg reg -> protocol reg ->
  (forall d c kd kc, rsub reg d c -> find_cls reg d = Some kd -> find_cls reg c = Some kc -> c_shape kc = ShStr -> c_shape kd = ShStr) ->
  oracle_errors_ok o -> forall doc T, supported reg T -> good (load o reg doc T).
Proof.
  intros Hr Hs Hp Hi Ho doc T HT. unfold load.
  destruct doc as [n|]; (apply good_bind; [apply good_process; assumption | intros n' _; apply good_construct; exact Ho]).
Qed.
