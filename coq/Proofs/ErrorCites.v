(* C17: EVERY recognition that does not end with exactly one type -- at any depth, for any type, registry (with any custom
   recognisers) and document -- yields an error tree whose printed part (the leaves) cites at least one position.
   Holds since fix c13638b (a class failure without causes is a leaf and cites its node). *)
From Coq Require Import NArith ZArith List Bool String Lia.
Import ListNotations.
From Y Require Import Prelude Node Tables NodeOps Types Recognize Loader ErrRun ErrorMarks.
Open Scope N_scope.

Local Arguments ueqb : simpl never.
Local Arguments uprefix : simpl never.
Local Arguments class_of_tag : simpl never.

Definition cites (e : rerr) : Prop := leaf_marks e <> [].
(* results: anything but exactly one recognised type must cite *)
Definition okres (r : RecResult) : Prop := List.length (fst r) <> 1%nat -> cites (snd r).

Lemma cites_leaf m ks : cites (RE [m] ks []).
Proof. unfold cites. cbn. discriminate. Qed.
Lemma cites_node ms ks cs : Forall cites cs -> (cs = [] -> ms <> []) -> cites (RE ms ks cs).
Proof.
  intros Hc Hm. unfold cites. destruct cs as [|c cs]; [cbn; apply Hm; reflexivity|].
  cbn [leaf_marks flat_map]. inversion Hc as [|? ? H1 _]; subst. unfold cites in H1.
  destruct (leaf_marks c); [contradiction H1; reflexivity | discriminate].
Qed.
Lemma okres_one t e : okres ([t], e).
Proof. intros H. contradiction H. reflexivity. Qed.
Lemma len_nil {A} : List.length (@nil A) <> 1%nat. Proof. discriminate. Qed.
Lemma len_many {A} (a b : A) l : List.length (a :: b :: l) <> 1%nat. Proof. discriminate. Qed.
Lemma len_map {A B} (f : A -> B) l : List.length l <> 1%nat -> List.length (map f l) <> 1%nat.
Proof. rewrite map_length. auto. Qed.

Lemma rec_scalar_ok n T : okres (rec_scalar n T).
Proof.
  unfold rec_scalar. destruct n as [t v m|t l m|t ps m]; destruct (scalar_tag T) as [t'|]; try (intros _; apply cites_leaf).
  destruct (ueqb t t'); [apply okres_one | intros _; apply cites_leaf].
Qed.

Lemma rec_items_ok rec k t : forall items, (forall i res, In i items -> rec i = Ok res -> okres res) ->
  forall r, rec_items rec k t items = Ok r -> okres r.
Proof.
  induction items as [|i items IH]; intros Hrec r E; cbn [rec_items] in E.
  - injection E as <-. apply okres_one.
  - destruct (rec i) as [res|e] eqn:Er; cbn [bind] in E; [|discriminate E].
    pose proof (Hrec i res (or_introl eq_refl) Er) as Hi. unfold okres in Hi.
    destruct (fst res) as [|a [|b l]] eqn:Ef.
    + injection E as <-. intros _. cbn [snd]. apply cites_node; [constructor; [apply Hi, len_nil|constructor] | discriminate].
    + apply IH; [|exact E]. intros j res' Hj. apply Hrec. right. exact Hj.
    + injection E as <-. intros _. cbn [snd]. apply Hi, len_many.
Qed.

Lemma rec_pairs_ok reck recv k kt vt : forall ps,
  (forall kn vn res, In (kn, vn) ps -> (reck kn = Ok res -> okres res) /\ (recv vn = Ok res -> okres res)) ->
  forall r, rec_pairs reck recv k kt vt ps = Ok r -> okres r.
Proof.
  induction ps as [|[kn vn] ps IH]; intros Hrec r E; cbn [rec_pairs] in E.
  - injection E as <-. apply okres_one.
  - destruct (reck kn) as [kres|e] eqn:Ek; cbn [bind] in E; [|discriminate E].
    pose proof (proj1 (Hrec kn vn kres (or_introl eq_refl)) Ek) as Hk. unfold okres in Hk.
    destruct (fst kres) as [|a [|b l]] eqn:Efk.
    + injection E as <-. intros _. apply Hk, len_nil.
    + destruct (recv vn) as [vres|e] eqn:Ev; cbn [bind] in E; [|discriminate E].
      pose proof (proj2 (Hrec kn vn vres (or_introl eq_refl)) Ev) as Hv. unfold okres in Hv.
      destruct (fst vres) as [|a' [|b' l']] eqn:Efv.
      * injection E as <-. intros _. apply Hv, len_nil.
      * apply IH; [|exact E]. intros; apply Hrec; right; assumption.
      * injection E as <-. intros _. apply Hv, len_many.
    + injection E as <-. intros _. apply Hk, len_many.
Qed.

Lemma rec_members_ok rec : (forall t res, rec t = Ok res -> okres res) ->
  forall ts acc causes r, Forall cites causes -> rec_members rec ts acc causes = Ok r -> Forall cites (snd r).
Proof.
  intros Hrec. induction ts as [|t ts IH]; intros acc causes r Hc E; cbn [rec_members] in E.
  - injection E as <-. exact Hc.
  - destruct (rec t) as [res|e] eqn:Er; cbn [bind] in E; [|discriminate E].
    eapply IH; [|exact E]. destruct (fst res) eqn:Ef; cbn [is_nil]; [|exact Hc].
    apply Forall_app. split; [exact Hc|]. constructor; [|constructor].
    apply (Hrec t res Er). rewrite Ef. apply len_nil.
Qed.
Lemma rec_union_ok rec ts m : (forall t res, rec t = Ok res -> okres res) ->
  forall r, rec_union rec ts m = Ok r -> okres r.
Proof.
  intros Hrec r E. unfold rec_union in E. destruct (rec_members rec ts [] []) as [x|e] eqn:Em; cbn [bind] in E; [|discriminate E].
  pose proof (rec_members_ok rec Hrec ts [] [] x (Forall_nil _) Em) as Hx.
  match type of E with (match ?l with _ => _ end) = _ => destruct l as [|a [|b l']] end; injection E as <-.
  - intros _. cbn [snd]. apply cites_node; [exact Hx | discriminate].
  - apply okres_one.
  - intros _. apply cites_leaf.
Qed.

Lemma rec_params_ok rec n ps c : (forall sub T res, rec sub T = Ok res -> okres res) ->
  forall params r, rec_params rec n ps params c = Ok r -> okres r.
Proof.
  intros Hrec. induction params as [|p rest IH]; intros r E; cbn [rec_params] in E.
  - injection E as <-. apply okres_one.
  - assert (TRY : forall name (kont : result RecResult),
               (forall r', kont = Ok r' -> okres r') ->
               forall r', (if has_attr_ps name ps then
                             match get_attr_ps name ps with
                             | Err _ => Ok ([], RE [nmark n] [name] [])
                             | Ok sub => res <- rec sub (p_ty p) ;;
                                         if is_nil (fst res) then Ok ([], RE [first_key_mark name ps (nmark n)] [name] [snd res])
                                         else rec_params rec n ps rest c
                             end
                           else kont) = Ok r' -> okres r').
    { intros name kont Hk r' E'. destruct (has_attr_ps name ps); [|apply Hk, E'].
      destruct (get_attr_ps name ps) as [sub|e] eqn:Eg.
      - destruct (rec sub (p_ty p)) as [res|e] eqn:Er; cbn [bind] in E'; [|discriminate E'].
        destruct (fst res) eqn:Ef; cbn [is_nil] in E'; [|apply IH, E'].
        injection E' as <-. intros _. cbn [snd]. apply cites_node; [|discriminate].
        constructor; [|constructor]. apply (Hrec sub (p_ty p) res Er). rewrite Ef. apply len_nil.
      - injection E' as <-. intros _. apply cites_leaf. }
    eapply TRY; [|exact E]. intros r1 E1. eapply TRY; [|exact E1]. intros r2 E2.
    destruct (p_required p); [injection E2 as <-; intros _; apply cites_leaf | apply IH, E2].
Qed.

Lemma rec_class_ok o rec k n : (forall sub T res, rec sub T = Ok res -> okres res) ->
  forall r, rec_class o rec k n = Ok r -> okres r.
Proof.
  intros Hrec r E. unfold rec_class in E. destruct (c_recognize k) as [h|].
  - destruct (h _ n); injection E as <-; [apply okres_one | intros _; apply cites_leaf].
  - destruct (c_shape k) as [params ex|ms|].
    + destruct n as [t v m|t l m|t ps m]; try (injection E as <-; intros _; apply cites_leaf).
      eapply rec_params_ok; [exact Hrec|exact E].
    + destruct n as [t v m|t l m|t ps m]; try (injection E as <-; intros _; apply cites_leaf).
      destruct (ueqb t tag_str || ueqb t tag_bool); injection E as <-; [apply okres_one | intros _; apply cites_leaf].
    + destruct n as [t v m|t l m|t ps m]; try (injection E as <-; intros _; apply cites_leaf).
      destruct (ueqb t tag_str); injection E as <-; [apply okres_one | intros _; apply cites_leaf].
Qed.

Lemma rec_subs_ok recsub : (forall d res, recsub d = Ok res -> okres res) ->
  forall l acc causes r, Forall cites causes -> rec_subs recsub l acc causes = Ok r -> Forall cites (snd r).
Proof.
  intros Hrec. induction l as [|d l IH]; intros acc causes r Hc E; cbn [rec_subs] in E.
  - injection E as <-. exact Hc.
  - destruct (recsub (c_name d)) as [res|e] eqn:Er; cbn [bind] in E; [|discriminate E].
    eapply IH; [|exact E]. destruct (fst res) eqn:Ef; cbn [is_nil]; [|exact Hc].
    apply Forall_app. split; [exact Hc|]. constructor; [|constructor]. apply (Hrec _ res Er). rewrite Ef. apply len_nil.
Qed.

Section main.
  Variable o : oracle.
  Variable reg : registry.

  Theorem every_failure_cites : forall fuel,
    (forall n T res, recognize o reg fuel n T = Ok res -> okres res) /\
    (forall n c top res, rec_classes o reg fuel n c top = Ok res -> okres res).
  Proof.
    induction fuel as [|f [IHr IHc]]; [split; intros; discriminate|]. split.
    - intros n T res E. cbn [recognize] in E.
      destruct T as [ | | | | | | | | |k t|k kt vt|ts|c|c];
        try (injection E as <-; apply rec_scalar_ok).
      + (* TPath *) injection E as <-. unfold rec_path. destruct n; try (intros _; apply cites_leaf).
        destruct (ueqb tag tag_str); [apply okres_one | intros _; apply cites_leaf].
      + (* TAny *) injection E as <-. apply okres_one.
      + (* TList *) destruct (is_seq_origin k); [|discriminate E].
        destruct n as [tg v m|tg items m|tg ps m]; try (injection E as <-; intros _; apply cites_leaf).
        eapply rec_items_ok; [|exact E]. intros i res' _ Er. eapply IHr, Er.
      + (* TDict *) destruct (is_map_origin k); [|discriminate E].
        match type of E with (if ?c then _ else _) = _ => destruct c end; [|discriminate E].
        destruct n as [tg v m|tg items m|tg ps m]; try (injection E as <-; intros _; apply cites_leaf).
        eapply rec_pairs_ok; [|exact E]. intros kn vn res' _. split; intros Er; eapply IHr, Er.
      + (* TUnion *) eapply rec_union_ok; [|exact E]. intros t res' Er. eapply IHr, Er.
      + (* TClass *) destruct (registered reg c); [|discriminate E]. eapply IHc, E.
      + discriminate E.
    - intros n c top res E. cbn [rec_classes] in E.
      destruct (find_cls reg c) as [k|]; [|discriminate E].
      match type of E with (bind ?X _) = _ => destruct X as [subs|e] eqn:Es end; cbn [bind] in E; [|discriminate E].
      assert (Hsubs : Forall cites (snd subs)).
      { eapply rec_subs_ok; [| |exact Es]; [|constructor]. intros d res' Er. eapply IHc, Er. }
      match type of E with (bind ?X _) = _ => destruct X as [own|e] eqn:Eo end; cbn [bind] in E; [|discriminate E].
      assert (Hown : Forall cites (snd own)).
      { destruct (is_nil (fst subs) && negb (c_abstract k)).
        - match type of Eo with (bind ?X _) = _ => destruct X as [r1|e] eqn:E1 end; cbn [bind] in Eo; [|discriminate Eo].
          injection Eo as <-. cbn [snd].
          assert (H1 : okres r1).
          { eapply rec_class_ok; [|exact E1]. intros sub T res' Er. eapply IHr, Er. }
          destruct (fst r1) eqn:Ef; cbn [is_nil]; [|exact Hsubs].
          apply Forall_app. split; [exact Hsubs | constructor; [|constructor]]. apply H1. rewrite Ef. apply len_nil.
        - injection Eo as <-. exact Hsubs. }
      cbv zeta in E.
      destruct (fst own) as [|x [|y l]].
      + injection E as <-. intros _. cbn [snd]. apply cites_node; [exact Hown|].
        intros ->. rewrite orb_true_r. discriminate.
      + destruct (negb (uprefix core_prefix (ntag n))).
        * destruct (class_of_tag reg (ntag n)) as [kt|].
          -- destruct (ty_mem _ _); injection E as <-; [apply okres_one | intros _; apply cites_leaf].
          -- injection E as <-. intros _. apply cites_leaf.
        * injection E as <-. apply okres_one.
      + destruct (class_of_tag reg (ntag n)) as [kt|].
        * destruct (ty_mem _ _); injection E as <-; [apply okres_one | intros _; apply cites_leaf].
        * injection E as <-. intros _. apply cites_leaf.
  Qed.
End main.
