(* YAML round trip, text level: whatever the dumper writes without quotes, yatiml's loader resolves to the tag the
   representer gave it -- so composing the dumped text gives back the represented tree, for every quoting decision
   of the emitter and for values of every size. *)
From Coq Require Import NArith ZArith List Bool String Lia.
Import ListNotations.
From Y Require Import Prelude Node Re ReSound ReSem Resolve Decide Images Tables NodeOps Types Recognize Loader Hooks
                      Represent DumpProofs C05Obl.
Open Scope N_scope.

(* certificates over the GENERATED dumper and loader tables *)
Lemma cert_str_stays_str : cross_check dumper_tbl loader_tbl tag_str [tag_str] = true.
Proof. vm_compute. reflexivity. Qed.
Lemma cert_l_int : image_check loader_tbl tag_int int_image = true.
Proof. vm_compute. reflexivity. Qed.
Lemma cert_l_float : image_check loader_tbl tag_float float_image = true.
Proof. vm_compute. reflexivity. Qed.
Lemma cert_l_date : image_check loader_tbl tag_timestamp date_image = true.
Proof. vm_compute. reflexivity. Qed.
Lemma cert_l_datetime : image_check loader_tbl tag_timestamp datetime_image = true.
Proof. vm_compute. reflexivity. Qed.
Lemma cert_l_words :
  resolve loader_tbl (u "true") = tag_bool /\ resolve loader_tbl (u "false") = tag_bool /\ resolve loader_tbl (u "null") = tag_null.
Proof. vm_compute. repeat split; reflexivity. Qed.


Definition loader_stable o reg := represent_rt_stable loader_tbl cert_str_stays_str cert_l_int cert_l_float cert_l_date cert_l_datetime cert_l_words o reg.
Definition loader_reparse := reparse_stable loader_tbl.
Definition loader_str_stays_str := str_stays_str loader_tbl cert_str_stays_str.
