(* C07: the event-driven JSON emitter prints exactly the recursive rendering of
   the tree, for trees of every depth and every formatting option. *)
From Coq Require Import NArith ZArith List Bool String Lia.
Import ListNotations.
From Y Require Import Prelude Node JsonEmit.
Open Scope N_scope.

Definition sep_of (o : jopts) (cur : jstate) (ind : nat) : ustring :=
  match cur with
  | JSeqSt | JKey => 44 :: endl o ind
  | JValue => kv_sep o
  | _ => []
  end.

Definition mk (st : list jstate) (ind : nat) (out : ustring) : emitter := {| e_stack := st; e_indent := ind; e_out := out |}.

(* what one complete value does to the machine, in continuation style *)
Definition value_step (o : jopts) (j : jtree) : Prop :=
  forall cur rest ind out tail,
    run_emit o (mk (cur :: rest) ind out) (events j ++ tail) =
    run_emit o (mk (next_state cur :: rest) ind (out ++ sep_of o cur ind ++ render o ind j)) tail.

Lemma join_cons sep x r : join sep (x :: r) = x ++ flat_map (fun y => sep ++ y) r.
Proof.
  revert x. induction r as [|y r IH]; intros x; [cbn [join flat_map]; rewrite app_nil_r; reflexivity|].
  change (join sep (x :: y :: r)) with (x ++ sep ++ join sep (y :: r)). rewrite IH. cbn [flat_map].
  rewrite <- app_assoc. reflexivity.
Qed.

Lemma add_sub a b : (a + b - b)%nat = a.
Proof. lia. Qed.

(* items of a sequence, once the first has been written (state JSeqSt) *)
Lemma seq_items_rest o : forall l, Forall (value_step o) l ->
  forall rest ind out tail,
    run_emit o (mk (JSeqSt :: rest) ind out) (flat_map events l ++ tail) =
    run_emit o (mk (JSeqSt :: rest) ind (out ++ flat_map (fun y => (44 :: endl o ind) ++ y) (map (render o ind) l))) tail.
Proof.
  induction l as [|x l IH]; intros H rest ind out tail; cbn [flat_map map].
  - rewrite app_nil_r. reflexivity.
  - inversion H as [|? ? Hx Hl]; subst. rewrite <- app_assoc. rewrite (Hx JSeqSt rest ind out).
    cbn [next_state sep_of]. rewrite (IH Hl). f_equal. unfold mk. f_equal. rewrite <- !app_assoc. reflexivity.
Qed.

Lemma seq_items o : forall l, Forall (value_step o) l ->
  forall rest ind out tail,
    exists top, (top = JSeqFirst \/ top = JSeqSt) /\
    run_emit o (mk (JSeqFirst :: rest) ind out) (flat_map events l ++ tail) =
    run_emit o (mk (top :: rest) ind (out ++ join (44 :: endl o ind) (map (render o ind) l))) tail.
Proof.
  intros [|x l] H rest ind out tail; cbn [flat_map map].
  - exists JSeqFirst. split; [left; reflexivity|]. cbn [join]. rewrite app_nil_r. reflexivity.
  - inversion H as [|? ? Hx Hl]; subst. exists JSeqSt. split; [right; reflexivity|].
    rewrite <- app_assoc. rewrite (Hx JSeqFirst rest ind out). cbn [next_state sep_of app].
    rewrite (seq_items_rest o l Hl). rewrite join_cons. f_equal. unfold mk. f_equal. rewrite <- !app_assoc. reflexivity.
Qed.

Definition pair_text (o : jopts) (ind : nat) (kv : jtree * jtree) : ustring :=
  render o ind (fst kv) ++ kv_sep o ++ render o ind (snd kv).

Lemma map_pairs_rest o : forall l, Forall (fun kv => value_step o (fst kv) /\ value_step o (snd kv)) l ->
  forall rest ind out tail,
    run_emit o (mk (JKey :: rest) ind out) (flat_map (fun kv => events (fst kv) ++ events (snd kv)) l ++ tail) =
    run_emit o (mk (JKey :: rest) ind (out ++ flat_map (fun y => (44 :: endl o ind) ++ y) (map (pair_text o ind) l))) tail.
Proof.
  induction l as [|[k v] l IH]; intros H rest ind out tail; cbn [flat_map map].
  - rewrite app_nil_r. reflexivity.
  - inversion H as [|? ? [Hk Hv] Hl]; subst. cbn [fst snd] in *. rewrite <- !app_assoc.
    rewrite (Hk JKey rest ind out). cbn [next_state sep_of]. rewrite (Hv JValue rest ind). cbn [next_state sep_of].
    rewrite (IH Hl). f_equal. unfold mk, pair_text. cbn [fst snd]. f_equal. rewrite <- !app_assoc. reflexivity.
Qed.

Lemma map_pairs o : forall l, Forall (fun kv => value_step o (fst kv) /\ value_step o (snd kv)) l ->
  forall rest ind out tail,
    exists top, (top = JKeyFirst \/ top = JKey) /\
    run_emit o (mk (JKeyFirst :: rest) ind out) (flat_map (fun kv => events (fst kv) ++ events (snd kv)) l ++ tail) =
    run_emit o (mk (top :: rest) ind (out ++ join (44 :: endl o ind) (map (pair_text o ind) l))) tail.
Proof.
  intros [|[k v] l] H rest ind out tail; cbn [flat_map map].
  - exists JKeyFirst. split; [left; reflexivity|]. cbn [join]. rewrite app_nil_r. reflexivity.
  - inversion H as [|? ? [Hk Hv] Hl]; subst. cbn [fst snd] in *. exists JKey. split; [right; reflexivity|].
    rewrite <- !app_assoc. rewrite (Hk JKeyFirst rest ind out). cbn [next_state sep_of app].
    rewrite (Hv JValue rest ind). cbn [next_state sep_of]. rewrite (map_pairs_rest o l Hl). rewrite join_cons.
    f_equal. unfold mk, pair_text. cbn [fst snd]. f_equal. rewrite <- !app_assoc. reflexivity.
Qed.

Theorem value_step_all o : forall j, value_step o j.
Proof.
  induction j using jtree_ind2; intros cur rest ind out tail.
  - (* scalar *) cbn [events app run_emit emit_json e_stack mk]. cbn [render]. f_equal. unfold mk, write. cbn [e_out e_indent e_stack].
    f_equal. destruct cur; cbn [sep_of]; rewrite <- ?app_assoc; reflexivity.
  - (* sequence *) cbn [events]. cbn [app run_emit emit_json e_stack mk write e_out e_indent].
    destruct (seq_items o l H (next_state cur :: rest) (ind + best_indent o)%nat
                        ((out ++ sep_of o cur ind) ++ [91] ++ endl o (ind + best_indent o)) ([EvSeqEnd] ++ tail))
      as (top & Htop & E).
    assert (Hsep : (match cur with JSeqSt | JKey => 44 :: endl o ind | JValue => kv_sep o | _ => [] end) = sep_of o cur ind)
      by (destruct cur; reflexivity).
    match goal with |- run_emit o ?e ?evs = _ =>
      replace e with (mk (JSeqFirst :: next_state cur :: rest) (ind + best_indent o)%nat
                         ((out ++ sep_of o cur ind) ++ [91] ++ endl o (ind + best_indent o)))
        by (unfold mk; f_equal; rewrite Hsep; rewrite <- !app_assoc; reflexivity);
      replace evs with (flat_map events l ++ [EvSeqEnd] ++ tail) by (rewrite <- app_assoc; reflexivity)
    end.
    rewrite E. cbn [app run_emit emit_json e_stack e_indent e_out mk].
    rewrite add_sub. f_equal. unfold mk. f_equal. cbn [render]. rewrite <- !app_assoc. reflexivity.
  - (* mapping *) cbn [events]. cbn [app run_emit emit_json e_stack mk write e_out e_indent].
    destruct (map_pairs o l H (next_state cur :: rest) (ind + best_indent o)%nat
                        ((out ++ sep_of o cur ind) ++ [123] ++ endl o (ind + best_indent o)) ([EvMapEnd] ++ tail))
      as (top & Htop & E).
    assert (Hsep : (match cur with JSeqSt | JKey => 44 :: endl o ind | JValue => kv_sep o | _ => [] end) = sep_of o cur ind)
      by (destruct cur; reflexivity).
    match goal with |- run_emit o ?e ?evs = _ =>
      replace e with (mk (JKeyFirst :: next_state cur :: rest) (ind + best_indent o)%nat
                         ((out ++ sep_of o cur ind) ++ [123] ++ endl o (ind + best_indent o)))
        by (unfold mk; f_equal; rewrite Hsep; rewrite <- !app_assoc; reflexivity);
      replace evs with (flat_map (fun kv => events (fst kv) ++ events (snd kv)) l ++ [EvMapEnd] ++ tail)
        by (rewrite <- app_assoc; reflexivity)
    end.
    rewrite E. cbn [app run_emit emit_json e_stack e_indent e_out mk].
    rewrite add_sub. f_equal. unfold mk. f_equal. cbn [render]. unfold pair_text. rewrite <- !app_assoc. reflexivity.
Qed.

Theorem emit_is_render o j : dumps_json o j = Some (render_doc o j).
Proof.
  unfold dumps_json, stream, e_init.
  cbn [app run_emit emit_json e_stack e_indent e_out write next_state].
  pose proof (value_step_all o j JNone [] 0%nat [] [EvDocEnd; EvStreamEnd]) as H. unfold mk in H.
  cbn [next_state sep_of app] in H. rewrite H.
  cbn [run_emit emit_json e_stack e_indent e_out write next_state app]. rewrite app_nil_r. reflexivity.
Qed.
