(* C01 core, first half: whatever __process_node returns is well tagged for the
   declared type -- for arbitrary recognisers and savorize functions. *)
From Coq Require Import NArith ZArith List Bool String Lia.
Import ListNotations.
From Y Require Import Prelude Node Tables NodeOps Types Recognize Loader Spec ScalarProofs Conform Conform2 TransformProofs.
Open Scope N_scope.
Local Arguments uprefix : simpl never.
Local Arguments ueqb : simpl never.
Local Arguments umem : simpl never.
Local Arguments class_of_tag : simpl never.

(* ---------------------------------------------------------------- what recognition can return *)
Definition simple_ty (T : ty) : Prop :=
  match T with TStr | TInt | TFloat | TBool | TBoolFix | TNone | TDate | TPath | TAny => True | _ => False end.
Definition dkey_ok (kt : ty) : Prop := kt = TStr \/ exists d, kt = TClass d.

Inductive refines (reg : registry) : ty -> ty -> Prop :=
| rf_same T : simple_ty T -> refines reg T T
| rf_list k t : refines reg (TList k t) (TList k t)
| rf_list' k t t' : refines reg t t' -> refines reg (TList k t) (TList 0 t')
| rf_dict k kt vt : dkey_ok kt -> refines reg (TDict k kt vt) (TDict k kt vt)
| rf_dict_k k kt vt kt' : dkey_ok kt' -> refines reg kt kt' -> refines reg (TDict k kt vt) (TDict 3 kt' vt)
| rf_dict_v k kt vt vt' : dkey_ok kt -> refines reg vt vt' -> refines reg (TDict k kt vt) (TDict 3 kt vt')
| rf_union ts t R : In t ts -> refines reg t R -> refines reg (TUnion ts) R
| rf_class c d k : rsub reg d c -> find_cls reg d = Some k -> c_abstract k = false -> refines reg (TClass c) (TClass d).

Definition fits (n : node) (R : ty) : Prop :=
  match R with
  | TStr | TInt | TFloat | TBool | TBoolFix | TNone | TDate => exists t v m, n = Scalar t v m /\ scalar_tag R = Some t
  | TPath => exists v m, n = Scalar tag_str v m
  | _ => True
  end.
Definition sound (reg : registry) (n : node) (T : ty) (R : ty) : Prop := refines reg T R /\ fits n R.

Lemma rsub_trans reg a b c : rsub reg a b -> rsub reg b c -> rsub reg a c.
Proof. induction 1; intros H'; [exact H' | eapply rsub_step; eauto]. Qed.

Lemma Forall_ty_union (P : ty -> Prop) a b : Forall P a -> Forall P b -> Forall P (ty_union a b).
Proof.
  unfold ty_union. revert a. induction b as [|x b IH]; intros a Ha Hb; simpl; [exact Ha|].
  inversion Hb; subst. apply IH; [|assumption]. unfold ty_add. destruct (ty_mem x a); [exact Ha|].
  apply Forall_app. split; [exact Ha | constructor; [assumption | constructor]].
Qed.
Lemma Forall_ty_remove (P : ty -> Prop) t l : Forall P l -> Forall P (ty_remove t l).
Proof.
  unfold ty_remove. intros H. apply Forall_forall. intros x Hx. apply filter_In in Hx.
  rewrite Forall_forall in H. apply H. apply Hx.
Qed.

(* ---------------------------------------------------------------- soundness of the recogniser's parts *)
Lemma rec_scalar_sound reg n T : simple_ty T -> T <> TPath -> T <> TAny -> Forall (sound reg n T) (fst (rec_scalar n T)).
Proof.
  intros Hs Hp Ha. unfold rec_scalar. destruct n as [t v m| |]; try (destruct (scalar_tag T); constructor).
  destruct (scalar_tag T) as [t'|] eqn:E; [|constructor].
  destruct (ueqb_spec t t') as [->|]; [|constructor].
  constructor; [|constructor]. split; [apply rf_same; exact Hs|].
  destruct T; try contradiction; try (cbn [fits]; eauto); unfold scalar_tag in E; cbn [kind_of_ty] in E; discriminate.
Qed.

Lemma rec_items_sound reg (rec : node -> result RecResult) k t :
  forall items res, (forall i r, In i items -> rec i = Ok r -> Forall (sound reg i t) (fst r)) ->
    rec_items rec k t items = Ok res -> Forall (refines reg (TList k t)) (fst res).
Proof.
  induction items as [|i r IH]; intros res Hrec E; cbn [rec_items] in E.
  - injection E as <-. constructor; [apply rf_list | constructor].
  - apply bind_ok in E. destruct E as (ri & Ei & E).
    pose proof (Hrec i ri (or_introl eq_refl) Ei) as Hi.
    destruct (fst ri) as [|x [|y l]] eqn:F.
    + injection E as <-. constructor.
    + apply IH; [|exact E]. intros j rj Hj. apply Hrec. right. exact Hj.
    + injection E as <-. cbn [fst]. apply Forall_forall. intros R HR.
      assert (HR' : In R (map (TList 0) (x :: y :: l))) by exact HR. apply in_map_iff in HR'.
      destruct HR' as (t' & <- & Ht'). apply rf_list'. rewrite Forall_forall in Hi. apply Hi. exact Ht'.
Qed.

Lemma rec_pairs_sound reg (reck recv : node -> result RecResult) k kt vt : dkey_ok kt ->
  forall ps res,
    (forall x r, reck x = Ok r -> Forall (fun R => refines reg kt R /\ dkey_ok R) (fst r)) ->
    (forall x r, recv x = Ok r -> Forall (refines reg vt) (fst r)) ->
    rec_pairs reck recv k kt vt ps = Ok res -> Forall (refines reg (TDict k kt vt)) (fst res).
Proof.
  intros Hkt. induction ps as [|[kn vn] r IH]; intros res Hk Hv E; cbn [rec_pairs] in E.
  - injection E as <-. constructor; [apply rf_dict; exact Hkt | constructor].
  - apply bind_ok in E. destruct E as (kres & Ek & E). pose proof (Hk _ _ Ek) as Hkr.
    destruct (fst kres) as [|x [|y l]] eqn:F.
    + injection E as <-. constructor.
    + apply bind_ok in E. destruct E as (vres & Ev & E). pose proof (Hv _ _ Ev) as Hvr.
      destruct (fst vres) as [|x' [|y' l']] eqn:F'.
      * injection E as <-. constructor.
      * apply IH; assumption.
      * injection E as <-. cbn [fst]. apply Forall_forall. intros R HR.
        assert (HR' : In R (map (fun t => TDict 3 kt t) (x' :: y' :: l'))) by exact HR. apply in_map_iff in HR'.
        destruct HR' as (t' & <- & Ht'). apply rf_dict_v; [exact Hkt|]. rewrite Forall_forall in Hvr. apply Hvr. exact Ht'.
    + injection E as <-. cbn [fst]. apply Forall_forall. intros R HR.
      assert (HR' : In R (map (fun t => TDict 3 t vt) (x :: y :: l))) by exact HR. apply in_map_iff in HR'.
      destruct HR' as (t' & <- & Ht'). rewrite Forall_forall in Hkr. destruct (Hkr _ Ht') as [A B].
      apply rf_dict_k; assumption.
Qed.

Lemma rec_members_sound (P : ty -> Prop) (rec : ty -> result RecResult) :
  forall ts acc causes res, (forall t r, In t ts -> rec t = Ok r -> Forall P (fst r)) -> Forall P acc ->
    rec_members rec ts acc causes = Ok res -> Forall P (fst res).
Proof.
  induction ts as [|t r IH]; intros acc causes res Hrec Hacc E; cbn [rec_members] in E.
  - injection E as <-. exact Hacc.
  - apply bind_ok in E. destruct E as (rt & Et & E).
    eapply IH; [| |exact E].
    + intros t' r' Hin. apply Hrec. right. exact Hin.
    + apply Forall_ty_union; [exact Hacc | eapply Hrec; [left; reflexivity | exact Et]].
Qed.

Lemma rec_union_sound (P : ty -> Prop) (rec : ty -> result RecResult) ts m res :
  (forall t r, In t ts -> rec t = Ok r -> Forall P (fst r)) -> rec_union rec ts m = Ok res -> Forall P (fst res).
Proof.
  intros Hrec E. unfold rec_union in E. apply bind_ok in E. destruct E as (r & Er & E).
  pose proof (rec_members_sound P rec ts [] [] r Hrec (Forall_nil _) Er) as H0.
  set (tys := if ty_mem TBool (fst r) && ty_mem TBoolFix (fst r) then ty_remove TBoolFix (fst r) else fst r) in *.
  assert (Ht : Forall P tys).
  { unfold tys. destruct (ty_mem TBool (fst r) && ty_mem TBoolFix (fst r)); [apply Forall_ty_remove|]; exact H0. }
  destruct tys as [|x [|y l]]; injection E as <-; exact Ht.
Qed.

Lemma rec_subs_sound (P : ty -> Prop) (recsub : ustring -> result RecResult) :
  forall l acc causes res, (forall d r, In d l -> recsub (c_name d) = Ok r -> Forall P (fst r)) -> Forall P acc ->
    rec_subs recsub l acc causes = Ok res -> Forall P (fst res).
Proof.
  induction l as [|d r IH]; intros acc causes res Hrec Hacc E; cbn [rec_subs] in E.
  - injection E as <-. exact Hacc.
  - apply bind_ok in E. destruct E as (rd & Ed & E).
    eapply IH; [| |exact E].
    + intros d' r' Hin. apply Hrec. right. exact Hin.
    + apply Forall_ty_union; [exact Hacc | eapply Hrec; [left; reflexivity | exact Ed]].
Qed.

Lemma rec_class_result o rec k n res : rec_class o rec k n = Ok res -> fst res = [] \/ fst res = [TClass (c_name k)].
Proof.
  unfold rec_class. destruct (c_recognize k) as [h|].
  - destruct (h _ n); intros E; injection E as <-; auto.
  - destruct (c_shape k) as [params extra|ms|].
    + destruct n as [| |t ps m]; try (intros E; injection E as <-; auto).
      revert res. induction params as [|p rest IH]; intros res; cbn [rec_params].
      * intros E; injection E as <-; auto.
      * destruct (has_attr_ps (p_name p) ps).
        -- destruct (get_attr_ps (p_name p) ps); [|intros E; injection E as <-; auto].
           intros E. apply bind_ok in E. destruct E as (r & Er & E).
           destruct (is_nil (fst r)); [injection E as <-; auto | apply IH; exact E].
        -- destruct (has_attr_ps (dashed (p_name p)) ps).
           ++ destruct (get_attr_ps (dashed (p_name p)) ps); [|intros E; injection E as <-; auto].
              intros E. apply bind_ok in E. destruct E as (r & Er & E).
              destruct (is_nil (fst r)); [injection E as <-; auto | apply IH; exact E].
           ++ destruct (p_required p); [intros E; injection E as <-; auto | apply IH].
    + destruct n as [t v m| |]; try (intros E; injection E as <-; auto).
      destruct (ueqb t tag_str || ueqb t tag_bool); intros E; injection E as <-; auto.
    + destruct n as [t v m| |]; try (intros E; injection E as <-; auto).
      destruct (ueqb t tag_str); intros E; injection E as <-; auto.
Qed.

(* ---------------------------------------------------------------- the recogniser *)
Section sound.
  Variable o : oracle.
  Variable reg : registry.
  Hypothesis Hreg : wf_registry reg.

  Definition class_sound (c : ustring) (R : ty) : Prop :=
    exists d k, R = TClass d /\ rsub reg d c /\ find_cls reg d = Some k /\ c_abstract k = false.

  Lemma direct_sub_rsub c d : registered reg c = true -> In d (direct_subclasses reg c) -> rsub reg (c_name d) c.
  Proof.
    intros Hc Hd. unfold direct_subclasses in Hd. apply filter_In in Hd. destruct Hd as [Hin Hm].
    destruct Hreg as (Hnd & _). eapply rsub_step; [apply find_cls_self; eassumption | apply umem_In; exact Hm | apply rsub_refl; exact Hc].
  Qed.

  Lemma dkey_of_refines kt R : dkey_ok kt -> refines reg kt R -> dkey_ok R.
  Proof.
    intros [->|[d ->]] H; inversion H; subst; try contradiction.
    - left. reflexivity.
    - right. eauto.
  Qed.

  Theorem recognize_sound : forall fuel,
    (forall n T res, recognize o reg fuel n T = Ok res -> Forall (sound reg n T) (fst res)) /\
    (forall n c top res, registered reg c = true -> rec_classes o reg fuel n c top = Ok res -> Forall (class_sound c) (fst res)).
  Proof.
    induction fuel as [|f [IHr IHc]]; [split; intros; discriminate|]. split.
    - intros n T res E. cbn [recognize] in E.
      destruct T as [ | | | | | | | | |k t|k kt vt|ts|c|c];
        try (injection E as <-; apply rec_scalar_sound; [exact I | discriminate | discriminate]).
      + (* TPath *) injection E as <-. unfold rec_path. destruct n as [t v m| |]; try constructor.
        destruct (ueqb_spec t tag_str) as [->|]; constructor; [|constructor].
        split; [apply rf_same; exact I | cbn [fits]; eauto].
      + (* TAny *) injection E as <-. constructor; [|constructor]. split; [apply rf_same; exact I | exact I].
      + (* TList *) destruct (is_seq_origin k); [|discriminate].
        destruct n as [|tg items m|]; try (injection E as <-; constructor).
        eapply Forall_impl; [|eapply rec_items_sound; [|exact E]].
        * intros R HR. split; [exact HR|]. inversion HR; subst; exact I.
        * intros i r _ Ei. apply IHr. exact Ei.
      + (* TDict *) destruct (is_map_origin k); [|discriminate].
        destruct (match kt with TStr => true | TClass c => _ | _ => false end) eqn:Hk; [|discriminate].
        assert (Hkt : dkey_ok kt).
        { destruct kt; try discriminate; [left; reflexivity | right; eauto]. }
        destruct n as [| |tg ps m]; try (injection E as <-; constructor).
        eapply Forall_impl; [|eapply rec_pairs_sound; [exact Hkt | | | exact E]].
        * intros R HR. split; [exact HR|]. inversion HR; subst; exact I.
        * intros x r Ex. eapply Forall_impl; [|apply (IHr _ _ _ Ex)].
          intros R [HR _]. split; [exact HR | eapply dkey_of_refines; eauto].
        * intros x r Ex. eapply Forall_impl; [|apply (IHr _ _ _ Ex)]. intros R [HR _]. exact HR.
      + (* TUnion *) eapply (rec_union_sound (sound reg n (TUnion ts))); [|exact E].
        intros t r Hin Et. eapply Forall_impl; [|apply (IHr _ _ _ Et)].
        intros R [HR Hf]. split; [eapply rf_union; eauto | exact Hf].
      + (* TClass *) destruct (registered reg c) eqn:Hc; [|discriminate].
        eapply Forall_impl; [|apply (IHc _ _ _ _ Hc E)].
        intros R (d & k & -> & Hs & Hf & Ha). split; [eapply rf_class; eauto | exact I].
      + discriminate.
    - intros n c top res Hc E. cbn [rec_classes] in E.
      destruct (find_cls reg c) as [k|] eqn:Fk; [|discriminate].
      apply bind_ok in E. destruct E as (subs & Es & E).
      assert (Hsubs : Forall (class_sound c) (fst subs)).
      { eapply (rec_subs_sound (class_sound c)); [| constructor | exact Es].
        intros d r Hd Ed. pose proof (direct_sub_rsub c d Hc Hd) as Hdc.
        assert (Hdr : registered reg (c_name d) = true).
        { inversion Hdc; subst; [assumption|]. unfold registered. match goal with H : find_cls reg (c_name d) = Some _ |- _ => rewrite H end. reflexivity. }
        eapply Forall_impl; [|apply (IHc _ _ _ _ Hdr Ed)].
        intros R (e & ke & -> & Hs & Hf & Ha). exists e, ke. repeat split; auto. eapply rsub_trans; eauto. }
      apply bind_ok in E. destruct E as (own & Eo & E).
      assert (Hown : Forall (class_sound c) (fst own)).
      { destruct (is_nil (fst subs) && negb (c_abstract k)) eqn:G.
        - apply bind_ok in Eo. destruct Eo as (rc & Erc & Eo). injection Eo as <-. cbn [fst].
          apply andb_true_iff in G. destruct G as [_ Ga]. apply negb_true_iff in Ga.
          destruct (rec_class_result _ _ _ _ _ Erc) as [->| ->]; constructor; [|constructor].
          exists c, k. rewrite (find_cls_name _ _ _ Fk). repeat split; auto. apply rsub_refl. exact Hc.
        - injection Eo as <-. exact Hsubs. }
      destruct (fst own) as [|x [|y l]] eqn:Fo.
      + injection E as <-. constructor.
      + destruct (negb (uprefix core_prefix (ntag n))).
        * destruct (class_of_tag reg (ntag n)) as [kt|]; [|injection E as <-; constructor].
          destruct (ty_mem (TClass (c_name kt)) [x]); injection E as <-; [exact Hown | constructor].
        * injection E as <-. exact Hown.
      + destruct (class_of_tag reg (ntag n)) as [kt|]; [|injection E as <-; exact Hown].
        destruct (ty_mem (TClass (c_name kt)) (x :: y :: l)) eqn:Hm; injection E as <-; [|exact Hown].
        apply ty_mem_In in Hm. rewrite Forall_forall in Hown. constructor; [apply Hown; exact Hm | constructor].
  Qed.
End sound.
