(* C01 core, first half (continued): __process_node returns a well-tagged node. *)
From Coq Require Import NArith ZArith List Bool String Lia.
Import ListNotations.
From Y Require Import Prelude Node Tables NodeOps Types Recognize Loader Spec ScalarProofs Conform Conform2
     TransformProofs WellTagged.
Open Scope N_scope.
Local Arguments uprefix : simpl never.
Local Arguments ueqb : simpl never.
Local Arguments umem : simpl never.
Local Arguments class_of_tag : simpl never.

(* ---------------------------------------------------------------- lifting from the recognised type to the declared type *)
Lemma no_scalar_tag_list k t : scalar_tag (TList k t) = None. Proof. reflexivity. Qed.

Lemma lift_refines reg T R : refines reg T R -> forall n, well_tagged reg n R -> well_tagged reg n T.
Proof.
  induction 1 as [T Hs | k t | k t t' Hr IH | k kt vt Hk | k kt vt kt' Hk Hr IH | k kt vt vt' Hk Hr IH
                  | ts t R Hin Hr IH | c d k Hs Hf Ha]; intros n Hw; try exact Hw.
  - inversion Hw as [T0 t0 sv m Hst | | | k0 t0 items m Hit | | | ]; subst; [discriminate Hst|].
    apply wt_list. eapply Forall_impl; [|exact Hit]. intros x Hx. apply IH. exact Hx.
  - inversion Hw as [T0 t0 sv m Hst | | | | k0 kt0 vt0 ps m Hps Hnm | | ]; subst; [discriminate Hst|].
    apply wt_dict; [|exact Hnm]. eapply Forall_impl; [|exact Hps]. intros x [Hx1 Hx2]. split; [apply IH; exact Hx1 | exact Hx2].
  - inversion Hw as [T0 t0 sv m Hst | | | | k0 kt0 vt0 ps m Hps Hnm | | ]; subst; [discriminate Hst|].
    apply wt_dict; [|exact Hnm]. eapply Forall_impl; [|exact Hps]. intros x [Hx1 Hx2]. split; [exact Hx1 | apply IH; exact Hx2].
  - eapply wt_union; [exact Hin | apply IH; exact Hw].
  - inversion Hw as [T0 t0 sv m Hst | | | | | | c0 d' k' n0 Hs' Hf' Ha' Htag Hattrs]; subst; [discriminate Hst|].
    eapply wt_class; [eapply rsub_trans; eassumption | eassumption | assumption | assumption | assumption].
Qed.

Lemma refines_dict_key reg T k kt vt : refines reg T (TDict k kt vt) -> dkey_ok kt.
Proof.
  intros H. remember (TDict k kt vt) as R eqn:ER. revert k kt vt ER.
  induction H as [T Hs | k' t | k' t t' Hr IH | k' kt' vt' Hk | k' kt' vt' kt'' Hk Hr IH | k' kt' vt' vt'' Hk Hr IH
                  | ts t R Hin Hr IH | c d kk Hs Hf Ha]; intros k0 kt0 vt0 ER; try discriminate ER.
  - subst T. contradiction.
  - injection ER as -> -> ->. exact Hk.
  - injection ER as _ -> _. exact Hk.
  - injection ER as _ -> _. exact Hk.
  - eapply IH. exact ER.
Qed.
Lemma refines_class_concrete reg T c : refines reg T (TClass c) ->
  exists k, find_cls reg c = Some k /\ c_abstract k = false.
Proof.
  intros H. remember (TClass c) as R eqn:ER. revert c ER.
  induction H as [T Hs | k' t | k' t t' Hr IH | k' kt' vt' Hk | k' kt' vt' kt'' Hk Hr IH | k' kt' vt' vt'' Hk Hr IH
                  | ts t R Hin Hr IH | c' d kk Hs Hf Ha]; intros c0 ER; try discriminate ER.
  - subst T. contradiction.
  - eapply IH. exact ER.
  - injection ER as ->. eauto.
Qed.

(* keys of a processed dict are never merge / value keys *)
Lemma tag_not_merge_bang d : bang d <> tag_merge /\ bang d <> tag_value.
Proof. split; intros E; revert E; unfold bang; vm_compute; discriminate. Qed.

Lemma dkey_tag reg x kt : dkey_ok kt -> well_tagged reg x kt -> ntag x <> tag_merge /\ ntag x <> tag_value.
Proof.
  intros [->|[d ->]] Hw.
  - inversion Hw as [T0 t0 sv m Hst | | | | | | ]; subst.
    destruct tag_of_kind_table as (A&_). unfold scalar_tag in Hst. cbn [kind_of_ty] in Hst. rewrite A in Hst.
    injection Hst as <-. cbn [ntag]. split; intros E; revert E; vm_compute; discriminate.
  - inversion Hw as [T0 t0 sv m Hst | | | | | | c0 d' k' n0 Hs' Hf' Ha' Htag Hattrs]; subst; [discriminate Hst|].
    rewrite Htag. apply tag_not_merge_bang.
Qed.

(* ---------------------------------------------------------------- loops of __process_node *)
Lemma process_items_inv (proc : node -> result node) (P : node -> Prop) :
  (forall x x', proc x = Ok x' -> P x') -> forall l l', process_items proc l = Ok l' -> Forall P l'.
Proof.
  intros H. induction l as [|x r IH]; intros l' E; cbn [process_items] in E.
  - injection E as <-. constructor.
  - apply bind_ok in E. destruct E as (x' & Ex & E). apply bind_ok in E. destruct E as (r' & Er & E).
    injection E as <-. constructor; [eapply H; eauto | apply IH; exact Er].
Qed.
Lemma process_pairs_inv (pk pv : node -> result node) (P Q : node -> Prop) :
  (forall x x', pk x = Ok x' -> P x') -> (forall x x', pv x = Ok x' -> Q x') ->
  forall l l', process_pairs pk pv l = Ok l' -> Forall (fun kv => P (fst kv) /\ Q (snd kv)) l'.
Proof.
  intros Hk Hv. induction l as [|[k v] r IH]; intros l' E; cbn [process_pairs] in E.
  - injection E as <-. constructor.
  - apply bind_ok in E. destruct E as (k' & Ek & E). apply bind_ok in E. destruct E as (v' & Ev & E).
    apply bind_ok in E. destruct E as (r' & Er & E). injection E as <-.
    constructor; [split; [eapply Hk; eauto | eapply Hv; eauto] | apply IH; exact Er].
Qed.

Lemma lookup_set_other a b v ps : a <> b -> has_attr_ps b ps = true ->
  lookup_all a (set_attr_ps b v ps) = lookup_all a ps.
Proof.
  intros Hab Hb. unfold set_attr_ps.
  assert (G : forall ps, has_attr_ps b ps = true -> exists ps', replace_first b v ps = Some ps' /\ lookup_all a ps' = lookup_all a ps).
  { clear -Hab. induction ps as [|[k0 v0] ps IH]; unfold has_attr_ps; cbn [existsb fst]; intros H; [discriminate|].
    cbn [replace_first]. destruct (key_is b k0) eqn:Kb.
    - eexists. split; [reflexivity|]. unfold lookup_all. cbn [filter fst].
      assert (Ka : key_is a k0 = false).
      { destruct k0 as [t kv m| |]; try reflexivity. cbn [key_is] in *. apply ueqb_eq in Kb. subst kv.
        apply ueqb_neq. intros E. apply Hab. symmetry. exact E. }
      rewrite Ka. reflexivity.
    - cbn [orb] in H. destruct (IH H) as (ps' & R & L). rewrite R. eexists. split; [reflexivity|].
      unfold lookup_all in *. cbn [filter fst]. destruct (key_is a k0); cbn [map snd]; rewrite L; reflexivity. }
  destruct (G ps Hb) as (ps' & R & L). rewrite R. exact L.
Qed.

Lemma lookup_after_set a v ps x : lookup_all a ps = [x] -> lookup_all a (set_attr_ps a v ps) = [v].
Proof.
  intros H. assert (Hg : get_attr_ps a ps = Ok x) by (unfold get_attr_ps; rewrite H; reflexivity).
  destruct (get_after_set a v ps x Hg) as [G _]. unfold get_attr_ps in G.
  destruct (lookup_all a (set_attr_ps a v ps)) as [|y [|z l]]; try discriminate. injection G as ->. reflexivity.
Qed.

Definition attrs_ok (reg : registry) (P : list param) (n : node) : Prop :=
  forall tg ps m p, n = Map tg ps m -> In p P ->
    (List.length (lookup_all (p_name p) ps) <= 1)%nat /\
    forall sub, lookup_all (p_name p) ps = [sub] -> well_tagged reg sub (p_ty p).

Lemma process_attrs_inv reg (proc : node -> ty -> result node) :
  (forall sub t sub', proc sub t = Ok sub' -> well_tagged reg sub' t) ->
  forall params done n n', NoDup (map p_name (done ++ params)) -> attrs_ok reg done n ->
    process_attrs proc params n = Ok n' -> attrs_ok reg (done ++ params) n'.
Proof.
  intros Hproc. induction params as [|p rest IH]; intros done n n' Hnd Hdone E; cbn [process_attrs] in E.
  - injection E as <-. rewrite app_nil_r. exact Hdone.
  - apply bind_ok in E. destruct E as (has & Eh & E).
    replace (done ++ p :: rest) with ((done ++ [p]) ++ rest) in * by (rewrite <- app_assoc; reflexivity).
    destruct has.
    + apply bind_ok in E. destruct E as (sub & Es & E).
      apply bind_ok in E. destruct E as (sub' & Ep & E). apply bind_ok in E. destruct E as (n1 & En & E).
      destruct n as [| |tg ps m]; try discriminate En. cbn [set_attribute node_of_arg] in En. injection En as <-.
      assert (Hl : lookup_all (p_name p) ps = [sub]).
      { unfold get_attribute in Es. cbn [pairs_of bind] in Es. unfold get_attr_ps in Es.
        destruct (lookup_all (p_name p) ps) as [|y [|z l]]; try discriminate. injection Es as ->. reflexivity. }
      assert (Hhas : has_attr_ps (p_name p) ps = true).
      { unfold has_attribute in Eh. cbn [pairs_of bind] in Eh. injection Eh as Eh. exact Eh. }
      eapply IH; [exact Hnd | | exact E].
      intros tg' ps' m' q Heq Hq. injection Heq as <- <- <-.
      apply in_app_or in Hq. destruct Hq as [Hq|[<-|[]]].
      * assert (Hne : p_name q <> p_name p).
        { intros Eq. rewrite !map_app in Hnd. cbn [map] in Hnd. rewrite <- app_assoc in Hnd. cbn [app] in Hnd.
          apply NoDup_remove_2 in Hnd. apply Hnd. apply in_or_app. left. rewrite <- Eq. apply in_map. exact Hq. }
        rewrite (lookup_set_other _ _ _ _ Hne Hhas). apply (Hdone tg ps m q eq_refl Hq).
      * rewrite (lookup_after_set _ _ _ _ Hl). split; [cbn; lia|].
        intros s0 Es0. injection Es0 as <-. eapply Hproc. exact Ep.
    + eapply IH; [exact Hnd | | exact E].
      intros tg ps m q Heq Hq. apply in_app_or in Hq. destruct Hq as [Hq|[<-|[]]]; [apply (Hdone tg ps m q Heq Hq)|].
      subst n. unfold has_attribute in Eh. cbn [pairs_of bind] in Eh. injection Eh as Eh.
      assert (Hl : lookup_all (p_name p) ps = []).
      { unfold lookup_all. unfold has_attr_ps in Eh. clear -Eh. induction ps as [|[k v] ps IH]; [reflexivity|].
        cbn [existsb fst] in Eh. apply orb_false_iff in Eh. destruct Eh as [E1 E2]. cbn [filter fst]. rewrite E1. apply IH. exact E2. }
      rewrite Hl. split; [cbn; lia | intros s0 Es0; discriminate].
Qed.

(* ---------------------------------------------------------------- the theorem *)
Section process.
  Variable o : oracle.
  Variable reg : registry.
  Hypothesis Hreg : wf_registry reg.

  Lemma set_tag_attrs P n t : attrs_ok reg P n -> attrs_ok reg P (set_tag t n).
  Proof.
    intros H tg ps m p Heq Hp. destruct n as [| |tg0 ps0 m0]; try discriminate. cbn [set_tag] in Heq.
    injection Heq as _ <- <-. eapply H; [reflexivity | exact Hp].
  Qed.

  Theorem process_well_tagged : forall fuel n T n',
    process o reg fuel n T = Ok n' -> well_tagged reg n' T.
  Proof.
    induction fuel as [|f IH]; intros n T n' E; [discriminate|].
    cbn [process] in E. apply bind_ok in E. destruct E as (res & Er & E).
    destruct (recognize_sound o reg Hreg (S f)) as [Hsound _].
    pose proof (Hsound _ _ _ Er) as Hs.
    destruct (fst res) as [|R [|R2 l]]; try discriminate.
    inversion Hs as [|? ? [Href Hfit] _]; subst.
    apply (lift_refines reg T R Href).
    destruct R as [ | | | | | | | | |k t|k kt vt|ts|c|c];
      try (cbn [fits] in Hfit; destruct Hfit as (t0 & sv & m & -> & Hst);
           unfold type_to_tag in E; rewrite Hst in E; injection E as <-; cbn [set_tag]; apply wt_scalar; exact Hst).
    - (* TPath *) cbn [fits] in Hfit. destruct Hfit as (sv & m & ->). cbn [type_to_tag set_tag] in E. injection E as <-. apply wt_path.
    - (* TAny *) injection E as <-. apply wt_any. apply strip_tags_stripped.
    - (* TList *) destruct n as [|tg items m|]; try discriminate. destruct (ueqb_spec tg tag_seq) as [->|]; [|discriminate].
      apply bind_ok in E. destruct E as (items' & Ei & E). injection E as <-. apply wt_list.
      eapply process_items_inv; [|exact Ei]. intros x x' Ex. eapply IH. exact Ex.
    - (* TDict *) destruct n as [| |tg ps m]; try discriminate. destruct (ueqb_spec tg tag_map) as [->|]; [|discriminate].
      apply bind_ok in E. destruct E as (ps' & Ep & E). injection E as <-.
      assert (Hk : dkey_ok kt) by (eapply refines_dict_key; exact Href).
      pose proof (process_pairs_inv _ _ (fun x => well_tagged reg x kt) (fun x => well_tagged reg x vt)
                    (fun x x' Ex => IH _ _ _ Ex) (fun x x' Ex => IH _ _ _ Ex) _ _ Ep) as Hps.
      apply wt_dict; [exact Hps|]. eapply Forall_impl; [|exact Hps]. intros kv [Hx _]. eapply dkey_tag; eauto.
    - (* TUnion: never the single recognised type of a successful process *)
      unfold type_to_tag, scalar_tag in E. cbn [kind_of_ty] in E. discriminate.
    - (* TClass *) destruct (find_cls reg c) as [k|] eqn:Fk; [|discriminate].
      apply bind_ok in E. destruct E as (n1 & E1 & E). apply bind_ok in E. destruct E as (n2 & E2 & E). injection E as <-.
      assert (Hconc : c_abstract k = false).
      { destruct (refines_class_concrete _ _ _ Href) as (k' & Fk' & Hc'). rewrite Fk in Fk'. injection Fk' as <-. exact Hc'. }
      assert (Hc : registered reg c = true) by (unfold registered; rewrite Fk; reflexivity).
      eapply wt_class; [apply rsub_refl; exact Hc | exact Fk | exact Hconc | destruct n2; reflexivity |].
      apply set_tag_attrs.
      destruct (is_objectlike k && is_mapping n1) eqn:Ho.
      + apply andb_true_iff in Ho. destruct Ho as [Ho _]. assert (Hwf : wf_cls k).
        { destruct Hreg as (_ & Hall & _). rewrite Forall_forall in Hall. apply Hall. eapply find_cls_in; eauto. }
        destruct Hwf as (Hnd & _).
        apply (process_attrs_inv reg (process o reg f) (fun s t s' Es => IH _ _ _ Es) (params_of k) [] n1 n2 Hnd); [|exact E2].
        intros tg ps m p _ [].
      + injection E2 as <-. intros tg ps m p Hn Hp. apply andb_false_iff in Ho. destruct Ho as [Ho|Ho].
        * unfold params_of in Hp. unfold is_objectlike in Ho. destruct (c_shape k); [discriminate | destruct Hp | destruct Hp].
        * subst n1. discriminate Ho.
    - (* TUnknown *) unfold type_to_tag, scalar_tag in E. cbn [kind_of_ty] in E. discriminate.
  Qed.

  (* C01: whatever a load returns conforms to the declared type *)
  Theorem load_conforms : oracle_wf o -> forall doc T v, load o reg doc T = Ok v -> conforms reg v T.
  Proof.
    intros Ho doc T v E. unfold load in E.
    destruct doc as [n|]; apply bind_ok in E; destruct E as (n' & Ep & Ec);
      (eapply construct_conforms; [exact Ho | exact Hreg | eapply process_well_tagged; exact Ep | exact Ec]).
  Qed.
End process.
