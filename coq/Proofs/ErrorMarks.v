(* C17: every position the recogniser's error tree mentions is the position of a node of the document, and a failed
   recognition at the document root mentions at least one. *)
From Coq Require Import NArith ZArith List Bool String Lia.
Import ListNotations.
From Y Require Import Prelude Node Tables NodeOps Types Recognize Loader ErrRun.
Open Scope N_scope.

Local Arguments ueqb : simpl never.
Local Arguments uprefix : simpl never.
Local Arguments class_of_tag : simpl never.

Definition inside (n : node) (e : rerr) : Prop := incl (marks_of e) (all_marks n).

Lemma nmark_in n : In (nmark n) (all_marks n).
Proof. destruct n; cbn; auto. Qed.
Lemma inside_ok n : inside n rec_ok.
Proof. intros m []. Qed.
Lemma inside_leaf n ks : inside n (RE [nmark n] ks []).
Proof. intros m [<-|[]]. apply nmark_in. Qed.
Lemma marks_RE ms ks cs m : In m (marks_of (RE ms ks cs)) <-> In m ms \/ exists c, In c cs /\ In m (marks_of c).
Proof.
  cbn [marks_of]. rewrite in_app_iff, in_flat_map. tauto.
Qed.
Lemma inside_RE n ms ks cs : incl ms (all_marks n) -> Forall (inside n) cs -> inside n (RE ms ks cs).
Proof.
  intros Hm Hc m H. apply marks_RE in H. destruct H as [H|(c & Hin & H)]; [apply Hm, H|].
  rewrite Forall_forall in Hc. exact (Hc c Hin m H).
Qed.

Lemma rec_scalar_inside n T : inside n (snd (rec_scalar n T)).
Proof.
  unfold rec_scalar. destruct n as [t v m|t l m|t ps m]; destruct (scalar_tag T) as [t'|]; try apply inside_leaf.
  destruct (ueqb t t'); [apply inside_ok | apply inside_leaf].
Qed.

(* children *)
Lemma seq_child t items mk i : In i items -> incl (all_marks i) (all_marks (Seq t items mk)).
Proof. intros Hin m H. cbn [all_marks]. right. apply in_flat_map. exists i. split; assumption. Qed.
Lemma map_child_k t ps mk k v : In (k, v) ps -> incl (all_marks k) (all_marks (Map t ps mk)).
Proof. intros Hin m H. cbn [all_marks]. right. apply in_flat_map. exists (k, v). split; [assumption|]. apply in_app_iff. left. exact H. Qed.
Lemma map_child_v t ps mk k v : In (k, v) ps -> incl (all_marks v) (all_marks (Map t ps mk)).
Proof. intros Hin m H. cbn [all_marks]. right. apply in_flat_map. exists (k, v). split; [assumption|]. apply in_app_iff. right. exact H. Qed.
Lemma inside_up n n' e : incl (all_marks n') (all_marks n) -> inside n' e -> inside n e.
Proof. intros H He m Hm. apply H, He, Hm. Qed.

(* ---- the loops ---- *)
Lemma rec_items_inside rec k t : forall items (big : node),
  (forall i, In i items -> incl (all_marks i) (all_marks big)) ->
  (forall i res, In i items -> rec i = Ok res -> inside i (snd res)) ->
  forall r, rec_items rec k t items = Ok r -> inside big (snd r).
Proof.
  induction items as [|i items IH]; intros big Hsub Hrec r E; cbn [rec_items] in E.
  - injection E as <-. apply inside_ok.
  - destruct (rec i) as [res|e] eqn:Er; cbn [bind] in E; [|discriminate E].
    assert (Hi : inside big (snd res)).
    { eapply inside_up; [apply Hsub; left; reflexivity | eapply Hrec; [left; reflexivity | exact Er]]. }
    destruct (fst res) as [|a [|b l]].
    + injection E as <-. cbn [snd]. apply inside_RE; [|constructor; [exact Hi|constructor]].
      intros m [<-|[]]. apply (Hsub i (or_introl eq_refl)), nmark_in.
    + eapply IH; [| |exact E]; intros; [apply Hsub | eapply Hrec]; try (right; eassumption); eassumption.
    + injection E as <-. exact Hi.
Qed.

Lemma rec_pairs_inside reck recv k kt vt : forall ps (big : node),
  (forall kn vn, In (kn, vn) ps -> incl (all_marks kn) (all_marks big) /\ incl (all_marks vn) (all_marks big)) ->
  (forall kn vn res, In (kn, vn) ps -> (reck kn = Ok res -> inside kn (snd res)) /\ (recv vn = Ok res -> inside vn (snd res))) ->
  forall r, rec_pairs reck recv k kt vt ps = Ok r -> inside big (snd r).
Proof.
  induction ps as [|[kn vn] ps IH]; intros big Hsub Hrec r E; cbn [rec_pairs] in E.
  - injection E as <-. apply inside_ok.
  - destruct (reck kn) as [kres|e] eqn:Ek; cbn [bind] in E; [|discriminate E].
    assert (Hk : inside big (snd kres)).
    { eapply inside_up; [apply (proj1 (Hsub kn vn (or_introl eq_refl))) | apply (proj1 (Hrec kn vn kres (or_introl eq_refl))), Ek]. }
    destruct (fst kres) as [|a [|b l]].
    + injection E as <-. exact Hk.
    + destruct (recv vn) as [vres|e] eqn:Ev; cbn [bind] in E; [|discriminate E].
      assert (Hv : inside big (snd vres)).
      { eapply inside_up; [apply (proj2 (Hsub kn vn (or_introl eq_refl))) | apply (proj2 (Hrec kn vn vres (or_introl eq_refl))), Ev]. }
      destruct (fst vres) as [|a' [|b' l']].
      * injection E as <-. exact Hv.
      * eapply IH; [| |exact E]; intros; [apply Hsub | apply Hrec]; right; assumption.
      * injection E as <-. exact Hv.
    + injection E as <-. exact Hk.
Qed.

Lemma rec_members_inside rec (n : node) : (forall t res, rec t = Ok res -> inside n (snd res)) ->
  forall ts acc causes r, Forall (inside n) causes -> rec_members rec ts acc causes = Ok r -> Forall (inside n) (snd r).
Proof.
  intros Hrec. induction ts as [|t ts IH]; intros acc causes r Hc E; cbn [rec_members] in E.
  - injection E as <-. exact Hc.
  - destruct (rec t) as [res|e] eqn:Er; cbn [bind] in E; [|discriminate E].
    eapply IH; [|exact E]. destruct (is_nil (fst res)); [|exact Hc].
    apply Forall_app. split; [exact Hc|]. constructor; [eapply Hrec, Er | constructor].
Qed.
Lemma rec_union_inside rec (n : node) ts : (forall t res, rec t = Ok res -> inside n (snd res)) ->
  forall r, rec_union rec ts (nmark n) = Ok r -> inside n (snd r).
Proof.
  intros Hrec r E. unfold rec_union in E. destruct (rec_members rec ts [] []) as [x|e] eqn:Em; cbn [bind] in E; [|discriminate E].
  pose proof (rec_members_inside rec n Hrec ts [] [] x (Forall_nil _) Em) as Hx.
  match type of E with (match ?l with _ => _ end) = _ => destruct l as [|a [|b l']] end; injection E as <-; cbn [snd];
    try apply inside_ok; (apply inside_RE; [intros m [<-|[]]; apply nmark_in | first [exact Hx | constructor]]).
Qed.

Lemma lookup_all_in a ps v : In v (lookup_all a ps) -> exists k, In (k, v) ps.
Proof.
  unfold lookup_all. rewrite in_map_iff. intros ([k v'] & <- & H). apply filter_In in H. exists k. exact (proj1 H).
Qed.
Lemma first_key_mark_in name t ps mk dflt : In dflt (all_marks (Map t ps mk)) ->
  In (first_key_mark name ps dflt) (all_marks (Map t ps mk)).
Proof.
  intros Hd. unfold first_key_mark. destruct (filter _ ps) as [|[k v] r] eqn:Ef; [exact Hd|].
  assert (Hin : In (k, v) ps). { eapply proj1, filter_In. rewrite Ef. left. reflexivity. }
  apply (map_child_k t ps mk k v Hin), nmark_in.
Qed.

Lemma rec_params_inside rec t ps mk c :
  (forall sub T res, (exists k, In (k, sub) ps) -> rec sub T = Ok res -> inside sub (snd res)) ->
  forall params r, rec_params rec (Map t ps mk) ps params c = Ok r -> inside (Map t ps mk) (snd r).
Proof.
  intros Hrec. induction params as [|p rest IH]; intros r E; cbn [rec_params] in E.
  - injection E as <-. apply inside_ok.
  - set (n := Map t ps mk) in *.
    assert (TRY : forall name (kont : result RecResult),
               (forall r', kont = Ok r' -> inside n (snd r')) ->
               forall r', (if has_attr_ps name ps then
                             match get_attr_ps name ps with
                             | Err _ => Ok ([], RE [nmark n] [name] [])
                             | Ok sub => res <- rec sub (p_ty p) ;;
                                         if is_nil (fst res) then Ok ([], RE [first_key_mark name ps (nmark n)] [name] [snd res])
                                         else rec_params rec n ps rest c
                             end
                           else kont) = Ok r' -> inside n (snd r')).
    { intros name kont Hk r' E'. destruct (has_attr_ps name ps); [|apply Hk, E'].
      destruct (get_attr_ps name ps) as [sub|e] eqn:Eg.
      - destruct (rec sub (p_ty p)) as [res|e] eqn:Er; cbn [bind] in E'; [|discriminate E'].
        destruct (is_nil (fst res)); [|apply IH, E'].
        injection E' as <-. cbn [snd].
        assert (Hs : exists k, In (k, sub) ps).
        { unfold get_attr_ps in Eg. destruct (lookup_all name ps) as [|v [|w l]] eqn:El; try discriminate Eg.
          injection Eg as <-. apply (lookup_all_in name). rewrite El. left. reflexivity. }
        apply inside_RE.
        + intros m [<-|[]]. apply first_key_mark_in. left. reflexivity.
        + constructor; [|constructor]. destruct Hs as (k & Hin).
          eapply inside_up; [apply (map_child_v t ps mk k sub Hin) | eapply Hrec; [exists k; exact Hin | exact Er]].
      - injection E' as <-. apply inside_leaf. }
    eapply TRY; [|exact E]. intros r1 E1. eapply TRY; [|exact E1]. intros r2 E2.
    destruct (p_required p); [injection E2 as <-; apply inside_leaf | apply IH, E2].
Qed.

Lemma rec_class_inside o rec k n :
  (forall sub T res, rec sub T = Ok res -> incl (all_marks sub) (all_marks n) -> inside sub (snd res)) ->
  forall r, rec_class o rec k n = Ok r -> inside n (snd r).
Proof.
  intros Hrec r E. unfold rec_class in E. destruct (c_recognize k) as [h|].
  - destruct (h _ n); injection E as <-; [apply inside_ok | apply inside_leaf].
  - destruct (c_shape k) as [params ex|ms|].
    + destruct n as [t v m|t l m|t ps m]; try (injection E as <-; apply inside_leaf).
      eapply rec_params_inside; [|exact E]. intros sub T res (kk & Hin) Er. eapply Hrec; [exact Er|].
      apply (map_child_v t ps m kk sub Hin).
    + destruct n as [t v m|t l m|t ps m]; try (injection E as <-; apply inside_leaf).
      destruct (ueqb t tag_str || ueqb t tag_bool); injection E as <-; [apply inside_ok | apply inside_leaf].
    + destruct n as [t v m|t l m|t ps m]; try (injection E as <-; apply inside_leaf).
      destruct (ueqb t tag_str); injection E as <-; [apply inside_ok | apply inside_leaf].
Qed.

Lemma rec_subs_inside recsub (n : node) : (forall d res, recsub d = Ok res -> inside n (snd res)) ->
  forall l acc causes r, Forall (inside n) causes -> rec_subs recsub l acc causes = Ok r -> Forall (inside n) (snd r).
Proof.
  intros Hrec. induction l as [|d l IH]; intros acc causes r Hc E; cbn [rec_subs] in E.
  - injection E as <-. exact Hc.
  - destruct (recsub (c_name d)) as [res|e] eqn:Er; cbn [bind] in E; [|discriminate E].
    eapply IH; [|exact E]. destruct (is_nil (fst res)); [|exact Hc].
    apply Forall_app. split; [exact Hc|]. constructor; [eapply Hrec, Er | constructor].
Qed.

Section main.
  Variable o : oracle.
  Variable reg : registry.

  Theorem recognize_inside : forall fuel,
    (forall n T res, recognize o reg fuel n T = Ok res -> inside n (snd res)) /\
    (forall n c top res, rec_classes o reg fuel n c top = Ok res -> inside n (snd res)).
  Proof.
    induction fuel as [|f [IHr IHc]]; [split; intros; discriminate|]. split.
    - intros n T res E. cbn [recognize] in E.
      destruct T as [ | | | | | | | | |k t|k kt vt|ts|c|c];
        try (injection E as <-; apply rec_scalar_inside).
      + (* TPath *) injection E as <-. unfold rec_path. destruct n; try apply inside_leaf.
        destruct (ueqb tag tag_str); [apply inside_ok | apply inside_leaf].
      + (* TAny *) injection E as <-. apply inside_ok.
      + (* TList *) destruct (is_seq_origin k); [|discriminate E].
        destruct n as [tg v m|tg items m|tg ps m]; try (injection E as <-; apply inside_leaf).
        eapply rec_items_inside; [| |exact E].
        * intros i Hin. apply seq_child, Hin.
        * intros i res' _ Er. eapply IHr, Er.
      + (* TDict *) destruct (is_map_origin k); [|discriminate E].
        match type of E with (if ?c then _ else _) = _ => destruct c end; [|discriminate E].
        destruct n as [tg v m|tg items m|tg ps m]; try (injection E as <-; apply inside_leaf).
        eapply rec_pairs_inside; [| |exact E].
        * intros kn vn Hin. split; [eapply map_child_k | eapply map_child_v]; exact Hin.
        * intros kn vn res' _. split; intros Er; eapply IHr, Er.
      + (* TUnion *) eapply rec_union_inside; [|exact E]. intros t res' Er. eapply IHr, Er.
      + (* TClass *) destruct (registered reg c); [|discriminate E]. eapply IHc, E.
      + discriminate E.
    - intros n c top res E. cbn [rec_classes] in E.
      destruct (find_cls reg c) as [k|]; [|discriminate E].
      match type of E with (bind ?X _) = _ => destruct X as [subs|e] eqn:Es end; cbn [bind] in E; [|discriminate E].
      assert (Hsubs : Forall (inside n) (snd subs)).
      { eapply rec_subs_inside; [| |exact Es]; [|constructor]. intros d res' Er. eapply IHc, Er. }
      match type of E with (bind ?X _) = _ => destruct X as [own|e] eqn:Eo end; cbn [bind] in E; [|discriminate E].
      assert (Hown : Forall (inside n) (snd own)).
      { destruct (is_nil (fst subs) && negb (c_abstract k)).
        - match type of Eo with (bind ?X _) = _ => destruct X as [r1|e] eqn:E1 end; cbn [bind] in Eo; [|discriminate Eo].
          injection Eo as <-. cbn [snd].
          assert (H1 : inside n (snd r1)).
          { eapply rec_class_inside; [|exact E1]. intros sub T res' Er _. eapply IHr, Er. }
          destruct (is_nil (fst r1)); [|exact Hsubs]. apply Forall_app. split; [exact Hsubs | constructor; [exact H1|constructor]].
        - injection Eo as <-. exact Hsubs. }
      cbv zeta in E.
      destruct (fst own) as [|x [|y l]].
      + injection E as <-. cbn [snd]. apply inside_RE; [|exact Hown]. destruct (top || is_nil (snd own)); [intros m [<-|[]]; apply nmark_in | intros m []].
      + destruct (negb (uprefix core_prefix (ntag n))).
        * destruct (class_of_tag reg (ntag n)) as [kt|].
          -- destruct (ty_mem _ _); injection E as <-; [apply inside_ok | apply inside_leaf].
          -- injection E as <-. apply inside_leaf.
        * injection E as <-. apply inside_ok.
      + assert (G : inside n (RE [nmark n] [] [])) by (apply inside_RE; [intros m [<-|[]]; apply nmark_in | constructor]).
        destruct (class_of_tag reg (ntag n)) as [kt|].
        * destruct (ty_mem _ _); injection E as <-; [apply inside_ok | exact G].
        * injection E as <-. exact G.
  Qed.
End main.

(* the leaves are among the mentioned marks *)
Section rerr_ind2.
  Variable P : rerr -> Prop.
  Hypothesis H : forall ms ks cs, Forall P cs -> P (RE ms ks cs).
  Fixpoint rerr_ind2 (e : rerr) : P e :=
    match e with
    | RE ms ks cs => H ms ks cs ((fix go (l : list rerr) : Forall P l :=
                                    match l with [] => Forall_nil _ | x :: r => Forall_cons _ (rerr_ind2 x) (go r) end) cs)
    end.
End rerr_ind2.
Lemma leaf_marks_sub : forall e m, In m (leaf_marks e) -> In m (marks_of e).
Proof.
  induction e as [ms ks cs IH] using rerr_ind2. intros m H. cbn [leaf_marks marks_of] in *. apply in_app_iff.
  destruct cs as [|c cs]; [left; exact H|]. right.
  apply in_flat_map in H. destruct H as (x & Hin & Hx). apply in_flat_map. exists x. split; [exact Hin|].
  rewrite Forall_forall in IH. apply IH; assumption.
Qed.

(* a failed recognition at the document root cites at least one position *)
Theorem root_failure_cites o reg f n c res : rec_classes o reg (S f) n c true = Ok res -> List.length (fst res) <> 1%nat ->
  marks_of (snd res) <> [].
Proof.
  intros E Hl. cbn [rec_classes] in E.
  destruct (find_cls reg c) as [k|]; [|discriminate E].
  match type of E with (bind ?X _) = _ => destruct X as [subs|e] end; cbn [bind] in E; [|discriminate E].
  match type of E with (bind ?X _) = _ => destruct X as [own|e] end; cbn [bind] in E; [|discriminate E].
  cbv zeta in E. destruct (fst own) as [|x [|y l]].
  - injection E as <-. cbn. discriminate.
  - destruct (negb (uprefix core_prefix (ntag n))).
    + destruct (class_of_tag reg (ntag n)) as [kt|].
      * destruct (ty_mem _ _); injection E as <-; [exfalso; apply Hl; reflexivity | cbn; discriminate].
      * injection E as <-. cbn. discriminate.
    + injection E as <-. exfalso. apply Hl. reflexivity.
  - destruct (class_of_tag reg (ntag n)) as [kt|].
    + destruct (ty_mem _ _); injection E as <-; [exfalso; apply Hl; reflexivity | cbn; discriminate].
    + injection E as <-. cbn. discriminate.
Qed.
