(* decode (encode s) = s for every sequence of Unicode scalar values, of every length. *)
From Coq Require Import NArith ZArith List Bool Lia ZifyBool ZifyN.
Import ListNotations.
From Y Require Import Utf8.
Open Scope N_scope.
Ltac Zify.zify_post_hook ::= Z.to_euclidean_division_equations.

Lemma decode_encode_char c rest : is_scalar_value c = true -> decode (encode_char c ++ rest) = option_map (cons c) (decode rest).
Proof.
  intros Hs. unfold is_scalar_value in Hs. unfold encode_char.
  destruct (c <? 128) eqn:E1.
  - cbn [app decode]. rewrite E1. reflexivity.
  - destruct (c <? 2048) eqn:E2.
    + cbn [app decode].
      replace (192 + c / 64 <? 128) with false by lia. replace (192 + c / 64 <? 192) with false by lia.
      replace (192 + c / 64 <? 224) with true by lia. unfold cont.
      replace ((128 <=? 128 + c mod 64) && (128 + c mod 64 <? 192)) with true by lia.
      replace ((192 + c / 64 - 192) * 64 + (128 + c mod 64 - 128)) with c by lia.
      replace (128 <=? c) with true by lia. reflexivity.
    + destruct (c <? 65536) eqn:E3.
      * cbn [app decode].
        replace (224 + c / 4096 <? 128) with false by lia. replace (224 + c / 4096 <? 192) with false by lia.
        replace (224 + c / 4096 <? 224) with false by lia. replace (224 + c / 4096 <? 240) with true by lia. unfold cont.
        replace ((128 <=? 128 + (c / 64) mod 64) && (128 + (c / 64) mod 64 <? 192)) with true by lia.
        replace ((128 <=? 128 + c mod 64) && (128 + c mod 64 <? 192)) with true by lia.
        replace ((224 + c / 4096 - 224) * 4096 + (128 + (c / 64) mod 64 - 128) * 64 + (128 + c mod 64 - 128)) with c by lia.
        replace (2048 <=? c) with true by lia. unfold is_scalar_value. rewrite Hs. reflexivity.
      * cbn [app decode].
        assert (Hc : c < 1114112) by lia.
        replace (240 + c / 262144 <? 128) with false by lia. replace (240 + c / 262144 <? 192) with false by lia.
        replace (240 + c / 262144 <? 224) with false by lia. replace (240 + c / 262144 <? 240) with false by lia.
        replace (240 + c / 262144 <? 248) with true by lia. unfold cont.
        replace ((128 <=? 128 + (c / 4096) mod 64) && (128 + (c / 4096) mod 64 <? 192)) with true by lia.
        replace ((128 <=? 128 + (c / 64) mod 64) && (128 + (c / 64) mod 64 <? 192)) with true by lia.
        replace ((128 <=? 128 + c mod 64) && (128 + c mod 64 <? 192)) with true by lia.
        replace ((240 + c / 262144 - 240) * 262144 + (128 + (c / 4096) mod 64 - 128) * 4096 + (128 + (c / 64) mod 64 - 128) * 64 +
                 (128 + c mod 64 - 128)) with c by lia.
        replace (65536 <=? c) with true by lia. replace (c <? 1114112) with true by lia. reflexivity.
Qed.

Theorem decode_encode : forall s, forallb is_scalar_value s = true -> decode (encode s) = Some s.
Proof.
  induction s as [|c s IH]; intros H; [reflexivity|].
  cbn [forallb] in H. apply andb_true_iff in H. destruct H as [Hc Hs].
  unfold encode. cbn [flat_map]. rewrite (decode_encode_char c _ Hc). fold (encode s). rewrite (IH Hs). reflexivity.
Qed.

(* every byte is a byte *)
Theorem encode_bytes : forall s, forallb is_scalar_value s = true -> Forall (fun b => b < 256) (encode s).
Proof.
  induction s as [|c s IH]; intros H; [constructor|].
  cbn [forallb] in H. apply andb_true_iff in H. destruct H as [Hc Hs]. unfold encode. cbn [flat_map]. apply Forall_app. split; [|apply IH, Hs].
  unfold is_scalar_value in Hc. unfold encode_char.
  destruct (c <? 128) eqn:E1; [repeat constructor; lia|]. destruct (c <? 2048) eqn:E2; [repeat constructor; lia|].
  destruct (c <? 65536) eqn:E3; repeat constructor; lia.
Qed.
