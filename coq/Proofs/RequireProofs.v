(* C16: UnknownNode.require_* return normally exactly when the documented condition holds. *)
From Coq Require Import NArith ZArith List Bool String Lia.
Import ListNotations.
From Y Require Import Prelude Node Tables NodeOps Types Recognize ScalarProofs.
Open Scope N_scope.

(* the documented conditions *)
Definition spec_scalar (n : node) (kinds : list skind) : Prop :=
  exists t v m, n = Scalar t v m /\ (kinds = [] \/ exists k, In k kinds /\ tag_of_kind k = Some t).
Definition spec_attr (recog : node -> ty -> bool) (n : node) (a : ustring) (T : option ty) : Prop :=
  exists t ps m v rest, n = Map t ps m /\ lookup_all a ps = v :: rest /\
    match T with None => True | Some T => recog v T = true end.

Lemma is_scalar_kind n k : is_scalar n (TyK k) = Ok true <-> exists t v m, n = Scalar t v m /\ tag_of_kind k = Some t.
Proof.
  destruct n as [t v m| |]; cbn [is_scalar].
  - destruct (tag_of_kind k) as [t'|] eqn:E.
    + split.
      * intros H. injection H as H. apply ueqb_eq in H. subst. eauto.
      * intros (t0 & v0 & m0 & Hn & Ht). injection Hn as <- <- <-. injection Ht as ->. rewrite ueqb_refl. reflexivity.
    + split; [discriminate | intros (t0 & v0 & m0 & _ & Ht); discriminate].
  - split; [discriminate | intros (t0 & v0 & m0 & Hn & _); discriminate].
  - split; [discriminate | intros (t0 & v0 & m0 & Hn & _); discriminate].
Qed.

Theorem require_scalar_spec o recog n kinds :
  (forall k, In k kinds -> tag_of_kind k <> None) ->
  (require o recog n (RqScalar (map TyK kinds)) = Ok true <-> spec_scalar n kinds).
Proof.
  intros Hvalid. destruct kinds as [|k0 ks].
  - cbn [map require]. unfold spec_scalar. destruct n; cbn [is_scalar_node]; split; intros H;
      try discriminate; try reflexivity; try (destruct H as (t0 & v0 & m0 & Hn & _); discriminate); eauto 8.
  - cbn [map require]. change (TyK k0 :: map TyK ks) with (map TyK (k0 :: ks)). set (kinds := k0 :: ks) in *.
    assert (G : forall l, (forall k, In k l -> tag_of_kind k <> None) ->
       ((fix go (l : list styp) : result bool :=
           match l with [] => Ok false | t :: l' => b <- is_scalar n t ;; if b then Ok true else go l' end) (map TyK l) = Ok true
        <-> exists k, In k l /\ is_scalar n (TyK k) = Ok true)).
    { induction l as [|k l IH]; intros Hv; cbn [map].
      - split; [discriminate | intros (k & [] & _)].
      - destruct (is_scalar n (TyK k)) as [b|e] eqn:Ek; cbn [bind].
        + destruct b.
          * split; [intros _; exists k; split; [left; reflexivity | exact Ek] | reflexivity].
          * rewrite IH by (intros k' Hk'; apply Hv; right; exact Hk'). split.
            -- intros (k' & Hk' & E'). exists k'. split; [right; exact Hk' | exact E'].
            -- intros (k' & [<-|Hk'] & E'); [congruence | eauto].
        + exfalso. destruct n as [t v m| |]; cbn [is_scalar] in Ek; try discriminate.
          destruct (tag_of_kind k) eqn:Et; [discriminate|]. apply (Hv k (or_introl eq_refl)). exact Et. }
    pose proof (G kinds Hvalid) as G'. unfold kinds in G' at 1. cbn [map] in G'. rewrite G'. clear G'. unfold spec_scalar. split.
    + intros (k & Hk & E). apply is_scalar_kind in E. destruct E as (t & v & m & -> & Ht). exists t, v, m. split; [reflexivity|]. right. eauto.
    + intros (t & v & m & -> & [E|(k & Hk & Ht)]); [unfold kinds in E; discriminate|].
      exists k. split; [exact Hk|]. apply is_scalar_kind. eauto.
Qed.

Theorem require_mapping_spec o recog n : require o recog n RqMapping = Ok true <-> exists t ps m, n = Map t ps m.
Proof. destruct n; cbn [require is_mapping]; split; intros H; try discriminate; try reflexivity; eauto; destruct H as (?&?&?&H); discriminate. Qed.
Theorem require_sequence_spec o recog n : require o recog n RqSequence = Ok true <-> exists t l m, n = Seq t l m.
Proof. destruct n; cbn [require is_sequence]; split; intros H; try discriminate; try reflexivity; eauto; destruct H as (?&?&?&H); discriminate. Qed.

Theorem require_attribute_spec o recog n a T : require o recog n (RqAttr a T) = Ok true <-> spec_attr recog n a T.
Proof.
  unfold spec_attr. destruct n as [| |t ps m]; cbn [require].
  - split; [discriminate | intros (?&?&?&?&?&H&_); discriminate].
  - split; [discriminate | intros (?&?&?&?&?&H&_); discriminate].
  - destruct (lookup_all a ps) as [|v rest] eqn:L.
    + split; [discriminate | intros (t0&ps0&m0&v0&r0&H&L0&_)]. injection H as <- <- <-. congruence.
    + destruct T as [T|].
      * split.
        -- intros H. injection H as H. exists t, ps, m, v, rest. auto.
        -- intros (t0&ps0&m0&v0&r0&H&L0&Hr). injection H as <- <- <-. rewrite L in L0. injection L0 as <- <-. rewrite Hr. reflexivity.
      * split; [intros _; exists t, ps, m, v, rest; auto | reflexivity].
Qed.

(* the typed attribute check IS the loader's own recognition *)
Theorem require_attribute_uses_recognize o reg fuel n a T :
  let recog := fun v T => match recognize o reg fuel v T with Ok (tys, _) => negb (is_nil tys) | Err _ => false end in
  require o recog n (RqAttr a (Some T)) = Ok true <->
  exists t ps m v rest tys e, n = Map t ps m /\ lookup_all a ps = v :: rest /\
                              recognize o reg fuel v T = Ok (tys, e) /\ tys <> [].
Proof.
  intros recog. rewrite require_attribute_spec. unfold spec_attr, recog. split.
  - intros (t&ps&m&v&rest&Hn&L&Hr). destruct (recognize o reg fuel v T) as [[tys e]|] eqn:E; [|discriminate].
    exists t, ps, m, v, rest, tys, e. repeat split; auto. destruct tys; [discriminate | discriminate].
  - intros (t&ps&m&v&rest&tys&e&Hn&L&E&Hne). exists t, ps, m, v, rest. repeat split; auto. rewrite E.
    destruct tys; [contradiction | reflexivity].
Qed.

(* value checks on a mapping whose attribute a occurs exactly once, under a str key *)
Definition one_attr (ps : list (node * node)) (a : ustring) (vn : node) : Prop :=
  exists l1 km l2, ps = l1 ++ (Scalar tag_str a km, vn) :: l2 /\
    Forall (fun kv => match fst kv with Scalar t kv' _ => ueqb t tag_str && ueqb kv' a | _ => false end = false) (l1 ++ l2).

Lemma rq_value_skip o a v : forall l found,
  Forall (fun kv => match fst kv with Scalar t kv' _ => ueqb t tag_str && ueqb kv' a | _ => false end = false) l ->
  rq_attr_value o a v l found = Ok found /\ rq_attr_value_not o a v l found = Ok found.
Proof.
  induction l as [|[k x] l IH]; intros found H; [split; reflexivity|].
  inversion H as [|? ? Hk Hl]; subst. cbn [fst] in Hk. cbn [rq_attr_value rq_attr_value_not]. rewrite Hk. apply IH. exact Hl.
Qed.

Theorem require_attribute_value_spec o recog t ps m a v vn : one_attr ps a vn ->
  (require o recog (Map t ps m) (RqAttrValue a v) = Ok true <->
   is_scalar vn (TyK (kind_of_sval v)) = Ok true /\ sval_eq_node o v vn = Ok true).
Proof.
  intros (l1 & km & l2 & -> & Hf). apply Forall_app in Hf. destruct Hf as [H1 H2]. cbn [require].
  assert (G : forall l found, Forall (fun kv => match fst kv with Scalar t kv' _ => ueqb t tag_str && ueqb kv' a | _ => false end = false) l ->
              rq_attr_value o a v (l ++ (Scalar tag_str a km, vn) :: l2) found =
              (isv <- is_scalar vn (TyK (kind_of_sval v)) ;;
               if negb isv then Ok false else eq <- sval_eq_node o v vn ;; if eq then Ok true else Ok false)).
  { induction l as [|[k x] l IH]; intros found H.
    - cbn [app rq_attr_value]. rewrite !ueqb_refl. cbn [andb].
      destruct (is_scalar vn (TyK (kind_of_sval v))) as [b|]; cbn [bind]; [|reflexivity].
      destruct b; cbn [negb]; [|reflexivity].
      destruct (sval_eq_node o v vn) as [e|]; cbn [bind]; [|reflexivity].
      destruct e; [|reflexivity]. apply (rq_value_skip o a v l2 true H2).
    - inversion H as [|? ? Hk Hl]; subst. cbn [fst] in Hk. cbn [app rq_attr_value]. rewrite Hk. apply IH. exact Hl. }
  rewrite (G l1 false H1).
  destruct (is_scalar vn (TyK (kind_of_sval v))) as [b|e]; cbn [bind].
  - destruct b; cbn [negb].
    + destruct (sval_eq_node o v vn) as [e|e]; cbn [bind].
      * destruct e; split; try tauto; try discriminate; intros [_ H]; discriminate.
      * split; [discriminate | intros [_ H]; discriminate].
    + split; [discriminate | intros [H _]; discriminate].
  - split; [discriminate | intros [H _]; discriminate].
Qed.

Theorem require_attribute_value_not_spec o recog t ps m a v vn : one_attr ps a vn ->
  (require o recog (Map t ps m) (RqAttrValueNot a v) = Ok true <->
   is_scalar vn (TyK (kind_of_sval v)) = Ok false \/
   (is_scalar vn (TyK (kind_of_sval v)) = Ok true /\ sval_eq_node o v vn = Ok false)).
Proof.
  intros (l1 & km & l2 & -> & Hf). apply Forall_app in Hf. destruct Hf as [H1 H2]. cbn [require].
  assert (G : forall l found, Forall (fun kv => match fst kv with Scalar t kv' _ => ueqb t tag_str && ueqb kv' a | _ => false end = false) l ->
              rq_attr_value_not o a v (l ++ (Scalar tag_str a km, vn) :: l2) found =
              (isv <- is_scalar vn (TyK (kind_of_sval v)) ;;
               if negb isv then Ok true else eq <- sval_eq_node o v vn ;; if eq then Ok false else Ok true)).
  { induction l as [|[k x] l IH]; intros found H.
    - cbn [app rq_attr_value_not]. rewrite !ueqb_refl. cbn [andb].
      destruct (is_scalar vn (TyK (kind_of_sval v))) as [b|]; cbn [bind]; [|reflexivity].
      destruct b; cbn [negb]; [|reflexivity].
      destruct (sval_eq_node o v vn) as [e|]; cbn [bind]; [|reflexivity].
      destruct e; [reflexivity|]. apply (rq_value_skip o a v l2 true H2).
    - inversion H as [|? ? Hk Hl]; subst. cbn [fst] in Hk. cbn [app rq_attr_value_not]. rewrite Hk. apply IH. exact Hl. }
  rewrite (G l1 false H1).
  destruct (is_scalar vn (TyK (kind_of_sval v))) as [b|e]; cbn [bind].
  - destruct b; cbn [negb].
    + destruct (sval_eq_node o v vn) as [e|e]; cbn [bind].
      * destruct e; split; try tauto; try discriminate; intros [H|[_ H]]; discriminate.
      * split; [discriminate | intros [H|[_ H]]; discriminate].
    + split; [intros _; left; reflexivity | reflexivity].
  - split; [discriminate | intros [H|[H _]]; discriminate].
Qed.

(* a missing attribute is rejected by both value checks *)
Theorem require_value_missing o recog t ps m a v :
  Forall (fun kv => match fst kv with Scalar t kv' _ => ueqb t tag_str && ueqb kv' a | _ => false end = false) ps ->
  require o recog (Map t ps m) (RqAttrValue a v) = Ok false /\ require o recog (Map t ps m) (RqAttrValueNot a v) = Ok false.
Proof. intros H. cbn [require]. apply (rq_value_skip o a v ps false H). Qed.
