(* C13: meaning-preserving changes of the type model -- the abstract container annotations, bool_union_fix. *)
From Coq Require Import NArith ZArith List Bool String Permutation.
Import ListNotations.
From Y Require Import Prelude Node Tables NodeOps Types Recognize Loader Spec WellTagged Polymorph.
Open Scope N_scope.

Local Arguments ueqb : simpl never.

(* ---- List / Sequence / MutableSequence (and Dict / Mapping / MutableMapping): the origin index is only echoed ---- *)
Lemma rec_items_origin rec k k' t : forall items r, rec_items rec k t items = Ok r ->
  (r = ([TList k t], rec_ok) /\ rec_items rec k' t items = Ok ([TList k' t], rec_ok)) \/
  (List.length (fst r) <> 1%nat /\ rec_items rec k' t items = Ok r).
Proof.
  induction items as [|i items IH]; intros r E; cbn [rec_items] in *.
  - injection E as <-. left. split; reflexivity.
  - destruct (rec i) as [res|e]; cbn [bind] in *; [|discriminate E].
    destruct (fst res) as [|a [|b l]] eqn:Ef.
    + injection E as <-. right. split; [cbn; discriminate | reflexivity].
    + apply IH, E.
    + injection E as <-. right. split; [cbn [fst map List.length]; discriminate | reflexivity].
Qed.
Lemma rec_pairs_origin reck recv k k' kt vt : forall ps r, rec_pairs reck recv k kt vt ps = Ok r ->
  (r = ([TDict k kt vt], rec_ok) /\ rec_pairs reck recv k' kt vt ps = Ok ([TDict k' kt vt], rec_ok)) \/
  (List.length (fst r) <> 1%nat /\ rec_pairs reck recv k' kt vt ps = Ok r).
Proof.
  induction ps as [|[kn vn] ps IH]; intros r E; cbn [rec_pairs] in *.
  - injection E as <-. left. split; reflexivity.
  - destruct (reck kn) as [kres|e]; cbn [bind] in *; [|discriminate E].
    destruct (fst kres) as [|a [|b l]] eqn:Ef.
    + injection E as <-. right. split; [cbn; discriminate | reflexivity].
    + destruct (recv vn) as [vres|e]; cbn [bind] in *; [|discriminate E].
      destruct (fst vres) as [|a' [|b' l']] eqn:Ef'.
      * injection E as <-. right. split; [cbn; discriminate | reflexivity].
      * apply IH, E.
      * injection E as <-. right. split; [cbn [fst map List.length]; discriminate | reflexivity].
    + injection E as <-. right. split; [cbn [fst map List.length]; discriminate | reflexivity].
Qed.

Section origins.
  Variable o : oracle.
  Variable reg : registry.

  Theorem process_list_origin f n k k' t : is_seq_origin k = true -> is_seq_origin k' = true ->
    process o reg (S f) n (TList k t) = process o reg (S f) n (TList k' t).
  Proof.
    intros Hk Hk'. cbn [process]. cbn [recognize].
    rewrite Hk, Hk'.
    destruct n as [tg v m|tg items m|tg ps m]; try reflexivity.
    destruct (rec_items (fun i => recognize o reg f i t) k t items) as [r|e] eqn:E.
    - destruct (rec_items_origin _ k k' t items r E) as [[-> E']|[Hl E']]; rewrite E'; cbn [bind fst].
      + reflexivity.
      + reflexivity.
    - (* an error inside an element: the same element fails whatever the origin *)
      assert (E' : rec_items (fun i => recognize o reg f i t) k' t items = Err e).
      { clear -E. revert E. induction items as [|i items IH]; cbn [rec_items]; [discriminate|].
        destruct (recognize o reg f i t) as [res|e']; cbn [bind]; [|exact (fun H => H)].
        destruct (fst res) as [|a [|b l]]; try discriminate. exact IH. }
      rewrite E'. reflexivity.
  Qed.

  Theorem process_dict_origin f n k k' kt vt : is_map_origin k = true -> is_map_origin k' = true ->
    process o reg (S f) n (TDict k kt vt) = process o reg (S f) n (TDict k' kt vt).
  Proof.
    intros Hk Hk'. cbn [process]. cbn [recognize].
    rewrite Hk, Hk'.
    match goal with |- context [if ?c then _ else Err (EPy PyRuntimeError)] => destruct c end; [|reflexivity].
    destruct n as [tg v m|tg items m|tg ps m]; try reflexivity.
    destruct (rec_pairs (fun x => recognize o reg f x kt) (fun x => recognize o reg f x vt) k kt vt ps) as [r|e] eqn:E.
    - destruct (rec_pairs_origin _ _ k k' kt vt ps r E) as [[-> E']|[Hl E']]; rewrite E'; cbn [bind fst]; reflexivity.
    - assert (E' : rec_pairs (fun x => recognize o reg f x kt) (fun x => recognize o reg f x vt) k' kt vt ps = Err e).
      { clear -E. revert E. induction ps as [|[kn vn] ps IH]; cbn [rec_pairs]; [discriminate|].
        destruct (recognize o reg f kn kt) as [kres|e']; cbn [bind]; [|exact (fun H => H)].
        destruct (fst kres) as [|a [|b l]]; try discriminate.
        destruct (recognize o reg f vn vt) as [vres|e']; cbn [bind]; [|exact (fun H => H)].
        destruct (fst vres) as [|a' [|b' l']]; try discriminate. exact IH. }
      rewrite E'. reflexivity.
  Qed.
End origins.

(* ---- bool_union_fix next to bool ---- *)
Section boolfix.
  Variable rec : ty -> result RecResult.
  (* what recognising the marker does: nothing, or the marker exactly when bool itself is recognised *)
  Hypothesis Hfix : exists res, rec TBoolFix = Ok res /\
    (fst res = [] \/ (fst res = [TBoolFix] /\ exists res', rec TBool = Ok res' /\ In TBool (fst res'))).

  Lemma rec_members_app ts1 : forall ts2 acc causes r, rec_members rec (ts1 ++ ts2) acc causes = Ok r ->
    exists r1, rec_members rec ts1 acc causes = Ok r1 /\ rec_members rec ts2 (fst r1) (snd r1) = Ok r.
  Proof.
    induction ts1 as [|m ts1 IH]; intros ts2 acc causes r E; cbn [app rec_members] in *.
    - exists (acc, causes). split; [reflexivity | exact E].
    - destruct (rec m) as [res|e]; cbn [bind] in *; [|discriminate E]. apply IH, E.
  Qed.

  Theorem boolfix_irrelevant ts m tys e : In TBool ts -> rec_union rec ts m = Ok (tys, e) ->
    exists tys' e', rec_union rec (ts ++ [TBoolFix]) m = Ok (tys', e') /\
                    (forall t, In t tys <-> In t tys') /\ (forall t, tys = [t] -> tys' = [t]).
  Proof.
    intros Hb E. rewrite rec_union_eq in *.
    destruct (rec_members rec ts [] []) as [r|x] eqn:Er; cbn [bind] in E; [|discriminate E].
    destruct (rec_members_spec rec _ _ _ _ Er) as (H1 & H2 & H3).
    destruct Hfix as (fres & Ef & Hf).
    destruct (rec_members_total rec (ts ++ [TBoolFix]) [] []) as (r' & Er').
    { intros t Hin. apply in_app_iff in Hin. destruct Hin as [Hin|[<-|[]]]; [apply H1, Hin | eauto]. }
    destruct (rec_members_spec rec _ _ _ _ Er') as (H1' & H2' & H3').
    rewrite Er'. cbn [bind].
    assert (T : tys = bfix (fst r)) by (destruct (bfix (fst r)) as [|a [|b l]]; injection E as <- _; reflexivity).
    subst tys.
    (* the raw sets: r' = r plus possibly the marker, and then bool is in both *)
    assert (SUB : forall t, In t (fst r) -> In t (fst r')).
    { intros t Ht. apply H2'. apply H2 in Ht. destruct Ht as [[]|(m0 & res & Hin & Erm & Ht)].
      right. exists m0, res. rewrite in_app_iff. tauto. }
    assert (SUP : forall t, In t (fst r') -> In t (fst r) \/ (t = TBoolFix /\ In TBool (fst r))).
    { intros t Ht. apply H2' in Ht. destruct Ht as [[]|(m0 & res & Hin & Erm & Ht)].
      apply in_app_iff in Hin. destruct Hin as [Hin|[<-|[]]].
      - left. apply H2. right. exists m0, res. tauto.
      - rewrite Ef in Erm. injection Erm as <-. destruct Hf as [Hn|(Hs & res' & Er2 & Hin2)].
        + rewrite Hn in Ht. destruct Ht.
        + rewrite Hs in Ht. destruct Ht as [<-|[]]. right. split; [reflexivity|].
          apply H2. right. exists TBool, res'. tauto. }
    assert (EQF : forall t, In t (bfix (fst r)) <-> In t (bfix (fst r'))).
    { intros t. unfold bfix.
      destruct (ty_mem TBool (fst r)) eqn:Mb.
      - assert (Mb' : ty_mem TBool (fst r') = true) by (apply ty_mem_In, SUB, ty_mem_In, Mb). rewrite Mb'. cbn [andb].
        destruct (ty_mem TBoolFix (fst r)) eqn:Mf.
        + assert (Mf' : ty_mem TBoolFix (fst r') = true) by (apply ty_mem_In, SUB, ty_mem_In, Mf). rewrite Mf'.
          unfold ty_remove. rewrite !filter_In. split; intros [Hi Hn]; (split; [|exact Hn]).
          * apply SUB, Hi.
          * destruct (SUP t Hi) as [|[-> _]]; [assumption|]. cbn in Hn. discriminate Hn.
        + destruct (ty_mem TBoolFix (fst r')) eqn:Mf'.
          * unfold ty_remove. rewrite filter_In. split.
            -- intros Hi. split; [apply SUB, Hi|]. destruct (ty_eqb TBoolFix t) eqn:Et; [|reflexivity].
               apply ty_eqb_eq in Et. subst t. apply ty_mem_In in Hi. congruence.
            -- intros [Hi Hn]. destruct (SUP t Hi) as [|[-> _]]; [assumption|]. cbn in Hn. discriminate Hn.
          * split; [apply SUB|]. intros Hi. destruct (SUP t Hi) as [|[-> _]]; [assumption|].
            apply ty_mem_In in Hi. congruence.
      - (* bool not recognised: the marker is not either *)
        cbn [andb].
        assert (Mb' : ty_mem TBool (fst r') = false).
        { destruct (ty_mem TBool (fst r')) eqn:X; [|reflexivity]. apply ty_mem_In in X.
          destruct (SUP _ X) as [Hi|[Hd _]]; [apply ty_mem_In in Hi; congruence | discriminate Hd]. }
        rewrite Mb'. cbn [andb]. split; [apply SUB|]. intros Hi. destruct (SUP t Hi) as [|[_ Hi2]]; [assumption|].
        apply ty_mem_In in Hi2. congruence. }
    assert (NDF : NoDup (bfix (fst r'))).
    { unfold bfix. destruct (ty_mem TBool (fst r') && ty_mem TBoolFix (fst r')); [apply NoDup_filter|]; apply H3'; constructor. }
    exists (bfix (fst r')).
    assert (S1 : forall t, bfix (fst r) = [t] -> bfix (fst r') = [t]).
    { intros t Ht. eapply same_set_singleton; [exact EQF | exact NDF | exact Ht]. }
    destruct (bfix (fst r')) as [|a [|b l]]; eexists; (split; [reflexivity|]); (split; [exact EQF | exact S1]).
  Qed.
End boolfix.

(* the hypothesis holds for the recogniser of the model *)
Lemma recognize_boolfix o reg f n :
  exists res, recognize o reg (S f) n TBoolFix = Ok res /\
    (fst res = [] \/ (fst res = [TBoolFix] /\ exists res', recognize o reg (S f) n TBool = Ok res' /\ In TBool (fst res'))).
Proof.
  cbn [recognize]. eexists. split; [reflexivity|]. unfold rec_scalar.
  replace (scalar_tag TBoolFix) with (Some tag_bool) by reflexivity.
  replace (scalar_tag TBool) with (Some tag_bool) by reflexivity.
  destruct n as [t v m| |]; cbn [fst]; try (left; reflexivity).
  destruct (ueqb t tag_bool) eqn:E; cbn [fst]; [|left; reflexivity].
  right. split; [reflexivity|]. eexists. split; [reflexivity|]. left. reflexivity.
Qed.
