(* C17, strong claim on hierarchy-free models: every failure to recognise a mapping as a class is explained by ONE
   constructor parameter -- a required key that is absent (named, cited at the start of the mapping), a key given twice
   (named, cited at the start of the mapping), or a value of the wrong type (cited inside that value). *)
From Coq Require Import NArith ZArith List Bool String Lia.
Import ListNotations.
From Y Require Import Prelude Node Tables NodeOps Types Recognize Loader ErrRun ErrorMarks Polymorph ClassRoundTrip.
Open Scope N_scope.

Local Arguments ueqb : simpl never.
Local Arguments uprefix : simpl never.
Local Arguments class_of_tag : simpl never.
Local Arguments has_attr_ps : simpl never.
Local Arguments get_attr_ps : simpl never.
Local Arguments dashed : simpl never.

Inductive explained (rec : node -> ty -> result RecResult) (n : node) (ps : list (node * node)) (p : param) (e : rerr) : Prop :=
| ex_missing : p_required p = true -> has_attr_ps (p_name p) ps = false -> has_attr_ps (dashed (p_name p)) ps = false ->
               e = RE [nmark n] [p_name p] [] -> explained rec n ps p e
| ex_twice name x : name = p_name p \/ name = dashed (p_name p) -> has_attr_ps name ps = true ->
               get_attr_ps name ps = Err x -> e = RE [nmark n] [name] [] -> explained rec n ps p e
| ex_type name sub res : name = p_name p \/ name = dashed (p_name p) -> has_attr_ps name ps = true ->
               get_attr_ps name ps = Ok sub -> rec sub (p_ty p) = Ok res -> fst res = [] ->
               e = RE [first_key_mark name ps (nmark n)] [name] [snd res] -> explained rec n ps p e.

Lemma rec_params_explained rec n ps c : forall params e,
  rec_params rec n ps params c = Ok ([], e) -> exists p, In p params /\ explained rec n ps p e.
Proof.
  induction params as [|p rest IH]; intros e H; [discriminate H|].
  cbn [rec_params] in H.
  destruct (has_attr_ps (p_name p) ps) eqn:H1.
  - destruct (get_attr_ps (p_name p) ps) as [sub|x] eqn:G.
    + destruct (rec sub (p_ty p)) as [res|x] eqn:R; cbn [bind] in H; [|discriminate H].
      destruct (is_nil (fst res)) eqn:N.
      * injection H as <-. exists p. split; [left; reflexivity|].
        apply (ex_type rec n ps p _ (p_name p) sub res); auto. destruct (fst res); [reflexivity|discriminate N].
      * destruct (IH e H) as (q & Hq & Hx). exists q. split; [right; exact Hq|exact Hx].
    + injection H as <-. exists p. split; [left; reflexivity|]. apply (ex_twice rec n ps p _ (p_name p) x); auto.
  - destruct (has_attr_ps (dashed (p_name p)) ps) eqn:H2.
    + destruct (get_attr_ps (dashed (p_name p)) ps) as [sub|x] eqn:G.
      * destruct (rec sub (p_ty p)) as [res|x] eqn:R; cbn [bind] in H; [|discriminate H].
        destruct (is_nil (fst res)) eqn:N.
        -- injection H as <-. exists p. split; [left; reflexivity|].
           apply (ex_type rec n ps p _ (dashed (p_name p)) sub res); auto. destruct (fst res); [reflexivity|discriminate N].
        -- destruct (IH e H) as (q & Hq & Hx). exists q. split; [right; exact Hq|exact Hx].
      * injection H as <-. exists p. split; [left; reflexivity|]. apply (ex_twice rec n ps p _ (dashed (p_name p)) x); auto.
    + destruct (p_required p) eqn:Rq.
      * injection H as <-. exists p. split; [left; reflexivity|]. apply ex_missing; auto.
      * destruct (IH e H) as (q & Hq & Hx). exists q. split; [right; exact Hq|exact Hx].
Qed.

(* what the message prints for each explanation *)
Lemma explained_prints rec n ps p e : explained rec n ps p e ->
  (leaf_marks e = [nmark n] /\ exists name, leaf_keys e = [name] /\ (name = p_name p \/ name = dashed (p_name p))) \/
  (exists name sub res, (name = p_name p \/ name = dashed (p_name p)) /\ get_attr_ps name ps = Ok sub /\
      rec sub (p_ty p) = Ok res /\ fst res = [] /\ leaf_marks e = leaf_marks (snd res) ++ []).
Proof.
  intros [Rq H1 H2 ->|name x Hn H1 G ->|name sub res Hn H1 G R N ->].
  - left. split; [reflexivity|]. exists (p_name p). auto.
  - left. split; [reflexivity|]. exists name. auto.
  - right. exists name, sub, res. repeat split; auto.
Qed.

(* the key cited for a wrongly typed value is a key of the mapping carrying that name *)
Lemma first_key_mark_is_key name ps d : has_attr_ps name ps = true ->
  exists k v, In (k, v) ps /\ key_is name k = true /\ first_key_mark name ps d = nmark k.
Proof.
  unfold has_attr_ps, first_key_mark. induction ps as [|[k v] r IH]; intros H; [discriminate H|].
  cbn [existsb fst] in H. cbn [filter fst].
  destruct (key_is name k) eqn:K.
  - exists k, v. repeat split; [left; reflexivity|exact K].
  - cbn [orb] in H. destruct (IH H) as (k' & v' & Hin & Hk & E). exists k', v'. repeat split; [right; exact Hin|exact Hk|exact E].
Qed.

Section flat.
  Variable o : oracle.
  Variable reg : registry.
  Hypothesis Hflat : flat reg.

  Lemma flat_class_failure f t ps m c k params extra e : find_cls reg c = Some k -> c_shape k = ShObj params extra ->
    uprefix core_prefix t = true ->
    recognize o reg (S (S f)) (Map t ps m) (TClass c) = Ok ([], e) ->
    exists e', leaf_marks e = leaf_marks e' ++ [] /\ leaf_keys e = leaf_keys e' ++ [] /\
               exists p, In p params /\ explained (recognize o reg f) (Map t ps m) ps p e'.
  Proof.
    intros Ek Es Ht H. rewrite recognize_class_unfold in H. unfold registered in H. rewrite Ek in H.
    rewrite (rec_classes_eq o reg f _ c true k Ek) in H. unfold candidates in H.
    destruct (Hflat c k Ek) as ((Hr0 & _ & _ & Ha & Hsub & _) & Hn).
    assert (Hsub' : direct_subclasses reg c = []) by (rewrite <- Hn; exact Hsub). rewrite Hsub' in H.
    cbn [rec_subs bind fst snd is_nil] in H. rewrite Ha in H. cbn [negb andb] in H. unfold rec_class in H. rewrite Hr0, Es in H.
    destruct (rec_params (recognize o reg f) (Map t ps m) ps params (c_name k)) as [[tys e']|x] eqn:P; cbn [bind fst snd] in H; [|discriminate H].
    destruct tys as [|ty tys].
    - cbn [is_nil app] in H. unfold decide in H. cbn [fst snd] in H. injection H as <-.
      exists e'. split; [reflexivity|]. split; [reflexivity|]. eapply rec_params_explained, P.
    - cbn [is_nil] in H. unfold decide in H. cbn [fst snd ntag] in H. rewrite Ht in H. cbn [negb] in H.
      destruct tys; [discriminate H|].
      destruct (class_of_tag reg t) as [kt|]; [destruct (ty_mem _ _)|]; discriminate H.
  Qed.
End flat.
