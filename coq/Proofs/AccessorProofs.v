(* C14: the six mapping accessors of yatiml.Node refine an ordered association
   list (existing keys keep their position, new keys append, absent keys are
   reported / ignored), for every operation sequence. *)
From Coq Require Import NArith ZArith List Bool String Lia.
Import ListNotations.
From Y Require Import Prelude Node Tables NodeOps OpsRun.
Open Scope N_scope.

(* ---- the abstract side: an insertion-ordered dictionary ---- *)
Definition alist := list (ustring * node).
Definition al_has (a : ustring) (l : alist) : bool := existsb (fun kv => ueqb (fst kv) a) l.
Fixpoint al_get (a : ustring) (l : alist) : option node :=
  match l with [] => None | (k, v) :: r => if ueqb k a then Some v else al_get a r end.
Fixpoint al_replace (a : ustring) (v : node) (l : alist) : alist :=
  match l with [] => [] | (k, v0) :: r => if ueqb k a then (k, v) :: r else (k, v0) :: al_replace a v r end.
Definition al_set (a : ustring) (v : node) (l : alist) : alist :=
  if al_has a l then al_replace a v l else l ++ [(a, v)].
Fixpoint al_remove (a : ustring) (l : alist) : alist :=
  match l with [] => [] | (k, v) :: r => if ueqb k a then r else (k, v) :: al_remove a r end.
Fixpoint al_rename (a b : ustring) (l : alist) : alist :=
  match l with [] => [] | (k, v) :: r => if ueqb k a then (b, v) :: r else (k, v) :: al_rename a b r end.

Definition key_text (k : node) : ustring := match k with Scalar _ v _ => v | _ => [] end.
Definition abs (ps : list (node * node)) : alist := map (fun kv => (key_text (fst kv), snd kv)) ps.

Definition wf (ps : list (node * node)) : Prop :=
  Forall (fun kv => is_scalar_node (fst kv) = true) ps /\ NoDup (map fst (abs ps)).

Lemma key_is_text a k : is_scalar_node k = true -> key_is a k = ueqb (key_text k) a.
Proof. destruct k; simpl; intros H; try discriminate; reflexivity. Qed.

Lemma wf_cons k v ps : wf ((k, v) :: ps) ->
  is_scalar_node k = true /\ ~ In (key_text k) (map fst (abs ps)) /\ wf ps.
Proof.
  intros [H1 H2]. inversion H1; subst. simpl in H2. inversion H2; subst.
  repeat split; auto.
Qed.

Lemma wf_intro k v ps : is_scalar_node k = true -> ~ In (key_text k) (map fst (abs ps)) -> wf ps ->
  wf ((k, v) :: ps).
Proof. intros H1 H2 [H3 H4]. split; [constructor; auto | simpl; constructor; auto]. Qed.

Lemma has_refines a ps : wf ps -> has_attr_ps a ps = al_has a (abs ps).
Proof.
  induction ps as [|[k v] ps IH]; intros H; [reflexivity|].
  apply wf_cons in H. destruct H as (Hk & _ & Hw).
  unfold has_attr_ps, al_has in *. simpl. rewrite (key_is_text a k Hk). f_equal. apply IH; exact Hw.
Qed.

Lemma al_has_in a l : al_has a l = true <-> In a (map fst l).
Proof.
  unfold al_has. rewrite existsb_exists. split.
  - intros [[k v] [Hin E]]. simpl in E. apply ueqb_eq in E. subst. apply in_map_iff. exists (a, v). auto.
  - intros H. apply in_map_iff in H. destruct H as [[k v] [E Hin]]. simpl in E. subst.
    exists (a, v). split; [exact Hin | apply ueqb_refl].
Qed.

Lemma lookup_all_none a ps : wf ps -> ~ In a (map fst (abs ps)) -> lookup_all a ps = [].
Proof.
  induction ps as [|[k v] ps IH]; intros H Hn; [reflexivity|].
  apply wf_cons in H. destruct H as (Hk & _ & Hw).
  unfold lookup_all in *. simpl. rewrite (key_is_text a k Hk).
  simpl in Hn. destruct (ueqb_spec (key_text k) a) as [E|E].
  - exfalso. apply Hn. left. exact E.
  - apply IH; [exact Hw | intros Hi; apply Hn; right; exact Hi].
Qed.

Lemma get_refines a ps : wf ps ->
  get_attr_ps a ps = match al_get a (abs ps) with Some v => Ok v | None => Err ESeasoning end.
Proof.
  induction ps as [|[k v] ps IH]; intros H; [reflexivity|].
  pose proof (wf_cons _ _ _ H) as (Hk & Hnin & Hw).
  unfold get_attr_ps, lookup_all in *. simpl. rewrite (key_is_text a k Hk).
  destruct (ueqb_spec (key_text k) a) as [E|E]; simpl.
  - subst a. fold (lookup_all (key_text k) ps). rewrite (lookup_all_none _ _ Hw Hnin). reflexivity.
  - apply IH; exact Hw.
Qed.

Lemma replace_first_refines a v ps : wf ps ->
  match replace_first a v ps with
  | Some ps' => al_has a (abs ps) = true /\ abs ps' = al_replace a v (abs ps) /\ map fst (abs ps') = map fst (abs ps)
                /\ Forall (fun kv => is_scalar_node (fst kv) = true) ps'
  | None => al_has a (abs ps) = false
  end.
Proof.
  induction ps as [|[k v0] ps IH]; intros H; [reflexivity|].
  pose proof (wf_cons _ _ _ H) as (Hk & Hnin & Hw). destruct H as [Hall _].
  simpl. rewrite (key_is_text a k Hk). unfold al_has. simpl.
  destruct (ueqb_spec (key_text k) a) as [E|E]; simpl.
  - split; [reflexivity|]. split; [reflexivity|]. split; [reflexivity|].
    inversion Hall; subst. constructor; auto.
  - specialize (IH Hw). destruct (replace_first a v ps) as [ps'|].
    + destruct IH as (I1 & I2 & I3 & I4). simpl.
      split; [exact I1|]. split; [rewrite I2; reflexivity|]. split; [rewrite I3; reflexivity|].
      inversion Hall; subst. constructor; auto.
    + exact IH.
Qed.

Lemma abs_app ps qs : abs (ps ++ qs) = abs ps ++ abs qs.
Proof. unfold abs. apply map_app. Qed.

Lemma set_refines a v ps : wf ps ->
  abs (set_attr_ps a v ps) = al_set a v (abs ps) /\ wf (set_attr_ps a v ps).
Proof.
  intros H. pose proof (replace_first_refines a v ps H) as R.
  unfold set_attr_ps, al_set. destruct (replace_first a v ps) as [ps'|].
  - destruct R as (R1 & R2 & R3 & R4). rewrite R1. split; [exact R2|].
    split; [exact R4 | rewrite R3; apply H].
  - rewrite R. rewrite abs_app. simpl. split; [reflexivity|].
    destruct H as [H1 H2]. split.
    + apply Forall_app. split; [exact H1 | constructor; [reflexivity | constructor]].
    + rewrite abs_app, map_app. simpl.
      assert (Hn : ~ In a (map fst (abs ps))).
      { intros Hi. apply al_has_in in Hi. congruence. }
      clear -H2 Hn. induction (map fst (abs ps)) as [|x l IH]; simpl.
      * constructor; [intros [] | constructor].
      * inversion H2; subst. constructor.
        -- intros Hi. apply in_app_or in Hi. destruct Hi as [Hi|[Hi|[]]]; [auto | subst; apply Hn; left; reflexivity].
        -- apply IH; [assumption | intros Hi; apply Hn; right; exact Hi].
Qed.

Lemma remove_refines a ps : wf ps ->
  abs (remove_first a ps) = al_remove a (abs ps) /\ wf (remove_first a ps).
Proof.
  induction ps as [|[k v] ps IH]; intros H; [split; [reflexivity | exact H]|].
  pose proof (wf_cons _ _ _ H) as (Hk & Hnin & Hw).
  simpl. rewrite (key_is_text a k Hk).
  destruct (ueqb_spec (key_text k) a) as [E|E].
  - split; [reflexivity | exact Hw].
  - destruct (IH Hw) as [I1 I2]. simpl. rewrite I1. split; [reflexivity|].
    apply wf_intro; auto.
    intros Hi. apply Hnin. clear -Hi I1.
    rewrite I1 in Hi. revert Hi. generalize (abs ps). induction a0 as [|[k' v'] l IHl]; simpl; [tauto|].
    destruct (ueqb k' a); simpl; intros Hi; [right; exact Hi | destruct Hi; auto].
Qed.

Lemma rename_refines a b ps : wf ps -> (al_has b (abs ps) = false \/ b = a) ->
  abs (rename_first a b ps) = al_rename a b (abs ps) /\ wf (rename_first a b ps).
Proof.
  induction ps as [|[k v] ps IH]; intros H Hb; [split; [reflexivity | exact H]|].
  pose proof (wf_cons _ _ _ H) as (Hk & Hnin & Hw).
  simpl. rewrite (key_is_text a k Hk).
  destruct (ueqb_spec (key_text k) a) as [E|E].
  - destruct k; try discriminate. simpl in *. subst v0. split; [reflexivity|].
    apply wf_intro; auto. simpl.
    destruct Hb as [Hb|Hb].
    + intros Hi. apply al_has_in in Hi. unfold al_has in Hb. simpl in Hb.
      apply orb_false_iff in Hb. destruct Hb as [_ Hb]. unfold al_has in Hi. congruence.
    + subst b. exact Hnin.
  - assert (Hb' : al_has b (abs ps) = false \/ b = a).
    { destruct Hb as [Hb|Hb]; [left | right; exact Hb].
      unfold al_has in *. simpl in Hb. apply orb_false_iff in Hb. apply Hb. }
    destruct (IH Hw Hb') as [I1 I2]. simpl. rewrite I1. split; [reflexivity|].
    apply wf_intro; auto.
    intros Hi. rewrite I1 in Hi.
    assert (G : forall l, In (key_text k) (map fst (al_rename a b l)) ->
                          In (key_text k) (map fst l) \/ key_text k = b).
    { induction l as [|[k' v'] l IHl]; simpl; [tauto|].
      destruct (ueqb_spec k' a); simpl; intros [Hx|Hx]; auto.
      destruct (IHl Hx); auto. }
    destruct (G _ Hi) as [Hx|Hx]; [apply Hnin; exact Hx|].
    destruct Hb as [Hb|Hb].
    + unfold al_has in Hb. simpl in Hb. apply orb_false_iff in Hb. destruct Hb as [Hb _].
      rewrite Hx in Hb. rewrite ueqb_refl in Hb. discriminate.
    + subst b. apply E. exact Hx.
Qed.

(* ---- lifted to operation sequences ---- *)
Definition spec_has_type (a : ustring) (t : styp) (l : alist) : oret :=
  match al_get a l with
  | None => RBool false
  | Some v =>
      match t with
      | TyK k => match tag_of_kind k with Some tg => RBool (ueqb (ntag v) tg) | None => RExn (EPy PyValueError) end
      | TyList => RBool (is_sequence v)
      | TyDict => RBool (is_mapping v)
      | _ => RExn (EPy PyValueError)
      end
  end.

(* None: the operation is not one of the six accessors, or a rename would create a duplicate key
   (the ordered-dictionary reading stops being meaningful) *)
Definition spec_step (l : alist) (op : nop) : option (alist * oret) :=
  match op with
  | OpHas a => Some (l, RBool (al_has a l))
  | OpGet a => Some (l, match al_get a l with Some v => RNode v | None => RExn ESeasoning end)
  | OpSet a x => Some (al_set a (node_of_arg x) l, RNone)
  | OpRemove a => Some (al_remove a l, RNone)
  | OpRename a b => if negb (al_has b l) || ueqb b a then Some (al_rename a b l, RNone) else None
  | OpHasType a t => Some (l, spec_has_type a t l)
  | _ => None
  end.
Fixpoint spec_run (l : alist) (ops : list nop) : option (alist * list oret) :=
  match ops with
  | [] => Some (l, [])
  | op :: r => match spec_step l op with
               | None => None
               | Some (l1, x) => match spec_run l1 r with
                                 | None => None
                                 | Some (l2, xs) => Some (l2, x :: xs) end
               end
  end.

Lemma al_get_has a l : al_has a l = match al_get a l with Some _ => true | None => false end.
Proof.
  unfold al_has. induction l as [|[k v] l IH]; simpl; [reflexivity|].
  destruct (ueqb k a); simpl; auto.
Qed.

Lemma step_refines o t ps m op l' x : wf ps -> spec_step (abs ps) op = Some (l', x) ->
  exists ps', step o (Map t ps m) op = (Map t ps' m, x) /\ abs ps' = l' /\ wf ps'.
Proof.
  intros H. destruct op; simpl; intros E; try discriminate.
  - injection E as <- <-. exists ps. unfold has_attribute. simpl. rewrite (has_refines _ _ H). auto.
  - injection E as <- <-. exists ps. unfold get_attribute. simpl. rewrite (get_refines _ _ H).
    destruct (al_get a (abs ps)); auto.
  - injection E as <- <-. destruct (set_refines a (node_of_arg x0) ps H) as [S1 S2].
    exists (set_attr_ps a (node_of_arg x0) ps). auto.
  - injection E as <- <-. destruct (remove_refines a ps H) as [S1 S2].
    exists (remove_first a ps). auto.
  - destruct (negb (al_has b (abs ps)) || ueqb b a) eqn:C; try discriminate.
    injection E as <- <-.
    assert (Hb : al_has b (abs ps) = false \/ b = a).
    { apply orb_true_iff in C. destruct C as [C|C]; [left; apply negb_true_iff; exact C | right; apply ueqb_eq; exact C]. }
    destruct (rename_refines a b ps H Hb) as [S1 S2].
    exists (rename_first a b ps). auto.
  - injection E as <- <-. exists ps. split; [|auto].
    unfold has_attribute_type, spec_has_type. simpl.
    rewrite (has_refines _ _ H), al_get_has, (get_refines _ _ H).
    destruct (al_get a (abs ps)) as [v|]; simpl; [|reflexivity].
    destruct t0; try reflexivity. destruct (tag_of_kind k); reflexivity.
Qed.

Theorem accessors_refine o t m ops : forall ps l' rets, wf ps ->
  spec_run (abs ps) ops = Some (l', rets) ->
  exists ps', run o (Map t ps m) ops = (Map t ps' m, rets) /\ abs ps' = l' /\ wf ps'.
Proof.
  induction ops as [|op ops IH]; intros ps l' rets H E; simpl in E.
  - injection E as <- <-. exists ps. auto.
  - destruct (spec_step (abs ps) op) as [[l1 x]|] eqn:S; try discriminate.
    destruct (spec_run l1 ops) as [[l2 xs]|] eqn:R; try discriminate.
    injection E as <- <-.
    destruct (step_refines o t ps m op l1 x H S) as (ps1 & S1 & S2 & S3).
    subst l1. destruct (IH ps1 l2 xs S3 R) as (ps2 & R1 & R2 & R3).
    exists ps2. simpl. rewrite S1, R1. auto.
Qed.

(* what "behaves like an ordered dictionary" means, spelled out on the abstract side *)
Lemma al_set_existing a v l : al_has a l = true -> map fst (al_set a v l) = map fst l.
Proof.
  unfold al_set. intros ->. induction l as [|[k v0] l IH]; simpl; [reflexivity|].
  destruct (ueqb k a); simpl; [reflexivity | rewrite IH; reflexivity].
Qed.
Lemma al_set_new a v l : al_has a l = false -> al_set a v l = l ++ [(a, v)].
Proof. unfold al_set. intros ->. reflexivity. Qed.
Lemma al_get_set_same a v l : NoDup (map fst l) -> al_get a (al_set a v l) = Some v.
Proof.
  unfold al_set. intros _. destruct (al_has a l) eqn:E.
  - induction l as [|[k v0] l IH]; simpl in *; [discriminate|].
    unfold al_has in E. simpl in E. destruct (ueqb k a) eqn:K; simpl; [rewrite K; reflexivity|].
    rewrite K. apply IH. exact E.
  - induction l as [|[k v0] l IH]; simpl in *; [rewrite ueqb_refl; reflexivity|].
    unfold al_has in E. simpl in E. apply orb_false_iff in E. destruct E as [E1 E2].
    rewrite E1. apply IH. exact E2.
Qed.
Lemma al_remove_absent a l : al_has a l = false -> al_remove a l = l.
Proof.
  unfold al_has. induction l as [|[k v] l IH]; simpl; [reflexivity|].
  intros E. apply orb_false_iff in E. destruct E as [E1 E2]. rewrite E1, (IH E2). reflexivity.
Qed.
Lemma al_rename_absent a b l : al_has a l = false -> al_rename a b l = l.
Proof.
  unfold al_has. induction l as [|[k v] l IH]; simpl; [reflexivity|].
  intros E. apply orb_false_iff in E. destruct E as [E1 E2]. rewrite E1, (IH E2). reflexivity.
Qed.
