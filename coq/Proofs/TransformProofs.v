(* C15: the structural transforms of yatiml.Node -- no-op lemmas, error
   characterisation, inverse laws, key rewriting. *)
From Coq Require Import NArith ZArith List Bool String Lia.
Import ListNotations.
From Y Require Import Prelude Node Tables NodeOps OpsRun AccessorProofs.
Open Scope N_scope.

(* ------------------------------------------------------------------ no-ops *)
Section noop.
  Variables (a k : ustring) (va : option ustring) (t : ustring) (ps : list (node * node)) (m : mark).
  Let n := Map t ps m.

  Lemma s2m_missing strict : has_attr_ps a ps = false -> seq_attribute_to_map a k va strict n = Ok n.
  Proof. intros H. unfold seq_attribute_to_map, n. simpl. rewrite H. reflexivity. Qed.
  Lemma m2s_missing : has_attr_ps a ps = false -> map_attribute_to_seq a k va n = Ok n.
  Proof. intros H. unfold map_attribute_to_seq, n. simpl. rewrite H. reflexivity. Qed.
  Lemma i2m_missing : has_attr_ps a ps = false -> index_attribute_to_map a k va n = Ok n.
  Proof. intros H. unfold index_attribute_to_map, n. simpl. rewrite H. reflexivity. Qed.
  Lemma m2i_missing : has_attr_ps a ps = false -> map_attribute_to_index a k va n = Ok n.
  Proof. intros H. unfold map_attribute_to_index, n. simpl. rewrite H. reflexivity. Qed.

  Lemma s2m_wrong_kind strict v : get_attr_ps a ps = Ok v -> is_sequence v = false ->
    seq_attribute_to_map a k va strict n = Ok n.
  Proof.
    intros H Hk. unfold seq_attribute_to_map, n. simpl. destruct (has_attr_ps a ps); [|reflexivity].
    simpl. rewrite H. simpl. destruct v; try reflexivity. discriminate.
  Qed.
  Lemma m2s_wrong_kind v : get_attr_ps a ps = Ok v -> is_mapping v = false -> map_attribute_to_seq a k va n = Ok n.
  Proof.
    intros H Hk. unfold map_attribute_to_seq, n. simpl. destruct (has_attr_ps a ps); [|reflexivity].
    simpl. rewrite H. simpl. destruct v; try reflexivity. discriminate.
  Qed.
  Lemma i2m_wrong_kind v : get_attr_ps a ps = Ok v -> is_mapping v = false -> index_attribute_to_map a k va n = Ok n.
  Proof.
    intros H Hk. unfold index_attribute_to_map, n. simpl. destruct (has_attr_ps a ps); [|reflexivity].
    simpl. rewrite H. simpl. destruct v; try reflexivity. discriminate.
  Qed.
  Lemma m2i_wrong_kind v : get_attr_ps a ps = Ok v -> is_mapping v = false -> map_attribute_to_index a k va n = Ok n.
  Proof.
    intros H Hk. unfold map_attribute_to_index, n. simpl. destruct (has_attr_ps a ps); [|reflexivity].
    simpl. rewrite H. simpl. destruct v; try reflexivity. discriminate.
  Qed.

  (* an item that is not a mapping, or has no key attribute: nothing happens *)
  Lemma s2m_validate_bad_item strict : forall items seen,
    Exists (fun it => match it with Map _ ips _ => has_attr_ps k ips = false | _ => True end) items ->
    s2m_validate k strict seen items <> S2M_ok (rev seen) /\
    forall ks, s2m_validate k strict seen items <> S2M_ok ks.
  Proof.
    induction items as [|it items IH]; intros seen H; [inversion H|].
    split; [|].
    2:{ intros ks. inversion H as [? ? Hit|? ? Hrest]; subst.
        - destruct it as [| |tt ips mm]; simpl; try discriminate. rewrite Hit. simpl. discriminate.
        - destruct it as [| |tt ips mm]; simpl; try discriminate.
          destruct (has_attr_ps k ips); simpl; [|discriminate].
          destruct (get_attr_ps k ips) as [[tg v mk| |]|]; try discriminate.
          destruct (ueqb tg tag_str); [|discriminate].
          destruct (umem v seen); [destruct strict; discriminate|].
          apply (IH (v :: seen) Hrest). }
    inversion H as [? ? Hit|? ? Hrest]; subst.
    - destruct it as [| |tt ips mm]; simpl; try discriminate. rewrite Hit. simpl. discriminate.
    - destruct it as [| |tt ips mm]; simpl; try discriminate.
      destruct (has_attr_ps k ips); simpl; [|discriminate].
      destruct (get_attr_ps k ips) as [[tg v mk| |]|]; try discriminate.
      destruct (ueqb tg tag_str); [|discriminate].
      destruct (umem v seen); [destruct strict; discriminate|].
      apply (IH (v :: seen) Hrest).
  Qed.

  Lemma m2s_bad_value items tt mm : get_attr_ps a ps = Ok (Map tt items mm) -> va = None ->
    forallb (fun kv => is_mapping (snd kv)) items = false -> map_attribute_to_seq a k va n = Ok n.
  Proof.
    intros H -> Hf. unfold map_attribute_to_seq, n. simpl. destruct (has_attr_ps a ps); [|reflexivity].
    simpl. rewrite H. simpl. destruct (all_scalar_keys items); simpl; [|reflexivity]. rewrite Hf. reflexivity.
  Qed.
  Lemma i2m_bad_value items tt mm : get_attr_ps a ps = Ok (Map tt items mm) ->
    forallb (fun kv => is_mapping (snd kv)) items = false -> index_attribute_to_map a k va n = Ok n.
  Proof.
    intros H Hf. unfold index_attribute_to_map, n. simpl. destruct (has_attr_ps a ps); [|reflexivity].
    simpl. rewrite H. simpl. rewrite Hf. reflexivity.
  Qed.
  Lemma m2i_bad_value items tt mm : get_attr_ps a ps = Ok (Map tt items mm) -> va = None ->
    forallb (fun kv => is_mapping (snd kv)) items = false -> map_attribute_to_index a k va n = Ok n.
  Proof.
    intros H -> Hf. unfold map_attribute_to_index, n. simpl. destruct (has_attr_ps a ps); [|reflexivity].
    simpl. rewrite H. simpl. rewrite Hf. reflexivity.
  Qed.

  (* the three mapping transforms never fail on a mapping whose attribute occurs at most once *)
  Lemma mapping_transforms_total v : (has_attr_ps a ps = false \/ get_attr_ps a ps = Ok v) ->
    (exists r, map_attribute_to_seq a k va n = Ok r) /\
    (exists r, index_attribute_to_map a k va n = Ok r) /\
    (exists r, map_attribute_to_index a k va n = Ok r).
  Proof.
    intros [H|H].
    - rewrite m2s_missing, i2m_missing, m2i_missing by exact H. repeat split; eexists; reflexivity.
    - unfold map_attribute_to_seq, index_attribute_to_map, map_attribute_to_index, n. simpl.
      destruct (has_attr_ps a ps); simpl; [|repeat split; eexists; reflexivity]. rewrite H. simpl.
      destruct v as [| |tt items mm]; try (repeat split; eexists; reflexivity).
      destruct (all_scalar_keys items), (forallb (fun kv => is_mapping (snd kv)) items), va;
        simpl; repeat split; eexists; reflexivity.
  Qed.
End noop.

(* SeasoningError is the only error of seq_attribute_to_map on a mapping, and with unique attribute names
   and string keys it arises only for duplicate keys in strict mode *)
Definition good_item (k : ustring) (it : node) (key : ustring) : Prop :=
  exists t ps m mk, it = Map t ps m /\ get_attr_ps k ps = Ok (Scalar tag_str key mk).

Lemma good_item_has k it key : good_item k it key ->
  exists t ps m mk, it = Map t ps m /\ has_attr_ps k ps = true /\ get_attr_ps k ps = Ok (Scalar tag_str key mk).
Proof.
  intros (t & ps & m & mk & -> & H). exists t, ps, m, mk. split; [reflexivity|]. split; [|exact H].
  unfold get_attr_ps, lookup_all in H. unfold has_attr_ps.
  destruct (filter (fun kv => key_is k (fst kv)) ps) as [|x l] eqn:F; [discriminate|].
  assert (Hin : In x (filter (fun kv => key_is k (fst kv)) ps)) by (rewrite F; left; reflexivity).
  apply filter_In in Hin. apply existsb_exists. exists x. exact Hin.
Qed.

Lemma s2m_validate_good k strict : forall items keys seen,
  Forall2 (good_item k) items keys ->
  s2m_validate k strict seen items =
    (if keys_unique seen keys then S2M_ok (rev seen ++ keys)
     else if strict then S2M_err else S2M_noop).
Proof.
  induction items as [|it items IH]; intros keys seen H; inversion H as [|? key ? keys' Hg Hr]; subst.
  - simpl. rewrite app_nil_r. reflexivity.
  - apply good_item_has in Hg. destruct Hg as (t & ps & m & mk & -> & Hh & Hgk).
    cbn [s2m_validate keys_unique]. rewrite Hh, Hgk. simpl negb. cbn iota.
    rewrite ueqb_refl. destruct (umem key seen); simpl.
    + reflexivity.
    + rewrite (IH keys' (key :: seen) Hr). simpl. rewrite <- app_assoc. reflexivity.
Qed.

(* ------------------------------------------------------------------ inverse law 1 *)
(* marks are irrelevant to "the data": erase them *)
Fixpoint erase (n : node) : node :=
  match n with
  | Scalar t v _ => Scalar t v nomark
  | Seq t l _ => Seq t (map erase l) nomark
  | Map t l _ => Map t (map (fun kv => (erase (fst kv), erase (snd kv))) l) nomark
  end.
Definition erase_ps (ps : list (node * node)) := map (fun kv => (erase (fst kv), erase (snd kv))) ps.

(* the item "up to the position of the key attribute": key attribute moved to the end *)
Definition key_last (k key : ustring) (ps : list (node * node)) : list (node * node) :=
  remove_first k ps ++ [(Scalar tag_str k nomark, Scalar tag_str key nomark)].

(* a plain item: tagged map, every key a str scalar, the key attribute exactly once, holding a str scalar *)
Definition plain_item (k : ustring) (va : option ustring) (it : node) (key : ustring) : Prop :=
  exists ps m mk, it = Map tag_map ps m /\
    get_attr_ps k ps = Ok (Scalar tag_str key mk) /\
    Forall (fun kv => exists kt km, fst kv = Scalar tag_str kt km) ps /\
    has_attr_ps k (remove_first k ps) = false /\
    (* the proviso: a named value attribute does not itself hold a mapping *)
    match va with Some v => forall x, get_attr_ps v ps = Ok x -> is_mapping x = false | None => True end.

Lemma set_attr_absent a v ps : has_attr_ps a ps = false -> set_attr_ps a v ps = ps ++ [(Scalar tag_str a genmark, v)].
Proof.
  intros H. unfold set_attr_ps.
  assert (R : replace_first a v ps = None).
  { induction ps as [|[k0 v0] ps IH]; [reflexivity|]. unfold has_attr_ps in H. simpl in H.
    apply orb_false_iff in H. destruct H as [H1 H2]. simpl. rewrite H1. rewrite (IH H2). reflexivity. }
  rewrite R. reflexivity.
Qed.

Lemma erase_ps_app a b : erase_ps (a ++ b) = erase_ps a ++ erase_ps b.
Proof. unfold erase_ps. apply map_app. Qed.

Lemma item_roundtrip k va it key : plain_item k va it key ->
  exists ps m, it = Map tag_map ps m /\
  erase (m2s_item k va (s2m_entry k va it)) = Map tag_map (erase_ps (key_last k key ps)) nomark.
Proof.
  intros (ps & m & mk & -> & Hg & Hk & Hu & Hp). exists ps, m. split; [reflexivity|].
  unfold s2m_entry. rewrite Hg.
  set (rest := remove_first k ps) in *.
  assert (Long : erase (m2s_item k va (Scalar tag_str key mk, Map tag_map rest m))
                 = Map tag_map (erase_ps (key_last k key ps)) nomark).
  { unfold m2s_item. cbn [replace_attr]. rewrite (set_attr_absent _ _ _ Hu). unfold key_last. fold rest.
    cbn [erase]. fold (erase_ps (rest ++ [(Scalar tag_str k genmark, Scalar tag_str key genmark)])).
    rewrite !erase_ps_app. reflexivity. }
  destruct va as [v|]; [|exact Long].
  destruct rest as [|[k1 v1] [|p rest']] eqn:Er; try exact Long.
  destruct (key_is v k1) eqn:Kv; [|exact Long].
  (* short form: the single remaining pair is the value attribute *)
  assert (Hin : In (k1, v1) ps).
  { assert (Hr : In (k1, v1) (remove_first k ps)) by (fold rest; rewrite Er; left; reflexivity).
    clear -Hr. induction ps as [|[a b] ps IH]; simpl in *; [tauto|].
    destruct (key_is k a); [right; exact Hr | destruct Hr as [E|Hr]; [left; exact E | right; auto]]. }
  rewrite Forall_forall in Hk. destruct (Hk _ Hin) as (kt & km & Ek). simpl in Ek. subst k1.
  simpl in Kv. apply ueqb_eq in Kv. subst kt.
  assert (Hv : get_attr_ps v ps = Ok v1 \/ True) by (right; exact I).
  (* v1 is not a mapping, by the proviso: v occurs in ps exactly as in rest (k <> v or k = v impossible) *)
  assert (Hnm : is_mapping v1 = false).
  { apply Hp.
    (* lookup of v in ps: ps = rest with the k pair inserted; the k pair is not a v pair unless k = v,
       in which case rest would have no v pair -- contradiction with Er *)
    assert (G : forall qs, has_attr_ps k (remove_first k qs) = false -> remove_first k qs = [(Scalar tag_str v km, v1)] ->
                          (exists x, get_attr_ps k qs = Ok x) -> get_attr_ps v qs = Ok v1).
    { clear. intros qs Hu Er [x Hx].
      destruct (ueqb_spec k v) as [->|Nkv].
      - (* k = v: then rest contains a v(=k) pair, contradicting Hu *)
        rewrite Er in Hu. unfold has_attr_ps in Hu. simpl in Hu. rewrite ueqb_refl in Hu. discriminate.
      - induction qs as [|[a b] qs IH]; [discriminate|].
        simpl in Er. unfold get_attr_ps, lookup_all in *. simpl.
        destruct (key_is k a) eqn:Ka.
        + (* first pair is the key pair, rest = qs *)
          subst qs. destruct a as [ta tv tm| |]; try discriminate. simpl in Ka. apply ueqb_eq in Ka. subst tv.
          simpl. destruct (ueqb_spec k v); [contradiction|]. simpl. rewrite ueqb_refl. reflexivity.
        + injection Er as Ea Eb Eq. subst a b.
          simpl. rewrite ueqb_refl. simpl.
          (* qs after removing k is []: so qs is [] or [(k-pair)] *)
          destruct qs as [|[a2 b2] qs2]; [reflexivity|].
          simpl in Eq. destruct (key_is k a2) eqn:Ka2; [|discriminate]. subst qs2. simpl.
          destruct a2 as [ta tv tm| |]; try discriminate. simpl in Ka2. apply ueqb_eq in Ka2. subst tv.
          simpl. destruct (ueqb_spec k v); [contradiction|]. reflexivity. }
    apply G; [change (remove_first k ps) with rest; rewrite Er; exact Hu | exact Er | eauto]. }
  unfold m2s_item. destruct v1 as [tv vv mv|tv lv mv|tv lv mv]; try discriminate.
  - cbn [replace_attr nmark]. rewrite set_attr_absent.
    2:{ unfold has_attr_ps. simpl. rewrite orb_false_r.
        destruct (ueqb_spec v k) as [->|]; [|reflexivity].
        unfold has_attr_ps in Hu. simpl in Hu. rewrite ueqb_refl in Hu. discriminate. }
    unfold key_last. fold rest. rewrite Er. reflexivity.
  - cbn [replace_attr nmark]. rewrite set_attr_absent.
    2:{ unfold has_attr_ps. simpl. rewrite orb_false_r.
        destruct (ueqb_spec v k) as [->|]; [|reflexivity].
        unfold has_attr_ps in Hu. simpl in Hu. rewrite ueqb_refl in Hu. discriminate. }
    unfold key_last. fold rest. rewrite Er. reflexivity.
Qed.

Lemma set_attr_twice a x y ps : set_attr_ps a x (set_attr_ps a y ps) = set_attr_ps a x ps.
Proof.
  unfold set_attr_ps.
  destruct (replace_first a y ps) as [ps'|] eqn:R.
  - assert (G : forall ps ps', replace_first a y ps = Some ps' ->
                exists q, replace_first a x ps' = Some q /\ replace_first a x ps = Some q).
    { clear. induction ps as [|[k v] ps IH]; intros ps' H; [discriminate|].
      simpl in H. destruct (key_is a k) eqn:K.
      - injection H as <-. simpl. rewrite K. eauto.
      - destruct (replace_first a y ps) as [q|] eqn:Q; [|discriminate]. injection H as <-.
        simpl. rewrite K. destruct (IH q eq_refl) as (q' & I1 & I2). rewrite I1, I2. eauto. }
    destruct (G _ _ R) as (q & G1 & G2). rewrite G1, G2. reflexivity.
  - assert (G : forall ps, replace_first a y ps = None ->
                           replace_first a x (ps ++ [(Scalar tag_str a genmark, y)]) = Some (ps ++ [(Scalar tag_str a genmark, x)])
                           /\ replace_first a x ps = None).
    { clear. induction ps as [|[k v] ps IH]; intros H.
      - simpl. rewrite ueqb_refl. auto.
      - simpl in H. destruct (key_is a k) eqn:K; [discriminate|].
        destruct (replace_first a y ps) eqn:Q; [discriminate|]. destruct (IH eq_refl) as [I1 I2].
        simpl. rewrite K, I1, I2. auto. }
    destruct (G _ R) as [G1 G2]. rewrite G1, G2. reflexivity.
Qed.

Lemma get_after_set a v ps x : get_attr_ps a ps = Ok x -> get_attr_ps a (set_attr_ps a v ps) = Ok v
  /\ has_attr_ps a (set_attr_ps a v ps) = true.
Proof.
  intros H. unfold get_attr_ps, lookup_all in H.
  assert (G : forall ps, (exists x, map snd (filter (fun kv => key_is a (fst kv)) ps) = [x]) ->
                         exists ps', replace_first a v ps = Some ps' /\
                                     map snd (filter (fun kv => key_is a (fst kv)) ps') = [v]
                                     /\ has_attr_ps a ps' = true).
  { clear. induction ps as [|[k v0] ps IH]; intros [x Hx]; [discriminate|].
    simpl in *. destruct (key_is a k) eqn:K.
    - eexists. split; [reflexivity|]. simpl. rewrite K. simpl. simpl in Hx. injection Hx as _ Hx.
      rewrite Hx. split; reflexivity.
    - destruct (IH (ex_intro _ x Hx)) as (ps' & R & F & Hh). rewrite R. eexists. split; [reflexivity|].
      split; [cbn [filter fst]; rewrite K; exact F|]. unfold has_attr_ps in *. cbn [existsb fst]. rewrite K. exact Hh. }
  destruct (map snd (filter (fun kv => key_is a (fst kv)) ps)) as [|y [|z l]] eqn:F; try discriminate.
  destruct (G ps (ex_intro _ y F)) as (ps' & R & F' & Hh).
  unfold set_attr_ps. rewrite R. unfold get_attr_ps, lookup_all. rewrite F'. auto.
Qed.

Lemma has_of_get a ps x : get_attr_ps a ps = Ok x -> has_attr_ps a ps = true.
Proof.
  unfold get_attr_ps, lookup_all, has_attr_ps.
  destruct (filter (fun kv => key_is a (fst kv)) ps) as [|y l] eqn:F; [discriminate|]. intros _.
  assert (Hin : In y (filter (fun kv => key_is a (fst kv)) ps)) by (rewrite F; left; reflexivity).
  apply filter_In in Hin. apply existsb_exists. exists y. exact Hin.
Qed.

Theorem inverse_seq_map a k va strict t ps m ts items ms keys :
  get_attr_ps a ps = Ok (Seq ts items ms) ->
  Forall2 (plain_item k va) items keys -> keys_unique [] keys = true ->
  exists n1 n2 items',
    seq_attribute_to_map a k va strict (Map t ps m) = Ok n1 /\
    map_attribute_to_seq a k va n1 = Ok n2 /\
    n2 = Map t (set_attr_ps a (Seq tag_seq items' ms) ps) m /\
    Forall2 (fun it' itk => exists ips im, fst itk = Map tag_map ips im /\
                             erase it' = Map tag_map (erase_ps (key_last k (snd itk) ips)) nomark)
            items' (combine items keys).
Proof.
  intros Hg Hitems Huniq.
  assert (Hgood : Forall2 (good_item k) items keys).
  { clear -Hitems. induction Hitems as [|it key items keys H _ IH]; constructor; [|exact IH].
    destruct H as (ips & im & mk & -> & G & _). exists tag_map, ips, im, mk. auto. }
  pose proof (has_of_get _ _ _ Hg) as Hh.
  unfold seq_attribute_to_map. cbn [pairs_of bind]. rewrite Hh. cbn [negb]. rewrite Hg. cbn [bind].
  rewrite (s2m_validate_good k strict items keys [] Hgood), Huniq.
  eexists. eexists. exists (map (fun it => m2s_item k va (s2m_entry k va it)) items).
  split; [reflexivity|].
  unfold map_attribute_to_seq, replace_attr. cbn [pairs_of bind].
  destruct (get_after_set a (Map tag_map (map (s2m_entry k va) items) ms) ps _ Hg) as [G1 G2].
  rewrite G2. cbn [negb]. rewrite G1. cbn [bind].
  (* all outer keys of the new mapping are scalars: they are the key attribute nodes *)
  assert (Hsk : all_scalar_keys (map (s2m_entry k va) items) = true).
  { clear -Hitems. unfold all_scalar_keys. rewrite forallb_forall. intros kv Hin.
    apply in_map_iff in Hin. destruct Hin as (it & <- & Hin).
    assert (exists key, plain_item k va it key).
    { clear -Hitems Hin. induction Hitems as [|i0 k0 is ks H _ IH]; [inversion Hin|].
      destruct Hin as [<-|Hin]; eauto. }
    destruct H as (key & ips & im & mk & -> & G & _). unfold s2m_entry. rewrite G.
    destruct va as [v|]; [|reflexivity].
    destruct (remove_first k ips) as [|[k1 v1] [|]]; try reflexivity. destruct (key_is v k1); reflexivity. }
  rewrite Hsk. cbn [negb].
  assert (Hva : match va with None => negb (forallb (fun kv => is_mapping (snd kv)) (map (s2m_entry k va) items)) | Some _ => false end = false).
  { destruct va as [v|]; [reflexivity|]. apply negb_false_iff. rewrite forallb_forall. intros kv Hin.
    apply in_map_iff in Hin. destruct Hin as (it & <- & Hin).
    assert (exists key, plain_item k None it key).
    { clear -Hitems Hin. induction Hitems as [|i0 k0 is ks H _ IH]; [inversion Hin|].
      destruct Hin as [<-|Hin]; eauto. }
    destruct H as (key & ips & im & mk & -> & G & _). unfold s2m_entry. rewrite G. reflexivity. }
  rewrite Hva. split; [reflexivity|]. rewrite map_map.
  split; [rewrite set_attr_twice; reflexivity|].
  clear -Hitems. induction Hitems as [|it key items keys H _ IH]; simpl; constructor; [|exact IH].
  destruct (item_roundtrip k va it key H) as (ips & im & -> & E). exists ips, im. simpl. auto.
Qed.

(* ------------------------------------------------------------------ inverse law 2 *)
(* an index entry: outer key node ek (a str scalar), inner mapping whose key attribute equals the outer key *)
Definition index_entry (k : ustring) (va : option ustring) (kv : node * node) : Prop :=
  exists key mk ips im mk2, kv = (Scalar tag_str key mk, Map tag_map ips im) /\
    get_attr_ps k ips = Ok (Scalar tag_str key mk2) /\
    Forall (fun p => exists kt km, fst p = Scalar tag_str kt km) ips /\
    match va with Some v => forall x, get_attr_ps v ips = Ok x -> is_mapping x = false | None => True end.

Definition without_key (k : ustring) (ips : list (node * node)) := filter (fun p => negb (key_is k (fst p))) ips.

Lemma has_without k ips : has_attr_ps k (without_key k ips) = false.
Proof.
  unfold has_attr_ps, without_key. induction ips as [|[a b] ips IH]; [reflexivity|].
  simpl. destruct (key_is k a) eqn:K; simpl; [exact IH | rewrite K; exact IH].
Qed.

Lemma entry_roundtrip k va kv : index_entry k va kv ->
  exists key mk ips im, kv = (Scalar tag_str key mk, Map tag_map ips im) /\
    erase (snd (m2i_entry k va (i2m_entry k va kv)))
    = Map tag_map (erase_ps (without_key k ips ++ [(Scalar tag_str k nomark, Scalar tag_str key nomark)])) nomark
    /\ fst (m2i_entry k va (i2m_entry k va kv)) = Scalar tag_str key mk.
Proof.
  intros (key & mk & ips & im & mk2 & -> & Hg & Hk & Hp). exists key, mk, ips, im. split; [reflexivity|].
  unfold i2m_entry. fold (without_key k ips). set (rest := without_key k ips).
  assert (Hr : has_attr_ps k rest = false) by apply has_without.
  assert (Long : erase (snd (m2i_entry k va (Scalar tag_str key mk, Map tag_map rest im)))
                 = Map tag_map (erase_ps (rest ++ [(Scalar tag_str k nomark, Scalar tag_str key nomark)])) nomark
                 /\ fst (m2i_entry k va (Scalar tag_str key mk, Map tag_map rest im)) = Scalar tag_str key mk).
  { unfold m2i_entry. rewrite Hr. cbn [snd fst erase nmark].
    fold (erase_ps (rest ++ [(Scalar tag_str k mk, Scalar tag_str key mk)])). rewrite !erase_ps_app. auto. }
  destruct va as [v|]; [|exact Long].
  destruct rest as [|[k1 v1] [|p rest']] eqn:Er; try exact Long.
  destruct (key_is v k1) eqn:Kv; [|exact Long].
  assert (Hin : In (k1, v1) ips).
  { assert (Hi : In (k1, v1) (without_key k ips)) by (fold rest; rewrite Er; left; reflexivity).
    apply filter_In in Hi. apply Hi. }
  rewrite Forall_forall in Hk. destruct (Hk _ Hin) as (kt & km & Ek). simpl in Ek. subst k1.
  simpl in Kv. apply ueqb_eq in Kv. subst kt.
  assert (Nkv : k <> v).
  { intros ->. assert (Hi : In (Scalar tag_str v km, v1) (without_key v ips)) by (fold rest; rewrite Er; left; reflexivity).
    apply filter_In in Hi. destruct Hi as [_ Hi]. simpl in Hi. rewrite ueqb_refl in Hi. discriminate. }
  assert (Hnm : is_mapping v1 = false).
  { apply Hp. unfold get_attr_ps, lookup_all.
    assert (F : filter (fun kv => key_is v (fst kv)) ips = filter (fun kv => key_is v (fst kv)) (without_key k ips)).
    { clear -Nkv. unfold without_key. induction ips as [|[a b] ips IH]; [reflexivity|].
      simpl. destruct (key_is v a) eqn:Kv.
      - destruct a as [ta tv tm| |]; try discriminate. simpl in Kv. apply ueqb_eq in Kv. subst tv.
        simpl. destruct (ueqb_spec v k) as [E|E]; [exfalso; apply Nkv; symmetry; exact E|].
        simpl. rewrite ueqb_refl. f_equal. apply IH.
      - destruct (key_is k a); simpl; [apply IH | rewrite Kv; apply IH]. }
    rewrite F. fold rest. rewrite Er. simpl. rewrite ueqb_refl. reflexivity. }
  unfold m2i_entry. cbn [fst snd].
  destruct v1 as [tv vv mv|tv lv mv|tv lv mv]; try discriminate.
  - cbn [nmark has_attr_ps existsb fst key_is]. destruct (ueqb_spec v k) as [E|E]; [exfalso; apply Nkv; symmetry; exact E|].
    cbn [orb]. split; reflexivity.
  - cbn [nmark has_attr_ps existsb fst key_is]. destruct (ueqb_spec v k) as [E|E]; [exfalso; apply Nkv; symmetry; exact E|].
    cbn [orb]. split; reflexivity.
Qed.

Theorem inverse_index_map a k va t ps m items ms :
  get_attr_ps a ps = Ok (Map tag_map items ms) -> Forall (index_entry k va) items ->
  exists n1 n2 items',
    index_attribute_to_map a k va (Map t ps m) = Ok n1 /\
    map_attribute_to_index a k va n1 = Ok n2 /\
    n2 = Map t (set_attr_ps a (Map tag_map items' ms) ps) m /\
    Forall2 (fun e' e => exists key mk ips im, e = (Scalar tag_str key mk, Map tag_map ips im) /\
               fst e' = fst e /\
               erase (snd e') = Map tag_map (erase_ps (without_key k ips ++ [(Scalar tag_str k nomark, Scalar tag_str key nomark)])) nomark)
            items' items.
Proof.
  intros Hg Hitems. pose proof (has_of_get _ _ _ Hg) as Hh.
  unfold index_attribute_to_map. cbn [pairs_of bind]. rewrite Hh. cbn [negb]. rewrite Hg. cbn [bind].
  assert (Hall : forallb (fun kv => is_mapping (snd kv)) items = true).
  { rewrite forallb_forall. rewrite Forall_forall in Hitems. intros kv Hin.
    destruct (Hitems kv Hin) as (key & mk & ips & im & mk2 & -> & _). reflexivity. }
  rewrite Hall. cbn [negb set_pairs replace_attr].
  eexists. eexists. exists (map (fun kv => m2i_entry k va (i2m_entry k va kv)) items).
  split; [reflexivity|].
  unfold map_attribute_to_index. cbn [pairs_of bind].
  destruct (get_after_set a (Map tag_map (map (i2m_entry k va) items) ms) ps _ Hg) as [G1 G2].
  rewrite G2. cbn [negb]. rewrite G1. cbn [bind].
  assert (Hva : match va with None => negb (forallb (fun kv => is_mapping (snd kv)) (map (i2m_entry k va) items)) | Some _ => false end = false).
  { destruct va as [v|]; [reflexivity|]. apply negb_false_iff. rewrite forallb_forall. intros kv Hin.
    apply in_map_iff in Hin. destruct Hin as (e & <- & Hin). rewrite Forall_forall in Hitems.
    destruct (Hitems e Hin) as (key & mk & ips & im & mk2 & -> & _). reflexivity. }
  rewrite Hva. cbn [set_pairs replace_attr]. rewrite map_map, set_attr_twice.
  split; [reflexivity|]. split; [reflexivity|].
  clear -Hitems. induction Hitems as [|e items H _ IH]; simpl; constructor; [|exact IH].
  destruct (entry_roundtrip k va e H) as (key & mk & ips & im & -> & E1 & E2).
  exists key, mk, ips, im. auto.
Qed.

(* ------------------------------------------------------------------ dashes / underscores *)
Lemma replace_char_inv x y s : ~ In y s -> replace_char y x (replace_char x y s) = s.
Proof.
  induction s as [|c s IH]; intros H; [reflexivity|]. simpl.
  assert (Hc : c <> y) by (intros ->; apply H; left; reflexivity).
  assert (Hs : ~ In y s) by (intros Hi; apply H; right; exact Hi).
  rewrite (IH Hs). f_equal.
  destruct (N.eqb_spec c x) as [->|E].
  - rewrite N.eqb_refl. reflexivity.
  - destruct (N.eqb_spec c y); [contradiction | reflexivity].
Qed.

Theorem rewrite_keys_inverse x y t ps m :
  Forall (fun kv => match fst kv with Scalar _ v _ => ~ In y v | _ => False end) ps ->
  exists n1, rewrite_keys x y (Map t ps m) = Ok n1 /\ rewrite_keys y x n1 = Ok (Map t ps m).
Proof.
  intros H.
  assert (Hs : all_scalar_keys ps = true).
  { unfold all_scalar_keys. rewrite forallb_forall. rewrite Forall_forall in H. intros kv Hin.
    specialize (H kv Hin). destruct (fst kv); [reflexivity | contradiction | contradiction]. }
  unfold rewrite_keys. rewrite Hs. eexists. split; [reflexivity|].
  assert (Hs2 : all_scalar_keys (map_keys (replace_char x y) ps) = true).
  { unfold all_scalar_keys, map_keys in *. rewrite forallb_forall in *. intros kv Hin.
    apply in_map_iff in Hin. destruct Hin as (kv0 & <- & Hin). specialize (Hs kv0 Hin). simpl.
    destruct (fst kv0); [reflexivity | discriminate | discriminate]. }
  cbn iota. rewrite Hs2. do 2 f_equal.
  unfold map_keys. rewrite map_map. rewrite <- (map_id ps) at 2. apply map_ext_in.
  intros [k v] Hin. rewrite Forall_forall in H. specialize (H _ Hin). simpl in *.
  destruct k; try contradiction. simpl. rewrite (replace_char_inv x y _ H). reflexivity.
Qed.
